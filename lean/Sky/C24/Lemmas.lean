/-
  Sky.C24.Lemmas — helper lemmas for the C24 invariant proofs (core Lean only).
-/
import Sky.C24.Check
set_option linter.unusedSimpArgs false
set_option linter.unusedVariables false
namespace Sky.C24
open AMap

/-! ### the `conns` list as a map keyed by address -/

theorem getConn_some {cs : List Conn} {a : String} {c : Conn} (h : getConn cs a = some c) :
    c ∈ cs ∧ c.addr = a := by
  unfold getConn at h
  have h1 := List.mem_of_find?_eq_some h
  have h2 := List.find?_some h
  exact ⟨h1, by simpa using h2⟩

theorem getConn_none {cs : List Conn} {a : String} (h : getConn cs a = none) :
    ∀ c ∈ cs, c.addr ≠ a := by
  unfold getConn at h
  intro c hc
  have := List.find?_eq_none.1 h c hc
  simpa using this

theorem mem_delConn {cs : List Conn} {a : String} {x : Conn} :
    x ∈ delConn cs a ↔ x ∈ cs ∧ x.addr ≠ a := by
  simp [delConn]

theorem mem_putConn {cs : List Conn} {c x : Conn} :
    x ∈ putConn cs c ↔ x = c ∨ (x ∈ cs ∧ x.addr ≠ c.addr) := by
  simp [putConn, mem_delConn]

theorem addr_uniq {cs : List Conn} (nd : (cs.map (·.addr)).Nodup) {x y : Conn}
    (hx : x ∈ cs) (hy : y ∈ cs) (h : x.addr = y.addr) : x = y := by
  induction cs with
  | nil => cases hx
  | cons c cs ih =>
    simp only [List.map_cons, List.nodup_cons, List.mem_map, not_exists, not_and] at nd
    simp only [List.mem_cons] at hx hy
    rcases hx with rfl | hx <;> rcases hy with rfl | hy
    · rfl
    · exact absurd h.symm (nd.1 y hy)
    · exact absurd h (nd.1 x hx)
    · exact ih nd.2 hx hy

theorem getConn_of_mem {cs : List Conn} (nd : (cs.map (·.addr)).Nodup) {c : Conn} (hc : c ∈ cs) :
    getConn cs c.addr = some c := by
  cases h : getConn cs c.addr with
  | none => exact absurd rfl (getConn_none h c hc)
  | some d =>
    have ⟨hd, he⟩ := getConn_some h
    rw [addr_uniq nd hd hc he]

theorem nodup_delConn {cs : List Conn} (nd : (cs.map (·.addr)).Nodup) (a : String) :
    ((delConn cs a).map (·.addr)).Nodup := by
  unfold delConn
  exact List.Nodup.sublist (List.Sublist.map _ List.filter_sublist) nd

theorem nodup_cons_of_absent {cs : List Conn} (nd : (cs.map (·.addr)).Nodup) {c : Conn}
    (h : ∀ x ∈ cs, x.addr ≠ c.addr) : ((c :: cs).map (·.addr)).Nodup := by
  simp only [List.map_cons, List.nodup_cons, List.mem_map, not_exists, not_and]
  exact ⟨fun x hx => h x hx, nd⟩

theorem nodup_putConn {cs : List Conn} (nd : (cs.map (·.addr)).Nodup) (c : Conn) :
    ((putConn cs c).map (·.addr)).Nodup := by
  unfold putConn
  apply nodup_cons_of_absent (nodup_delConn nd _)
  intro x hx
  exact (mem_delConn.1 hx).2

theorem countP_delConn {cs : List Conn} (nd : (cs.map (·.addr)).Nodup) {c : Conn} (hc : c ∈ cs)
    (p : Conn → Bool) :
    cs.countP p = (delConn cs c.addr).countP p + (if p c then 1 else 0) := by
  induction cs with
  | nil => cases hc
  | cons d cs ih =>
    simp only [List.map_cons, List.nodup_cons, List.mem_map, not_exists, not_and] at nd
    simp only [List.mem_cons] at hc
    rcases hc with rfl | hc
    · -- c is the head; it does not occur in the tail
      have hdel : delConn (c :: cs) c.addr = cs := by
        unfold delConn
        rw [List.filter_cons]
        simp only [ne_eq, not_true_eq_false, decide_false, Bool.false_eq_true, if_false]
        apply List.filter_eq_self.2
        intro x hx
        simpa using nd.1 x hx
      rw [hdel, List.countP_cons]
    · have hne : d.addr ≠ c.addr := fun e => nd.1 c hc e.symm
      have hdel : delConn (d :: cs) c.addr = d :: delConn cs c.addr := by
        unfold delConn
        rw [List.filter_cons]
        simp [hne]
      rw [hdel, List.countP_cons, List.countP_cons, ih nd.2 hc]
      omega

theorem delConn_of_absent {cs : List Conn} {a : String} (h : ∀ x ∈ cs, x.addr ≠ a) :
    delConn cs a = cs := by
  unfold delConn
  apply List.filter_eq_self.2
  intro x hx
  simpa using h x hx

/-! ### index-map operations -/

theorem get_incCount (m : AMap String Nat) (ip k : String) :
    (incCount m ip).get k = if k = ip then some ((m.get ip).getD 0 + 1) else m.get k := by
  unfold incCount; rw [get_set]

theorem get_decCount (m : AMap String Nat) (ip k : String) :
    (decCount m ip).get k =
      if k = ip then (match m.get ip with
        | some (n + 1) => if n = 0 then none else some n
        | x => x)
      else m.get k := by
  unfold decCount
  split
  · rename_i n h
    by_cases hn : n = 0
    · simp only [hn, if_true]; rw [get_erase]; split <;> simp_all
    · simp only [hn, if_false]; rw [get_set]; split <;> simp_all
  · rename_i h
    by_cases hk : k = ip
    · subst hk
      simp only [if_true]
    · simp [hk]

theorem get_laAppend (m : AMap String (List String)) (k0 a0 k : String) :
    (laAppend m k0 a0).get k = if k = k0 then some ((m.get k0).getD [] ++ [a0]) else m.get k := by
  unfold laAppend; rw [get_set]

theorem get_laRemove (m : AMap String (List String)) (k0 a0 k : String) :
    (laRemove m k0 a0).get k =
      if k = k0 then
        (if ((m.get k0).getD []).erase a0 = [] then none else some (((m.get k0).getD []).erase a0))
      else m.get k := by
  unfold laRemove
  simp only
  split
  · rw [get_erase]
  · rw [get_set]

theorem mget_updateMirror (ms : AMap Nat (AMap String Nat)) (ip : String) (m port m' : Nat) (ip' : String) :
    mget (updateMirror ms ip m port) m' ip' =
      if m' = m then (if ip' = ip then some port else mget ms m ip') else mget ms m' ip' := by
  unfold mget updateMirror
  rw [get_set]
  by_cases hm : m' = m
  · subst hm
    simp only [if_true]
    rw [get_set]
    by_cases hi : ip' = ip
    · simp [hi]
    · simp only [hi, if_false]
      cases ms.get m' <;> simp
  · simp [hm]

theorem mget_removeMirror (ms : AMap Nat (AMap String Nat)) (ip : String) (m m' : Nat) (ip' : String) :
    mget (removeMirror ms ip m) m' ip' =
      if m' = m ∧ ip' = ip then none else mget ms m' ip' := by
  unfold removeMirror
  cases hx : ms.get m with
  | none =>
    simp only
    by_cases h : m' = m ∧ ip' = ip
    · obtain ⟨rfl, rfl⟩ := h
      simp [mget, hx]
    · simp [h]
  | some x =>
    simp only
    by_cases he : x.erase ip = []
    · simp only [he, if_true]
      unfold mget
      rw [get_erase]
      by_cases hm : m' = m
      · subst hm
        simp only [if_true, true_and, hx]
        by_cases hi : ip' = ip
        · simp [hi]
        · simp only [hi, if_false]
          have := get_erase x ip ip'
          rw [he] at this
          simp only [hi, if_false] at this
          simpa using this
      · simp [hm]
    · simp only [he, if_false]
      unfold mget
      rw [get_set]
      by_cases hm : m' = m
      · subst hm
        simp only [if_true, true_and, hx]
        rw [get_erase]
      · simp [hm]

theorem noEmpty_updateMirror {ms : AMap Nat (AMap String Nat)} (h : ∀ m, ms.get m ≠ some [])
    (ip : String) (m port : Nat) : ∀ m', (updateMirror ms ip m port).get m' ≠ some [] := by
  intro m'
  unfold updateMirror
  rw [get_set]
  split
  · simp [AMap.set]
  · exact h m'

theorem noEmpty_removeMirror {ms : AMap Nat (AMap String Nat)} (h : ∀ m, ms.get m ≠ some [])
    (ip : String) (m : Nat) : ∀ m', (removeMirror ms ip m).get m' ≠ some [] := by
  intro m'
  unfold removeMirror
  cases hx : ms.get m with
  | none => exact h m'
  | some x =>
    simp only
    by_cases he : x.erase ip = []
    · simp only [he, if_true]
      rw [get_erase]; split
      · simp
      · exact h m'
    · simp only [he, if_false]
      rw [get_set]; split
      · simpa using he
      · exact h m'

/-! ### abstract index invariants: each index map represents a relation / function -/

def CInv (f : String → Nat) (m : AMap String Nat) : Prop :=
  ∀ k, m.get k = if f k = 0 then none else some (f k)

theorem CInv.inc {f f' : String → Nat} {m : AMap String Nat} (h : CInv f m) (ip : String)
    (hf : ∀ k, f' k = f k + (if k = ip then 1 else 0)) : CInv f' (incCount m ip) := by
  intro k
  rw [get_incCount, hf k]
  by_cases hk : k = ip
  · subst hk
    have := h k
    by_cases h0 : f k = 0
    · simp [this, h0]
    · simp [this, h0]
  · simpa [hk] using h k

theorem CInv.dec {f f' : String → Nat} {m : AMap String Nat} (h : CInv f m) (ip : String)
    (hf : ∀ k, f k = f' k + (if k = ip then 1 else 0)) : CInv f' (decCount m ip) := by
  intro k
  rw [get_decCount]
  by_cases hk : k = ip
  · subst hk
    have h1 := h k
    have h2 := hf k
    simp only [if_true] at h2 ⊢
    have h3 : f k ≠ 0 := by omega
    simp only [h3, if_false] at h1
    rw [h1, h2]
  · have h2 := hf k
    simp only [hk, if_false, Nat.add_zero] at h2 ⊢
    rw [← h2]; exact h k

theorem CInv.congr {f f' : String → Nat} {m : AMap String Nat} (h : CInv f m) (hf : ∀ k, f' k = f k) :
    CInv f' m := by
  intro k; rw [hf k]; exact h k

structure MInv (R : Nat → String → Nat → Prop) (ms : AMap Nat (AMap String Nat)) : Prop where
  rel : ∀ m ip p, mget ms m ip = some p ↔ R m ip p
  noEmpty : ∀ m, ms.get m ≠ some []

theorem MInv.congr {R R' : Nat → String → Nat → Prop} {ms} (h : MInv R ms)
    (hr : ∀ m ip p, R' m ip p ↔ R m ip p) : MInv R' ms :=
  ⟨fun m ip p => (h.rel m ip p).trans (hr m ip p).symm, h.noEmpty⟩

theorem MInv.add {R R' : Nat → String → Nat → Prop} {ms} (h : MInv R ms) (m0 : Nat) (ip0 : String) (p0 : Nat)
    (hfree : mget ms m0 ip0 = none)
    (hr : ∀ m ip p, R' m ip p ↔ (R m ip p ∨ (m = m0 ∧ ip = ip0 ∧ p = p0))) :
    MInv R' (updateMirror ms ip0 m0 p0) := by
  refine ⟨fun m ip p => ?_, noEmpty_updateMirror h.noEmpty _ _ _⟩
  rw [mget_updateMirror, hr]
  by_cases hm : m = m0
  · subst hm
    by_cases hi : ip = ip0
    · subst hi
      have hn : ¬ R m ip p := by
        intro hR; have := (h.rel m ip p).2 hR; rw [hfree] at this; cases this
      simp [hn]
      exact eq_comm
    · simp [hi, h.rel]
  · simp [hm, h.rel]

theorem MInv.remove {R R' : Nat → String → Nat → Prop} {ms} (h : MInv R ms) (m0 : Nat) (ip0 : String)
    (hr : ∀ m ip p, R' m ip p ↔ (R m ip p ∧ ¬ (m = m0 ∧ ip = ip0))) :
    MInv R' (removeMirror ms ip0 m0) := by
  refine ⟨fun m ip p => ?_, noEmpty_removeMirror h.noEmpty _ _⟩
  rw [mget_removeMirror, hr]
  by_cases hm : m = m0 ∧ ip = ip0
  · simp [hm]
  · simp [hm, h.rel]

structure LInv (R : String → String → Prop) (la : AMap String (List String)) : Prop where
  rel : ∀ k a, a ∈ (la.get k).getD [] ↔ R k a
  nodup : ∀ k, ((la.get k).getD []).Nodup
  noEmpty : ∀ k, la.get k ≠ some []

theorem LInv.congr {R R' : String → String → Prop} {la} (h : LInv R la)
    (hr : ∀ k a, R' k a ↔ R k a) : LInv R' la :=
  ⟨fun k a => (h.rel k a).trans (hr k a).symm, h.nodup, h.noEmpty⟩

theorem LInv.add {R R' : String → String → Prop} {la} (h : LInv R la) (k0 a0 : String)
    (hfree : ¬ R k0 a0)
    (hr : ∀ k a, R' k a ↔ (R k a ∨ (k = k0 ∧ a = a0))) :
    LInv R' (laAppend la k0 a0) := by
  refine ⟨fun k a => ?_, fun k => ?_, fun k => ?_⟩
  · rw [get_laAppend, hr]
    by_cases hk : k = k0
    · subst hk
      simp [h.rel]
    · simp [hk, h.rel]
  · rw [get_laAppend]
    by_cases hk : k = k0
    · subst hk
      simp only [if_true, Option.getD_some]
      rw [List.nodup_append]
      refine ⟨h.nodup k, by simp, ?_⟩
      intro a ha b hb
      simp only [List.mem_singleton] at hb
      subst hb
      intro e; subst e
      exact hfree ((h.rel k a).1 ha)
    · simp only [hk, if_false]; exact h.nodup k
  · rw [get_laAppend]
    by_cases hk : k = k0
    · simp [hk]
    · simp only [hk, if_false]; exact h.noEmpty k

theorem LInv.remove {R R' : String → String → Prop} {la} (h : LInv R la) (k0 a0 : String)
    (hr : ∀ k a, R' k a ↔ (R k a ∧ ¬ (k = k0 ∧ a = a0))) :
    LInv R' (laRemove la k0 a0) := by
  refine ⟨fun k a => ?_, fun k => ?_, fun k => ?_⟩
  · rw [get_laRemove, hr]
    by_cases hk : k = k0
    · subst hk
      simp only [if_true, true_and]
      have hm : a ∈ ((la.get k).getD []).erase a0 ↔ (a ≠ a0 ∧ a ∈ (la.get k).getD []) :=
        (h.nodup k).mem_erase_iff
      by_cases he : ((la.get k).getD []).erase a0 = []
      · rw [he] at hm
        simp only [he, if_true, Option.getD_none]
        rw [← h.rel]
        constructor
        · intro hh; cases hh
        · intro hh; exact absurd (hm.2 ⟨hh.2, hh.1⟩) (by simp)
      · simp only [he, if_false, Option.getD_some, hm, h.rel]
        exact And.comm
    · simp [hk, h.rel]
  · rw [get_laRemove]
    by_cases hk : k = k0
    · subst hk
      simp only [if_true]
      split
      · simp
      · simp only [Option.getD_some]
        exact List.Nodup.sublist List.erase_sublist (h.nodup k)
    · simp only [hk, if_false]; exact h.nodup k
  · rw [get_laRemove]
    by_cases hk : k = k0
    · subst hk
      simp only [if_true]
      split
      · simp
      · rename_i he; simpa using he
    · simp only [hk, if_false]; exact h.noEmpty k

def GInv (R : Nat → String → Prop) (g : AMap Nat String) : Prop :=
  ∀ id a, g.get id = some a ↔ R id a

theorem GInv.set {R R' : Nat → String → Prop} {g} (h : GInv R g) (id0 : Nat) (a0 : String)
    (hr : ∀ id a, R' id a ↔ ((id = id0 ∧ a = a0) ∨ (id ≠ id0 ∧ R id a))) : GInv R' (g.set id0 a0) := by
  intro id a
  rw [get_set, hr]
  by_cases hi : id = id0
  · simp [hi]; exact eq_comm
  · simp [hi, h id a]

theorem GInv.erase {R R' : Nat → String → Prop} {g} (h : GInv R g) (id0 : Nat)
    (hr : ∀ id a, R' id a ↔ (id ≠ id0 ∧ R id a)) : GInv R' (g.erase id0) := by
  intro id a
  rw [get_erase, hr]
  by_cases hi : id = id0
  · simp [hi]
  · simp [hi, h id a]

theorem GInv.congr {R R' : Nat → String → Prop} {g} (h : GInv R g) (hr : ∀ id a, R' id a ↔ R id a) :
    GInv R' g := fun id a => (h id a).trans (hr id a).symm


/-! ### the relations / functions the indexes must represent, as functions of `conns` -/
variable (E : Env)

def ipCnt (cs : List Conn) (k : String) : Nat := cs.countP (fun c => ipOf E c.addr = some k)

def MRel (cs : List Conn) (m : Nat) (ip : String) (p : Nat) : Prop :=
  ∃ c ∈ cs, c.state = .introduced ∧ c.mirror = m ∧ ipOf E c.addr = some ip ∧ c.listenPort = p

def LRel (cs : List Conn) (k a : String) : Prop :=
  k ≠ "" ∧ ∃ c ∈ cs, c.addr = a ∧ c.listenKey E = k

def GRel (cs : List Conn) (id : Nat) (a : String) : Prop :=
  id ≠ 0 ∧ ∃ c ∈ cs, c.gnetID = id ∧ c.addr = a

def MUnique (cs : List Conn) : Prop :=
  ∀ a ∈ cs, ∀ b ∈ cs, a.state = .introduced → b.state = .introduced →
      a.mirror = b.mirror → ipOf E a.addr = ipOf E b.addr → a = b

theorem InvCore.cinv {s : State} (h : InvCore E s) : CInv (ipCnt E s.conns) s.ipCounts := h.ipCounts
theorem InvCore.minv {s : State} (h : InvCore E s) : MInv (MRel E s.conns) s.mirrors :=
  ⟨h.mirrors, h.mirrorsNoEmpty⟩
theorem InvCore.linv {s : State} (h : InvCore E s) : LInv (LRel E s.conns) s.listenAddrs :=
  ⟨h.listen, h.listenNodup, h.listenNoEmpty⟩

theorem InvCore.of {s : State} (nd : (s.conns.map (·.addr)).Nodup)
    (so : ∀ c ∈ s.conns, (ipOf E c.addr).isSome = true)
    (pi : ∀ c ∈ s.conns, (c.state = .pending ↔ c.gnetID = 0))
    (ci : CInv (ipCnt E s.conns) s.ipCounts) (mi : MInv (MRel E s.conns) s.mirrors)
    (mu : MUnique E s.conns) (li : LInv (LRel E s.conns) s.listenAddrs) : InvCore E s :=
  ⟨nd, so, pi, ci, mi.rel, mi.noEmpty, mu, li.rel, li.nodup, li.noEmpty⟩

theorem InvIds.ginv {s : State} (h : InvIds s) : GInv (GRel s.conns) s.gnetIDs := h.gnetIDs

theorem ipCnt_cons (c : Conn) (cs : List Conn) {ip : String} (hip : ipOf E c.addr = some ip) (k : String) :
    ipCnt E (c :: cs) k = ipCnt E cs k + (if k = ip then 1 else 0) := by
  unfold ipCnt
  rw [List.countP_cons, hip]
  by_cases hk : k = ip
  · subst hk; simp
  · have : ¬ ip = k := fun e => hk e.symm
    simp [hk, this]

theorem ipCnt_del {cs : List Conn} (nd : (cs.map (·.addr)).Nodup) {c : Conn} (hc : c ∈ cs)
    {ip : String} (hip : ipOf E c.addr = some ip) (k : String) :
    ipCnt E cs k = ipCnt E (delConn cs c.addr) k + (if k = ip then 1 else 0) := by
  unfold ipCnt
  rw [countP_delConn nd hc, hip]
  by_cases hk : k = ip
  · subst hk; simp
  · have : ¬ ip = k := fun e => hk e.symm
    simp [hk, this]

theorem ipCnt_put {cs : List Conn} (nd : (cs.map (·.addr)).Nodup) {c c' : Conn} (hc : c ∈ cs)
    (ha : c'.addr = c.addr) (k : String) : ipCnt E (putConn cs c') k = ipCnt E cs k := by
  unfold ipCnt putConn
  rw [List.countP_cons, ha, countP_delConn nd hc (fun c => decide (ipOf E c.addr = some k))]

theorem ne_iff_addr_ne {cs : List Conn} (nd : (cs.map (·.addr)).Nodup) {c x : Conn} (hc : c ∈ cs)
    (hx : x ∈ cs) : x.addr ≠ c.addr ↔ x ≠ c :=
  ⟨fun h e => h (e ▸ rfl), fun h e => h (addr_uniq nd hx hc e)⟩

theorem exists_put {cs : List Conn} (nd : (cs.map (·.addr)).Nodup) {c c' : Conn} (hc : c ∈ cs)
    (ha : c'.addr = c.addr) (P : Conn → Prop) :
    (∃ x ∈ putConn cs c', P x) ↔ (P c' ∨ ∃ x ∈ cs, x ≠ c ∧ P x) := by
  constructor
  · rintro ⟨x, hx, hp⟩
    rcases mem_putConn.1 hx with rfl | ⟨hx1, hx2⟩
    · exact Or.inl hp
    · rw [ha] at hx2
      exact Or.inr ⟨x, hx1, (ne_iff_addr_ne nd hc hx1).1 hx2, hp⟩
  · rintro (hp | ⟨x, hx, hne, hp⟩)
    · exact ⟨c', mem_putConn.2 (Or.inl rfl), hp⟩
    · refine ⟨x, mem_putConn.2 (Or.inr ⟨hx, ?_⟩), hp⟩
      rw [ha]; exact (ne_iff_addr_ne nd hc hx).2 hne

theorem exists_del {cs : List Conn} (nd : (cs.map (·.addr)).Nodup) {c : Conn} (hc : c ∈ cs)
    (P : Conn → Prop) :
    (∃ x ∈ delConn cs c.addr, P x) ↔ (∃ x ∈ cs, x ≠ c ∧ P x) := by
  constructor
  · rintro ⟨x, hx, hp⟩
    have ⟨hx1, hx2⟩ := mem_delConn.1 hx
    exact ⟨x, hx1, (ne_iff_addr_ne nd hc hx1).1 hx2, hp⟩
  · rintro ⟨x, hx, hne, hp⟩
    exact ⟨x, mem_delConn.2 ⟨hx, (ne_iff_addr_ne nd hc hx).2 hne⟩, hp⟩

theorem forall_put {cs : List Conn} {c' : Conn} (P : Conn → Prop) (h : ∀ x ∈ cs, P x) (h' : P c') :
    ∀ x ∈ putConn cs c', P x := by
  intro x hx
  rcases mem_putConn.1 hx with rfl | ⟨hx1, _⟩
  · exact h'
  · exact h x hx1

theorem forall_del {cs : List Conn} {a : String} (P : Conn → Prop) (h : ∀ x ∈ cs, P x) :
    ∀ x ∈ delConn cs a, P x := fun x hx => h x (mem_delConn.1 hx).1

end Sky.C24
