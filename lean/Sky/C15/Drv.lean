/-
  C15 driver. For every op line it prints the SPECIFICATION's answer (right-hand sides of the C15
  theorems: `enc58`, `dec58`, `decodeAddr` with H = SHA-256, …). It additionally runs the faithful
  loop models `encFast`/`decFast` and the property predicate on the implementation's own output:
    * implementation ≠ specification                      → `fail`   (the property is "agrees with the
                                                                      big-integer definition")
    * implementation accepts s but `enc58 (result) ≠ s`     → `fail`   (canonicity)
    * loop model ≠ specification (implementation = spec)  → answer `model-spec-mismatch …`, `unknown`
-/
import Sky.Prim.DrvLib
import Sky.C15.Model
import Sky.Hash.All
namespace Sky.C15
open Sky Sky.Drv Sky.Hash

def showBytes : Res Bytes → String := showRes hexOf
def showAddr : Res Addr → String := showRes (fun a => toString a.version ++ " " ++ hexOf a.key)

def specOut (op : String) : String × Option String :=
  -- (specification output, loop-model output if there is one)
  match op.splitOn " " with
  | ["enc", h] => match hex? h with
    | some b => (showBytes (.ok (enc58 b)), some (showBytes (encFast b)))
    | none => ("bad-op", none)
  | ["dec", h] => match hex? h with
    | some s => (showBytes (dec58 s), some (showBytes (decFast s)))
    | none => ("bad-op", none)
  | ["addrdec", h] => match hex? h with
    | some s => (showAddr (decodeAddr sha256 s), none)
    | none => ("bad-op", none)
  | ["addrbytes", h] => match hex? h with
    | some b => (showAddr (addrFromBytes sha256 b), none)
    | none => ("bad-op", none)
  | ["addrstr", v, k] => match nat? v, hex? k with
    | some v, some k =>
      let a : Addr := { version := v, key := k }
      ("ok " ++ hexOf (addrString sha256 a) ++ " " ++ hexOf (addrBytes sha256 a),
       some ("ok " ++ (match encFast (addrBytes sha256 a) with | .ok s => hexOf s | _ => "panic") ++ " " ++ hexOf (addrBytes sha256 a)))
    | _, _ => ("bad-op", none)
  | ["pubaddr", h] => match hex? h with
    | some p => ("ok 0 " ++ hexOf (ripemd160 (sha256 (sha256 p))), none)
    | none => ("bad-op", none)
  | ["sha256", h] => match hex? h with
    | some b => ("ok " ++ hexOf (sha256 b), none)
    | none => ("bad-op", none)
  | ["ripemd160", h] => match hex? h with
    | some b => ("ok " ++ hexOf (ripemd160 b), none)
    | none => ("bad-op", none)
  | ["runes", h] => match hex? h with
    | some b => ("ok" ++ String.join ((runesOf b).map fun r => " " ++ toString r), none)
    | none => ("bad-op", none)
  | _ => ("bad-op", none)

/-- the canonicity predicate evaluated on the IMPLEMENTATION's output -/
def implCanonical (op impl : String) : Bool :=
  match op.splitOn " ", impl.splitOn " " with
  | ["dec", h], ["ok", o] => match hex? h, hex? o with
    | some s, some bs => enc58 bs == s
    | _, _ => false
  | _, _ => true

def step (op impl : String) : String × Verdict :=
  let (spec, model) := specOut op
  if spec != normImpl impl then (spec, .fail)
  else if !implCanonical op impl then ("non-canonical-accept " ++ spec, .fail)
  else match model with
    | some m => if m == spec then (spec, .hold) else ("model-spec-mismatch model=" ++ m ++ " spec=" ++ spec, .unknown)
    | none => (spec, .hold)

end Sky.C15

def main : IO Unit := Sky.Drv.loopPure Sky.C15.step
