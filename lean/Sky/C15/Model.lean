/-
  Sky.C15.Model — faithful executable models of the limb loops of src/cipher/base58/base58.go
  (`fastBase58EncodingAlphabet`, `fastBase58DecodingAlphabet`) and of Go's `[]rune(string)`.
  Core Lean only.  Indices that Go would fault on are the `panic` outcome; `uint32`/`uint64`/`byte`
  arithmetic wraps explicitly.  Constants come from the regenerated Sky.Gen.B58Consts.
-/
import Sky.C15.Spec
namespace Sky.C15
open Sky Sky.Gen.B58Consts

/-! ### encoder -/

/-- inner loop `for carry = uint32(bin[i]); j > high || carry != 0; j-- { … }` with `k = j+1`,
`hk = high+1` (so that `j = -1` is `k = 0`). Returns the buffer and the final `j+1`. -/
def encInner : (k hk carry : Nat) → (buf : List Nat) → Res (List Nat × Nat)
  | 0, _, carry, buf =>
      -- j = -1: `j > high` is false (high ≥ -1); a non-zero carry would index buf[-1]
      if carry ≠ 0 then .panic "index out of range [-1]" else .ok (buf, 0)
  | k+1, hk, carry, buf =>
      if k + 1 > hk ∨ carry ≠ 0 then
        match buf[k]? with
        | none => .panic "index out of range"
        | some x =>
          let c := wrap32 (carry + wrap32 (x <<< encShift))
          encInner k hk (c / encRadixDiv) (buf.set k (c % encRadixMod))
      else .ok (buf, k + 1)

/-- outer loop over the bytes after the leading zeros -/
def encOuter (size : Nat) : List Nat → List Nat × Nat → Res (List Nat × Nat)
  | [], st => .ok st
  | b :: r, (buf, hk) =>
    match encInner size hk b buf with
    | .ok st' => encOuter size r st'
    | .err e => .err e
    | .panic p => .panic p

def mapEncode : List Nat → Res (List Nat)
  | [] => .ok []
  | d :: r =>
    match Sky.Gen.B58Consts.alphabet[d]?, mapEncode r with
    | some c, .ok cs => .ok (c :: cs)
    | none, _ => .panic "index out of range (alphabet.encode)"
    | _, .err e => .err e
    | _, .panic p => .panic p

/-- `fastBase58EncodingAlphabet(bin, btcAlphabet)` -/
def encFast (bin : Bytes) : Res Bytes :=
  let zcount := lz bin
  let size := (bin.length - zcount) * encSizeNum / encSizeDen + encSizeOff
  match encOuter size (bin.drop zcount) (List.replicate size 0, size) with
  | .ok (buf, _) =>
    match mapEncode (buf.drop (lz buf)) with
    | .ok cs => .ok (List.replicate zcount 49 ++ cs)       -- literal '1'
    | .err e => .err e
    | .panic p => .panic p
  | .err e => .err e
  | .panic p => .panic p

/-! ### `[]rune(str)` -/

def runeError : Nat := 0xFFFD

/-- Go's UTF-8 decoding of the first rune: (rune, width); invalid or short sequences give (U+FFFD, 1). -/
def decodeRune : Bytes → Nat × Nat
  | [] => (runeError, 1)
  | b0 :: r =>
    if b0 < 0x80 then (b0, 1)
    else if b0 < 0xC2 then (runeError, 1)
    else if b0 < 0xE0 then
      match r with
      | b1 :: _ =>
        if 0x80 ≤ b1 ∧ b1 ≤ 0xBF then (((b0 &&& 0x1F) <<< 6) ||| (b1 &&& 0x3F), 2) else (runeError, 1)
      | _ => (runeError, 1)
    else if b0 < 0xF0 then
      let lo := if b0 = 0xE0 then 0xA0 else 0x80
      let hi := if b0 = 0xED then 0x9F else 0xBF
      match r with
      | b1 :: b2 :: _ =>
        if lo ≤ b1 ∧ b1 ≤ hi ∧ 0x80 ≤ b2 ∧ b2 ≤ 0xBF then
          (((b0 &&& 0x0F) <<< 12) ||| ((b1 &&& 0x3F) <<< 6) ||| (b2 &&& 0x3F), 3)
        else (runeError, 1)
      | _ => (runeError, 1)
    else if b0 < 0xF5 then
      let lo := if b0 = 0xF0 then 0x90 else 0x80
      let hi := if b0 = 0xF4 then 0x8F else 0xBF
      match r with
      | b1 :: b2 :: b3 :: _ =>
        if lo ≤ b1 ∧ b1 ≤ hi ∧ 0x80 ≤ b2 ∧ b2 ≤ 0xBF ∧ 0x80 ≤ b3 ∧ b3 ≤ 0xBF then
          (((b0 &&& 0x07) <<< 18) ||| ((b1 &&& 0x3F) <<< 12) ||| ((b2 &&& 0x3F) <<< 6) ||| (b3 &&& 0x3F), 4)
        else (runeError, 1)
      | _ => (runeError, 1)
    else (runeError, 1)

def runesGo : Nat → Bytes → List Nat
  | 0, _ => []
  | _, [] => []
  | f+1, s => let (r, w) := decodeRune s; r :: runesGo f (s.drop w)

/-- `[]rune(str)` -/
def runesOf (s : Bytes) : List Nat := runesGo s.length s

/-! ### decoder -/

/-- `for j := outisz-1; j >= 0; j-- { t = uint64(outi[j])*58 + c; c = (t>>32)&0x3f; outi[j] = uint32(t&0xffffffff) }` -/
def decMulAdd : List Nat → Nat → List Nat × Nat
  | [], c => ([], c)
  | w :: r, c =>
    let (r', c1) := decMulAdd r c
    let t := wrap64 (w * decRadix + c1)
    ((t &&& 0xffffffff) :: r', (t >>> 32) &&& 0x3f)

def ErrOther (site : String) : Err := .other site

/-- the `for _, r := range b58u` loop -/
def decLoop (zmask : Nat) : List Nat → List Nat → Res (List Nat)
  | [], outi => .ok outi
  | r :: rs, outi =>
    if r > 127 then .err ErrInvalidChar
    else match idxOf? r Sky.Gen.B58Consts.alphabet with
      | none => .err ErrInvalidChar
      | some d =>
        let (outi', c) := decMulAdd outi d
        if c > 0 then .err (ErrOther "carry to the next int32")
        else match outi' with
          | [] => .panic "index out of range [0]"
          | w0 :: _ =>
            if w0 &&& zmask ≠ 0 then .err (ErrOther "last int32 filled too far")
            else decLoop zmask rs outi'

/-- `for mask := byte(bytesleft-1) * 8; mask <= 0x18; mask = mask-8 { byte(w >> mask) }` (byte arithmetic
wraps: after mask 0 comes 248, which ends the loop). -/
def maskLoop : (fuel mask w : Nat) → List Nat
  | 0, _, _ => []
  | f+1, mask, w => if mask ≤ 0x18 then wrap8 (w >>> mask) :: maskLoop f (sub8 mask 8) w else []

def wordBytes (bytesleft w : Nat) : List Nat := maskLoop 32 (wrap8 (wrap8 (bytesleft - 1) * 8)) w

/-- the extraction loop over `outi`: first word with `bytesleft`, the others with 4 -/
def extract (bytesleft : Nat) : List Nat → List Nat
  | [] => []
  | w :: r => wordBytes bytesleft w ++ (r.map (wordBytes 4)).flatten

/-- `fastBase58DecodingAlphabet(str, btcAlphabet)` -/
def decFast (str : Bytes) : Res Bytes :=
  if str.length = 0 then .err ErrInvalidString
  else
    let b58u := runesOf str
    let b58sz := b58u.length
    let outisz := (b58sz + 3) >>> 2
    let binsz := (b58sz + 3) * 3
    let bl0 := b58sz &&& 3
    let zmask := if bl0 > 0 then wrap32 (0xffffffff <<< (bl0 * 8)) else 0
    let bytesleft := if bl0 > 0 then bl0 else 4
    let zcount := (b58u.takeWhile (· == 49)).length
    match decLoop zmask b58u (List.replicate outisz 0) with
    | .err e => .err e
    | .panic p => .panic p
    | .ok outi =>
      let out := extract bytesleft outi
      let cnt := out.length
      if cnt > binsz then .panic "index out of range (binu)"
      else
        let binu := out ++ List.replicate (binsz - cnt) 0
        let n := lz binu
        if n < binu.length then
          let start := n - zcount        -- `if start < 0 { start = 0 }`
          if start > cnt then .panic "slice bounds out of range" else .ok ((binu.take cnt).drop start)
        else .ok (binu.take cnt)

end Sky.C15
