/-
  Sky.C15.AlgoEnc — the limb-loop encoder `encFast` (faithful model of fastBase58EncodingAlphabet) equals the
  big-integer definition `enc58` on every byte string, and never faults. Core Lean only.

  Invariant of the inner loop (k = j+1, hk = high+1, size digits, buf[0] most significant):
      V = (value(buf[0..k)) * 256 + carry) * 58^(size-k) + value(buf[k..size))
  is constant; positions below min(hk,k) are zero; carry ≤ 255 (so the uint32 arithmetic cannot wrap);
  at k = 0 a non-zero carry would mean V ≥ 58^size, excluded by `256^n < 58^size`.
-/
import Sky.C15.Lemmas
import Sky.C15.Model
namespace Sky.C15
open Sky

/-- positions below `h` hold zero -/
def ZeroBelow (buf : List Nat) (h : Nat) : Prop := ∀ i, i < h → buf.getD i 0 = 0

theorem ofDigits_take_zero (b : Nat) : ∀ (buf : List Nat) (k : Nat), ZeroBelow buf k → ofDigits b (buf.take k) = 0
  | [], k, _ => by simp [ofDigits]
  | x :: r, 0, _ => by simp [ofDigits]
  | x :: r, k+1, h => by
    have hx : x = 0 := by simpa using h 0 (by omega)
    have hr : ZeroBelow r k := by
      intro i hi
      have := h (i + 1) (by omega)
      simpa using this
    rw [List.take_succ_cons, ofDigits_cons, hx, ofDigits_take_zero b r k hr]
    simp

theorem split_at (buf : List Nat) (k : Nat) (hk : k < buf.length) :
    buf = buf.take k ++ buf[k] :: buf.drop (k + 1) := by
  rw [← List.drop_eq_getElem_cons hk, List.take_append_drop]

theorem set_split (buf : List Nat) (k y : Nat) (hk : k < buf.length) :
    buf.set k y = buf.take k ++ y :: buf.drop (k + 1) := by
  conv => lhs; rw [split_at buf k hk]
  have hl : (buf.take k).length = k := by simp; omega
  rw [List.set_append_right _ _ (by omega), hl, Nat.sub_self, List.set_cons_zero]

theorem take_set (buf : List Nat) (k y : Nat) (hk : k < buf.length) : (buf.set k y).take k = buf.take k := by
  rw [set_split buf k y hk]
  have hl : (buf.take k).length = k := by simp; omega
  rw [List.take_append_of_le_length (by omega), List.take_of_length_le (by omega)]

theorem drop_set (buf : List Nat) (k y : Nat) (hk : k < buf.length) :
    (buf.set k y).drop k = y :: buf.drop (k + 1) := by
  rw [set_split buf k y hk]
  have hl : (buf.take k).length = k := by simp; omega
  rw [List.drop_append_of_le_length (by omega), List.drop_of_length_le (by omega), List.nil_append]

theorem take_succ_value (b : Nat) (buf : List Nat) (k : Nat) (hk : k < buf.length) :
    ofDigits b (buf.take (k + 1)) = ofDigits b (buf.take k) * b + buf[k] := by
  rw [List.take_succ_eq_append_getElem hk, ofDigits_append]
  simp [ofDigits_cons, ofDigits_nil]

theorem drop_value (b : Nat) (buf : List Nat) (k : Nat) (hk : k < buf.length) :
    ofDigits b (buf.drop k) = buf[k] * b ^ (buf.length - k - 1) + ofDigits b (buf.drop (k + 1)) := by
  rw [List.drop_eq_getElem_cons hk, ofDigits_cons]
  simp only [List.length_drop]
  congr 2

/-- the loop quantity -/
def encV (size k carry : Nat) (buf : List Nat) : Nat :=
  (ofDigits 58 (buf.take k) * 256 + carry) * 58 ^ (size - k) + ofDigits 58 (buf.drop k)

theorem encInner_spec (size : Nat) : ∀ (k hk carry : Nat) (buf : List Nat),
    buf.length = size → k ≤ size → (∀ d ∈ buf, d < 58) → carry ≤ 255 → ZeroBelow buf (min hk k) →
    encV size k carry buf < 58 ^ size →
    ∃ buf' k', encInner k hk carry buf = .ok (buf', k') ∧ buf'.length = size ∧ (∀ d ∈ buf', d < 58) ∧
      ofDigits 58 buf' = encV size k carry buf ∧ ZeroBelow buf' k' ∧ k' ≤ size := by
  intro k
  induction k with
  | zero =>
    intro hk carry buf hl _ hd _ _ hV
    have hc : carry = 0 := by
      unfold encV at hV
      simp only [List.take_zero, ofDigits_nil, Nat.zero_mul, Nat.zero_add, Nat.sub_zero, List.drop_zero] at hV
      rcases Nat.eq_zero_or_pos carry with h | h
      · exact h
      · exfalso
        have : 58 ^ size ≤ carry * 58 ^ size := Nat.le_mul_of_pos_left _ h
        omega
    subst hc
    refine ⟨buf, 0, by simp [encInner], hl, hd, ?_, fun i hi => by omega, by omega⟩
    simp [encV, ofDigits_nil]
  | succ k ih =>
    intro hk carry buf hl hks hd hcar hz hV
    have hkl : k < buf.length := by omega
    simp only [encInner]
    by_cases hcond : k + 1 > hk ∨ carry ≠ 0
    · rw [if_pos hcond, List.getElem?_eq_getElem hkl]
      simp only
      have hx : buf[k] < 58 := hd _ (List.getElem_mem hkl)
      -- the uint32 arithmetic does not wrap
      have hc : wrap32 (carry + wrap32 (buf[k] <<< Sky.Gen.B58Consts.encShift)) = carry + buf[k] * 256 := by
        show wrap32 (carry + wrap32 (buf[k] <<< 8)) = _
        simp only [wrap32, Nat.shiftLeft_eq]
        have h1 : buf[k] * 2 ^ 8 % 2 ^ 32 = buf[k] * 256 := by omega
        rw [h1]; omega
      rw [hc]
      show ∃ buf' k', encInner k hk ((carry + buf[k] * 256) / 58) (buf.set k ((carry + buf[k] * 256) % 58)) = _ ∧ _
      have hset_len : (buf.set k ((carry + buf[k] * 256) % 58)).length = size := by simp [hl]
      have hset_d : ∀ d ∈ buf.set k ((carry + buf[k] * 256) % 58), d < 58 := by
        intro d hdm
        rcases List.mem_or_eq_of_mem_set hdm with h | h
        · exact hd d h
        · subst h; exact Nat.mod_lt _ (by decide)
      have hset_z : ZeroBelow (buf.set k ((carry + buf[k] * 256) % 58)) (min hk k) := by
        intro i hi
        have hik : i < k := by omega
        have := hz i (by omega)
        rw [List.getD_eq_getElem?_getD] at this ⊢
        rw [List.getElem?_set_ne (by omega)]; exact this
      -- the loop quantity is preserved
      have hVeq : encV size k ((carry + buf[k] * 256) / 58) (buf.set k ((carry + buf[k] * 256) % 58)) = encV size (k + 1) carry buf := by
        unfold encV
        rw [take_set buf k _ hkl, drop_set buf k _ hkl, take_succ_value 58 buf k hkl, ofDigits_cons]
        simp only [List.length_drop]
        have e1 : size - k = (size - (k + 1)) + 1 := by omega
        have e2 : buf.length - (k + 1) = size - (k + 1) := by omega
        rw [e1, e2, Nat.pow_succ]
        generalize ofDigits 58 (buf.take k) = A
        generalize ofDigits 58 (buf.drop (k + 1)) = S
        generalize 58 ^ (size - (k + 1)) = M
        have hdm := Nat.div_add_mod (carry + buf[k] * 256) 58
        generalize (carry + buf[k] * 256) / 58 = q at *
        generalize (carry + buf[k] * 256) % 58 = rr at *
        -- (A*256+q) * (M*58) + (rr*M + S) = ((A*58 + x)*256 + carry) * M + S
        have : (A * 256 + q) * (M * 58) + (rr * M + S) = (A * 256 * 58 + (58 * q + rr)) * M + S := by
          simp only [Nat.add_mul, Nat.mul_add, Nat.mul_assoc, Nat.mul_comm, Nat.mul_left_comm]
          omega
        rw [this, hdm]
        congr 1
        simp only [Nat.add_mul, Nat.mul_add, Nat.mul_assoc, Nat.mul_comm, Nat.mul_left_comm]
        omega
      have := ih hk ((carry + buf[k] * 256) / 58) (buf.set k ((carry + buf[k] * 256) % 58)) hset_len (by omega) hset_d
        (by omega) hset_z (by rw [hVeq]; exact hV)
      obtain ⟨buf', k', h1, h2, h3, h4, h5, h6⟩ := this
      exact ⟨buf', k', h1, h2, h3, by rw [h4, hVeq], h5, h6⟩
    · rw [if_neg hcond]
      have hle : k + 1 ≤ hk := by omega
      have hc0 : carry = 0 := by
        rcases Nat.eq_zero_or_pos carry with h | h
        · exact h
        · exact absurd (Or.inr (by omega)) hcond
      subst hc0
      have hz' : ZeroBelow buf (k + 1) := by
        intro i hi; exact hz i (by omega)
      refine ⟨buf, k + 1, rfl, hl, hd, ?_, hz', hks⟩
      unfold encV
      rw [ofDigits_take_zero 58 buf (k + 1) hz']
      simp only [Nat.zero_mul, Nat.zero_add]
      conv => lhs; rw [← List.take_append_drop (k + 1) buf]
      rw [ofDigits_append, ofDigits_take_zero 58 buf (k + 1) hz']
      simp

theorem encV_start (size carry : Nat) (buf : List Nat) (hl : buf.length = size) :
    encV size size carry buf = ofDigits 58 buf * 256 + carry := by
  unfold encV
  rw [← hl, List.take_length, List.drop_length]
  simp [ofDigits_nil]

theorem encOuter_spec (size : Nat) : ∀ (rest buf : List Nat) (hk : Nat),
    buf.length = size → (∀ d ∈ buf, d < 58) → (∀ b ∈ rest, b < 256) → ZeroBelow buf (min hk size) →
    ofDigits 58 buf * 256 ^ rest.length + ofDigits 256 rest < 58 ^ size →
    ∃ buf' hk', encOuter size rest (buf, hk) = .ok (buf', hk') ∧ buf'.length = size ∧ (∀ d ∈ buf', d < 58) ∧
      ofDigits 58 buf' = ofDigits 58 buf * 256 ^ rest.length + ofDigits 256 rest := by
  intro rest
  induction rest with
  | nil =>
    intro buf hk hl hd _ _ _
    exact ⟨buf, hk, rfl, hl, hd, by simp [ofDigits_nil]⟩
  | cons b r ih =>
    intro buf hk hl hd hb hz hV
    have hb256 : b < 256 := hb b (by simp)
    rw [ofDigits_cons, List.length_cons, Nat.pow_succ] at hV
    have hpos : 0 < 256 ^ r.length := Nat.pow_pos (by decide)
    -- value after absorbing b, and its bound
    have hstep : (ofDigits 58 buf * 256 + b) * 256 ^ r.length + ofDigits 256 r =
        ofDigits 58 buf * (256 ^ r.length * 256) + (b * 256 ^ r.length + ofDigits 256 r) := by
      simp only [Nat.add_mul, Nat.mul_assoc, Nat.mul_comm 256 (256 ^ r.length)]; omega
    have hlt : ofDigits 58 buf * 256 + b < 58 ^ size := by
      have : ofDigits 58 buf * 256 + b ≤ (ofDigits 58 buf * 256 + b) * 256 ^ r.length := Nat.le_mul_of_pos_right _ hpos
      omega
    obtain ⟨buf1, k1, h1, h2, h3, h4, h5, h6⟩ := encInner_spec size size hk b buf hl (Nat.le_refl _) hd (by omega) hz
      (by rw [encV_start size b buf hl]; exact hlt)
    rw [encV_start size b buf hl] at h4
    have hz1 : ZeroBelow buf1 (min k1 size) := by intro i hi; exact h5 i (by omega)
    obtain ⟨buf2, k2, g1, g2, g3, g4⟩ := ih buf1 k1 h2 h3 (fun x hx => hb x (by simp [hx])) hz1
      (by rw [h4, hstep]; exact hV)
    refine ⟨buf2, k2, ?_, g2, g3, ?_⟩
    · simp only [encOuter, h1]; exact g1
    · rw [g4, h4, ofDigits_cons, List.length_cons, Nat.pow_succ, hstep]

theorem mapEncode_spec : ∀ (ds : List Nat), (∀ d ∈ ds, d < 58) → mapEncode ds = .ok (ds.map encChar)
  | [], _ => rfl
  | d :: r, h => by
    have hd : d < alphabet.length := by rw [alphabet_length]; exact h d (by simp)
    have hget : Sky.Gen.B58Consts.alphabet[d]? = some (encChar d) := by
      show alphabet[d]? = _
      rw [List.getElem?_eq_getElem hd]
      unfold encChar
      rw [List.getD_eq_getElem?_getD, List.getElem?_eq_getElem hd]; rfl
    simp only [mapEncode, hget, mapEncode_spec r (fun x hx => h x (by simp [hx])), List.map_cons]

theorem ofDigits_lt_pow {b : Nat} (hb : 0 < b) : ∀ (ds : List Nat), (∀ d ∈ ds, d < b) → ofDigits b ds < b ^ ds.length
  | [], _ => by simp [ofDigits]
  | d :: r, h => by
    rw [ofDigits_cons, List.length_cons, Nat.pow_succ]
    have hd : d < b := h d (by simp)
    have ih := ofDigits_lt_pow hb r (fun x hx => h x (by simp [hx]))
    have h1 : (d + 1) * b ^ r.length ≤ b * b ^ r.length := Nat.mul_le_mul_right _ hd
    rw [Nat.add_mul, Nat.one_mul] at h1
    rw [Nat.mul_comm (b ^ r.length) b]
    omega

theorem lz_drop (bs : List Nat) : ∃ r, bs = List.replicate (lz bs) 0 ++ r ∧ NoLeadZero r ∧ bs.drop (lz bs) = r := by
  obtain ⟨r, h1, h2⟩ := lz_split bs
  refine ⟨r, h1, h2, ?_⟩
  have : (List.replicate (lz bs) 0 ++ r).drop (lz bs) = r := by
    rw [List.drop_append_of_le_length (by simp), List.drop_of_length_le (by simp), List.nil_append]
  rw [← h1] at this; exact this

theorem pow_size_bound (n : Nat) : 256 ^ n < 58 ^ (n * Sky.Gen.B58Consts.encSizeNum / Sky.Gen.B58Consts.encSizeDen + Sky.Gen.B58Consts.encSizeOff) := by
  have hc : (256 : Nat) ^ 100 < 58 ^ 138 := by decide
  show 256 ^ n < 58 ^ (n * 138 / 100 + 1)
  have h1 : (256 ^ n) ^ 100 < (58 ^ (n * 138 / 100 + 1)) ^ 100 := by
    rw [← Nat.pow_mul, ← Nat.pow_mul]
    calc 256 ^ (n * 100) = (256 ^ 100) ^ n := by rw [Nat.mul_comm, Nat.pow_mul]
      _ ≤ (58 ^ 138) ^ n := Nat.pow_le_pow_left (Nat.le_of_lt hc) n
      _ = 58 ^ (138 * n) := by rw [Nat.pow_mul]
      _ < 58 ^ ((n * 138 / 100 + 1) * 100) := by
          apply Nat.pow_lt_pow_right (by omega)
          omega
  exact (Nat.pow_lt_pow_iff_left (by decide)).mp h1

/-- **the limb-loop encoder is the big-integer definition, and never faults** -/
theorem encFast_eq_spec (bin : Bytes) (hb : IsBytes bin) : encFast bin = .ok (enc58 bin) := by
  obtain ⟨rest, hsplit, hnl, hdrop⟩ := lz_drop bin
  have hrest : ∀ b ∈ rest, b < 256 := by
    intro b hbm; apply hb; rw [hsplit]; exact List.mem_append.mpr (Or.inr hbm)
  have hlen : bin.length - lz bin = rest.length := by
    have : (List.replicate (lz bin) 0 ++ rest).length - lz bin = rest.length := by simp
    rw [← hsplit] at this; exact this
  have hval : ofDigits 256 bin = ofDigits 256 rest := by
    have := ofDigits_replicate_zero 256 (lz bin) rest
    rw [← hsplit] at this; exact this
  unfold encFast
  simp only [hdrop, hlen]
  generalize hsz : rest.length * Sky.Gen.B58Consts.encSizeNum / Sky.Gen.B58Consts.encSizeDen + Sky.Gen.B58Consts.encSizeOff = size
  have hbound : 256 ^ rest.length < 58 ^ size := by rw [← hsz]; exact pow_size_bound rest.length
  have hrv : ofDigits 256 rest < 256 ^ rest.length := ofDigits_lt_pow (by decide) rest hrest
  have hzero : ofDigits 58 (List.replicate size 0) = 0 := by
    have := ofDigits_replicate_zero 58 size []
    simpa [ofDigits_nil] using this
  obtain ⟨buf, hk, h1, h2, h3, h4⟩ := encOuter_spec size rest (List.replicate size 0) size (by simp)
    (by intro d hd; have := (List.mem_replicate.mp hd).2; omega) hrest
    (by
      intro i _
      rw [List.getD_eq_getElem?_getD]
      cases h : (List.replicate size 0)[i]? with
      | none => rfl
      | some v =>
        have := List.mem_of_getElem? h
        rw [(List.mem_replicate.mp this).2]; rfl)
    (by rw [hzero]; omega)
  rw [hzero, Nat.zero_mul, Nat.zero_add] at h4
  rw [h1]
  simp only
  -- strip the leading zero digits of the buffer: what remains is `digits 58 value`
  obtain ⟨D, hbs, hDn, hDd⟩ := lz_drop buf
  have hDlt : ∀ d ∈ D, d < 58 := by
    intro d hd; apply h3; rw [hbs]; exact List.mem_append.mpr (Or.inr hd)
  have hDv : ofDigits 58 D = ofDigits 256 rest := by
    have := ofDigits_replicate_zero 58 (lz buf) D
    rw [← hbs] at this
    rw [← h4, this]
  have hD : D = digits 58 (ofDigits 256 bin) := by
    rw [hval, ← hDv]; exact (digits_ofDigits (by omega) D hDlt hDn).symm
  rw [hDd, mapEncode_spec D hDlt]
  show Res.ok (List.replicate (lz bin) 49 ++ D.map encChar) = Res.ok (enc58 bin)
  have h49 : (49 : Nat) = encChar 0 := by decide
  unfold enc58
  rw [List.map_append, List.map_replicate, ← hD, h49]

end Sky.C15
