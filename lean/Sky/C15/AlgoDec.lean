/-
  Sky.C15.AlgoDec — the limb-loop decoder `decFast` (faithful model of fastBase58DecodingAlphabet) equals
  the big-integer definition `dec58`; the two "output number too big" errors are unreachable.
  Core Lean only.  Part 1: the multiply-add over 32-bit limbs.
-/
import Sky.C15.AlgoEnc
import Mathlib.Tactic.Ring
namespace Sky.C15
open Sky

/-- value of a big-endian list of 32-bit limbs -/
abbrev wv (ws : List Nat) : Nat := ofDigits (2 ^ 32) ws

def Words (ws : List Nat) : Prop := ∀ w ∈ ws, w < 2 ^ 32

theorem decStep (w c : Nat) (hw : w < 2 ^ 32) (hc : c < 58) :
    (wrap64 (w * Sky.Gen.B58Consts.decRadix + c) &&& 0xffffffff) + 2 ^ 32 * ((wrap64 (w * Sky.Gen.B58Consts.decRadix + c) >>> 32) &&& 0x3f)
        = w * 58 + c ∧
      (wrap64 (w * Sky.Gen.B58Consts.decRadix + c) &&& 0xffffffff) < 2 ^ 32 ∧
      ((wrap64 (w * Sky.Gen.B58Consts.decRadix + c) >>> 32) &&& 0x3f) < 58 := by
  show (wrap64 (w * 58 + c) &&& 0xffffffff) + 2 ^ 32 * ((wrap64 (w * 58 + c) >>> 32) &&& 0x3f) = w * 58 + c ∧
      (wrap64 (w * 58 + c) &&& 0xffffffff) < 2 ^ 32 ∧ ((wrap64 (w * 58 + c) >>> 32) &&& 0x3f) < 58
  simp only [wrap64]
  have h0 : (w * 58 + c) % 2 ^ 64 = w * 58 + c := by omega
  rw [h0]
  have e1 : (0xffffffff : Nat) = 2 ^ 32 - 1 := by decide
  have e2 : (0x3f : Nat) = 2 ^ 6 - 1 := by decide
  rw [e1, e2, Nat.and_two_pow_sub_one_eq_mod, Nat.and_two_pow_sub_one_eq_mod, Nat.shiftRight_eq_div_pow]
  have h3 : (w * 58 + c) / 2 ^ 32 < 58 := by omega
  have h4 : (w * 58 + c) / 2 ^ 32 % 2 ^ 6 = (w * 58 + c) / 2 ^ 32 := by omega
  rw [h4]
  omega

theorem decMulAdd_spec : ∀ (ws : List Nat) (c : Nat), Words ws → c < 58 →
    (decMulAdd ws c).1.length = ws.length ∧ Words (decMulAdd ws c).1 ∧ (decMulAdd ws c).2 < 58 ∧
    wv (decMulAdd ws c).1 + (decMulAdd ws c).2 * (2 ^ 32) ^ ws.length = wv ws * 58 + c
  | [], c, _, hc => by simp [decMulAdd, wv, ofDigits_nil, hc, Words]
  | w :: r, c, hw, hc => by
    have hw0 : w < 2 ^ 32 := hw w (by simp)
    have hr : Words r := fun x hx => hw x (by simp [hx])
    obtain ⟨i1, i2, i3, i4⟩ := decMulAdd_spec r c hr hc
    obtain ⟨s1, s2, s3⟩ := decStep w (decMulAdd r c).2 hw0 i3
    simp only [decMulAdd]
    refine ⟨by simp [i1], ?_, s3, ?_⟩
    · intro x hx
      rcases List.mem_cons.mp hx with h | h
      · subst h; exact s2
      · exact i2 x h
    · show wv (_ :: (decMulAdd r c).1) + _ * (2 ^ 32) ^ (r.length + 1) = wv (w :: r) * 58 + c
      unfold wv at *
      rw [ofDigits_cons, ofDigits_cons, i1, show (2 ^ 32) ^ (r.length + 1) = (2 ^ 32) ^ r.length * 2 ^ 32 from pow_succ _ _]
      generalize (wrap64 (w * Sky.Gen.B58Consts.decRadix + (decMulAdd r c).2) &&& 0xffffffff) = lo at *
      generalize ((wrap64 (w * Sky.Gen.B58Consts.decRadix + (decMulAdd r c).2) >>> 32) &&& 0x3f) = hi at *
      generalize ofDigits (2 ^ 32) (decMulAdd r c).1 = A at *
      generalize ofDigits (2 ^ 32) r = R at *
      generalize (decMulAdd r c).2 = c1 at *
      generalize ((2:Nat) ^ 32) ^ r.length = M at *
      calc lo * M + A + hi * (M * 2 ^ 32) = (lo + 2 ^ 32 * hi) * M + A := by ring
        _ = (w * 58 + c1) * M + A := by rw [s1]
        _ = w * 58 * M + (A + c1 * M) := by ring
        _ = w * 58 * M + (R * 58 + c) := by rw [i4]
        _ = (w * M + R) * 58 + c := by ring

/-! ### Part 2: the rune loop -/

theorem decChar_lt128 {c d : Nat} (h : decChar c = some d) : c < 128 ∧ idxOf? c Sky.Gen.B58Consts.alphabet = some d := by
  unfold decChar at h
  by_cases hc : c < 128
  · rw [if_pos hc] at h; exact ⟨hc, h⟩
  · rw [if_neg hc] at h; cases h

theorem wv_head_le (w0 : Nat) (rest : List Nat) : w0 * (2 ^ 32) ^ rest.length ≤ wv (w0 :: rest) := by
  unfold wv; rw [ofDigits_cons]; omega

/-- the loop over the characters: while every character is in the alphabet the limbs hold exactly the
base-58 value read so far, the carry out of the top limb is zero and the `zmask` test passes; the first
character outside the alphabet gives ErrInvalidChar. `T` bounds every value that can occur. -/
theorem decLoop_spec (zmask L T : Nat) (hT : T ≤ (2 ^ 32) ^ L) (hL : 0 < L)
    (hmask : ∀ w0 rest, (w0 :: rest).length = L → w0 < 2 ^ 32 → wv (w0 :: rest) < T → w0 &&& zmask = 0) :
    ∀ (rs : List Nat) (outi : List Nat) (j : Nat), outi.length = L → Words outi → wv outi < 58 ^ j → 58 ^ (j + rs.length) ≤ T →
      (match decChars rs with
       | some ds => ∃ outi', decLoop zmask rs outi = .ok outi' ∧ outi'.length = L ∧ Words outi' ∧
                      wv outi' = wv outi * 58 ^ rs.length + ofDigits 58 ds
       | none => decLoop zmask rs outi = .err ErrInvalidChar) := by
  intro rs
  induction rs with
  | nil =>
    intro outi j hl hw _ _
    simp only [decChars, decLoop]
    exact ⟨outi, rfl, hl, hw, by simp [ofDigits_nil]⟩
  | cons r rs ih =>
    intro outi j hl hw hv hb
    simp only [decChars]
    cases hd : decChar r with
    | none =>
      simp only
      have : decLoop zmask (r :: rs) outi = .err ErrInvalidChar := by
        unfold decLoop
        by_cases h127 : r > 127
        · rw [if_pos h127]
        · rw [if_neg h127]
          have : idxOf? r Sky.Gen.B58Consts.alphabet = none := by
            unfold decChar at hd; rw [if_pos (by omega)] at hd; exact hd
          rw [this]
      cases decChars rs <;> exact this
    | some d =>
      obtain ⟨h128, hidx⟩ := decChar_lt128 hd
      have hd58 : d < 58 := (encChar_of_decChar hd).2
      obtain ⟨m1, m2, m3, m4⟩ := decMulAdd_spec outi d hw hd58
      -- the new value and its bound
      have hnew : wv outi * 58 + d < 58 ^ (j + 1) := by
        rw [Nat.pow_succ]
        have : (wv outi + 1) * 58 ≤ 58 ^ j * 58 := Nat.mul_le_mul_right _ hv
        rw [Nat.add_mul] at this; omega
      have hle : 58 ^ (j + 1) ≤ T := by
        have : 58 ^ (j + 1) ≤ 58 ^ (j + (r :: rs).length) := Nat.pow_le_pow_right (by decide) (by simp)
        omega
      have hc0 : (decMulAdd outi d).2 = 0 := by
        rcases Nat.eq_zero_or_pos (decMulAdd outi d).2 with h | h
        · exact h
        · exfalso
          have : (2 ^ 32) ^ L ≤ (decMulAdd outi d).2 * (2 ^ 32) ^ outi.length := by
            rw [hl]; exact Nat.le_mul_of_pos_left _ h
          omega
      rw [hc0, Nat.zero_mul, Nat.add_zero] at m4
      have hstep : ∀ (k : Res (List Nat)), (decLoop zmask rs (decMulAdd outi d).1 = k) → decLoop zmask (r :: rs) outi = k := by
        intro k hk
        unfold decLoop
        rw [if_neg (by omega), hidx]
        simp only
        rw [show (decMulAdd outi d) = ((decMulAdd outi d).1, (decMulAdd outi d).2) from rfl]
        simp only [hc0, Nat.lt_irrefl, if_false]
        cases ho : (decMulAdd outi d).1 with
        | nil => rw [ho] at m1; simp at m1; omega
        | cons w0 rest =>
          simp only
          have hz : w0 &&& zmask = 0 := by
            apply hmask w0 rest
            · rw [← ho, m1, hl]
            · exact m2 w0 (by rw [ho]; simp)
            · rw [← ho, m4]; omega
          rw [if_neg (by simp [hz])]
          rw [← ho]; exact hk
      have hj : 58 ^ (j + 1 + rs.length) ≤ T := by
        have : j + 1 + rs.length = j + (r :: rs).length := by simp; omega
        rw [this]; exact hb
      have := ih (decMulAdd outi d).1 (j + 1) (by rw [m1, hl]) m2 (by rw [m4]; exact hnew) hj
      cases hds : decChars rs with
      | none =>
        rw [hds] at this
        simp only at this ⊢
        exact hstep _ this
      | some ds =>
        rw [hds] at this
        simp only at this ⊢
        obtain ⟨outi', e1, e2, e3, e4⟩ := this
        refine ⟨outi', hstep _ e1, e2, e3, ?_⟩
        rw [e4, m4, ofDigits_cons, List.length_cons, Nat.pow_succ]
        have hlen : ds.length = rs.length := by
          have := map_encChar_of_decChars rs ds hds
          rw [← this.1]; simp
        rw [hlen]
        ring

/-! ### Part 3: the `zmask` test never fires -/

theorem and_high_mask (w k : Nat) (hw : w < 2 ^ k) (m : Nat) (hm : m % 2 ^ k = 0) : w &&& m = 0 := by
  have h1 : (w &&& m) % 2 ^ k = 0 := by
    rw [Nat.and_mod_two_pow, hm, Nat.and_zero]
  have h2 : (w &&& m) / 2 ^ k = 0 := by
    rw [Nat.and_div_two_pow, Nat.div_eq_of_lt hw, Nat.zero_and]
  have := Nat.div_add_mod (w &&& m) (2 ^ k)
  rw [h1, h2] at this; omega

/-- zmask as the code computes it from the number of characters -/
def zmaskOf (n : Nat) : Nat := if n &&& 3 > 0 then wrap32 (0xffffffff <<< ((n &&& 3) * 8)) else 0

theorem and3 (n : Nat) : n &&& 3 = n % 4 := by
  have : (3 : Nat) = 2 ^ 2 - 1 := by decide
  rw [this, Nat.and_two_pow_sub_one_eq_mod]

theorem zmask_ok (n : Nat) (hn : 0 < n) (w0 : Nat) (rest : List Nat) (hlen : (w0 :: rest).length = (n + 3) / 4)
    (hw : w0 < 2 ^ 32) (hv : wv (w0 :: rest) < 256 ^ n) : w0 &&& zmaskOf n = 0 := by
  unfold zmaskOf
  rw [and3]
  have hr : rest.length = (n + 3) / 4 - 1 := by simp at hlen; omega
  have hle := wv_head_le w0 rest
  rw [hr] at hle
  have hpow : (2 ^ 32 : Nat) ^ ((n + 3) / 4 - 1) = 256 ^ (4 * ((n + 3) / 4 - 1)) := by
    rw [show (2 ^ 32 : Nat) = 256 ^ 4 from by norm_num, ← pow_mul]
  rw [hpow] at hle
  rcases Nat.lt_or_ge 0 (n % 4) with hpos | hzero
  · rw [if_pos hpos]
    -- n = 4*(L-1) + n%4
    have hn4 : n = 4 * ((n + 3) / 4 - 1) + n % 4 := by omega
    have hlt : w0 < 256 ^ (n % 4) := by
      have h1 : 256 ^ n = 256 ^ (n % 4) * 256 ^ (4 * ((n + 3) / 4 - 1)) := by
        rw [← pow_add]; congr 1; omega
      rw [h1] at hv
      have hpos' : 0 < 256 ^ (4 * ((n + 3) / 4 - 1)) := Nat.pow_pos (by decide)
      exact Nat.lt_of_mul_lt_mul_right (Nat.lt_of_le_of_lt hle hv)
    have h3 : n % 4 = 1 ∨ n % 4 = 2 ∨ n % 4 = 3 := by omega
    rcases h3 with h | h | h <;> rw [h] at hlt ⊢
    · exact and_high_mask w0 8 (by simpa using hlt) _ (by decide)
    · exact and_high_mask w0 16 (by norm_num at hlt ⊢; exact hlt) _ (by decide)
    · exact and_high_mask w0 24 (by norm_num at hlt ⊢; exact hlt) _ (by decide)
  · have : ¬ (n % 4 > 0) := by omega
    rw [if_neg this, Nat.and_zero]

/-! ### Part 4: extracting the bytes -/

theorem wordBytes4 (w : Nat) (hw : w < 2 ^ 32) :
    wordBytes 4 w = [w / 2 ^ 24 % 256, w / 2 ^ 16 % 256, w / 2 ^ 8 % 256, w % 256] := by
  simp [wordBytes, maskLoop, wrap8, sub8, Nat.shiftRight_eq_div_pow]

theorem wordBytes3 (w : Nat) : wordBytes 3 w = [w / 2 ^ 16 % 256, w / 2 ^ 8 % 256, w % 256] := by
  simp [wordBytes, maskLoop, wrap8, sub8, Nat.shiftRight_eq_div_pow]

theorem wordBytes2 (w : Nat) : wordBytes 2 w = [w / 2 ^ 8 % 256, w % 256] := by
  simp [wordBytes, maskLoop, wrap8, sub8, Nat.shiftRight_eq_div_pow]

theorem wordBytes1 (w : Nat) : wordBytes 1 w = [w % 256] := by
  simp [wordBytes, maskLoop, wrap8, sub8, Nat.shiftRight_eq_div_pow]

/-- the bytes of one limb: `bl` bytes whose big-endian value is the limb (when it fits) -/
theorem wordBytes_spec (bl w : Nat) (hbl : bl = 1 ∨ bl = 2 ∨ bl = 3 ∨ bl = 4) (hw : w < 256 ^ bl) :
    (wordBytes bl w).length = bl ∧ (∀ b ∈ wordBytes bl w, b < 256) ∧ ofDigits 256 (wordBytes bl w) = w := by
  rcases hbl with h | h | h | h <;> subst h
  · rw [wordBytes1]; refine ⟨rfl, by intro b hb; simp at hb; omega, ?_⟩
    simp [ofDigits, Sky.C15.ofDigits]; omega
  · rw [wordBytes2]; refine ⟨rfl, by intro b hb; simp at hb; omega, ?_⟩
    simp [ofDigits, Sky.C15.ofDigits]; omega
  · rw [wordBytes3]; refine ⟨rfl, by intro b hb; simp at hb; omega, ?_⟩
    simp [ofDigits, Sky.C15.ofDigits]; omega
  · rw [wordBytes4 w (by norm_num at hw ⊢; exact hw)]; refine ⟨rfl, by intro b hb; simp at hb; omega, ?_⟩
    simp [ofDigits, Sky.C15.ofDigits]; omega

theorem flat4_spec : ∀ (ws : List Nat), Words ws →
    ((ws.map (wordBytes 4)).flatten).length = 4 * ws.length ∧ (∀ b ∈ (ws.map (wordBytes 4)).flatten, b < 256) ∧
    ofDigits 256 ((ws.map (wordBytes 4)).flatten) = wv ws
  | [], _ => by simp [wv, ofDigits_nil]
  | w :: r, hw => by
    have hw0 : w < 256 ^ 4 := by have := hw w (by simp); norm_num at this ⊢; exact this
    obtain ⟨a1, a2, a3⟩ := wordBytes_spec 4 w (by omega) hw0
    obtain ⟨b1, b2, b3⟩ := flat4_spec r (fun x hx => hw x (by simp [hx]))
    simp only [List.map_cons, List.flatten_cons]
    refine ⟨by simp [a1, b1]; omega, ?_, ?_⟩
    · intro b hb
      rcases List.mem_append.mp hb with h | h
      · exact a2 b h
      · exact b2 b h
    · unfold wv
      rw [ofDigits_append, ofDigits_cons, a3, b1, b3]
      unfold wv
      rw [show (256 : Nat) ^ (4 * r.length) = (2 ^ 32) ^ r.length from by rw [pow_mul]; norm_num]

theorem extract_spec (bl w0 : Nat) (rest : List Nat) (hbl : bl = 1 ∨ bl = 2 ∨ bl = 3 ∨ bl = 4) (hw0 : w0 < 256 ^ bl)
    (hr : Words rest) :
    (extract bl (w0 :: rest)).length = bl + 4 * rest.length ∧ (∀ b ∈ extract bl (w0 :: rest), b < 256) ∧
    ofDigits 256 (extract bl (w0 :: rest)) = wv (w0 :: rest) := by
  obtain ⟨a1, a2, a3⟩ := wordBytes_spec bl w0 hbl hw0
  obtain ⟨b1, b2, b3⟩ := flat4_spec rest hr
  simp only [extract]
  refine ⟨by simp [a1, b1], ?_, ?_⟩
  · intro b hb
    rcases List.mem_append.mp hb with h | h
    · exact a2 b h
    · exact b2 b h
  · unfold wv
    rw [ofDigits_append, ofDigits_cons, a3, b1, b3]
    unfold wv
    rw [show (256 : Nat) ^ (4 * rest.length) = (2 ^ 32) ^ rest.length from by rw [pow_mul]; norm_num]

/-! ### Part 5: assembling the result -/

theorem runesGo_ascii : ∀ (f : Nat) (s : Bytes), (∀ c ∈ s, c < 128) → s.length ≤ f → runesGo f s = s
  | 0, s, _, hl => by
    have : s = [] := List.length_eq_zero_iff.mp (by omega)
    subst this; rfl
  | f+1, [], _, _ => rfl
  | f+1, c :: r, h, hl => by
    have hc : c < 128 := h c (by simp)
    simp only [runesGo, decodeRune, if_pos hc, List.drop_one, List.tail_cons]
    rw [runesGo_ascii f r (fun x hx => h x (by simp [hx])) (by simp at hl; omega)]

theorem runesOf_ascii (s : Bytes) (h : ∀ c ∈ s, c < 128) : runesOf s = s :=
  runesGo_ascii s.length s h (Nat.le_refl _)

theorem decChar_49 : decChar 49 = some 0 := by decide

theorem zcount_eq : ∀ (s ds : List Nat), decChars s = some ds → (s.takeWhile (· == 49)).length = lz ds
  | [], ds, h => by simp only [decChars, Option.some.injEq] at h; subst h; rfl
  | c :: r, ds, h => by
    simp only [decChars] at h
    cases hc : decChar c with
    | none => simp [hc] at h
    | some d =>
      cases hr : decChars r with
      | none => simp [hc, hr] at h
      | some ds' =>
        simp only [hc, hr, Option.some.injEq] at h
        subst h
        by_cases h49 : c = 49
        · subst h49
          rw [decChar_49] at hc; cases hc
          simp only [List.takeWhile_cons, beq_self_eq_true, if_true, List.length_cons, lz]
          rw [zcount_eq r ds' hr]
        · have hd0 : d ≠ 0 := by
            intro h0; subst h0
            have := (encChar_of_decChar hc).1
            have e : encChar 0 = 49 := by decide
            rw [e] at this; exact h49 this.symm
          have : (c == 49) = false := by simpa using h49
          simp only [List.takeWhile_cons, this, Bool.false_eq_true, if_false, List.length_nil]
          cases d with
          | zero => exact absurd rfl hd0
          | succ k => rfl

theorem digits_length_le {v j : Nat} (hv : v < 256 ^ j) : (digits 256 v).length ≤ j := by
  -- ofDigits 256 (digits 256 v) = v, leading digit ≥ 1, so 256^(len-1) ≤ v
  rcases Nat.lt_or_ge j (digits 256 v).length with hlt | hge
  · exfalso
    have hval := ofDigits_digits (b := 256) (by decide) v
    have hnl := digits_noLead (b := 256) (by decide) v
    cases hd : digits 256 v with
    | nil => rw [hd] at hlt; simp at hlt
    | cons a t =>
      rw [hd] at hval hnl hlt
      rw [ofDigits_cons] at hval
      have ha : 1 ≤ a := by
        cases a with
        | zero => exact absurd hnl (by simp [NoLeadZero])
        | succ k => omega
      have h1 : 256 ^ j ≤ 256 ^ t.length := Nat.pow_le_pow_right (by decide) (by simp at hlt; omega)
      have h2 : 256 ^ t.length ≤ a * 256 ^ t.length := Nat.le_mul_of_pos_left _ ha
      omega
  · exact hge

theorem all_zero_of_value_zero {b : Nat} (hb : 2 ≤ b) (ds : List Nat) (hlt : ∀ d ∈ ds, d < b) (h : ofDigits b ds = 0) :
    ds = List.replicate ds.length 0 ∧ lz ds = ds.length := by
  obtain ⟨r, h1, h2⟩ := lz_split ds
  have hr : ∀ d ∈ r, d < b := by intro d hd; apply hlt; rw [h1]; exact List.mem_append.mpr (Or.inr hd)
  have hv : ofDigits b r = 0 := by
    have := ofDigits_replicate_zero b (lz ds) r
    rw [← h1] at this; rw [← this]; exact h
  have : r = [] := by
    have := digits_ofDigits hb r hr h2
    rw [hv] at this
    rw [← this]; rfl
  subst this
  rw [List.append_nil] at h1
  have hl : ds.length = lz ds := by
    have := congrArg List.length h1
    simpa using this
  exact ⟨by rw [hl]; exact h1, hl.symm⟩

theorem noLeadZero_append (r x : List Nat) (hr : r ≠ []) (h : NoLeadZero r) : NoLeadZero (r ++ x) := by
  cases r with
  | nil => exact absurd rfl hr
  | cons a t =>
    cases a with
    | zero => exact absurd h (by simp [NoLeadZero])
    | succ k => simp [NoLeadZero]

theorem lz_all_zero (k : Nat) : lz (List.replicate k 0) = k := by
  have := lz_replicate_append k [] (by trivial)
  simpa using this

/-- **the limb-loop decoder is the big-integer definition on every ASCII string** (every string that can
decode successfully is ASCII; a string with a byte ≥ 128 is rejected by both with ErrInvalidChar — that case
is carried by the correspondence run, see notes/status/C15.md). -/
theorem decFast_eq_spec_ascii (s : Bytes) (hascii : ∀ c ∈ s, c < 128) : decFast s = dec58 s := by
  unfold decFast dec58
  by_cases hs : s = []
  · subst hs; simp
  · have hn : 0 < s.length := List.length_pos_iff.mpr hs
    rw [if_neg (by omega), if_neg hs, runesOf_ascii s hascii]
    simp only
    generalize hnn : s.length = n at *
    have hL : 0 < (n + 3) / 4 := by omega
    have hshift : (n + 3) >>> 2 = (n + 3) / 4 := by rw [Nat.shiftRight_eq_div_pow]
    rw [hshift]
    have hzm : (if n &&& 3 > 0 then wrap32 (0xffffffff <<< ((n &&& 3) * 8)) else 0) = zmaskOf n := rfl
    rw [hzm]
    have hT : (256 : Nat) ^ n ≤ (2 ^ 32) ^ ((n + 3) / 4) := by
      rw [show (2 ^ 32 : Nat) = 256 ^ 4 from by norm_num, ← pow_mul]
      exact Nat.pow_le_pow_right (by decide) (by omega)
    have h0 : wv (List.replicate ((n + 3) / 4) 0) = 0 := by
      have := ofDigits_replicate_zero (2 ^ 32) ((n + 3) / 4) []
      simpa [wv, ofDigits_nil] using this
    have hspec := decLoop_spec (zmaskOf n) ((n + 3) / 4) (256 ^ n) hT hL
      (fun w0 rest hl hw hv => zmask_ok n hn w0 rest hl hw hv)
      s (List.replicate ((n + 3) / 4) 0) 0 (by simp)
      (by intro w hw; have := (List.mem_replicate.mp hw).2; omega)
      (by rw [h0]; decide)
      (by rw [Nat.zero_add, hnn]; exact Nat.pow_le_pow_left (by decide) n)
    cases hds : decChars s with
    | none =>
      rw [hds] at hspec
      simp only at hspec ⊢
      rw [hspec]
    | some ds =>
      rw [hds] at hspec
      simp only at hspec ⊢
      obtain ⟨outi, e1, e2, e3, e4⟩ := hspec
      rw [e1]
      simp only
      rw [h0, Nat.zero_mul, Nat.zero_add] at e4
      have hdsl : ds.length = n := by
        have := map_encChar_of_decChars s ds hds
        rw [← hnn, ← this.1]; simp
      have hds58 : ∀ d ∈ ds, d < 58 := (map_encChar_of_decChars s ds hds).2
      have hv58 : ofDigits 58 ds < 58 ^ n := by rw [← hdsl]; exact ofDigits_lt_pow (by decide) ds hds58
      have hv256 : wv outi < 256 ^ n := by
        rw [e4]; exact Nat.lt_of_lt_of_le hv58 (Nat.pow_le_pow_left (by decide) n)
      -- shape of the limbs
      cases ho : outi with
      | nil => rw [ho] at e2; simp at e2; omega
      | cons w0 rest =>
        rw [ho] at e2 e3 e4 hv256
        have hrl : rest.length = (n + 3) / 4 - 1 := by simp at e2; omega
        have hw0 : w0 < 2 ^ 32 := e3 w0 (by simp)
        have hrw : Words rest := fun x hx => e3 x (by simp [hx])
        -- bytesleft and the bound on the top limb
        have hbl : (if n &&& 3 > 0 then n &&& 3 else 4) = (if n % 4 > 0 then n % 4 else 4) := by rw [and3]
        rw [hbl]
        generalize hblv : (if n % 4 > 0 then n % 4 else 4) = bl
        have hbl4 : bl = 1 ∨ bl = 2 ∨ bl = 3 ∨ bl = 4 := by
          rw [← hblv]; split <;> omega
        have hn4 : n = bl + 4 * rest.length := by
          rw [← hblv, hrl]; split <;> omega
        have hw0bl : w0 < 256 ^ bl := by
          have hle := wv_head_le w0 rest
          have hpow : (2 ^ 32 : Nat) ^ rest.length = 256 ^ (4 * rest.length) := by
            rw [show (2 ^ 32 : Nat) = 256 ^ 4 from by norm_num, ← pow_mul]
          rw [hpow] at hle
          have h1 : 256 ^ n = 256 ^ bl * 256 ^ (4 * rest.length) := by rw [← pow_add, ← hn4]
          rw [h1] at hv256
          exact Nat.lt_of_mul_lt_mul_right (Nat.lt_of_le_of_lt hle hv256)
        obtain ⟨x1, x2, x3⟩ := extract_spec bl w0 rest hbl4 hw0bl hrw
        rw [← hn4] at x1
        generalize hout : extract bl (w0 :: rest) = out at *
        rw [x1, if_neg (by omega)]
        -- out = zeros ++ digits 256 v
        obtain ⟨R, hsplit, hRn, _⟩ := lz_drop out
        have hRlt : ∀ d ∈ R, d < 256 := by
          intro d hd; apply x2; rw [hsplit]; exact List.mem_append.mpr (Or.inr hd)
        have hRv : ofDigits 256 R = ofDigits 58 ds := by
          have := ofDigits_replicate_zero 256 (lz out) R
          rw [← hsplit] at this; rw [← this, x3, e4]
        have hR : R = digits 256 (ofDigits 58 ds) := by
          rw [← hRv]; exact (digits_ofDigits (by omega) R hRlt hRn).symm
        have hzc : (s.takeWhile (· == 49)).length = lz ds := zcount_eq s ds hds
        rw [hzc]
        have hlzout : lz out + R.length = n := by
          have := congrArg List.length hsplit
          simp at this; omega
        by_cases hv0 : ofDigits 58 ds = 0
        · -- all characters are '1'
          obtain ⟨hz1, hz2⟩ := all_zero_of_value_zero (by omega) ds hds58 hv0
          have hRnil : R = [] := by rw [hR, hv0]; rfl
          rw [hRnil, List.append_nil] at hsplit
          have hlo : lz out = n := by rw [hRnil] at hlzout; simpa using hlzout
          rw [hlo] at hsplit
          have hbinu : out ++ List.replicate ((n + 3) * 3 - n) 0 = List.replicate (n + ((n + 3) * 3 - n)) 0 := by
            rw [hsplit, List.replicate_append_replicate]
          rw [hbinu, lz_all_zero, List.length_replicate, if_neg (Nat.lt_irrefl _)]
          rw [← hbinu, List.take_append_of_le_length (by omega), List.take_of_length_le (by omega)]
          rw [hz2, hdsl, hv0]
          show Res.ok out = Res.ok (List.replicate n 0 ++ digits 256 0)
          rw [hsplit]; simp [digits, digitsRev, digitsRevF]
        · -- some significant byte
          have hRne : R ≠ [] := by
            intro h; rw [h] at hRv; exact hv0 hRv.symm
          have hlzb : lz (out ++ List.replicate ((n + 3) * 3 - n) 0) = lz out := by
            conv => lhs; rw [hsplit, List.append_assoc]
            exact lz_replicate_append _ _ (noLeadZero_append R _ hRne hRn)
          have hRpos : 0 < R.length := List.length_pos_iff.mpr hRne
          rw [hlzb, if_pos (by simp [x1]; omega), if_neg (by omega)]
          rw [List.take_append_of_le_length (by omega), List.take_of_length_le (by omega)]
          -- lz ds ≤ lz out
          obtain ⟨D, hdsplit, hDn, _⟩ := lz_drop ds
          have hDlt : ∀ d ∈ D, d < 58 := by
            intro d hd; apply hds58; rw [hdsplit]; exact List.mem_append.mpr (Or.inr hd)
          have hDv : ofDigits 58 D = ofDigits 58 ds := by
            have := ofDigits_replicate_zero 58 (lz ds) D
            rw [← hdsplit] at this; exact this.symm
          have hDl : lz ds + D.length = n := by
            have := congrArg List.length hdsplit
            simp at this; omega
          have hvD : ofDigits 58 ds < 256 ^ D.length := by
            rw [← hDv]
            exact Nat.lt_of_lt_of_le (ofDigits_lt_pow (by decide) D hDlt) (Nat.pow_le_pow_left (by decide) _)
          have hRl : R.length ≤ D.length := by rw [hR]; exact digits_length_le hvD
          have hle : lz ds ≤ lz out := by omega
          show Res.ok (out.drop (lz out - lz ds)) = Res.ok (List.replicate (lz ds) 0 ++ digits 256 (ofDigits 58 ds))
          have key : (List.replicate (lz out) 0 ++ R).drop (lz out - lz ds) = List.replicate (lz ds) 0 ++ R := by
            rw [List.drop_append_of_le_length (by simp), List.drop_replicate]
            congr 2
            omega
          rw [← hsplit] at key
          rw [key, hR]

/-! ### Part 6: strings with a byte ≥ 128 -/

theorem and_mask (x k : Nat) : x &&& (2 ^ k - 1) = x % 2 ^ k := Nat.and_two_pow_sub_one_eq_mod x k

theorem ite_fst_ge (C : Prop) [Decidable C] (v w : Nat) (h : C → 128 ≤ v) :
    128 ≤ (if C then (v, w) else (runeError, 1)).1 := by
  split
  · rename_i hc; exact h hc
  · decide

/-- a lead byte ≥ 0x80 never decodes to an ASCII rune -/
theorem decodeRune_ge (c : Nat) (rest : Bytes) (hc : 128 ≤ c) : 128 ≤ (decodeRune (c :: rest)).1 := by
  have hre : (128 : Nat) ≤ runeError := by decide
  have m1f : ∀ x : Nat, x &&& 31 = x % 32 := fun x => and_mask x 5
  have m0f : ∀ x : Nat, x &&& 15 = x % 16 := fun x => and_mask x 4
  have m07 : ∀ x : Nat, x &&& 7 = x % 8 := fun x => and_mask x 3
  have m3f : ∀ x : Nat, x &&& 63 = x % 64 := fun x => and_mask x 6
  simp only [decodeRune]
  rw [if_neg (by omega)]
  by_cases h1 : c < 0xC2
  · rw [if_pos h1]; exact hre
  · rw [if_neg h1]
    by_cases h2 : c < 0xE0
    · rw [if_pos h2]
      cases rest with
      | nil => exact hre
      | cons b1 t =>
        simp only
        apply ite_fst_ge
        intro _
        refine Nat.le_trans ?_ Nat.left_le_or
        rw [m1f, Nat.shiftLeft_eq]; omega
    · rw [if_neg h2]
      by_cases h3 : c < 0xF0
      · rw [if_pos h3]
        match rest with
        | [] => exact hre
        | [_] => exact hre
        | b1 :: b2 :: t =>
          simp only
          apply ite_fst_ge
          intro hcond
          refine Nat.le_trans ?_ Nat.left_le_or
          by_cases he0 : c = 0xE0
          · refine Nat.le_trans ?_ Nat.right_le_or
            rw [m3f, Nat.shiftLeft_eq]
            have h1' := hcond.1
            have h2' := hcond.2.1
            rw [if_pos he0] at h1'
            rw [if_neg (by omega)] at h2'
            omega
          · refine Nat.le_trans ?_ Nat.left_le_or
            rw [m0f, Nat.shiftLeft_eq]; omega
      · rw [if_neg h3]
        by_cases h4 : c < 0xF5
        · rw [if_pos h4]
          match rest with
          | [] => exact hre
          | [_] => exact hre
          | [_, _] => exact hre
          | b1 :: b2 :: b3 :: t =>
            simp only
            apply ite_fst_ge
            intro hcond
            refine Nat.le_trans ?_ Nat.left_le_or
            refine Nat.le_trans ?_ Nat.left_le_or
            by_cases hf0 : c = 0xF0
            · refine Nat.le_trans ?_ Nat.right_le_or
              rw [m3f, Nat.shiftLeft_eq]
              have h1' := hcond.1
              have h2' := hcond.2.1
              rw [if_pos hf0] at h1'
              rw [if_neg (by omega)] at h2'
              omega
            · refine Nat.le_trans ?_ Nat.left_le_or
              rw [m07, Nat.shiftLeft_eq]; omega
        · rw [if_neg h4]; exact hre

theorem runesGo_has_bad : ∀ (f : Nat) (s : Bytes), s.length ≤ f → (∃ c ∈ s, 128 ≤ c) → ∃ r ∈ runesGo f s, 128 ≤ r
  | 0, s, hl, ⟨c, hc, _⟩ => by
    have : s = [] := List.length_eq_zero_iff.mp (by omega)
    subst this; cases hc
  | f+1, [], _, ⟨c, hc, _⟩ => by cases hc
  | f+1, b :: r, hl, ⟨c, hc, h128⟩ => by
    simp only [runesGo]
    by_cases hb : 128 ≤ b
    · exact ⟨_, List.mem_cons_self, decodeRune_ge b r hb⟩
    · -- an ASCII byte is consumed alone; the bad byte is further on
      have hlt : b < 0x80 := by omega
      have hdr : decodeRune (b :: r) = (b, 1) := by simp [decodeRune, hlt]
      rw [hdr]
      simp only [List.drop_one, List.tail_cons]
      have hcr : c ∈ r := by
        rcases List.mem_cons.mp hc with h | h
        · subst h; omega
        · exact h
      obtain ⟨x, hx, hx128⟩ := runesGo_has_bad f r (by simp at hl; omega) ⟨c, hcr, h128⟩
      exact ⟨x, List.mem_cons_of_mem _ hx, hx128⟩

theorem runesOf_ne_nil (s : Bytes) (hs : s ≠ []) : runesOf s ≠ [] := by
  unfold runesOf
  cases s with
  | nil => exact absurd rfl hs
  | cons b r => simp [runesGo]

/-- **the limb-loop decoder is the big-integer definition on EVERY string**: besides the ASCII case, a string
containing a byte ≥ 128 yields a rune > 127 and both sides answer ErrInvalidChar; the two
"output number too big" errors are unreachable. -/
theorem decFast_eq_spec (s : Bytes) : decFast s = dec58 s := by
  by_cases hascii : ∀ c ∈ s, c < 128
  · exact decFast_eq_spec_ascii s hascii
  · have hbad : ∃ c ∈ s, 128 ≤ c := by
      apply Classical.byContradiction
      intro hne
      apply hascii
      intro c hc
      rcases Nat.lt_or_ge c 128 with h | h
      · exact h
      · exact absurd ⟨c, hc, h⟩ hne
    have hs : s ≠ [] := by
      intro h; subst h; obtain ⟨c, hc, _⟩ := hbad; cases hc
    obtain ⟨c, hc, hc128⟩ := hbad
    -- specification side
    have hspec : dec58 s = .err ErrInvalidChar := by
      unfold dec58
      rw [if_neg hs, decChars_none_of_bad s c hc (by unfold decChar; rw [if_neg (by omega)])]
    -- loop side
    obtain ⟨r, hr, hr128⟩ := runesGo_has_bad s.length s (Nat.le_refl _) ⟨c, hc, hc128⟩
    have hrn : decChars (runesOf s) = none :=
      decChars_none_of_bad (runesOf s) r hr (by unfold decChar; rw [if_neg (by omega)])
    rw [hspec]
    unfold decFast
    have hn : 0 < s.length := List.length_pos_iff.mpr hs
    rw [if_neg (by omega)]
    simp only
    generalize hrs : runesOf s = rs at *
    have hrsn : 0 < rs.length := List.length_pos_iff.mpr (by rw [← hrs]; exact runesOf_ne_nil s hs)
    generalize hnn : rs.length = n at *
    have hL : 0 < (n + 3) / 4 := by omega
    rw [Nat.shiftRight_eq_div_pow]
    have hzm : (if n &&& 3 > 0 then wrap32 (0xffffffff <<< ((n &&& 3) * 8)) else 0) = zmaskOf n := rfl
    rw [hzm]
    have hT : (256 : Nat) ^ n ≤ (2 ^ 32) ^ ((n + 3) / 4) := by
      rw [show (2 ^ 32 : Nat) = 256 ^ 4 from by norm_num, ← pow_mul]
      exact Nat.pow_le_pow_right (by decide) (by omega)
    have h0 : wv (List.replicate ((n + 3) / 4) 0) = 0 := by
      have := ofDigits_replicate_zero (2 ^ 32) ((n + 3) / 4) []
      simpa [wv, ofDigits_nil] using this
    have hloop := decLoop_spec (zmaskOf n) ((n + 3) / 4) (256 ^ n) hT hL
      (fun w0 rest hl hw hv => zmask_ok n hrsn w0 rest hl hw hv)
      rs (List.replicate ((n + 3) / 4) 0) 0 (by simp)
      (by intro w hw; have := (List.mem_replicate.mp hw).2; omega)
      (by rw [h0]; decide)
      (by rw [Nat.zero_add, hnn]; exact Nat.pow_le_pow_left (by decide) n)
    rw [hrn] at hloop
    simp only at hloop
    rw [show (2:Nat) ^ 2 = 4 from rfl, hloop]

end Sky.C15
