/-
  Sky.C15.Lemmas — positional-notation lemmas behind the C15 theorems (core Lean only).
-/
import Sky.C15.Spec
namespace Sky.C15
open Sky

/-! ### digitsRev / ofDigitsRev -/

theorem digitsRevF_fuel (b : Nat) : ∀ (n f : Nat), n ≤ f → digitsRevF b f n = digitsRevF b n n := by
  intro n
  induction n using Nat.strongRecOn with
  | _ n ih =>
    intro f hf
    cases f with
    | zero =>
      have : n = 0 := by omega
      subst this; rfl
    | succ f =>
      cases n with
      | zero => simp [digitsRevF]
      | succ m =>
        simp only [digitsRevF]
        by_cases hb : b < 2
        · simp [hb]
        · have hc : ¬ (b < 2 ∨ m + 1 = 0) := by omega
          rw [if_neg hc, if_neg hc]
          have hlt : (m + 1) / b < m + 1 := Nat.div_lt_self (by omega) (by omega)
          rw [ih _ hlt f (by omega), ih _ hlt m (by omega)]

theorem digitsRev_zero (b : Nat) : digitsRev b 0 = [] := rfl

theorem digitsRev_pos {b n : Nat} (hb : 2 ≤ b) (hn : n ≠ 0) :
    digitsRev b n = n % b :: digitsRev b (n / b) := by
  unfold digitsRev
  cases n with
  | zero => exact absurd rfl hn
  | succ m =>
    have hc : ¬ (b < 2 ∨ m + 1 = 0) := by omega
    simp only [digitsRevF, if_neg hc]
    have hlt : (m + 1) / b < m + 1 := Nat.div_lt_self (by omega) (by omega)
    rw [digitsRevF_fuel b _ m (by omega)]

theorem ofDigitsRev_digitsRev {b : Nat} (hb : 2 ≤ b) (n : Nat) : ofDigitsRev b (digitsRev b n) = n := by
  induction n using Nat.strongRecOn with
  | _ n ih =>
    by_cases hn : n = 0
    · subst hn; rw [digitsRev_zero]; rfl
    · rw [digitsRev_pos hb hn]
      simp only [ofDigitsRev]
      rw [ih (n / b) (Nat.div_lt_self (Nat.pos_of_ne_zero hn) (by omega))]
      exact Nat.mod_add_div n b

theorem digitsRev_lt {b : Nat} (hb : 2 ≤ b) (n : Nat) : ∀ d ∈ digitsRev b n, d < b := by
  induction n using Nat.strongRecOn with
  | _ n ih =>
    by_cases hn : n = 0
    · subst hn; rw [digitsRev_zero]; intro d hd; cases hd
    · rw [digitsRev_pos hb hn]
      intro d hd
      rcases List.mem_cons.mp hd with h | h
      · subst h; exact Nat.mod_lt _ (by omega)
      · exact ih (n / b) (Nat.div_lt_self (Nat.pos_of_ne_zero hn) (by omega)) d h

/-- "no trailing zero" for little-endian lists = no leading zero digit -/
def NoTrailZero : List Nat → Prop
  | [] => True
  | [d] => d ≠ 0
  | _ :: r => NoTrailZero r

theorem noTrailZero_cons {d : Nat} {r : List Nat} (hr : r ≠ []) : NoTrailZero (d :: r) ↔ NoTrailZero r := by
  cases r with
  | nil => exact absurd rfl hr
  | cons a t => simp [NoTrailZero]

theorem digitsRev_noTrail {b : Nat} (hb : 2 ≤ b) (n : Nat) : NoTrailZero (digitsRev b n) := by
  induction n using Nat.strongRecOn with
  | _ n ih =>
    by_cases hn : n = 0
    · subst hn; rw [digitsRev_zero]; trivial
    · rw [digitsRev_pos hb hn]
      by_cases hq : n / b = 0
      · rw [hq, digitsRev_zero]
        simp only [NoTrailZero]
        have : n < b := by
          rcases Nat.div_eq_zero_iff.mp hq with h | h <;> omega
        rw [Nat.mod_eq_of_lt this]; exact hn
      · have hne : digitsRev b (n / b) ≠ [] := by rw [digitsRev_pos hb hq]; simp
        rw [noTrailZero_cons hne]
        exact ih (n / b) (Nat.div_lt_self (Nat.pos_of_ne_zero hn) (by omega))

theorem ofDigitsRev_ne_zero {b : Nat} (hb : 2 ≤ b) : ∀ (ds : List Nat), ds ≠ [] → NoTrailZero ds →
    ofDigitsRev b ds ≠ 0
  | [], h, _ => absurd rfl h
  | [d], _, h => by simpa [ofDigitsRev, NoTrailZero] using h
  | d :: a :: t, _, h => by
    have h' : NoTrailZero (a :: t) := by simpa [NoTrailZero] using h
    have := ofDigitsRev_ne_zero hb (a :: t) (by simp) h'
    simp only [ofDigitsRev] at this ⊢
    intro h0
    have hz : b * (a + b * ofDigitsRev b t) = 0 := by omega
    rcases Nat.mul_eq_zero.mp hz with h1 | h1
    · omega
    · exact this h1

theorem digitsRev_ofDigitsRev {b : Nat} (hb : 2 ≤ b) : ∀ (ds : List Nat), (∀ d ∈ ds, d < b) →
    NoTrailZero ds → digitsRev b (ofDigitsRev b ds) = ds
  | [], _, _ => by simp [ofDigitsRev, digitsRev_zero]
  | d :: r, hlt, hnt => by
    have hd : d < b := hlt d (by simp)
    have hr : ∀ x ∈ r, x < b := fun x hx => hlt x (by simp [hx])
    by_cases hre : r = []
    · subst hre
      have hd0 : d ≠ 0 := by simpa [NoTrailZero] using hnt
      simp only [ofDigitsRev, Nat.mul_zero, Nat.add_zero]
      rw [digitsRev_pos hb hd0, Nat.mod_eq_of_lt hd, Nat.div_eq_of_lt hd, digitsRev_zero]
    · have hnt' : NoTrailZero r := (noTrailZero_cons hre).mp hnt
      have hv : ofDigitsRev b r ≠ 0 := ofDigitsRev_ne_zero hb r hre hnt'
      have hpos : 0 < b := by omega
      have hn : d + b * ofDigitsRev b r ≠ 0 := by
        intro h0
        have : b * ofDigitsRev b r = 0 := by omega
        rcases Nat.mul_eq_zero.mp this with h | h
        · omega
        · exact hv h
      simp only [ofDigitsRev]
      rw [digitsRev_pos hb hn]
      have h1 : (d + b * ofDigitsRev b r) % b = d := by
        rw [Nat.add_mul_mod_self_left]; exact Nat.mod_eq_of_lt hd
      have h2 : (d + b * ofDigitsRev b r) / b = ofDigitsRev b r := by
        rw [Nat.add_mul_div_left _ _ hpos, Nat.div_eq_of_lt hd, Nat.zero_add]
      rw [h1, h2, digitsRev_ofDigitsRev hb r hr hnt']

/-! ### big-endian view -/

theorem ofDigits_foldl (b : Nat) (ds : List Nat) (a : Nat) :
    ds.foldl (fun a d => a * b + d) a = a * b ^ ds.length + ofDigits b ds := by
  induction ds generalizing a with
  | nil => simp [ofDigits]
  | cons d r ih =>
    simp only [List.foldl_cons, List.length_cons, ofDigits]
    rw [ih (a * b + d), ih (0 * b + d)]
    simp only [ofDigits, Nat.zero_mul, Nat.zero_add, Nat.pow_succ]
    rw [Nat.add_mul, Nat.add_assoc, Nat.mul_assoc, Nat.mul_comm b]

theorem ofDigits_nil (b : Nat) : ofDigits b [] = 0 := rfl

theorem ofDigits_cons (b d : Nat) (r : List Nat) : ofDigits b (d :: r) = d * b ^ r.length + ofDigits b r := by
  simp only [ofDigits, List.foldl_cons]
  rw [ofDigits_foldl]; simp [ofDigits]

theorem ofDigits_append (b : Nat) (x y : List Nat) :
    ofDigits b (x ++ y) = ofDigits b x * b ^ y.length + ofDigits b y := by
  simp only [ofDigits, List.foldl_append]
  rw [ofDigits_foldl]; simp [ofDigits]

theorem ofDigits_reverse (b : Nat) (ds : List Nat) : ofDigits b ds.reverse = ofDigitsRev b ds := by
  induction ds with
  | nil => rfl
  | cons d r ih =>
    rw [List.reverse_cons, ofDigits_append, ih]
    simp [ofDigitsRev, ofDigits_cons, ofDigits_nil, Nat.mul_comm, Nat.add_comm]

theorem ofDigits_digits {b : Nat} (hb : 2 ≤ b) (n : Nat) : ofDigits b (digits b n) = n := by
  unfold digits; rw [ofDigits_reverse, ofDigitsRev_digitsRev hb]

theorem digits_lt {b : Nat} (hb : 2 ≤ b) (n : Nat) : ∀ d ∈ digits b n, d < b := by
  intro d hd; exact digitsRev_lt hb n d (by simpa [digits] using hd)

/-- no leading zero digit, big-endian -/
def NoLeadZero : List Nat → Prop
  | 0 :: _ => False
  | _ => True

theorem noTrailZero_reverse : ∀ (ds : List Nat), NoLeadZero ds → NoTrailZero ds.reverse := by
  intro ds
  induction ds with
  | nil => intro _; trivial
  | cons d r ih =>
    intro h
    by_cases hr : r = []
    · subst hr
      cases d with
      | zero => exact absurd h (by simp [NoLeadZero])
      | succ k => simp [NoTrailZero]
    · -- reverse (d :: r) = reverse r ++ [d]; trailing element is d
      rw [List.reverse_cons]
      have : ∀ (l : List Nat) (x : Nat), x ≠ 0 → NoTrailZero (l ++ [x]) := by
        intro l x hx
        induction l with
        | nil => simpa [NoTrailZero] using hx
        | cons a t iht =>
          have hne : t ++ [x] ≠ [] := by simp
          rw [List.cons_append, noTrailZero_cons hne]; exact iht
      apply this
      cases d with
      | zero => exact absurd h (by simp [NoLeadZero])
      | succ k => omega

theorem noLeadZero_reverse : ∀ (ds : List Nat), NoTrailZero ds → NoLeadZero ds.reverse := by
  intro ds
  induction ds with
  | nil => intro _; trivial
  | cons d r ih =>
    intro h
    by_cases hr : r = []
    · subst hr
      have : d ≠ 0 := by simpa [NoTrailZero] using h
      cases d with
      | zero => exact absurd rfl this
      | succ k => simp [NoLeadZero]
    · have h' := ih ((noTrailZero_cons hr).mp h)
      rw [List.reverse_cons]
      have hne : r.reverse ≠ [] := by simpa using hr
      cases hrr : r.reverse with
      | nil => exact absurd hrr hne
      | cons a t =>
        rw [hrr] at h'
        cases a with
        | zero => exact absurd h' (by simp [NoLeadZero])
        | succ k => simp [NoLeadZero]

theorem digits_noLead {b : Nat} (hb : 2 ≤ b) (n : Nat) : NoLeadZero (digits b n) :=
  noLeadZero_reverse _ (digitsRev_noTrail hb n)

theorem digits_ofDigits {b : Nat} (hb : 2 ≤ b) (ds : List Nat) (hlt : ∀ d ∈ ds, d < b) (hn : NoLeadZero ds) :
    digits b (ofDigits b ds) = ds := by
  have h := digitsRev_ofDigitsRev hb ds.reverse (by intro d hd; exact hlt d (by simpa using hd))
    (noTrailZero_reverse ds hn)
  unfold digits
  rw [← ofDigits_reverse, List.reverse_reverse] at h
  rw [h, List.reverse_reverse]

/-! ### leading zeros -/

theorem lz_split : ∀ (ds : List Nat), ∃ r, ds = List.replicate (lz ds) 0 ++ r ∧ NoLeadZero r
  | [] => ⟨[], by simp [lz], trivial⟩
  | 0 :: t => by
    obtain ⟨r, h1, h2⟩ := lz_split t
    refine ⟨r, ?_, h2⟩
    simp only [lz, List.replicate_succ, List.cons_append]
    rw [← h1]
  | (k+1) :: t => ⟨(k+1) :: t, by simp [lz], by simp [NoLeadZero]⟩

theorem lz_replicate_append (z : Nat) (r : List Nat) (h : NoLeadZero r) :
    lz (List.replicate z 0 ++ r) = z := by
  induction z with
  | zero =>
    simp only [List.replicate_zero, List.nil_append]
    cases r with
    | nil => rfl
    | cons a t =>
      cases a with
      | zero => exact absurd h (by simp [NoLeadZero])
      | succ k => rfl
  | succ z ih => simp [List.replicate_succ, lz, ih]

theorem ofDigits_replicate_zero (b z : Nat) (r : List Nat) :
    ofDigits b (List.replicate z 0 ++ r) = ofDigits b r := by
  induction z with
  | zero => simp
  | succ z ih => rw [List.replicate_succ, List.cons_append, ofDigits_cons, ih]; simp

/-- change of radix that keeps the number of leading zeros: the common shape of Encode and Decode -/
def conv (b b' : Nat) (ds : List Nat) : List Nat :=
  List.replicate (lz ds) 0 ++ digits b' (ofDigits b ds)

theorem conv_lt {b b' : Nat} (hb' : 2 ≤ b') (ds : List Nat) : ∀ d ∈ conv b b' ds, d < b' := by
  intro d hd
  rcases List.mem_append.mp hd with h | h
  · have := (List.mem_replicate.mp h).2; omega
  · exact digits_lt hb' _ d h

theorem conv_conv {b b' : Nat} (hb : 2 ≤ b) (hb' : 2 ≤ b') (ds : List Nat) (hlt : ∀ d ∈ ds, d < b) :
    conv b' b (conv b b' ds) = ds := by
  obtain ⟨r, hds, hr⟩ := lz_split ds
  have hrlt : ∀ d ∈ r, d < b := by
    intro d hd; apply hlt; rw [hds]; exact List.mem_append.mpr (Or.inr hd)
  unfold conv
  rw [lz_replicate_append _ _ (digits_noLead hb' _), ofDigits_replicate_zero, ofDigits_digits hb']
  have : ofDigits b ds = ofDigits b r := by
    conv => lhs; rw [hds]
    exact ofDigits_replicate_zero b _ r
  rw [this, digits_ofDigits hb r hrlt hr]
  exact hds.symm

theorem conv_eq_nil {b b' : Nat} (hb : 2 ≤ b) (hb' : 2 ≤ b') (ds : List Nat) (h : conv b b' ds = []) : ds = [] := by
  cases ds with
  | nil => rfl
  | cons a t =>
    exfalso
    unfold conv at h
    have h1 := List.append_eq_nil_iff.mp h
    cases a with
    | zero => simp [lz] at h1
    | succ k =>
      have hd : digits b' (ofDigits b ((k+1) :: t)) = [] := h1.2
      · have hv : ofDigits b ((k+1) :: t) ≠ 0 := by
          rw [ofDigits_cons]
          have : 0 < b ^ t.length := Nat.pow_pos (by omega)
          have : 0 < (k+1) * b ^ t.length := Nat.mul_pos (by omega) this
          omega
        have := ofDigits_digits hb' (ofDigits b ((k+1) :: t))
        rw [hd] at this; exact hv this.symm

/-! ### alphabet (facts about the REGENERATED constant, by kernel evaluation) -/

theorem alphabet_length : alphabet.length = 58 := by decide

theorem decChar_encChar : ∀ d, d < 58 → decChar (encChar d) = some d := by decide

def charOK (c : Nat) : Bool :=
  match decChar c with
  | some d => encChar d == c && decide (d < 58)
  | none => true

theorem charOK_lt128 : ∀ c, c < 128 → charOK c = true := by decide +kernel

theorem encChar_of_decChar {c d : Nat} (h : decChar c = some d) : encChar d = c ∧ d < 58 := by
  by_cases hc : c < 128
  · have := charOK_lt128 c hc
    simp only [charOK, h, Bool.and_eq_true, beq_iff_eq, decide_eq_true_eq] at this
    exact this
  · simp [decChar, hc] at h

theorem decChars_map_encChar : ∀ (ds : List Nat), (∀ d ∈ ds, d < 58) → decChars (ds.map encChar) = some ds
  | [], _ => rfl
  | d :: r, h => by
    simp only [List.map_cons, decChars]
    rw [decChar_encChar d (h d (by simp)), decChars_map_encChar r (fun x hx => h x (by simp [hx]))]

theorem map_encChar_of_decChars : ∀ (s ds : List Nat), decChars s = some ds →
    ds.map encChar = s ∧ ∀ d ∈ ds, d < 58
  | [], ds, h => by
    simp only [decChars, Option.some.injEq] at h; subst h; simp
  | c :: r, ds, h => by
    simp only [decChars] at h
    cases hc : decChar c with
    | none => simp [hc] at h
    | some d =>
      cases hr : decChars r with
      | none => simp [hc, hr] at h
      | some ds' =>
        simp only [hc, hr, Option.some.injEq] at h
        subst h
        have ⟨h1, h2⟩ := map_encChar_of_decChars r ds' hr
        have ⟨h3, h4⟩ := encChar_of_decChar hc
        refine ⟨by simp [h1, h3], ?_⟩
        intro x hx
        rcases List.mem_cons.mp hx with hx | hx
        · subst hx; exact h4
        · exact h2 x hx

/-- a byte ≥ 128 or outside the alphabet anywhere makes `decChars` fail -/
theorem decChars_none_of_bad (s : List Nat) (c : Nat) (hc : c ∈ s) (hbad : decChar c = none) :
    decChars s = none := by
  induction s with
  | nil => cases hc
  | cons a r ih =>
    simp only [decChars]
    rcases List.mem_cons.mp hc with h | h
    · subst h; simp [hbad]
    · rw [ih h]; cases decChar a <;> rfl

theorem decChars_some_of_good : ∀ (s : List Nat), (∀ c ∈ s, decChar c ≠ none) → ∃ ds, decChars s = some ds
  | [], _ => ⟨[], rfl⟩
  | c :: r, h => by
    obtain ⟨ds, hds⟩ := decChars_some_of_good r (fun x hx => h x (by simp [hx]))
    cases hc : decChar c with
    | none => exact absurd hc (h c (by simp))
    | some d => exact ⟨d :: ds, by simp [decChars, hc, hds]⟩

end Sky.C15
