/-
  Sky.C15.Spec — base58 and address text encodings as the big-integer definition (core Lean only).

  Bytes and string bytes are `List Nat` (a Go `string` is its byte sequence).  The specification:

    enc58 bs = '1' × (number of leading zero bytes)  ++  base-58 digits (no leading zero digit) of the
               big-endian value of bs, each digit mapped through the alphabet
    dec58 s  = error if s is empty or contains a byte that is not an alphabet character (in
               particular any byte ≥ 128), else
               0x00 × (number of leading '1')  ++  minimal big-endian bytes of the base-58 value of s

  The alphabet and the address field lengths are REGENERATED from the Go sources
  (Sky.Gen.B58Consts, translator tools/extract/b58consts).
-/
import Sky.Prim.Res
import Sky.Gen.B58Consts
namespace Sky.C15
open Sky

abbrev Bytes := List Nat

/-- every element is a byte -/
def IsBytes (bs : Bytes) : Prop := ∀ b ∈ bs, b < 256

/-! ### positional notation -/

/-- little-endian digits of `n` in base `b` with explicit fuel (structural recursion, so that the kernel
can evaluate it); `[]` for 0 and for the degenerate bases 0, 1. -/
def digitsRevF (b : Nat) : Nat → Nat → List Nat
  | 0, _ => []
  | f+1, n => if b < 2 ∨ n = 0 then [] else n % b :: digitsRevF b f (n / b)

/-- little-endian digits of `n` in base `b` (fuel `n` always suffices: `digitsRev_pos`). -/
def digitsRev (b n : Nat) : List Nat := digitsRevF b n n

/-- big-endian digits (most significant first, no leading zero digit; `[]` for 0). -/
def digits (b n : Nat) : List Nat := (digitsRev b n).reverse

/-- value of a little-endian digit list -/
def ofDigitsRev (b : Nat) : List Nat → Nat
  | [] => 0
  | d :: ds => d + b * ofDigitsRev b ds

/-- value of a big-endian digit list (leading zeros allowed) -/
def ofDigits (b : Nat) (ds : List Nat) : Nat := ds.foldl (fun a d => a * b + d) 0

/-- number of leading zeros -/
def lz : List Nat → Nat
  | 0 :: r => lz r + 1
  | _ => 0

/-! ### alphabet -/

def alphabet : List Nat := Sky.Gen.B58Consts.alphabet

/-- digit → character (Go: `alphabet.encode[d]`; out of range is an index panic in Go, never reached
for digits < 58; here it yields 0, which is not an alphabet character). -/
def encChar (d : Nat) : Nat := alphabet.getD d 0

/-- index of the first occurrence -/
def idxOf? (c : Nat) : List Nat → Option Nat
  | [] => none
  | a :: r => if a = c then some 0 else (idxOf? c r).map (· + 1)

/-- character → digit (Go: `r > 127 → ErrInvalidChar`, `alphabet.decode[r] == -1 → ErrInvalidChar`). -/
def decChar (c : Nat) : Option Nat := if c < 128 then idxOf? c alphabet else none

def decChars : Bytes → Option (List Nat)
  | [] => some []
  | c :: r => match decChar c, decChars r with
    | some d, some ds => some (d :: ds)
    | _, _ => none

/-! ### base58 -/

def ErrInvalidString : Err := .named "ErrInvalidString"
def ErrInvalidChar : Err := .named "ErrInvalidChar"

/-- `base58.Encode` as positional notation. -/
def enc58 (bs : Bytes) : Bytes :=
  (List.replicate (lz bs) 0 ++ digits 58 (ofDigits 256 bs)).map encChar

/-- `base58.Decode` as positional notation. -/
def dec58 (s : Bytes) : Res Bytes :=
  if s = [] then .err ErrInvalidString
  else match decChars s with
    | none => .err ErrInvalidChar
    | some ds => .ok (List.replicate (lz ds) 0 ++ digits 256 (ofDigits 58 ds))

/-! ### addresses -/

structure Addr where
  version : Nat
  key : Bytes
deriving DecidableEq, Repr

def keyLen : Nat := Sky.Gen.B58Consts.addrKeyLen
def verLen : Nat := Sky.Gen.B58Consts.addrVersionLen
def sumLen : Nat := Sky.Gen.B58Consts.addrChecksumLen

/-- well-formed address value: what the Go type `Address{Version byte; Key [20]byte}` enforces -/
def Addr.WF (a : Addr) : Prop := a.version < 256 ∧ a.key.length = 20 ∧ IsBytes a.key

/-- the hash parameter returns at least 4 bytes (Go: `SHA256 = [32]byte`) -/
def HashOK (H : Bytes → Bytes) : Prop := ∀ x, 4 ≤ (H x).length ∧ IsBytes (H x)

/-- `Address.Checksum`: first 4 bytes of `H(key ‖ version)` -/
def checksum (H : Bytes → Bytes) (a : Addr) : Bytes := (H (a.key ++ [a.version])).take 4

/-- `Address.Bytes`: key ‖ version ‖ checksum -/
def addrBytes (H : Bytes → Bytes) (a : Addr) : Bytes := a.key ++ [a.version] ++ checksum H a

/-- `Address.String` -/
def addrString (H : Bytes → Bytes) (a : Addr) : Bytes := enc58 (addrBytes H a)

def ErrAddressInvalidLength : Err := .named "ErrAddressInvalidLength"
def ErrAddressInvalidChecksum : Err := .named "ErrAddressInvalidChecksum"
def ErrAddressInvalidVersion : Err := .named "ErrAddressInvalidVersion"

/-- `AddressFromBytes`, in the code's order of checks: length, checksum, version. -/
def addrFromBytes (H : Bytes → Bytes) (b : Bytes) : Res Addr :=
  if b.length ≠ keyLen + verLen + sumLen then .err ErrAddressInvalidLength
  else
    let a : Addr := { version := b.getD 20 0, key := b.take 20 }
    if b.drop 21 ≠ checksum H a then .err ErrAddressInvalidChecksum
    else if a.version ≠ 0 then .err ErrAddressInvalidVersion
    else .ok a

/-- `DecodeBase58Address` -/
def decodeAddr (H : Bytes → Bytes) (s : Bytes) : Res Addr :=
  match dec58 s with
  | .ok b => addrFromBytes H b
  | .err e => .err e
  | .panic p => .panic p

end Sky.C15
