/-
  C19 — the wallet service's memory and disk views never diverge.
  Theorems about the abstract service lean/Sky/C19/Model.lean, for every operation sequence
  (including failing operations); the tie (harness/c19) runs the real wallet.Service and a second
  NewService on the same directory after every operation.
-/
import Sky.C19.Model
namespace Sky.Props.C19
open Sky.C19

/-! ### association-list lemmas -/

theorem get_remove_same (m : Map) (id : Id) : (m.remove id).get id = none := by
  unfold Map.get Map.remove
  have : (m.filter (·.1 ≠ id)).find? (·.1 = id) = none := by
    apply List.find?_eq_none.mpr
    intro x hx
    have := (List.mem_filter.mp hx).2
    simpa using this
  simp [this]

theorem find_filter_other (m : Map) (id id' : Id) (h : id' ≠ id) :
    (m.filter (·.1 ≠ id)).find? (·.1 = id') = m.find? (·.1 = id') := by
  induction m with
  | nil => rfl
  | cons x r ih =>
    by_cases hx : x.1 = id
    · have hne : ¬ x.1 = id' := by rw [hx]; exact fun e => h e.symm
      have h1 : List.filter (fun y : Id × AW => decide (y.1 ≠ id)) (x :: r) = List.filter (fun y => decide (y.1 ≠ id)) r := by
        rw [List.filter_cons]; simp [hx]
      rw [h1, ih, List.find?_cons]; simp [hne]
    · have h1 : List.filter (fun y : Id × AW => decide (y.1 ≠ id)) (x :: r) = x :: List.filter (fun y => decide (y.1 ≠ id)) r := by
        rw [List.filter_cons]; simp [hx]
      rw [h1, List.find?_cons, List.find?_cons, ih]

theorem get_remove_other (m : Map) (id id' : Id) (h : id' ≠ id) : (m.remove id).get id' = m.get id' := by
  unfold Map.get Map.remove
  rw [find_filter_other m id id' h]

theorem get_set_same (m : Map) (id : Id) (w : AW) : (m.set id w).get id = some w := by
  simp [Map.get, Map.set, List.find?_cons]

theorem get_set_other (m : Map) (id id' : Id) (w : AW) (h : id' ≠ id) : (m.set id w).get id' = m.get id' := by
  have h' : ¬ id = id' := fun e => h e.symm
  have := get_remove_other m id id' h
  unfold Map.get Map.set at *
  rw [List.find?_cons]
  simp only [h', decide_false]
  exact this

/-! ### the invariant -/

structure Inv (s : St) : Prop where
  /-- every non-temporary wallet in memory is on disk, identical -/
  memDisk : ∀ id w, s.mem.get id = some w → w.temp = false → s.disk.get id = some w
  /-- every file on disk belongs to a loaded (non-temporary) wallet, or was explicitly unloaded -/
  diskMem : ∀ id, (s.disk.get id).isSome → (∃ w, s.mem.get id = some w ∧ w.temp = false) ∨ id ∈ s.unloaded
  /-- the fingerprint table is exactly the fingerprints of the loaded wallets -/
  fpsSound : ∀ f id, (f, id) ∈ s.fps → ∃ w, s.mem.get id = some w ∧ w.fp = some f
  fpsComplete : ∀ id w f, s.mem.get id = some w → w.fp = some f → (f, id) ∈ s.fps
  fpsFun : ∀ f id1 id2, (f, id1) ∈ s.fps → (f, id2) ∈ s.fps → id1 = id2

theorem inv_init : Inv {} := by
  refine ⟨?_, ?_, ?_, ?_, ?_⟩ <;> intros <;> simp_all [Map.get]

/-- an operation that rewrites an existing wallet without touching its fingerprint or temp flag -/
theorem commit_inv {s : St} (h : Inv s) (id : Id) (w w' : AW) (hw : s.mem.get id = some w)
    (hfp : w'.fp = w.fp) (htemp : w'.temp = w.temp) : Inv (commit s id w') := by
  obtain ⟨i1, i2, i3, i4, i5⟩ := h
  refine ⟨?_, ?_, ?_, ?_, ?_⟩
  · intro id' x hx hxt
    simp only [commit] at hx ⊢
    by_cases e : id' = id
    · subst e
      rw [get_set_same] at hx; injection hx with hx; subst hx
      simp [hxt, get_set_same]
    · rw [get_set_other _ _ _ _ e] at hx
      have := i1 id' x hx hxt
      split
      · exact this
      · rw [get_set_other _ _ _ _ e]; exact this
  · intro id' hd
    simp only [commit] at hd ⊢
    by_cases e : id' = id
    · subst e
      by_cases ht : w'.temp = true
      · -- a temporary wallet is never written: the file (if any) predates it
        rw [if_pos ht] at hd
        rcases i2 id' hd with ⟨x, hx, hxt⟩ | a
        · rw [hw] at hx; injection hx with hx; subst hx
          rw [htemp] at ht; rw [ht] at hxt; cases hxt
        · exact Or.inr a
      · exact Or.inl ⟨w', get_set_same _ _ _, by simpa using ht⟩
    · rw [get_set_other _ _ _ _ e]
      apply i2
      split at hd
      · exact hd
      · rwa [get_set_other _ _ _ _ e] at hd
  · intro f id' hf
    obtain ⟨x, hx, hxf⟩ := i3 f id' hf
    simp only [commit]
    by_cases e : id' = id
    · subst e
      rw [hw] at hx; injection hx with hx; subst hx
      exact ⟨w', get_set_same _ _ _, by rw [hfp]; exact hxf⟩
    · exact ⟨x, by rw [get_set_other _ _ _ _ e]; exact hx, hxf⟩
  · intro id' x f hx hxf
    simp only [commit] at hx ⊢
    by_cases e : id' = id
    · subst e
      rw [get_set_same] at hx; injection hx with hx; subst hx
      exact i4 id' w f hw (by rw [← hfp]; exact hxf)
    · rw [get_set_other _ _ _ _ e] at hx
      exact i4 id' x f hx hxf
  · exact i5

/-- a new wallet under a free name and a free fingerprint -/
theorem addNew_inv {s : St} (h : Inv s) (id : Id) (w : AW) (hnone : s.mem.get id = none)
    (hfree : ∀ f, w.fp = some f → ∀ id', (f, id') ∉ s.fps) : Inv (addNew s id w) := by
  obtain ⟨i1, i2, i3, i4, i5⟩ := h
  refine ⟨?_, ?_, ?_, ?_, ?_⟩
  · intro id' x hx hxt
    simp only [addNew, commit] at hx ⊢
    by_cases e : id' = id
    · subst e
      rw [get_set_same] at hx; injection hx with hx; subst hx
      simp [hxt, get_set_same]
    · rw [get_set_other _ _ _ _ e] at hx
      have := i1 id' x hx hxt
      split
      · exact this
      · rw [get_set_other _ _ _ _ e]; exact this
  · intro id' hd
    simp only [addNew, commit] at hd ⊢
    by_cases e : id' = id
    · subst e
      by_cases ht : w.temp = true
      · rw [if_pos ht] at hd
        rcases i2 id' hd with ⟨x, hx, _⟩ | a
        · rw [hnone] at hx; cases hx
        · right; rw [if_pos ht]; exact a
      · exact Or.inl ⟨w, get_set_same _ _ _, by simpa using ht⟩
    · rw [get_set_other _ _ _ _ e]
      have hd' : (s.disk.get id').isSome := by
        split at hd
        · exact hd
        · rwa [get_set_other _ _ _ _ e] at hd
      rcases i2 id' hd' with a | a
      · exact Or.inl a
      · right
        split
        · exact a
        · exact List.mem_filter.mpr ⟨a, by simpa using e⟩
  · intro f' id' hf'
    simp only [addNew, commit] at hf' ⊢
    have old : (f', id') ∈ s.fps → ∃ x, (s.mem.set id w).get id' = some x ∧ x.fp = some f' := by
      intro hm
      obtain ⟨x, hx, hxf⟩ := i3 f' id' hm
      have : id' ≠ id := by intro e'; subst e'; rw [hnone] at hx; cases hx
      exact ⟨x, by rw [get_set_other _ _ _ _ this]; exact hx, hxf⟩
    cases hfp : w.fp with
    | none => rw [hfp] at hf'; exact old hf'
    | some f =>
      rw [hfp] at hf'
      rcases List.mem_cons.mp hf' with e | e
      · injection e with e1 e2; subst e1 e2
        exact ⟨w, get_set_same _ _ _, hfp⟩
      · exact old e
  · intro id' x f' hx hxf
    simp only [addNew, commit] at hx ⊢
    by_cases e : id' = id
    · subst e
      rw [get_set_same] at hx; injection hx with hx; subst hx
      rw [hxf]; exact List.mem_cons_self
    · rw [get_set_other _ _ _ _ e] at hx
      have := i4 id' x f' hx hxf
      cases hfp : w.fp with
      | none => exact this
      | some f => exact List.mem_cons_of_mem _ this
  · intro f' id1 id2 h1 h2
    simp only [addNew, commit] at h1 h2
    cases hfp : w.fp with
    | none => rw [hfp] at h1 h2; exact i5 f' id1 id2 h1 h2
    | some f =>
      rw [hfp] at h1 h2
      rcases List.mem_cons.mp h1 with e1 | e1 <;> rcases List.mem_cons.mp h2 with e2 | e2
      · injection e1 with _ a; injection e2 with _ b; rw [a, b]
      · injection e1 with a _; subst a; exact absurd e2 (hfree f' hfp id2)
      · injection e2 with a _; subst a; exact absurd e1 (hfree f' hfp id1)
      · exact i5 f' id1 id2 e1 e2

/-- **failed_op_no_change**: an operation that returns an error leaves memory, disk, the
fingerprint table and the unloaded set exactly as they were -/
theorem failed_op_no_change (s : St) (op : Op) (e : E) (h : (step s op).2 = some e) : (step s op).1 = s := by
  cases op <;> simp only [step] at h ⊢ <;> (repeat' split at h) <;> (repeat' split) <;> simp_all

theorem create_tail_inv {s : St} (h : Inv s) (id : Id) (w : AW) :
    Inv (if fpTaken s w then (s, some E.fpConflict)
         else if (s.mem.get id).isSome then (s, some E.nameConflict) else (addNew s id w, none)).1 := by
  by_cases c1 : fpTaken s w = true
  · rw [if_pos c1]; exact h
  rw [if_neg c1]
  by_cases c2 : (s.mem.get id).isSome = true
  · rw [if_pos c2]; exact h
  rw [if_neg c2]
  apply addNew_inv h
  · cases hg : s.mem.get id <;> simp_all
  · intro f hf id' hm
    apply c1
    unfold fpTaken
    simp only [hf, List.any_eq_true, decide_eq_true_eq]
    exact ⟨_, hm, rfl⟩

/-- **read_only_no_change**: GetWalletSeed and ViewSecrets never change memory, disk, fingerprints or
the unloaded set, whether they succeed or fail -/
theorem read_only_no_change (s : St) (id : Id) (pw : Pw) :
    (step s (.getSeed id pw)).1 = s ∧ (step s (.view id pw)).1 = s := by
  constructor <;> simp only [step] <;> (repeat' split) <;> rfl

/-- every operation preserves the invariant -/
theorem step_inv (s : St) (op : Op) (h : Inv s) : Inv (step s op).1 := by
  cases op with
  | create id typ seed label n encrypt pw temp =>
    simp only [step]
    split; · exact h
    split; · exact h
    split; · exact h
    exact create_tail_inv h id _
  | newAddr id n pw =>
    simp only [step]
    split; · exact h
    rename_i w hw
    split; · exact h
    exact commit_inv h id w _ hw rfl rfl
  | scan id n keep keepChg pw =>
    simp only [step]
    split; · exact h
    rename_i w hw
    split
    · split; · exact h
      split
      · exact commit_inv h id w _ hw rfl rfl
      · exact commit_inv h id w _ hw rfl rfl
    · split; · exact h
      split; · exact h
      split
      · exact commit_inv h id w _ hw rfl rfl
      · exact commit_inv h id w _ hw rfl rfl
  | label id l =>
    simp only [step]
    split; · exact h
    rename_i w hw
    exact commit_inv h id w _ hw rfl rfl
  | encrypt id pw =>
    simp only [step]
    split; · exact h
    rename_i w hw
    split; · exact h
    split; · exact h
    split; · exact h
    exact commit_inv h id w _ hw rfl rfl
  | decrypt id pw =>
    simp only [step]
    split; · exact h
    rename_i w hw
    split; · exact h
    split; · exact h
    split; · exact h
    exact commit_inv h id w _ hw rfl rfl
  | recover id seed pw =>
    simp only [step]
    split; · exact h
    rename_i w hw
    split; · exact h
    split; · exact h
    split; · exact h
    exact commit_inv h id w _ hw rfl rfl
  | update id l =>
    simp only [step]
    split; · exact h
    rename_i w hw
    split; · exact h
    exact commit_inv h id w _ hw rfl rfl
  | updateSecrets id pw l =>
    simp only [step]
    split; · exact h
    rename_i w hw
    split; · exact h
    split; · exact h
    exact commit_inv h id w _ hw rfl rfl
  | getSeed id pw =>
    simp only [step]
    repeat' split
    all_goals exact h
  | view id pw =>
    simp only [step]
    repeat' split
    all_goals exact h
  | unload id =>
    simp only [step]
    split; · exact h
    rename_i w hw
    obtain ⟨i1, i2, i3, i4, i5⟩ := h
    have fpsub : ∀ p, p ∈ dropFp s.fps w → p ∈ s.fps := by
      intro p hp
      unfold dropFp at hp
      split at hp
      · exact (List.mem_filter.mp hp).1
      · exact hp
    refine ⟨?_, ?_, ?_, ?_, ?_⟩
    · intro id' x hx hxt
      simp only at hx ⊢
      have e : id' ≠ id := by intro e; subst e; rw [get_remove_same] at hx; cases hx
      rw [get_remove_other _ _ _ e] at hx
      exact i1 id' x hx hxt
    · intro id' hd
      simp only at hd ⊢
      by_cases e : id' = id
      · subst e
        right
        by_cases ht : w.temp = true
        · rw [if_pos ht]
          rcases i2 id' hd with ⟨x, hx, hxt⟩ | a
          · rw [hw] at hx; injection hx with hx; subst hx; rw [ht] at hxt; cases hxt
          · exact a
        · rw [if_neg ht]; exact List.mem_cons_self
      · rw [get_remove_other _ _ _ e]
        rcases i2 id' hd with a | a
        · exact Or.inl a
        · right; split
          · exact a
          · exact List.mem_cons_of_mem _ a
    · intro f id' hf
      simp only at hf ⊢
      obtain ⟨x, hx, hxf⟩ := i3 f id' (fpsub _ hf)
      have e : id' ≠ id := by
        intro e; subst e
        rw [hw] at hx; injection hx with hx; subst hx
        unfold dropFp at hf
        rw [hxf] at hf
        have := (List.mem_filter.mp hf).2
        simp at this
      exact ⟨x, by rw [get_remove_other _ _ _ e]; exact hx, hxf⟩
    · intro id' x f hx hxf
      simp only at hx ⊢
      have e : id' ≠ id := by intro e; subst e; rw [get_remove_same] at hx; cases hx
      rw [get_remove_other _ _ _ e] at hx
      have hm := i4 id' x f hx hxf
      unfold dropFp
      cases hfp : w.fp with
      | none => exact hm
      | some f0 =>
        refine List.mem_filter.mpr ⟨hm, ?_⟩
        simp only [decide_eq_true_eq]
        intro ef
        have : f = f0 := ef
        subst this
        exact e (i5 f id' id hm (i4 id w f hw hfp))
    · intro f id1 id2 h1 h2
      exact i5 f id1 id2 (fpsub _ h1) (fpsub _ h2)

/-- the invariant holds after every operation sequence -/
theorem run_inv (ops : List Op) : Inv (run ops) := by
  have : ∀ (ops : List Op) (s : St), Inv s → Inv (ops.foldl (fun s op => (step s op).1) s) := by
    intro ops
    induction ops with
    | nil => intro s h; exact h
    | cons op r ih => intro s h; exact ih _ (step_inv s op h)
  exact this ops {} inv_init

/-- **mem_disk_agree**: after any sequence of service operations every non-temporary wallet in
memory is on disk with identical content, and every wallet file on disk is a loaded non-temporary
wallet or one that was explicitly unloaded -/
theorem mem_disk_agree (ops : List Op) :
    (∀ id w, (run ops).mem.get id = some w → w.temp = false → (run ops).disk.get id = some w) ∧
    (∀ id, ((run ops).disk.get id).isSome →
        (∃ w, (run ops).mem.get id = some w ∧ w.temp = false) ∨ id ∈ (run ops).unloaded) :=
  ⟨(run_inv ops).memDisk, (run_inv ops).diskMem⟩

/-- **reload_eq** (pointwise): a file that a freshly started service loads under a name that is
also loaded here (and not temporary) has exactly the in-memory content -/
theorem reload_eq (ops : List Op) (id : Id) (w d : AW) (hm : (run ops).mem.get id = some w)
    (ht : w.temp = false) (hd : (run ops).disk.get id = some d) : d = w := by
  have := (run_inv ops).memDisk id w hm ht
  rw [this] at hd; injection hd with hd; exact hd.symm

/-- **fingerprints_injective**: no two loaded wallets share a fingerprint (seed), and the
fingerprint table is exactly the loaded wallets' fingerprints -/
theorem fingerprints_injective (ops : List Op) (id1 id2 : Id) (w1 w2 : AW) (f : WType × Nat)
    (h1 : (run ops).mem.get id1 = some w1) (h2 : (run ops).mem.get id2 = some w2)
    (f1 : w1.fp = some f) (f2 : w2.fp = some f) : id1 = id2 :=
  (run_inv ops).fpsFun f id1 id2 ((run_inv ops).fpsComplete id1 w1 f h1 f1) ((run_inv ops).fpsComplete id2 w2 f h2 f2)

theorem fps_exact (ops : List Op) (f : WType × Nat) (id : Id) :
    (f, id) ∈ (run ops).fps ↔ ∃ w, (run ops).mem.get id = some w ∧ w.fp = some f :=
  ⟨(run_inv ops).fpsSound f id, fun ⟨w, hw, hf⟩ => (run_inv ops).fpsComplete id w f hw hf⟩

/-! ### the known finding: unload frees the fingerprint while the file stays

`UnloadWallet` deletes the fingerprint of a wallet whose file remains in the wallet directory;
creating a wallet from the same seed then succeeds, and the directory holds two files with one
fingerprint: a freshly started service refuses to start ("duplicate wallet found"). -/

def dupOps : List Op :=
  [.create "a.wlt" .deterministic 7 "A" 1 false 0 false, .unload "a.wlt",
   .create "b.wlt" .deterministic 7 "B" 1 false 0 false]

example : loadAll (run dupOps).disk = none := by decide
example : ((run dupOps).mem.map (fun (p : Id × AW) => p.1)) = ["b.wlt"] := by decide
-- without the unload the second create is refused and nothing changes
example : (step (run (dupOps.take 1)) (.create "b.wlt" .deterministic 7 "B" 1 false 0 false)).2 = some .fpConflict := by decide

/-! ### non-vacuity -/

def exOps : List Op :=
  [.create "a.wlt" .deterministic 1 "A" 2 false 0 false, .create "t.wlt" .bip44 2 "T" 1 false 0 true,
   .newAddr "a.wlt" 3 0, .encrypt "a.wlt" 5, .newAddr "a.wlt" 1 6, .newAddr "a.wlt" 1 5,
   .create "c.wlt" .deterministic 1 "dup" 1 false 0 false, .label "t.wlt" "T2", .decrypt "a.wlt" 5]

example : ((run exOps).mem.map fun p => (p.1, p.2.next, p.2.enc)) = [("a.wlt", 6, none), ("t.wlt", 1, none)] := by decide
example : ((run exOps).disk.map fun p => (p.1, p.2.next)) = [("a.wlt", 6)] := by decide
example : loadAll (run exOps).disk = some (run exOps).disk := by decide

end Sky.Props.C19
