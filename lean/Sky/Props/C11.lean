/-
  C11 — property theorems.  The hand model of the soft-rule path (`Sky.C11.verifySoft`, tied to
  transaction.VerifySingleTxnSoftConstraints / Visor.InjectUserTransaction by the correspondence
  harness) is instantiated with the primitives REGENERATED from the Go source on every run
  (UxOut.CoinHours, mathutil.AddUint64, fee.VerifyTransactionFeeForHours / RequiredFee,
  params.DropletPrecisionToDivisor / DropletPrecisionCheck).  All statements are for all transactions,
  input sets, head times and parameters in their validated ranges, with no size bounds.
-/
import Sky.C11.Lemmas
namespace Sky.Props.C11
open Sky Sky.C11 Sky.C31 Sky.Props.C31

/-- the validated parameter ranges (`params.VerifyTxn.Validate`, `params.Distribution.Validate`) -/
structure ValidParams (pr : Params) (d : Dist) : Prop where
  burn_lo : 2 ≤ pr.burn
  burn_hi : pr.burn < 2^32
  size_lo : 1024 ≤ pr.maxSize
  prec : pr.prec ≤ 6
  dist : d.unlocked ≤ d.n

/-- the divisor is `10^(6−precision)` and the precision rule is divisibility by it (regenerated code) -/
theorem precision_rule (p a : Nat) (hp : p ≤ 6) :
    Sky.Gen.Droplet.DropletPrecisionCheck p a =
      if a % 10 ^ (6 - p) ≠ 0 then .err (.named "ErrInvalidDecimals") else .ok () := by
  rw [precision_spec p a (by omega)]
  unfold specPrecisionCheck
  rw [if_neg (by omega)]

/-- **the model over the regenerated primitives equals the model over their specifications** -/
theorem soft_gen_eq_spec (size : Res Nat) (pr : Params) (d : Dist) (t : Nat) (ins : List In) (outs : List Out)
    (ht : t < 2^64) (hi : InsInRange ins) (ho : OutsInRange outs) (hb : pr.burn < 2^32) (hp : pr.prec < 256) :
    verifySoft genPrims size pr d t ins outs = verifySoft specPrims size pr d t ins outs := by
  have h0 : (0 : Nat) < 2^64 := Nat.two_pow_pos 64
  have hin := inputHours_gen_eq t ht ins 0 hi h0
  have hout := outputHours_gen_eq outs 0 ho h0
  have hfee : transactionFee genPrims t ins outs = transactionFee specPrims t ins outs := by
    unfold transactionFee; rw [hin, hout]
  have hfeelt : ∀ f, transactionFee specPrims t ins outs = .ok f → f < 2^64 := by
    intro f hf
    unfold transactionFee at hf
    cases hI : inputHours specPrims t ins 0 with
    | panic p => rw [hI] at hf; cases hf
    | err e => rw [hI] at hf; cases hf
    | ok hinv =>
      obtain ⟨_, _, _, h3⟩ := (inputHours_ok_iff t ins 0 hinv h0).1 hI
      rw [hI] at hf
      cases hO : outputHours specPrims outs 0 with
      | panic p => rw [hO] at hf; cases hf
      | err e => rw [hO] at hf; cases hf
      | ok houtv =>
        rw [hO] at hf
        simp only [] at hf
        split at hf
        · cases hf
        · cases hf; unfold sub64; omega
  have hvf : ∀ f, f < 2^64 →
      verifyTransactionFee genPrims outs f pr.burn = verifyTransactionFee specPrims outs f pr.burn := by
    intro f hf
    unfold verifyTransactionFee
    rw [hout, outputHours_spec outs 0 h0]
    simp only [Nat.zero_add]
    by_cases hso : sumOut outs < 2^64
    · simp only [hso, if_true]
      exact verifyFee_spec _ _ _ hso hf hb
    · simp only [hso, if_false]
  unfold verifySoft
  rw [hfee, precisionAll_gen_eq pr.prec hp outs]
  cases size with
  | panic p => simp only []
  | err e => simp only []
  | ok sz =>
    simp only []
    by_cases hsz : sz > pr.maxSize
    · simp only [hsz, if_true]
    · simp only [hsz, if_false]
      cases hF : transactionFee specPrims t ins outs with
      | panic p => simp only []
      | err e => simp only []
      | ok f => simp only []; rw [hvf f (hfeelt f hF)]

/-- **the soft rules as a decision list** (first failing rule decides the error), in terms of plain
sums: `hs.sum` = total accrued input hours at the head time, `sumOut` = total output hours. -/
theorem soft_decision (sz : Nat) (pr : Params) (d : Dist) (t : Nat) (ins : List In) (outs : List Out)
    (hv : ValidParams pr d) (hs : List Nat) (hh : HoursAre t ins hs) (hfit : hs.sum < 2^64) :
    verifySoft specPrims (.ok sz) pr d t ins outs =
      if sz > pr.maxSize then .err (.named "ErrTxnExceedsMaxBlockSize")
      else if ¬ sumOut outs < 2^64 then .err ovfErr
      else if hs.sum < sumOut outs then .err (.named "ErrTxnInsufficientCoinHours")
      else if hs.sum - sumOut outs = 0 then .err (.named "ErrTxnNoFee")
      else if hs.sum - sumOut outs < ceilDiv hs.sum pr.burn then .err (.named "ErrTxnInsufficientFee")
      else if spendsLocked d ins then .err (.named "ErrTxnIsLocked")
      else precisionAll specPrims pr.prec outs := by
  unfold verifySoft
  dsimp only
  rw [transactionFee_closed t ins outs hs hh hfit, isLocked_closed d ins hv.dist]
  by_cases h1 : sz > pr.maxSize
  · rw [if_pos h1, if_pos h1]
  rw [if_neg h1, if_neg h1]
  by_cases h2 : ¬ sumOut outs < 2^64
  · rw [if_pos h2, if_pos h2]
  rw [if_neg h2, if_neg h2]
  by_cases h3 : hs.sum < sumOut outs
  · rw [if_pos h3, if_pos h3]
  rw [if_neg h3, if_neg h3]
  dsimp only
  rw [verifyTransactionFee_closed, if_neg h2,
    specVerifyFee_closed hs.sum (sumOut outs) pr.burn (by omega) hfit hv.burn_lo]
  by_cases h4 : hs.sum - sumOut outs = 0
  · rw [if_pos h4, if_pos h4]
  rw [if_neg h4, if_neg h4]
  by_cases h5 : hs.sum - sumOut outs < ceilDiv hs.sum pr.burn
  · rw [if_pos h5, if_pos h5]
  rw [if_neg h5, if_neg h5]
  dsimp only
  cases spendsLocked d ins with
  | true => rfl
  | false => rfl

/-- **C11, first sentence.** A transaction passes the soft rules iff its encoded size is within the
limit, every input's accrued hours are defined and their sum fits 64 bits, the output hours fit and
do not exceed the input hours, the fee `Σin − Σout` is non-zero and at least
`⌈(Σout + fee)/burn⌉ = ⌈Σin/burn⌉`, no input is owned by a locked distribution address, and every
output amount is a multiple of `10^(6−precision)`. -/
theorem soft_iff (size : Res Nat) (pr : Params) (d : Dist) (t : Nat) (ins : List In) (outs : List Out)
    (hv : ValidParams pr d) :
    verifySoft specPrims size pr d t ins outs = .ok () ↔
      ∃ sz hs, size = .ok sz ∧ sz ≤ pr.maxSize ∧ HoursAre t ins hs ∧ hs.sum < 2^64 ∧
        sumOut outs < 2^64 ∧ sumOut outs ≤ hs.sum ∧ hs.sum - sumOut outs ≠ 0 ∧
        ceilDiv (sumOut outs + (hs.sum - sumOut outs)) pr.burn ≤ hs.sum - sumOut outs ∧
        spendsLocked d ins = false ∧ ∀ o ∈ outs, o.coins % 10 ^ (6 - pr.prec) = 0 := by
  constructor
  · intro h
    cases size with
    | panic p => simp [verifySoft] at h
    | err e => simp [verifySoft] at h
    | ok sz =>
      -- the input hours must have been computed
      have hI : ∃ hin, inputHours specPrims t ins 0 = .ok hin := by
        unfold verifySoft transactionFee at h
        simp only [] at h
        split at h; · cases h
        cases hI : inputHours specPrims t ins 0 with
        | panic p => rw [hI] at h; simp at h
        | err e => rw [hI] at h; simp at h
        | ok hin => exact ⟨hin, rfl⟩
      obtain ⟨hin, hI⟩ := hI
      obtain ⟨hs, hh, hsum, hfit⟩ := (inputHours_ok_iff t ins 0 hin (Nat.two_pow_pos 64)).1 hI
      simp only [Nat.zero_add] at hsum
      subst hsum
      rw [soft_decision sz pr d t ins outs hv hs hh hfit] at h
      split at h; · cases h
      split at h; · cases h
      split at h; · cases h
      split at h; · cases h
      split at h; · cases h
      split at h; · cases h
      rename_i h1 h2 h3 h4 h5 h6
      refine ⟨sz, hs, rfl, by omega, hh, hfit, by omega, by omega, h4, ?_, by simpa using h6,
        (precisionAll_ok_iff pr.prec hv.prec outs).1 h⟩
      have : sumOut outs + (hs.sum - sumOut outs) = hs.sum := by omega
      rw [this]; omega
  · rintro ⟨sz, hs, rfl, h1, hh, hfit, h2, h3, h4, h5, h6, h7⟩
    rw [soft_decision sz pr d t ins outs hv hs hh hfit]
    have : sumOut outs + (hs.sum - sumOut outs) = hs.sum := by omega
    rw [this] at h5
    rw [if_neg (by omega), if_neg (by omega), if_neg (by omega), if_neg h4, if_neg (by omega), h6]
    simp only [Bool.false_eq_true, if_false]
    exact (precisionAll_ok_iff pr.prec hv.prec outs).2 h7

/-- the same equivalence stated directly for the model over the REGENERATED primitives (all 64-bit
field values) -/
theorem soft_iff_regenerated (size : Res Nat) (pr : Params) (d : Dist) (t : Nat) (ins : List In) (outs : List Out)
    (hv : ValidParams pr d) (ht : t < 2^64) (hi : InsInRange ins) (ho : OutsInRange outs) :
    verifySoft genPrims size pr d t ins outs = .ok () ↔
      ∃ sz hs, size = .ok sz ∧ sz ≤ pr.maxSize ∧ HoursAre t ins hs ∧ hs.sum < 2^64 ∧
        sumOut outs < 2^64 ∧ sumOut outs ≤ hs.sum ∧ hs.sum - sumOut outs ≠ 0 ∧
        ceilDiv (sumOut outs + (hs.sum - sumOut outs)) pr.burn ≤ hs.sum - sumOut outs ∧
        spendsLocked d ins = false ∧ ∀ o ∈ outs, o.coins % 10 ^ (6 - pr.prec) = 0 := by
  rw [soft_gen_eq_spec size pr d t ins outs ht hi ho hv.burn_hi (by have := hv.prec; omega)]
  exact soft_iff size pr d t ins outs hv

/-- the required fee of the regenerated code is the ceiling used above (from C31) -/
theorem required_fee_is_ceil (h bf : Nat) (hh : h < 2^64) (hbf : 2 ≤ bf) (hbf' : bf < 2^32) :
    Sky.Gen.Fee.RequiredFee h bf = .ok (ceilDiv h bf) := by
  rw [requiredFee_ceil h bf hh hbf']; unfold specRequiredFee; rw [if_neg (by omega)]

/-- with valid parameters the soft rules never panic -/
theorem soft_total (sz : Nat) (pr : Params) (d : Dist) (t : Nat) (ins : List In) (outs : List Out)
    (hv : ValidParams pr d) (hs : List Nat) (hh : HoursAre t ins hs) (hfit : hs.sum < 2^64) (p : String) :
    verifySoft specPrims (.ok sz) pr d t ins outs ≠ .panic p := by
  rw [soft_decision sz pr d t ins outs hv hs hh hfit]
  repeat (split; · intro h; cases h)
  rcases precisionAll_cases pr.prec hv.prec outs with h | h <;> rw [h] <;> intro h' <;> cases h'

/-! ### second sentence: soft failures are reported as soft, hard failures as hard -/

/-- `VerifySingleTxnSoftConstraints` reports ok or soft, never hard -/
theorem soft_never_hard (r : Res Unit) (e : Err) : wrapSoft r ≠ .hard e := by
  cases r <;> simp [wrapSoft]

/-- `VerifySingleTxnHardConstraints` reports ok or hard, never soft -/
theorem hard_never_soft (r : Res Unit) (e : Err) : wrapHard r ≠ .soft e := by
  cases r <;> simp [wrapHard]

/-- the wrapped error is the rule's own error, unchanged -/
theorem soft_wraps_exactly (r : Res Unit) (e : Err) : wrapSoft r = .soft e ↔ r = .err e := by
  cases r <;> simp [wrapSoft]

theorem hard_wraps_exactly (r : Res Unit) (e : Err) : wrapHard r = .hard e ↔ r = .err e := by
  cases r <;> simp [wrapHard]

/-- combined check (`VerifySingleTxnSoftHardConstraints`, used by `InjectUserTransaction`): reported
hard iff the hard rules fail (whatever the soft rules say) … -/
theorem softHard_hard_iff (hard soft : Res Unit) (e : Err) :
    verifySoftHard hard soft = .hard e ↔ hard = .err e := by
  cases hard <;> cases soft <;> simp [verifySoftHard, wrapHard, wrapSoft]

/-- … reported soft iff the hard rules pass and the soft rules fail, with the soft rule's error … -/
theorem softHard_soft_iff (hard soft : Res Unit) (e : Err) :
    verifySoftHard hard soft = .soft e ↔ hard = .ok () ∧ soft = .err e := by
  cases hard <;> cases soft <;> simp [verifySoftHard, wrapHard, wrapSoft]

/-- … and accepted iff both pass. -/
theorem softHard_ok_iff (hard soft : Res Unit) :
    verifySoftHard hard soft = .ok ↔ hard = .ok () ∧ soft = .ok () := by
  cases hard <;> cases soft <;> simp [verifySoftHard, wrapHard, wrapSoft]

/-! ### non-vacuity -/

def vp : Params := ⟨32768, 10, 3⟩
def vd : Dist := ⟨100, 25⟩

example : ValidParams vp vd := ⟨by decide, by decide, by decide, by decide, by decide⟩
-- 2 coins held for 10 hours with 100 initial hours: 120 input hours; fee 12 = ⌈120/10⌉ is exactly enough
example : verifySoft specPrims (txnSize 1 1 2) vp vd 36000 [⟨2000000, 100, 0, none⟩] [⟨1000000, 100⟩, ⟨1000000, 8⟩] = .ok () := by decide
example : verifySoft specPrims (txnSize 1 1 2) vp vd 36000 [⟨2000000, 100, 0, none⟩] [⟨1000000, 100⟩, ⟨1000000, 9⟩]
    = .err (.named "ErrTxnInsufficientFee") := by decide
example : verifySoft specPrims (txnSize 1 1 2) vp vd 36000 [⟨2000000, 100, 0, some 25⟩] [⟨1000000, 100⟩, ⟨1000000, 8⟩]
    = .err (.named "ErrTxnIsLocked") := by decide
example : verifySoft specPrims (txnSize 1 1 2) vp vd 36000 [⟨2000000, 100, 0, some 24⟩] [⟨1000100, 100⟩, ⟨999900, 8⟩]
    = .err (.named "ErrInvalidDecimals") := by decide
example : HoursAre 36000 [⟨2000000, 100, 0, none⟩] [120] := by unfold HoursAre; decide

end Sky.Props.C11
