/-
  C11 — property theorems.  The hand model of the soft-rule path (`Sky.C11.verifySoft`, tied to
  transaction.VerifySingleTxnSoftConstraints / Visor.InjectUserTransaction by the correspondence
  harness) is instantiated with the primitives REGENERATED from the Go source on every run
  (UxOut.CoinHours, mathutil.AddUint64, fee.VerifyTransactionFeeForHours / RequiredFee,
  params.DropletPrecisionToDivisor / DropletPrecisionCheck).  All statements are for all transactions,
  input sets, head times and parameters in their validated ranges, with no size bounds.
-/
import Sky.C11.Lemmas
namespace Sky.Props.C11
open Sky Sky.C11 Sky.C31 Sky.Props.C31

/-- the validated parameter ranges (`params.VerifyTxn.Validate`, `params.Distribution.Validate`) -/
structure ValidParams (pr : Params) (d : Dist) : Prop where
  burn_lo : 2 ≤ pr.burn
  burn_hi : pr.burn < 2^32
  size_lo : 1024 ≤ pr.maxSize
  prec : pr.prec ≤ 6
  dist : d.unlocked ≤ d.n

/-- the divisor is `10^(6−precision)` and the precision rule is divisibility by it (regenerated code) -/
theorem precision_rule (p a : Nat) (hp : p ≤ 6) :
    Sky.Gen.Droplet.DropletPrecisionCheck p a =
      if a % 10 ^ (6 - p) ≠ 0 then .err (.named "ErrInvalidDecimals") else .ok () := by
  rw [precision_spec p a (by omega)]
  unfold specPrecisionCheck
  rw [if_neg (by omega)]

/-- **the model over the regenerated primitives equals the model over their specifications** -/
theorem soft_gen_eq_spec (size : Res Nat) (pr : Params) (d : Dist) (t : Nat) (ins : List In) (outs : List Out)
    (ht : t < 2^64) (hi : InsInRange ins) (ho : OutsInRange outs) (hb : pr.burn < 2^32) (hp : pr.prec < 256) :
    verifySoft genPrims size pr d t ins outs = verifySoft specPrims size pr d t ins outs := by
  have hin := inputHours_gen_eq t ht ins 0 hi (by decide)
  have hout := outputHours_gen_eq outs 0 ho (by decide)
  unfold verifySoft transactionFee verifyTransactionFee
  rw [hin, hout, precisionAll_gen_eq pr.prec hp outs]
  cases size with
  | panic p => rfl
  | err e => rfl
  | ok sz =>
    simp only []
    split; · rfl
    cases hI : inputHours specPrims t ins 0 with
    | panic p => rfl
    | err e => rfl
    | ok hinv =>
      have hinlt : hinv < 2^64 := by
        obtain ⟨hs, _, _, h3⟩ := (inputHours_ok_iff t ins 0 hinv (by decide)).1 hI
        exact h3
      simp only []
      rw [outputHours_spec outs 0 (by decide)]
      simp only [Nat.zero_add]
      by_cases hso : sumOut outs < 2^64
      · simp only [hso, if_true]
        by_cases hlt : hinv < sumOut outs
        · simp only [hlt, if_true]
        · simp only [hlt, if_false]
          have hfee : sub64 hinv (sumOut outs) < 2^64 := by unfold sub64; omega
          have : genPrims.verifyFee (sumOut outs) (sub64 hinv (sumOut outs)) pr.burn =
              specPrims.verifyFee (sumOut outs) (sub64 hinv (sumOut outs)) pr.burn :=
            verifyFee_spec _ _ _ hso hfee hb
          rw [this]
      · simp only [hso, if_false]

/-- whether any input is owned by a still-locked distribution address -/
def spendsLocked (d : Dist) (ins : List In) : Bool :=
  ins.any fun i => match i.addr with
    | some k => d.unlocked ≤ k && k < d.n
    | none => false

/-- **the soft rules as a decision list** (first failing rule decides the error), in terms of plain
sums: `hin` = total accrued input hours at the head time, `sumOut` = total output hours. -/
theorem soft_decision (sz : Nat) (pr : Params) (d : Dist) (t : Nat) (ins : List In) (outs : List Out)
    (hv : ValidParams pr d) (hs : List Nat) (hh : HoursAre t ins hs) (hfit : hs.sum < 2^64) :
    verifySoft specPrims (.ok sz) pr d t ins outs =
      if sz > pr.maxSize then .err (.named "ErrTxnExceedsMaxBlockSize")
      else if ¬ sumOut outs < 2^64 then .err ovfErr
      else if hs.sum < sumOut outs then .err (.named "ErrTxnInsufficientCoinHours")
      else if hs.sum - sumOut outs = 0 then .err (.named "ErrTxnNoFee")
      else if hs.sum - sumOut outs < ceilDiv hs.sum pr.burn then .err (.named "ErrTxnInsufficientFee")
      else if spendsLocked d ins then .err (.named "ErrTxnIsLocked")
      else precisionAll specPrims pr.prec outs := by
  have hI : inputHours specPrims t ins 0 = .ok hs.sum :=
    (inputHours_ok_iff t ins 0 hs.sum (by decide)).2 ⟨hs, hh, by simp, hfit⟩
  unfold verifySoft transactionFee verifyTransactionFee
  simp only [hI]
  by_cases h1 : sz > pr.maxSize
  · simp [h1]
  simp only [h1, if_false]
  rw [outputHours_spec outs 0 (by decide)]
  simp only [Nat.zero_add]
  by_cases h2 : sumOut outs < 2^64
  · simp only [h2, if_true, not_true, if_false]
    by_cases h3 : hs.sum < sumOut outs
    · simp [h3]
    simp only [h3, if_false]
    have hsub : sub64 hs.sum (sumOut outs) = hs.sum - sumOut outs := by unfold sub64; omega
    have hburn := hv.burn_lo
    simp only [hsub, specPrims, specVerifyFee]
    by_cases h4 : hs.sum - sumOut outs = 0
    · simp [h4]
    simp only [h4, if_false]
    have htot : sumOut outs + (hs.sum - sumOut outs) = hs.sum := by omega
    rw [htot, if_neg (by omega), if_neg (by omega)]
    by_cases h5 : hs.sum - sumOut outs < ceilDiv hs.sum pr.burn
    · simp [h5]
    simp only [h5, if_false]
    have hd := hv.dist
    simp only [isLocked, show ¬ d.n < d.unlocked by omega, if_false]
    cases hl : spendsLocked d ins with
    | true => simp only [spendsLocked] at hl; rw [hl]; rfl
    | false => simp only [spendsLocked] at hl; rw [hl]; rfl
  · simp [h2]

theorem precisionAll_ok_iff (prec : Nat) (hp : prec ≤ 6) : ∀ outs : List Out,
    precisionAll specPrims prec outs = .ok () ↔ ∀ o ∈ outs, o.coins % 10 ^ (6 - prec) = 0
  | [] => by simp [precisionAll]
  | o :: r => by
    simp only [precisionAll, specPrims, specPrecisionCheck, show ¬ prec > 6 by omega, if_false]
    by_cases h : o.coins % 10 ^ (6 - prec) = 0
    · simp only [h, ne_eq, not_true, if_false]
      have ih := precisionAll_ok_iff prec hp r
      simp only [specPrims] at ih
      rw [ih]
      simp [h]
    · simp only [h, ne_eq, not_false_eq_true, if_true]
      constructor
      · intro hc; cases hc
      · intro hall; exact absurd (hall o (List.mem_cons_self ..)) h

/-- a precision failure is reported as ErrInvalidDecimals (never anything else, never a panic) -/
theorem precisionAll_cases (prec : Nat) (hp : prec ≤ 6) : ∀ outs : List Out,
    precisionAll specPrims prec outs = .ok () ∨
    precisionAll specPrims prec outs = .err (.named "ErrInvalidDecimals")
  | [] => Or.inl rfl
  | o :: r => by
    simp only [precisionAll, specPrims, specPrecisionCheck, show ¬ prec > 6 by omega, if_false]
    by_cases h : o.coins % 10 ^ (6 - prec) = 0
    · simp only [h, ne_eq, not_true, if_false]
      have ih := precisionAll_cases prec hp r
      simp only [specPrims] at ih
      exact ih
    · simp [h]

/-- **C11, first sentence.** A transaction passes the soft rules iff its encoded size is within the
limit, every input's accrued hours are defined and their sum fits 64 bits, the output hours fit and
do not exceed the input hours, the fee `Σin − Σout` is non-zero and at least
`⌈(Σout + fee)/burn⌉ = ⌈Σin/burn⌉`, no input is owned by a locked distribution address, and every
output amount is a multiple of `10^(6−precision)`. -/
theorem soft_iff (size : Res Nat) (pr : Params) (d : Dist) (t : Nat) (ins : List In) (outs : List Out)
    (hv : ValidParams pr d) :
    verifySoft specPrims size pr d t ins outs = .ok () ↔
      ∃ sz hs, size = .ok sz ∧ sz ≤ pr.maxSize ∧ HoursAre t ins hs ∧ hs.sum < 2^64 ∧
        sumOut outs < 2^64 ∧ sumOut outs ≤ hs.sum ∧ hs.sum - sumOut outs ≠ 0 ∧
        ceilDiv (sumOut outs + (hs.sum - sumOut outs)) pr.burn ≤ hs.sum - sumOut outs ∧
        spendsLocked d ins = false ∧ ∀ o ∈ outs, o.coins % 10 ^ (6 - pr.prec) = 0 := by
  constructor
  · intro h
    cases size with
    | panic p => simp [verifySoft] at h
    | err e => simp [verifySoft] at h
    | ok sz =>
      -- the input hours must have been computed
      have hI : ∃ hin, inputHours specPrims t ins 0 = .ok hin := by
        unfold verifySoft transactionFee at h
        simp only [] at h
        split at h; · cases h
        cases hI : inputHours specPrims t ins 0 with
        | panic p => rw [hI] at h; simp at h
        | err e => rw [hI] at h; simp at h
        | ok hin => exact ⟨hin, rfl⟩
      obtain ⟨hin, hI⟩ := hI
      obtain ⟨hs, hh, hsum, hfit⟩ := (inputHours_ok_iff t ins 0 hin (by decide)).1 hI
      simp only [Nat.zero_add] at hsum
      subst hsum
      rw [soft_decision sz pr d t ins outs hv hs hh hfit] at h
      split at h; · cases h
      split at h; · cases h
      split at h; · cases h
      split at h; · cases h
      split at h; · cases h
      split at h; · cases h
      rename_i h1 h2 h3 h4 h5 h6
      refine ⟨sz, hs, rfl, by omega, hh, hfit, by omega, by omega, h4, ?_, by simpa using h6,
        (precisionAll_ok_iff pr.prec hv.prec outs).1 h⟩
      have : sumOut outs + (hs.sum - sumOut outs) = hs.sum := by omega
      rw [this]; omega
  · rintro ⟨sz, hs, rfl, h1, hh, hfit, h2, h3, h4, h5, h6, h7⟩
    rw [soft_decision sz pr d t ins outs hv hs hh hfit]
    have : sumOut outs + (hs.sum - sumOut outs) = hs.sum := by omega
    rw [this] at h5
    rw [if_neg (by omega), if_neg (by omega), if_neg (by omega), if_neg h4, if_neg (by omega), h6]
    simp only [Bool.false_eq_true, if_false]
    exact (precisionAll_ok_iff pr.prec hv.prec outs).2 h7

/-- the required fee of the regenerated code is the ceiling used above (from C31) -/
theorem required_fee_is_ceil (h bf : Nat) (hh : h < 2^64) (hbf : 2 ≤ bf) (hbf' : bf < 2^32) :
    Sky.Gen.Fee.RequiredFee h bf = .ok (ceilDiv h bf) := by
  rw [requiredFee_ceil h bf hh hbf']; unfold specRequiredFee; rw [if_neg (by omega)]

/-- with valid parameters the soft rules never panic -/
theorem soft_total (sz : Nat) (pr : Params) (d : Dist) (t : Nat) (ins : List In) (outs : List Out)
    (hv : ValidParams pr d) (hs : List Nat) (hh : HoursAre t ins hs) (hfit : hs.sum < 2^64) (p : String) :
    verifySoft specPrims (.ok sz) pr d t ins outs ≠ .panic p := by
  rw [soft_decision sz pr d t ins outs hv hs hh hfit]
  repeat (split; · intro h; cases h)
  rcases precisionAll_cases pr.prec hv.prec outs with h | h <;> rw [h] <;> intro h' <;> cases h'

/-! ### second sentence: soft failures are reported as soft, hard failures as hard -/

/-- `VerifySingleTxnSoftConstraints` reports ok or soft, never hard -/
theorem soft_never_hard (r : Res Unit) (e : Err) : wrapSoft r ≠ .hard e := by
  cases r <;> simp [wrapSoft]

/-- `VerifySingleTxnHardConstraints` reports ok or hard, never soft -/
theorem hard_never_soft (r : Res Unit) (e : Err) : wrapHard r ≠ .soft e := by
  cases r <;> simp [wrapHard]

/-- the wrapped error is the rule's own error, unchanged -/
theorem soft_wraps_exactly (r : Res Unit) (e : Err) : wrapSoft r = .soft e ↔ r = .err e := by
  cases r <;> simp [wrapSoft]

theorem hard_wraps_exactly (r : Res Unit) (e : Err) : wrapHard r = .hard e ↔ r = .err e := by
  cases r <;> simp [wrapHard]

/-- combined check (`VerifySingleTxnSoftHardConstraints`, used by `InjectUserTransaction`): reported
hard iff the hard rules fail (whatever the soft rules say) … -/
theorem softHard_hard_iff (hard soft : Res Unit) (e : Err) :
    verifySoftHard hard soft = .hard e ↔ hard = .err e := by
  cases hard <;> cases soft <;> simp [verifySoftHard, wrapHard, wrapSoft]

/-- … reported soft iff the hard rules pass and the soft rules fail, with the soft rule's error … -/
theorem softHard_soft_iff (hard soft : Res Unit) (e : Err) :
    verifySoftHard hard soft = .soft e ↔ hard = .ok () ∧ soft = .err e := by
  cases hard <;> cases soft <;> simp [verifySoftHard, wrapHard, wrapSoft]

/-- … and accepted iff both pass. -/
theorem softHard_ok_iff (hard soft : Res Unit) :
    verifySoftHard hard soft = .ok ↔ hard = .ok () ∧ soft = .ok () := by
  cases hard <;> cases soft <;> simp [verifySoftHard, wrapHard, wrapSoft]

end Sky.Props.C11
