/-
  C14 — the secp256k1 implementation agrees with the curve mathematics.

  What is a THEOREM here is about the textbook specification (Sky.Crypto.Secp256k1, Sky.C14.Spec) that
  the Go implementation is compared with, so that "the curve mathematics" has a machine-checked
  meaning: the constants, the generator is on the curve and has order n (kernel evaluation), which
  byte strings are valid keys, ECDSA/recovery/ECDH correctness in the abstract group (imported from
  the C10 development), and that the deterministic key sequence is a pure unfold.
  The agreement of the Go code (10×26-bit limbs, Jacobian coordinates, wNAF, endomorphism) with this
  specification is DIFFERENTIAL (harness/c14 vs Sky/C14/Drv.lean), not a theorem — see
  notes/status/C14.md.
-/
import Sky.C14.Spec
import Sky.C14.Lemmas
import Sky.C10.ECDSA
namespace Sky.Props.C14
open Sky Sky.C14 Sky.Crypto.Secp256k1

/-! ### constants and the generator -/

theorem curve_consts :
    P = 2 ^ 256 - 2 ^ 32 - 977 ∧ P % 4 = 3 ∧ N < P ∧ P < 2 ^ 256 ∧ 2 ^ 255 < N ∧
    halfN = (N - 1) / 2 ∧ 2 * halfN + 1 = N ∧ halfN < 2 ^ 255 := by decide

/-- the base point satisfies y² = x³ + 7 over F_p -/
theorem G_on_curve : onCurve G = true := by decide +kernel

/-- n • G = ∞ (double-and-add over the textbook affine law, evaluated by the kernel) -/
theorem order_G : smul N G = .inf := by decide +kernel

/-- … and G itself is not ∞, so (n being prime) the order of G is exactly n; 1•G = G, 2•G is the tangent. -/
theorem G_ne_inf : smul 1 G = G ∧ G ≠ .inf ∧ smul (N - 1) G = neg G ∧ smul (N + 1) G = G := by decide +kernel

/-! ### which byte strings are keys -/

/-- secret keys: exactly the 32-byte big-endian scalars in [1, n−1] -/
theorem seckey_valid_iff (b : Bytes) :
    newSecKey b = .ok () ↔ (b.length = 32 ∧ 0 < ofBE b ∧ ofBE b < N) := by
  unfold newSecKey secValid
  by_cases hl : b.length = 32
  · simp [hl]
  · simp [hl]

theorem seckey_errors (b : Bytes) :
    (b.length ≠ 32 → newSecKey b = .err (E "ErrInvalidLengthSecKey")) ∧
    (b.length = 32 → (ofBE b = 0 ∨ N ≤ ofBE b) → newSecKey b = .err (E "ErrInvalidSecKey")) := by
  unfold newSecKey secValid
  constructor
  · intro h; simp [h]
  · intro h h2
    simp only [h, ne_eq, not_true_eq_false, if_false, beq_self_eq_true, Bool.true_and]
    rcases h2 with h2 | h2
    · simp [h2]
    · have : ¬ (ofBE b < N) := by omega
      simp [this]

/-- public keys: a byte string is accepted iff it is 33 bytes, prefix 02/03, abscissa below p, and
x³ + 7 has the computed square root; the accepted point is on the curve with that abscissa. -/
theorem pubkey_valid_iff (b : Bytes) :
    newPubKey b = .ok () ↔
      ∃ pre xs, b = pre :: xs ∧ xs.length = 32 ∧ (pre = 2 ∨ pre = 3) ∧ ofBE xs < P ∧
        (sqrtP ((ofBE xs * ofBE xs % P * ofBE xs + 7) % P)) * (sqrtP ((ofBE xs * ofBE xs % P * ofBE xs + 7) % P)) % P
          = (ofBE xs * ofBE xs % P * ofBE xs + 7) % P := by
  unfold newPubKey
  constructor
  · intro h
    by_cases hl : b.length ≠ 33
    · simp [hl] at h
    · rw [if_neg hl] at h
      cases b with
      | nil => simp at hl
      | cons pre xs =>
        have hx : xs.length = 32 := by simp at hl; omega
        refine ⟨pre, xs, rfl, hx, ?_⟩
        simp only [parsePub, hx, ne_eq, not_true_eq_false, if_false] at h
        by_cases hp : pre ≠ 2 ∧ pre ≠ 3
        · simp [hp] at h
        · rw [if_neg hp] at h
          refine ⟨by omega, ?_⟩
          unfold liftX at h
          by_cases hxp : ofBE xs ≥ P
          · simp [hxp] at h
          · rw [if_neg hxp] at h
            refine ⟨by omega, ?_⟩
            by_cases hsq : (sqrtP ((ofBE xs * ofBE xs % P * ofBE xs + 7) % P)) * (sqrtP ((ofBE xs * ofBE xs % P * ofBE xs + 7) % P)) % P
                = (ofBE xs * ofBE xs % P * ofBE xs + 7) % P
            · exact hsq
            · simp [hsq] at h
  · rintro ⟨pre, xs, rfl, hx, hp, hxp, hsq⟩
    have hl : ¬ (pre :: xs).length ≠ 33 := by simp [hx]
    rw [if_neg hl]
    have hp' : ¬ (pre ≠ 2 ∧ pre ≠ 3) := by omega
    simp only [parsePub, hx, ne_eq, not_true_eq_false, if_false, if_neg hp']
    unfold liftX
    have : ¬ ofBE xs ≥ P := by omega
    rw [if_neg this]
    simp only
    rw [if_neg (by simpa using hsq)]

/-- every accepted public key is a point ON THE CURVE whose abscissa is the encoded one (so off-curve
points, x ≥ p and bad prefixes are all rejected — never accepted, never a fault). -/
theorem powModF_lt (m : Nat) : ∀ (fuel b e r : Nat), r < m → powModF fuel b e m r < m := by
  intro fuel
  induction fuel with
  | zero => intro b e r hr; exact hr
  | succ f ih =>
    intro b e r hr
    simp only [powModF]
    apply ih
    split
    · exact Nat.mod_lt _ (by omega)
    · exact hr

theorem sqrtP_lt (c : Nat) : sqrtP c < P := by
  unfold sqrtP powMod
  exact powModF_lt P 256 _ _ _ (by decide)

/-- (p − y)² ≡ y² (mod p) -/
theorem neg_sq_mod (y : Nat) (hy : y < P) : ((P - y) % P) * ((P - y) % P) % P = y * y % P := by
  rw [← Nat.mul_mod]
  have key : ∀ u v : Nat, u * u + v * (u + v) = (u + v) * u + v * v := by
    intro u v
    simp only [Nat.mul_add, Nat.add_mul, Nat.mul_comm v u]
    omega
  have hP : P = (P - y) + y := by omega
  have h1 := key (P - y) y
  rw [← hP] at h1
  have h2 : ((P - y) * (P - y) + y * P) % P = (P * (P - y) + y * y) % P := by rw [h1]
  rw [Nat.add_mul_mod_self_right, Nat.mul_comm P, Nat.add_comm, Nat.add_mul_mod_self_right] at h2
  exact h2

theorem parsePub_onCurve (b : Bytes) (Q : Pt) (h : parsePub b = some Q) :
    ∃ pre xs y, b = pre :: xs ∧ Q = .aff (ofBE xs) y ∧ onCurve Q = true := by
  cases b with
  | nil => simp [parsePub] at h
  | cons pre xs =>
    simp only [parsePub] at h
    split at h
    · cases h
    · split at h
      · cases h
      · unfold liftX at h
        split at h
        · cases h
        · rename_i hxp
          simp only at h
          split at h
          · cases h
          · rename_i hsq
            simp only [Option.some.injEq] at h
            have hx : ofBE xs < P := by omega
            have hsq' : sqrtP ((ofBE xs * ofBE xs % P * ofBE xs + 7) % P) * sqrtP ((ofBE xs * ofBE xs % P * ofBE xs + 7) % P) % P
                = (ofBE xs * ofBE xs % P * ofBE xs + 7) % P := by simpa using hsq
            have hlt := sqrtP_lt ((ofBE xs * ofBE xs % P * ofBE xs + 7) % P)
            refine ⟨pre, xs, _, rfl, h.symm, ?_⟩
            rw [← h]
            simp only [onCurve, Bool.and_eq_true, decide_eq_true_eq, beq_iff_eq]
            split
            · exact ⟨⟨hx, hlt⟩, hsq'⟩
            · refine ⟨⟨hx, Nat.mod_lt _ (by decide)⟩, ?_⟩
              rw [neg_sq_mod _ hlt]; exact hsq'

theorem newPubKey_total (b : Bytes) : ∀ p, newPubKey b ≠ .panic p := by
  intro p; unfold newPubKey
  split
  · intro h; cases h
  · split <;> (intro h; cases h)

/-- **compression round trip**: every point on the curve is recovered from its 33-byte encoding (so
`parsePub` accepts exactly the encodings of curve points, and `compress` is injective on them).
Hypothesis: the field prime is prime (stated, not proved — see Sky.C14.Lemmas). -/
theorem compress_decompress (hp : Nat.Prime P) (x y : Nat) (h : onCurve (.aff x y) = true) :
    parsePub (compress (.aff x y)) = some (.aff x y) :=
  Sky.C14.compress_decompress hp x y h

/-- the 32-byte big-endian encoding of a coordinate is exact -/
theorem coordinate_roundtrip (x : Nat) (hx : x < 2 ^ 256) : ofBE (toBE32 x) = x ∧ (toBE32 x).length = 32 :=
  ⟨Sky.C14.ofBE_toBE32 x hx, Sky.C14.toBE32_length x⟩

/-! ### ECDSA, recovery, ECDH in the abstract prime-order group (from the C10 development) -/

section abstract
open Sky.C10.ECDSA
variable {n : ℕ} [Fact n.Prime] {G : Type*} [AddCommGroup G] [Module (ZMod n) G]

/-- a signature produced with secret d and nonce k verifies against the public key d•g -/
theorem verify_sign (g : G) (x : G → ZMod n) (d z k : ZMod n) (hk : k ≠ 0)
    (hr : x (k • g) ≠ 0) (hs : sOf d z k (x (k • g)) ≠ 0) :
    verify g x (pub g d) z (x (k • g)) (sOf d z k (x (k • g))) :=
  Sky.C10.ECDSA.verify_sign g x d z k hk hr hs

/-- … and public-key recovery from the nonce point returns d•g -/
theorem recover_sign (g : G) (x : G → ZMod n) (d z k : ZMod n) (hk : k ≠ 0) (hr : x (k • g) ≠ 0) :
    recoverFrom g (k • g) z (x (k • g)) (sOf d z k (x (k • g))) = pub g d :=
  Sky.C10.ECDSA.recover_sign g x d z k hk hr

/-- conversely, whatever verifies against Q recovers Q -/
theorem recover_of_verify (g : G) (Q : G) (z r s : ZMod n) (hr : r ≠ 0) (hs : s ≠ 0) :
    recoverFrom g ((z * s⁻¹) • g + (r * s⁻¹) • Q) z r s = Q :=
  Sky.C10.ECDSA.recover_of_verify g Q z r s hr hs

/-- Diffie–Hellman: a•(b•g) = b•(a•g) -/
theorem ecdh_comm (g : G) (a b : ZMod n) : a • pub g b = b • pub g a :=
  Sky.C10.ECDSA.ecdh_comm g a b

end abstract

/-! ### deterministic key sequence -/

/-- the sequence is a pure unfold of `detIter`: the first `n` keys of a longer run are the run of length
`n` — key `i` depends only on the seed and `i`, not on how many keys are requested. -/
theorem detKeySeq_prefix (H : Bytes → Bytes) (seed : Bytes) (n m : Nat) (h : n ≤ m) :
    (genKeys H n seed).2 = (genKeys H m seed).2.take n := by
  induction n generalizing m seed with
  | zero => simp [genKeys]
  | succ n ih =>
    cases m with
    | zero => omega
    | succ m =>
      simp only [genKeys, List.take_succ_cons]
      rw [ih _ m (by omega)]

/-- batch independence: generating `a` keys and then `b` more from the returned seed is generating `a+b`. -/
theorem detKeySeq_append (H : Bytes → Bytes) (seed : Bytes) (a b : Nat) :
    genKeys H (a + b) seed =
      ((genKeys H b (genKeys H a seed).1).1, (genKeys H a seed).2 ++ (genKeys H b (genKeys H a seed).1).2) := by
  induction a generalizing seed with
  | zero => simp [genKeys]
  | succ a ih =>
    have : a + 1 + b = (a + b) + 1 := by omega
    rw [this]
    simp only [genKeys]
    rw [ih]
    simp

/-- `GenerateDeterministicKeyPairsSeed` rejects exactly the empty seed (when at least one key is requested) -/
theorem genDet_error_iff (H : Bytes → Bytes) (seed : Bytes) (n : Nat) :
    (∃ e, genDetKeyPairsSeed H seed n = .err e) ↔ (n ≠ 0 ∧ seed = []) := by
  unfold genDetKeyPairsSeed
  by_cases hn : n = 0
  · simp [hn]
  · by_cases hs : seed.length = 0
    · simp [hn, List.length_eq_zero_iff.mp hs]
    · have : seed ≠ [] := by intro h; simp [h] at hs
      simp [hn, hs, this]

/-! ### non-vacuity -/

/-- the hypotheses of the key-validity theorems are met by concrete keys: G's encoding is accepted and
decompresses to G (no primality hypothesis needed for a concrete point), 1 and n−1 are valid secrets,
0, n and an off-curve abscissa are rejected with the documented error. -/
example : newPubKey (compress G) = .ok () ∧ parsePub (compress G) = some G := by decide +kernel
example : newSecKey (toBE32 1) = .ok () ∧ newSecKey (toBE32 (N - 1)) = .ok () := by decide +kernel
example : newSecKey (toBE32 0) = .err (E "ErrInvalidSecKey") ∧ newSecKey (toBE32 N) = .err (E "ErrInvalidSecKey") ∧
    newSecKey [1, 2, 3] = .err (E "ErrInvalidLengthSecKey") := by decide +kernel
example : newPubKey (2 :: toBE32 5) = .err (E "ErrInvalidPubKey") ∧ newPubKey (2 :: toBE32 P) = .err (E "ErrInvalidPubKey") ∧
    newPubKey (4 :: toBE32 Gx) = .err (E "ErrInvalidPubKey") := by decide +kernel
/-- the deterministic sequence with a toy hash: 2 keys are a prefix of 3 -/
def toyH : Bytes → Bytes := fun x => toBE32 (ofBE x % 1000003 + x.length + 7)
example : (genKeys toyH 2 [1, 2, 3]).2 = (genKeys toyH 3 [1, 2, 3]).2.take 2 := detKeySeq_prefix toyH [1, 2, 3] 2 3 (by decide)

end Sky.Props.C14
