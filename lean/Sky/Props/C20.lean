/-
  C20 — wallet and key-value files survive a crash during a save.

  Every theorem below is about `Sky.Gen.SaveOps.saveOps` / `tmpName` / `loaderSuffixes`, which are
  REGENERATED from the body of `file.SaveBinary` (and the wallet loader's suffix filters) on every
  run; the statements are for ALL file systems, file names, data, crash prefixes `k` and tear
  points `t` in the ordered-write model of Sky/C20/Model.lean.

  `wallet.Save` and `kvStorage.flush` both end in `file.SaveBinary` (checked by the translator), so
  the same theorems cover both kinds of file; they differ only in which paths the loader looks at
  (`Visible` for the wallet directory, the single storage file for kvstorage).
-/
import Sky.C20.Lemmas
import Sky.Gen.SaveOps
namespace Sky.Props.C20
open Sky.C20 Sky.Gen.SaveOps

/-- `h` is what `dataHash.Hex()[:n]` can be: `n` lower-case hex digits -/
def HexName (h : List Char) : Prop := h.length = tmpHexLen ∧ ∀ c ∈ h, isHex c = true

/-- a path the wallet loader acts on (has one of the suffixes it filters by) -/
def Visible (q : Path) : Prop := ∃ s ∈ loaderSuffixes, s <:+ q

/-- the regenerated operation list passes the (sound) crash-safety checker -/
theorem saveOps_safe : safeSeq saveOps = true := by decide

/-- the temporary file is never the target itself -/
theorem tmp_distinct (f h : List Char) : f ≠ tmpName f h := by
  intro e
  exact tmp_ne f tmpLit h (by decide) e.symm

/-- a leftover temporary file is inert: the wallet loader never looks at it -/
theorem tmp_invisible (f h : List Char) (hh : HexName h) : ¬ Visible (tmpName f h) := by
  rintro ⟨s, hs, hsuf⟩
  have key : ∀ s ∈ loaderSuffixes, s.length ≤ tmpHexLen ∧ s.any (fun c => !isHex c) = true := by decide
  obtain ⟨h1, h2⟩ := key s hs
  refine not_suffix_of_hex_tail f tmpLit h s (by rw [hh.1]; exact h1) hh.2 ?_ hsuf
  obtain ⟨c, hc, hx⟩ := List.any_eq_true.mp h2
  exact ⟨c, hc, by simpa using hx⟩

/-- **crash_safe**: after a crash at ANY point of the save (any prefix `k` of the operation list,
the next write torn at any byte `t`), the target file holds either exactly its previous content
(including "did not exist") or exactly the new data. -/
theorem crash_safe (fs : FS) (f h : List Char) (data : Bytes) (k t : Nat) :
    let fs' := crashState f (tmpName f h) data fs saveOps k t
    fs' f = fs f ∨ fs' f = some data :=
  (safeSeq_sound (tmp_distinct f h) saveOps saveOps_safe k t).1

/-- … and no file other than the target and the temporary file is touched. -/
theorem crash_others_untouched (fs : FS) (f h : List Char) (data : Bytes) (k t : Nat) (q : Path)
    (h1 : q ≠ f) (h2 : q ≠ tmpName f h) :
    crashState f (tmpName f h) data fs saveOps k t q = fs q :=
  (safeSeq_sound (tmp_distinct f h) saveOps saveOps_safe k t).2 q h1 h2

/-- a save that is not interrupted stores the new data -/
theorem save_complete (fs : FS) (f h : List Char) (data : Bytes) :
    crashState f (tmpName f h) data fs saveOps saveOps.length 0 f = some data := by
  obtain ⟨s', hrep, hs'⟩ := safeFrom_complete_aux (data := data) (fs0 := fs) (tmp_distinct f h) saveOps
    ⟨.orig, .orig⟩ fs ⟨by simp [Conc], by simp [Conc], fun _ _ _ => rfl⟩
  have e : (saveOps.foldl astep ⟨.orig, .orig⟩).target = .full := by decide
  have ht := hrep.t
  rw [hs', e] at ht
  simpa [Conc] using ht

/-- whatever the loader computes from the file content, it computes it from the old or from the
new content (`load` is `wallet.Load` resp. `file.LoadJSON` as a function of the bytes found) -/
theorem load_old_or_new {α : Type} (load : Option Bytes → α) (fs : FS) (f h : List Char)
    (data : Bytes) (k t : Nat) :
    let fs' := crashState f (tmpName f h) data fs saveOps k t
    load (fs' f) = load (fs f) ∨ load (fs' f) = load (some data) := by
  intro fs'
  rcases crash_safe fs f h data k t with e | e
  · exact Or.inl (congrArg load e)
  · exact Or.inr (congrArg load e)

/-- from `Good` (target old-or-new, nothing but target and tmp touched) to the loader's view -/
theorem view_of_good {fs fs' : FS} {f tmp : Path} {data : Bytes} (g : Good f tmp data fs fs')
    (hv : ¬ Visible tmp) :
    (∀ q, Visible q → fs' q = fs q) ∨ (∀ q, Visible q → fs' q = saved fs f data q) := by
  rcases g.1 with e | e
  · left; intro q hq
    by_cases h1 : q = f
    · subst h1; exact e
    · exact g.2 q h1 (fun e2 => hv (e2 ▸ hq))
  · right; intro q hq
    by_cases h1 : q = f
    · subst h1; simpa [saved, FS.set] using e
    · have := g.2 q h1 (fun e2 => hv (e2 ▸ hq))
      simpa [saved, FS.set, h1] using this

/-- the wallet directory AS THE LOADER SEES IT is, after a crash, either the directory before the
save or the directory after the completed save -/
theorem crash_view (fs : FS) (f h : List Char) (hh : HexName h) (data : Bytes) (k t : Nat) :
    let fs' := crashState f (tmpName f h) data fs saveOps k t
    (∀ q, Visible q → fs' q = fs q) ∨ (∀ q, Visible q → fs' q = saved fs f data q) :=
  view_of_good (safeSeq_sound (tmp_distinct f h) saveOps saveOps_safe k t) (tmp_invisible f h hh)

/-- **startup_ok**: any start-up procedure that depends only on the files the loader looks at, and
that succeeds on the directory before the save and on the directory after the completed save,
succeeds on every crash state (`Start` = `wallet.NewService` succeeds: every visible file parses,
no duplicate fingerprint, no empty wallet). -/
theorem startup_ok (Start : FS → Prop)
    (hdep : ∀ a b : FS, (∀ q, Visible q → a q = b q) → (Start a ↔ Start b))
    (fs : FS) (f h : List Char) (hh : HexName h) (data : Bytes) (k t : Nat)
    (hold : Start fs) (hnew : Start (saved fs f data)) :
    Start (crashState f (tmpName f h) data fs saveOps k t) := by
  rcases crash_view fs f h hh data k t with e | e
  · exact (hdep _ _ e).mpr hold
  · exact (hdep _ _ e).mpr hnew

/-! ### Service methods that probe the wallet file with `file.IsWritable` before saving
(`savers` lists them: NewAddresses, ScanAddresses).  Their operation list is
`probeOps ++ saveOps`; the wallet file exists beforehand (the wallet was loaded from / saved to it). -/

def probedOps : List FsOp := probeOps ++ saveOps

theorem probedOps_safe : safeSeqP probedOps = true := by decide

theorem crash_safe_probed (fs : FS) (f h : List Char) (data : Bytes) (k t : Nat) (hex : fs f ≠ none) :
    let fs' := crashState f (tmpName f h) data fs probedOps k t
    fs' f = fs f ∨ fs' f = some data :=
  (safeSeqP_sound (tmp_distinct f h) probedOps probedOps_safe hex k t).1

theorem crash_view_probed (fs : FS) (f h : List Char) (hh : HexName h) (data : Bytes) (k t : Nat)
    (hex : fs f ≠ none) :
    let fs' := crashState f (tmpName f h) data fs probedOps k t
    (∀ q, Visible q → fs' q = fs q) ∨ (∀ q, Visible q → fs' q = saved fs f data q) :=
  view_of_good (safeSeqP_sound (tmp_distinct f h) probedOps probedOps_safe hex k t) (tmp_invisible f h hh)

theorem startup_ok_probed (Start : FS → Prop)
    (hdep : ∀ a b : FS, (∀ q, Visible q → a q = b q) → (Start a ↔ Start b))
    (fs : FS) (f h : List Char) (hh : HexName h) (data : Bytes) (k t : Nat) (hex : fs f ≠ none)
    (hold : Start fs) (hnew : Start (saved fs f data)) :
    Start (crashState f (tmpName f h) data fs probedOps k t) := by
  rcases crash_view_probed fs f h hh data k t hex with e | e
  · exact (hdep _ _ e).mpr hold
  · exact (hdep _ _ e).mpr hnew

/-- key-value storage: the manager opens exactly the storage file `f`; after a crash it reads the
old or the new map, so the "unreadable → rename to .corrupt and reset" branch is not taken when
both parse (`readable`), i.e. no data is lost -/
theorem kv_crash_safe (readable : Option Bytes → Prop) (fs : FS) (f h : List Char) (data : Bytes)
    (k t : Nat) (hold : readable (fs f)) (hnew : readable (some data)) :
    let fs' := crashState f (tmpName f h) data fs saveOps k t
    readable (fs' f) ∧ (fs' f = fs f ∨ fs' f = some data) := by
  intro fs'
  have := crash_safe fs f h data k t
  refine ⟨?_, this⟩
  rcases this with e | e
  · show readable (crashState f (tmpName f h) data fs saveOps k t f); rw [e]; exact hold
  · show readable (crashState f (tmpName f h) data fs saveOps k t f); rw [e]; exact hnew

/-! ### first-time creation of a wallet file (CreateWallet → loadWallet)

The file does not exist yet, so nothing may be assumed about `fs f`: if `loadWallet` (directly or
through a helper) probes with `file.IsWritable` before saving, the probe's `open(O_CREAT)` is part
of the operation list and must itself be crash safe. -/

def createOps : List FsOp :=
  (if savers.lookup "loadWallet" = some true then probeOps else []) ++ saveOps

theorem createOps_safe : safeSeq createOps = true := by decide

/-- creating a wallet: after a crash at any point the new file is absent (or whatever was there) or
complete — never an empty or partial `.wlt` that would stop `wallet.NewService` -/
theorem crash_safe_create (fs : FS) (f h : List Char) (data : Bytes) (k t : Nat) :
    let fs' := crashState f (tmpName f h) data fs createOps k t
    fs' f = fs f ∨ fs' f = some data :=
  (safeSeq_sound (tmp_distinct f h) createOps createOps_safe k t).1

theorem startup_ok_create (Start : FS → Prop)
    (hdep : ∀ a b : FS, (∀ q, Visible q → a q = b q) → (Start a ↔ Start b))
    (fs : FS) (f h : List Char) (hh : HexName h) (data : Bytes) (k t : Nat)
    (hold : Start fs) (hnew : Start (saved fs f data)) :
    Start (crashState f (tmpName f h) data fs createOps k t) := by
  rcases view_of_good (safeSeq_sound (tmp_distinct f h) createOps createOps_safe k t) (tmp_invisible f h hh) with e | e
  · exact (hdep _ _ e).mpr hold
  · exact (hdep _ _ e).mpr hnew

/-! ### interrupted saves that are repeated

A crash leaves the temporary file of the interrupted attempt behind (possibly torn).  A retry of the same save
has the same data, hence the same temporary name; a different request has another name.  `crash_safe` and
`save_complete` are stated for EVERY file system, so they apply to whatever the earlier attempts left. -/

/-- one interrupted attempt: name suffix, data, crash prefix, tear point -/
structure Attempt where
  h : List Char
  data : Bytes
  k : Nat
  t : Nat

/-- the file system after a sequence of interrupted attempts to save `f` -/
def afterAttempts (f : List Char) : FS → List Attempt → FS
  | fs, [] => fs
  | fs, a :: rest => afterAttempts f (crashState f (tmpName f a.h) a.data fs saveOps a.k a.t) rest

/-- **attempts_safe**: after ANY number of interrupted attempts (each at any prefix and tear point, with the same or
with different data) the target holds its original content or exactly the data of one of the attempts -/
theorem attempts_safe (f : List Char) (as : List Attempt) (fs : FS) :
    afterAttempts f fs as f = fs f ∨ ∃ a ∈ as, afterAttempts f fs as f = some a.data := by
  induction as generalizing fs with
  | nil => exact Or.inl rfl
  | cons a rest ih =>
    simp only [afterAttempts]
    rcases ih (crashState f (tmpName f a.h) a.data fs saveOps a.k a.t) with e | ⟨b, hb, e⟩
    · rcases crash_safe fs f a.h a.data a.k a.t with e1 | e1
      · exact Or.inl (e.trans e1)
      · exact Or.inr ⟨a, List.mem_cons_self, e.trans e1⟩
    · exact Or.inr ⟨b, List.mem_cons_of_mem _ hb, e⟩

/-- **retry_complete**: whatever earlier interrupted attempts left behind — including a torn temporary file with the
very name this save uses — a save that completes stores exactly the new data -/
theorem retry_complete (f : List Char) (as : List Attempt) (fs : FS) (h : List Char) (data : Bytes) :
    crashState f (tmpName f h) data (afterAttempts f fs as) saveOps saveOps.length 0 f = some data :=
  save_complete (afterAttempts f fs as) f h data

/-- the interrupted save repeated once (same data, same temporary name), interrupted again anywhere -/
theorem retry_crash_safe (fs : FS) (f h : List Char) (data : Bytes) (k t k' t' : Nat) :
    let fs1 := crashState f (tmpName f h) data fs saveOps k t
    let fs2 := crashState f (tmpName f h) data fs1 saveOps k' t'
    fs2 f = fs f ∨ fs2 f = some data := by
  intro fs1 fs2
  rcases crash_safe fs1 f h data k' t' with e | e
  · rcases crash_safe fs f h data k t with e1 | e1
    · exact Or.inl (e.trans e1)
    · exact Or.inr (e.trans e1)
  · exact Or.inr e

/-- files other than the target and the temporaries of the attempts are never touched -/
theorem attempts_others_untouched (f : List Char) (as : List Attempt) (fs : FS) (q : Path)
    (h1 : q ≠ f) (h2 : ∀ a ∈ as, q ≠ tmpName f a.h) : afterAttempts f fs as q = fs q := by
  induction as generalizing fs with
  | nil => rfl
  | cons a rest ih =>
    simp only [afterAttempts]
    rw [ih _ (fun b hb => h2 b (List.mem_cons_of_mem _ hb))]
    exact crash_others_untouched fs f a.h a.data a.k a.t q h1 (h2 a List.mem_cons_self)

/-! ### non-vacuity: a concrete directory, a concrete save, a concrete crash -/

def exF : Path := "a.wlt".toList
def exH : List Char := "0123abcd".toList
def exFS : FS := fun q => if q = exF then some [1, 2, 3] else if q = "b.wlt".toList then some [9] else none

example : HexName exH := ⟨by decide, by decide⟩
example : Visible exF := ⟨"wlt".toList, by decide, by decide⟩
example : tmpName exF exH = "a.wlt.tmp.0123abcd".toList := by decide
-- a crash in the middle of the data write (k = 1, 2 bytes arrived): target still the old content
example : crashState exF (tmpName exF exH) [7, 7, 7, 7] exFS saveOps 1 2 exF = some [1, 2, 3] := by decide
-- … and the torn temporary file is there, invisible to the loader
example : crashState exF (tmpName exF exH) [7, 7, 7, 7] exFS saveOps 1 2 (tmpName exF exH) = some [7, 7] := by
  decide
example : crashState exF (tmpName exF exH) [7, 7, 7, 7] exFS saveOps saveOps.length 0 exF = some [7, 7, 7, 7] := by
  decide


-- an attempt torn after 2 bytes, the same save repeated and completed: the new data, not the torn temporary
example : crashState exF (tmpName exF exH) [7, 7, 7, 7]
    (afterAttempts exF exFS [⟨exH, [7, 7, 7, 7], 1, 2⟩]) saveOps saveOps.length 0 exF = some [7, 7, 7, 7] := by decide
example : afterAttempts exF exFS [⟨exH, [7, 7, 7, 7], 1, 2⟩] (tmpName exF exH) = some [7, 7] := by decide
-- what re-using an existing temporary file would do (skip creat+write when the name exists, go straight to rename):
-- not crash safe, and after the torn attempt above the completed retry installs the torn prefix
example : safeSeq [.rename .tmp .target] = false := by decide
example : crashState exF (tmpName exF exH) [7, 7, 7, 7]
    (afterAttempts exF exFS [⟨exH, [7, 7, 7, 7], 1, 2⟩]) [.rename .tmp .target] 1 0 exF = some [7, 7] := by decide

/-! ### the defect this property found (F8): the in-place rewrite is NOT crash safe.
`ioutil.WriteFile(tmp); ioutil.WriteFile(filename); os.Remove(tmp)` — a crash after the
truncation of the target (k = 3) leaves an empty target: neither old nor new. -/

def inPlaceOps : List FsOp :=
  [.trunc .tmp, .append .tmp, .trunc .target, .append .target, .remove .tmp]

example : safeSeq inPlaceOps = false := by decide
-- (second defect found by the crash replay) IsWritable opened the wallet file with O_TRUNC:
example : safeSeqP (.trunc .target :: [.trunc .tmp, .append .tmp, .rename .tmp .target]) = false := by decide
example : (crashState exF (tmpName exF exH) [7] exFS (.trunc .target :: [.trunc .tmp, .append .tmp, .rename .tmp .target]) 1 0) exF
    = some [] := by decide
-- probed path non-vacuity: the wallet file exists
example : exFS exF ≠ none := by decide
example : let fs' := crashState exF (tmpName exF exH) [7, 7, 7, 7] exFS inPlaceOps 3 0
    fs' exF = some [] ∧ fs' exF ≠ exFS exF ∧ fs' exF ≠ some [7, 7, 7, 7] := by decide

def emptyFS : FS := fun _ => none

-- a probe that creates the file first is NOT safe for a file that does not exist yet
example : safeSeq (.touch .target :: [.trunc .tmp, .append .tmp, .rename .tmp .target]) = false := by decide
example : (crashState exF (tmpName exF exH) [7] emptyFS
    (.touch .target :: [.trunc .tmp, .append .tmp, .rename .tmp .target]) 1 0) exF = some [] := by decide


end Sky.Props.C20
