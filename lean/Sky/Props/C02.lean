/-
  C02 — the unspent set is exactly created-minus-spent; no output is spent twice.
  Scope of the proofs: both configurations (ordinary node and arbitrating publisher); `HashInj b.txns`
  (distinct transactions of one block have distinct hashes) is the only hash assumption.
-/
import Sky.Ledger.Run
namespace Sky.Props.C02
open Sky Sky.Ledger

/-- after an accepted block the unspent set is EXACTLY (old set − the block's inputs) + the outputs the
block's transactions create, nothing else -/
theorem unspent_eq_created_minus_spent {s s' : State} {b g : Block} (hinj : HashInj b.txns)
    (hg : s.chain.head? = some g) (h : execSigned s b = .ok s') :
    s'.unspent = s.unspent.filter (fun u => !(blockInputs b).contains u.id) ++ blockCreated b :=
  (accepted_block_facts hinj hg h).2.2.2.2

/-- a block is accepted only if EVERY input it spends is unspent at the current head and no two of
its transactions (nor one transaction twice) spend the same output -/
theorem accept_requires_unspent_and_distinct {s s' : State} {b g : Block} (hinj : HashInj b.txns)
    (hg : s.chain.head? = some g) (hwf : ∀ t ∈ b.txns, WfSound t) (h : execSigned s b = .ok s') :
    (∀ i ∈ blockInputs b, i ∈ s.unspent.map (·.id)) ∧ (blockInputs b).Nodup := by
  obtain ⟨hv, hp, _, _, _⟩ := accepted_block_facts hinj hg h
  constructor
  · intro i hi
    simp only [blockInputs, List.mem_flatMap] at hi
    obtain ⟨t, ht, hit⟩ := hi
    obtain ⟨uxIn, h1, _⟩ := verifyBlockTxn_ok (hv t ht)
    obtain ⟨hids, hmem⟩ := getArray_ok h1
    rw [← hids] at hit
    simp only [List.mem_map] at hit ⊢
    obtain ⟨u, hu, hue⟩ := hit
    exact ⟨u, hmem u hu, hue⟩
  · apply nodup_block_inputs _ hp
    intro t ht
    obtain ⟨_, _, hok, _, _⟩ := verifyBlockTxn_ok (hv t ht)
    exact hwf t ht hok

/-- output ids created by an accepted block are pairwise distinct and collide with no existing unspent
output (the node checks this explicitly; no hash assumption is needed) -/
theorem created_ids_fresh {s s' : State} {b g : Block} (hinj : HashInj b.txns)
    (hg : s.chain.head? = some g) (h : execSigned s b = .ok s') :
    ((blockCreated b).map (·.id)).Nodup ∧ ∀ u ∈ blockCreated b, u.id ∉ (keptPool s b).map (·.id) := by
  obtain ⟨_, _, hn, _, _⟩ := accepted_block_facts hinj hg h
  obtain ⟨_, _, _, s1, hs1, _⟩ := execSigned_ok h
  obtain ⟨_, htw, _⟩ := unspentProcessBlock_ok hs1
  constructor
  · unfold blockCreated; rw [created_ids]; exact hn
  · intro u hu
    have := List.any_eq_false.mp htw u hu
    exact contains_false_iff.mp (by simpa using this)

/-- an output spent by an accepted block is no longer unspent afterwards: it cannot be spent again
(any later block naming it is rejected by `accept_requires_unspent_and_distinct`) -/
theorem spent_is_gone {s s' : State} {b g : Block} {G : Nat} (hinj : HashInj b.txns)
    (hg : s.chain.head? = some g) (hinv : Inv s G) (hwf : ∀ t ∈ b.txns, WfSound t)
    (h : execSigned s b = .ok s') : ∀ i ∈ blockInputs b, i ∉ s'.unspent.map (·.id) := by
  intro i hi hmem
  rw [unspent_eq_created_minus_spent hinj hg h, List.map_append, List.mem_append] at hmem
  rcases hmem with hm | hm
  · simp only [List.mem_map, List.mem_filter] at hm
    obtain ⟨u, ⟨_, hu2⟩, hu3⟩ := hm
    rw [hu3] at hu2
    simp at hu2
    exact hu2 hi
  · -- a created id equal to a spent id would collide with an existing unspent output
    obtain ⟨hin, _⟩ := accept_requires_unspent_and_distinct hinj hg hwf h
    obtain ⟨_, _, _, hfresh, _⟩ := accepted_block_facts hinj hg h
    have hi' : i ∈ outIds b.txns := by
      unfold blockCreated at hm; rw [created_ids] at hm; exact hm
    have := contains_false_iff.mp (hfresh i hi')
    exact this (hin i hi)

/-- rejection leaves the unspent set untouched -/
theorem reject_keeps_unspent (s : State) (b : Block) (e : String) (h : execSigned s b = .error e) :
    (applyOp s (.exec b)).unspent = s.unspent := by simp [applyOp, h]

/-- **no double spend across blocks**: once a block spending output `i` has been accepted, the very next
state refuses EVERY block that names `i` among its inputs again — whatever else that block contains,
whoever signed it, in either node configuration -/
theorem double_spend_rejected {s s' : State} {b b2 g g' : Block} {G : Nat} (hinj : HashInj b.txns)
    (hg : s.chain.head? = some g) (hinv : Inv s G) (hwf : ∀ t ∈ b.txns, WfSound t)
    (h : execSigned s b = .ok s')
    (hinj2 : HashInj b2.txns) (hg' : s'.chain.head? = some g') (hwf2 : ∀ t ∈ b2.txns, WfSound t)
    (i : Id) (hi : i ∈ blockInputs b) (hi2 : i ∈ blockInputs b2) :
    ∀ s'', execSigned s' b2 ≠ .ok s'' := by
  intro s'' h2
  have hgone := spent_is_gone hinj hg hinv hwf h i hi
  exact hgone ((accept_requires_unspent_and_distinct hinj2 hg' hwf2 h2).1 i hi2)

/-- the same inside ONE block: a block in which two transactions (or one transaction twice) name the same
output is never accepted -/
theorem double_spend_in_block_rejected {s : State} {b g : Block} (hinj : HashInj b.txns)
    (hg : s.chain.head? = some g) (hwf : ∀ t ∈ b.txns, WfSound t) (hdup : ¬ (blockInputs b).Nodup) :
    ∀ s', execSigned s b ≠ .ok s' := by
  intro s' h
  exact hdup (accept_requires_unspent_and_distinct hinj hg hwf h).2

end Sky.Props.C02
