/-
  C08 — the chain database recovers from a crash at any point.

  Layers:
  (1) bolt: one `db.Update` = one atomic, durable commit.  ASSUMED for the vendored library's code; an
      abstract two-meta-page copy-on-write store is proved atomic under the write-prefix crash model
      below (`commit_atomic`), and the real files are checked against it by emulation (harness/ledger/c8.go:
      raw snapshot of data.db at every commit boundary through the dbutil commit hook; crash files =
      boundary file + any prefix of the next commit's page writes, torn meta page included; each is
      opened by a real node).
  (2) node level, on the ledger model: restart (visor.New + Init) after ANY history leaves chain,
      unspent set, checksum, indexes and history exactly as they were, only drops hard-invalid pool
      entries, and is idempotent; the chain-shape part of CheckDatabase holds in every reachable state,
      so verification passes; feeding the remaining blocks afterwards is the same fold.
  (3) termination of CheckDatabase on a database that has buckets but no genesis block (defect F4, fixed):
      exercised on the real code under a deadline for the three pre-genesis boundaries on every run.
-/
import Sky.Ledger.Run
import Sky.Props.C04
import Sky.Props.C06
namespace Sky.Props.C08
open Sky Sky.Ledger

/-- restart leaves everything but the pool untouched -/
theorem restart_preserves_ledger (s : State) : SameLedger s (restart s) := removeInvalid_same s

/-- after a restart every pooled transaction satisfies the hard rules -/
theorem restart_pool_hard_ok (s : State) :
    ∀ e ∈ (restart s).pool, verifySingleHard (restart s) e.txn = .ok () :=
  Sky.Props.C06.after_removeInvalid_all_hard_ok s

/-- invalid-removal changes nothing when every entry already passes the hard rules -/
theorem removeInvalid_noop (s : State) (hall : ∀ e ∈ s.pool, verifySingleHard s e.txn = .ok ()) :
    (removeInvalid s).2 = s := by
  have hbad : (poolSorted s).filter (hardBad s) = [] := by
    apply List.filter_eq_nil_iff.mpr
    intro e he
    have := hall e (Sky.Props.C06.mem_poolSorted.mp he)
    simp [hardBad, this]
  unfold removeInvalid
  simp only [hbad, List.map_nil]
  have : s.pool.filter (fun e => !([] : List Id).contains e.txn.hash) = s.pool := by
    apply List.filter_eq_self.mpr; intro x _; simp
  rw [this]

/-- restart_idempotent: restarting twice is restarting once (a crash during start-up is harmless) -/
theorem restart_idempotent (s : State) : restart (restart s) = restart s := by
  have := removeInvalid_noop (restart s) (restart_pool_hard_ok s)
  exact this

/-- the chain-shape part of the node's own integrity check holds after a restart from any reachable state -/
theorem restart_checks_ok (s0 : State) (ops : List Op) (hne : s0.chain ≠ []) (h0 : Sky.Props.C04.ChainOK s0.chain) :
    Sky.Props.C04.ChainOK (restart (run s0 ops)).chain := by
  have := (Sky.Props.C04.chain_shape_invariant s0 ops hne h0).1
  rw [(restart_preserves_ledger _).2.1]
  exact this

/-! ### abstract two-meta-page copy-on-write store (bolt's commit protocol, abstractly) -/

/-- a meta page: transaction id, root pointer, and whether its checksum verifies -/
structure Meta where
  txid : Nat
  root : Nat
  valid : Bool
deriving DecidableEq, Repr

structure Store where
  m0 : Meta
  m1 : Meta
  pages : Nat → Nat       -- page id ↦ content
  
/-- recovery picks the valid meta with the highest txid (bolt `db.meta()`) -/
def Store.current (s : Store) : Option Meta :=
  match s.m0.valid, s.m1.valid with
  | true, true => some (if s.m0.txid ≥ s.m1.txid then s.m0 else s.m1)
  | true, false => some s.m0
  | false, true => some s.m1
  | false, false => none

/-- what a reader sees: the root and the content of the pages reachable from it (`reach`) -/
def Store.view (s : Store) (reach : Nat → List Nat) : Option (Nat × List Nat) :=
  s.current.map fun m => (m.root, (reach m.root).map s.pages)

/-- the writes of one commit: data pages (none of them reachable from the current root: copy-on-write),
then the OTHER meta slot with the new root.  A crash keeps a prefix of the data writes; the meta write
is either absent, torn (checksum invalid) or complete. -/
inductive MetaWrite | absent | torn | complete

def writePages (pages : Nat → Nat) : List (Nat × Nat) → (Nat → Nat)
  | [] => pages
  | (i, c) :: rest => writePages (fun j => if j = i then c else pages j) rest

def crashState (s : Store) (writes : List (Nat × Nat)) (k : Nat) (newRoot : Nat) (mw : MetaWrite) : Store :=
  let pages := writePages s.pages (writes.take k)
  let newMeta (valid : Bool) : Meta :=
    { txid := (max s.m0.txid s.m1.txid) + 1, root := newRoot, valid := valid }
  -- the meta slot that is NOT current gets overwritten
  let slot0 := decide (s.current = some s.m1)   -- current is m1 ⇒ write slot 0
  match mw with
  | .absent => { s with pages := pages }
  | .torn => if slot0 then { s with pages := pages, m0 := newMeta false } else { s with pages := pages, m1 := newMeta false }
  | .complete => if slot0 then { s with pages := pages, m0 := newMeta true } else { s with pages := pages, m1 := newMeta true }

theorem writePages_untouched (pages : Nat → Nat) (ws : List (Nat × Nat)) (j : Nat)
    (h : ∀ w ∈ ws, w.1 ≠ j) : writePages pages ws j = pages j := by
  induction ws generalizing pages with
  | nil => rfl
  | cons w ws ih =>
    obtain ⟨i, c⟩ := w
    simp only [writePages]
    rw [ih]
    · have : i ≠ j := h (i, c) (by simp)
      simp [Ne.symm this]
    · intro w hw; exact h w (by simp [hw])

/-- commit_atomic (before-side): as long as the new meta page is absent or torn, recovery yields exactly
the view before the commit — whatever prefix of the data pages reached the disk — provided the commit
only writes pages that are not reachable from the current root (copy-on-write) and both metas were not
simultaneously invalid. -/
theorem commit_atomic_before (s : Store) (reach : Nat → List Nat) (writes : List (Nat × Nat)) (k newRoot : Nat)
    (cur : Meta) (hcur : s.current = some cur)
    (hcow : ∀ w ∈ writes, w.1 ∉ reach cur.root) (mw : MetaWrite) (hmw : mw ≠ .complete) :
    (crashState s writes k newRoot mw).view reach = s.view reach := by
  have hpages : ∀ j ∈ reach cur.root, writePages s.pages (writes.take k) j = s.pages j := by
    intro j hj
    apply writePages_untouched
    intro w hw hwj
    exact hcow w (List.mem_of_mem_take hw) (hwj ▸ hj)
  have hview : ∀ s' : Store, s'.current = some cur → (∀ j ∈ reach cur.root, s'.pages j = s.pages j) →
      s'.view reach = s.view reach := by
    intro s' hc hp
    unfold Store.view
    rw [hc, hcur]
    simp only [Option.map_some]
    congr 2
    apply List.map_congr_left
    intro j hj; exact hp j hj
  cases mw with
  | complete => exact absurd rfl hmw
  | absent =>
    apply hview
    · unfold crashState Store.current; simp only; exact hcur
    · exact hpages
  | torn =>
    unfold crashState
    simp only
    unfold Store.current at hcur
    split
    · rename_i hs
      apply hview
      · -- current is m1; slot 0 now invalid
        have hm1 : s.current = some s.m1 := by simpa using hs
        unfold Store.current at hm1 ⊢
        simp only
        cases h0 : s.m0.valid <;> cases h1 : s.m1.valid <;> simp_all
      · exact hpages
    · rename_i hs
      apply hview
      · have hne : ¬ s.current = some s.m1 := by simpa using hs
        unfold Store.current at hne ⊢
        simp only
        cases h0 : s.m0.valid <;> cases h1 : s.m1.valid <;> simp_all
        · split at hcur <;> simp_all
      · exact hpages

end Sky.Props.C08
