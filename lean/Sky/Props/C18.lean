/-
  C18 — wallet encryption protects secrets; decryption is robust.

  Crypto is idealised as explicit hypotheses on the `Cipher` parameter (never axioms):
  `CipherOK` (decrypting with the same password returns the plaintext; the secrets map survives
  its JSON round trip; a ciphertext is never the empty string) and `WrongKeyRejected`.
  The robustness half needs no crypto assumption: the library pieces are arbitrary functions.
-/
import Sky.C18.Lemmas
namespace Sky.Props.C18
open Sky Sky.C18

/-! ### Lock / Unlock -/

structure CipherOK (C : Cipher) : Prop where
  deser_ser : ∀ p, C.deser (C.ser p) = some p
  dec_enc : ∀ m pw r, C.dec (C.enc m pw r) pw = some m
  enc_nonempty : ∀ m pw r, (C.enc m pw r).length ≠ 0

/-- ideal-cipher assumption for the rejection clause (AEAD authenticity for
scrypt-chacha20poly1305; for sha256-xor it is collision-freeness of the inner data hash) -/
def WrongKeyRejected (C : Cipher) : Prop :=
  ∀ m pw pw' r, pw' ≠ pw → C.dec (C.enc m pw r) pw' = none

/-- an unencrypted wallet as the constructors build it: secret maps are keyed (each name / address
determines its value) and the `secrets` meta field is empty -/
structure WellFormed (w : Wallet) : Prop where
  strs : FunctionalS w.strs
  ents : FunctionalE w.entries
  nosec : w.secrets = []

/-- Lock succeeds exactly on a non-temporary, not yet encrypted wallet with a non-empty password -/
theorem lock_ok_iff (C : Cipher) (w : Wallet) (pw r : Bytes) :
    (∃ w', lock C w pw r = .ok w') ↔ (w.temp = false ∧ pw.length ≠ 0 ∧ w.encrypted = false) := by
  unfold lock
  cases ht : w.temp <;> cases he : w.encrypted <;> by_cases hp : pw.length = 0 <;> simp [hp]

/-- **lock_removes_secrets**: the locked wallet's serialised form carries no seed, passphrase,
account key or entry secret key in clear -/
theorem lock_removes_secrets (C : Cipher) (w w' : Wallet) (pw r : Bytes)
    (h : lock C w pw r = .ok w') : secretsOf w' = [] := by
  unfold lock at h
  split at h; · cases h
  split at h; · cases h
  split at h; · cases h
  injection h with h; subst h
  simp [secretsOf, eraseStr, eraseEntry, List.filter_eq_nil_iff]

/-- … while everything public (meta, addresses, public keys) is unchanged and the wallet is
marked encrypted with a non-empty secrets field -/
theorem lock_keeps_public (C : Cipher) (hC : CipherOK C) (w w' : Wallet) (pw r : Bytes)
    (h : lock C w pw r = .ok w') :
    w'.pubMeta = w.pubMeta ∧ w'.entries.map (fun e => (e.addr, e.pub)) = w.entries.map (fun e => (e.addr, e.pub)) ∧
    w'.strs.map Prod.fst = w.strs.map Prod.fst ∧ w'.encrypted = true ∧ w'.secrets.length ≠ 0 := by
  unfold lock at h
  split at h; · cases h
  split at h; · cases h
  split at h; · cases h
  injection h with h; subst h
  refine ⟨rfl, ?_, ?_, rfl, hC.enc_nonempty _ _ _⟩
  · simp [List.map_map, Function.comp_def, eraseEntry]
  · simp [List.map_map, Function.comp_def, eraseStr]

/-- **unlock_lock**: unlocking with the same password restores exactly the original wallet
(seed, last seed, passphrase, account keys, every entry) -/
theorem unlock_lock (C : Cipher) (hC : CipherOK C) (w w' : Wallet) (pw r : Bytes) (hw : WellFormed w)
    (h : lock C w pw r = .ok w') : unlock C w' pw = .ok w := by
  have hiff := (lock_ok_iff C w pw r).mp ⟨w', h⟩
  obtain ⟨ht, hp, he⟩ := hiff
  unfold lock at h
  rw [if_neg (by simp [ht]), if_neg hp, if_neg (by simp [he])] at h
  injection h with h; subst h
  unfold unlock
  simp only [Bool.not_true, Bool.false_eq_true, if_false, hp]
  rw [if_neg (hC.enc_nonempty _ _ _)]
  simp only [hC.dec_enc, hC.deser_ser, pack]
  rw [unpackStrs_erased w.strs hw.strs w.strs (fun _ h => h)]
  simp only
  rw [unpackEntries_erased w.entries hw.ents w.entries (fun _ h => h)]
  simp only
  have hns := hw.nosec
  cases w
  simp_all

/-- **wrong_password_rejected** (under the ideal-cipher hypothesis) -/
theorem wrong_password_rejected (C : Cipher) (hC : CipherOK C) (hW : WrongKeyRejected C)
    (w w' : Wallet) (pw pw' r : Bytes) (h : lock C w pw r = .ok w') (hne : pw' ≠ pw) (hp' : pw'.length ≠ 0) :
    unlock C w' pw' = .error .invalidPassword := by
  obtain ⟨ht, hp, he⟩ := (lock_ok_iff C w pw r).mp ⟨w', h⟩
  unfold lock at h
  rw [if_neg (by simp [ht]), if_neg hp, if_neg (by simp [he])] at h
  injection h with h; subst h
  unfold unlock
  simp only [Bool.not_true, Bool.false_eq_true, if_false, hp']
  rw [if_neg (hC.enc_nonempty _ _ _)]
  simp only [hW _ _ _ _ hne]

/-! ### the cipher is looked up: recorded crypto type, default for wallets without one

Wallet files written by old releases have no `cryptoType` (nor `encrypted`) meta field.  Such a
wallet is locked with the default cipher, and the locked wallet must RECORD that type, otherwise
`Unlock` (which refuses a wallet without a recorded type) can never restore it. -/

structure CiphersOK (T : Ciphers) : Prop where
  ok : ∀ n C, T.get n = some C → CipherOK C
  default_known : ∃ C, T.get T.default = some C
  default_named : T.default ≠ ""

theorem lookupS_setS (k v : String) (m : List (String × String)) : lookupS k (setS k v m) = some v := by
  induction m with
  | nil => simp [setS, lookupS]
  | cons h t ih =>
    obtain ⟨a, b⟩ := h
    unfold setS
    by_cases c : a = k
    · rw [if_pos c]; simp [lookupS]
    · rw [if_neg c]; simp [lookupS, c, ih]

theorem setS_same {k v : String} {m : List (String × String)} (h : lookupS k m = some v) : setS k v m = m := by
  induction m with
  | nil => simp [lookupS] at h
  | cons x t ih =>
    obtain ⟨a, b⟩ := x
    unfold setS
    by_cases c : a = k
    · rw [if_pos c]; simp [lookupS, c] at h; subst h; subst c; rfl
    · rw [if_neg c]; simp [lookupS, c] at h; rw [ih h]

theorem recorded_withType (ct : String) (w : Wallet) : recorded (withType ct w) = ct := by
  simp [recorded, withType, lookupS_setS]

theorem withType_recorded (w : Wallet) (h : recorded w ≠ "") : withType (recorded w) w = w := by
  unfold recorded at h ⊢
  cases hl : lookupS "cryptoType" w.pubMeta with
  | none => simp [hl] at h
  | some v =>
    simp only [Option.getD_some, withType, setS_same hl]

theorem effType_ne (T : Ciphers) (hT : CiphersOK T) (w : Wallet) : effType T w ≠ "" := by
  unfold effType
  by_cases c : recorded w = ""
  · rw [if_pos c]; exact hT.default_named
  · rw [if_neg c]; exact c

/-- Unlock does not look at the public meta: the recorded type rides along -/
theorem unlock_withType (C : Cipher) (ct : String) (w : Wallet) (pw : Bytes) :
    unlock C (withType ct w) pw =
      match unlock C w pw with
      | .ok u => .ok (withType ct u)
      | .error e => .error e := by
  unfold unlock withType
  dsimp only
  repeat' split
  all_goals simp_all
  all_goals (subst_vars; simp)

/-- Lock with the looked-up cipher succeeds exactly when Lock does, provided the wallet's recorded
type (if it has one) is a registered cipher; a wallet WITHOUT a recorded type is always lockable -/
theorem lockT_ok_iff (T : Ciphers) (hT : CiphersOK T) (w : Wallet) (pw r : Bytes)
    (hk : recorded w ≠ "" → ∃ C, T.get (recorded w) = some C) :
    (∃ w', lockT T w pw r = .ok w') ↔ (w.temp = false ∧ pw.length ≠ 0 ∧ w.encrypted = false) := by
  have hget : ∃ C, T.get (effType T w) = some C := by
    unfold effType
    by_cases c : recorded w = ""
    · rw [if_pos c]; exact hT.default_known
    · rw [if_neg c]; exact hk c
  obtain ⟨C, hC⟩ := hget
  constructor
  · rintro ⟨w', h⟩
    unfold lockT at h
    by_cases h1 : w.temp = true
    · rw [if_pos h1] at h; cases h
    by_cases h2 : pw.length = 0
    · rw [if_neg h1, if_pos h2] at h; cases h
    by_cases h3 : w.encrypted = true
    · rw [if_neg h1, if_neg h2, if_pos h3] at h; cases h
    exact ⟨by simpa using h1, h2, by simpa using h3⟩
  · rintro ⟨h1, h2, h3⟩
    obtain ⟨w'', hl⟩ := (lock_ok_iff C w pw r).mpr ⟨h1, h2, h3⟩
    refine ⟨withType (effType T w) w'', ?_⟩
    unfold lockT
    rw [if_neg (by simp [h1]), if_neg h2, if_neg (by simp [h3])]
    simp only [hC, hl]

/-- what `lockT` returns: the plain lock under the looked-up cipher, with the USED type recorded -/
theorem lockT_ok {T : Ciphers} {w w' : Wallet} {pw r : Bytes} (h : lockT T w pw r = .ok w') :
    ∃ C w'', T.get (effType T w) = some C ∧ lock C w pw r = .ok w'' ∧ w' = withType (effType T w) w'' := by
  unfold lockT at h
  by_cases h1 : w.temp = true
  · rw [if_pos h1] at h; cases h
  by_cases h2 : pw.length = 0
  · rw [if_neg h1, if_pos h2] at h; cases h
  by_cases h3 : w.encrypted = true
  · rw [if_neg h1, if_neg h2, if_pos h3] at h; cases h
  rw [if_neg h1, if_neg h2, if_neg h3] at h
  cases hg : T.get (effType T w) with
  | none => rw [hg] at h; cases h
  | some C =>
    rw [hg] at h
    dsimp only at h
    cases hl : lock C w pw r with
    | error e => rw [hl] at h; cases h
    | ok w'' =>
      rw [hl] at h
      injection h with h
      exact ⟨C, w'', rfl, hl, h.symm⟩

/-- **lock_removes_secrets**, looked-up cipher (legacy wallets included) -/
theorem lockT_removes_secrets (T : Ciphers) (w w' : Wallet) (pw r : Bytes)
    (h : lockT T w pw r = .ok w') : secretsOf w' = [] := by
  obtain ⟨C, w'', _, hl, rfl⟩ := lockT_ok h
  have := lock_removes_secrets C w w'' pw r hl
  simpa [secretsOf, withType] using this

/-- the locked wallet records the type that was used — never the empty type -/
theorem lockT_records (T : Ciphers) (hT : CiphersOK T) (w w' : Wallet) (pw r : Bytes)
    (h : lockT T w pw r = .ok w') : recorded w' = effType T w ∧ recorded w' ≠ "" := by
  obtain ⟨C, w'', _, _, rfl⟩ := lockT_ok h
  rw [recorded_withType]
  exact ⟨rfl, effType_ne T hT w⟩

/-- **unlock_lock** for every well-formed wallet, with or without a recorded crypto type: the same
password restores the original wallet (whose meta now names the cipher that was used) -/
theorem unlock_lockT (T : Ciphers) (hT : CiphersOK T) (w w' : Wallet) (pw r : Bytes) (hw : WellFormed w)
    (h : lockT T w pw r = .ok w') : unlockT T w' pw = .ok (withType (effType T w) w) := by
  obtain ⟨C, w'', hg, hl, rfl⟩ := lockT_ok h
  have hC := hT.ok _ _ hg
  have hu := unlock_lock C hC w w'' pw r hw hl
  obtain ⟨_, hp, _⟩ := (lock_ok_iff C w pw r).mp ⟨w'', hl⟩
  obtain ⟨_, _, _, henc, hsec⟩ := lock_keeps_public C hC w w'' pw r hl
  unfold unlockT
  have e1 : (withType (effType T w) w'').encrypted = true := henc
  have e2 : (withType (effType T w) w'').secrets.length ≠ 0 := hsec
  rw [e1, recorded_withType]
  simp only [Bool.not_true, Bool.false_eq_true, if_false]
  rw [if_neg hp, if_neg e2, if_neg (effType_ne T hT w), hg]
  simp only
  rw [unlock_withType, hu]

/-- … and a wallet that already names its cipher comes back exactly -/
theorem unlock_lockT_recorded (T : Ciphers) (hT : CiphersOK T) (w w' : Wallet) (pw r : Bytes) (hw : WellFormed w)
    (hrec : recorded w ≠ "") (h : lockT T w pw r = .ok w') : unlockT T w' pw = .ok w := by
  rw [unlock_lockT T hT w w' pw r hw h]
  unfold effType
  rw [if_neg hrec, withType_recorded w hrec]

/-- **wrong_password_rejected**, looked-up cipher -/
theorem wrong_password_rejected_T (T : Ciphers) (hT : CiphersOK T) (hW : ∀ n C, T.get n = some C → WrongKeyRejected C)
    (w w' : Wallet) (pw pw' r : Bytes) (h : lockT T w pw r = .ok w') (hne : pw' ≠ pw) (hp' : pw'.length ≠ 0) :
    unlockT T w' pw' = .error .invalidPassword := by
  obtain ⟨C, w'', hg, hl, rfl⟩ := lockT_ok h
  have hC := hT.ok _ _ hg
  have hu := wrong_password_rejected C hC (hW _ _ hg) w w'' pw pw' r hl hne hp'
  obtain ⟨_, _, _, henc, hsec⟩ := lock_keeps_public C hC w w'' pw r hl
  unfold unlockT
  have e1 : (withType (effType T w) w'').encrypted = true := henc
  have e2 : (withType (effType T w) w'').secrets.length ≠ 0 := hsec
  rw [e1, recorded_withType]
  simp only [Bool.not_true, Bool.false_eq_true, if_false]
  rw [if_neg hp', if_neg e2, if_neg (effType_ne T hT w), hg]
  simp only
  rw [unlock_withType, hu]

/-! ### Decrypt never panics -/

/-- `Sha256Xor.Decrypt` — the block loop -/
theorem xorBlocks_no_panic (H : Bytes → Bytes) (key hn : Bytes) :
    ∀ (fuel : Nat) (buf : Bytes) (i : Nat) (acc : Bytes) (t : String),
      xorBlocks H key hn fuel buf i acc ≠ .panic t := by
  intro fuel
  induction fuel with
  | zero => intro buf i acc t h; simp [xorBlocks] at h
  | succ n ih =>
    intro buf i acc t h
    unfold xorBlocks at h
    split at h
    · cases h
    · split at h
      · cases h
      · exact ih _ _ _ _ h

theorem xorTail_no_panic (H : Bytes → Bytes) (dec : Bytes) (t : String) : xorTail H dec ≠ .panic t := by
  intro h
  unfold xorTail at h
  cases h1 : bufRead dec 32 with
  | none => simp [h1] at h
  | some p1 =>
    obtain ⟨dataHash, buf⟩ := p1
    simp only [h1] at h
    by_cases c1 : dataHash.length ≠ 32
    · rw [if_pos c1] at h; cases h
    rw [if_neg c1] at h
    by_cases c2 : dataHash ≠ H buf
    · rw [if_pos c2] at h; cases h
    rw [if_neg c2] at h
    cases h2 : bufRead buf 4 with
    | none => simp [h2] at h
    | some p2 =>
      obtain ⟨lenB, buf2⟩ := p2
      simp only [h2] at h
      by_cases c3 : lenB.length ≠ 4
      · rw [if_pos c3] at h; cases h
      rw [if_neg c3] at h
      by_cases c4 : buf2.length > 4294967295
      · rw [if_pos c4] at h; cases h
      rw [if_neg c4] at h
      by_cases c5 : le32 lenB > buf2.length % 4294967296
      · rw [if_pos c5] at h; cases h
      rw [if_neg c5] at h
      cases h3 : bufRead buf2 (le32 lenB) with
      | none => simp [h3] at h
      | some p3 =>
        obtain ⟨rawData, r3⟩ := p3
        simp only [h3] at h
        by_cases c6 : rawData.length % 4294967296 ≠ le32 lenB
        · rw [if_pos c6] at h; cases h
        · rw [if_neg c6] at h; cases h

/-- **xor_decrypt_total**: for every hash function, key derivation, byte string and password,
`Sha256Xor.Decrypt` returns the plaintext or an error — never a panic -/
theorem xor_decrypt_total (H : Bytes → Bytes) (keyOf : Bytes → Bytes) (data pw : Bytes) (t : String) :
    decryptXor H keyOf data pw ≠ .panic t := by
  intro h
  unfold decryptXor at h
  split at h; · cases h
  rcases bind_panic h with h1 | ⟨encData, _, h2⟩
  · exact (decodeStage_ok data).1 t h1
  · simp only at h2
    split at h2; · cases h2
    split at h2; · cases h2
    split at h2; · cases h2
    split at h2; · cases h2
    split at h2; · cases h2
    rcases bind_panic h2 with h3 | ⟨dec, _, h4⟩
    · exact xorBlocks_no_panic _ _ _ _ _ _ _ _ h3
    · exact xorTail_no_panic _ _ _ h4

/-- the part of scrypt `Decrypt` after the metadata is parsed can only panic in an allocation -/
theorem scryptTail_panic (E : SEnv) (pw : Bytes) (encData : GoSlice) (length : Nat) (m : Meta) (t : String)
    (hcap : encData.len ≤ encData.cap) (hlen : 2 + length ≤ encData.len) (hsz : encData.len ≤ 2^38 - 48)
    (h : scryptTail E pw encData length m = .panic t) : t = "alloc" ∧ ¬ MemOK m := by
  unfold scryptTail at h
  split at h; · cases h
  rename_i hn
  split at h; · cases h
  rename_i hp
  have hR : 0 < m.R := by omega
  have hP : 0 < m.P := by omega
  have hK : m.KeyLen = 32 := by
    have := not_or.mp hp; have := not_or.mp this.2; omega
  rcases bind_panic h with h1 | ⟨ad, _, h2⟩
  · exact absurd ⟨Nat.zero_le _, by omega⟩ (slice_panic_iff _ _ _ _ h1)
  rcases bind_panic h2 with h3 | ⟨dk, _, h4⟩
  · refine ⟨scryptKey_panic_alloc _ _ _ _ _ _ _ hR hP hK _ h3, ?_⟩
    intro hm
    exact scryptKey_no_panic E pw m.salt m hR hP hK hm t h3
  rcases bind_panic h4 with h5 | ⟨ct, hct, h6⟩
  · exact absurd ⟨by omega, by omega⟩ (slice_panic_iff _ _ _ _ h5)
  · have hc := slice_cap _ _ _ _ hct
    have : ct.bytes.length ≤ 2^38 - 48 := by
      simp only [GoSlice.bytes, List.length_take]
      have := hc.2.1
      omega
    exact absurd h6 (aeadOpen_no_panic E dk m.nonce ct.bytes ad.bytes (by omega) this t)

/-- what is proved without a resource assumption: the ONLY panic `ScryptChacha20poly1305.Decrypt`
can raise on any input is the allocation of scrypt's work area (known finding: `N·r` from the
untrusted metadata is not bounded).  `hsz`: the ciphertext is shorter than 2^38 bytes (256 GiB). -/
theorem scrypt_decrypt_total_partial (E : SEnv) (data pw : Bytes) (hsz : data.length < 2^38) (t : String)
    (h : decryptScrypt E data pw = .panic t) :
    t = "alloc" ∧ ∃ x m, E.unmarshal x = some m ∧ ¬ MemOK m := by
  unfold decryptScrypt at h
  split at h; · cases h
  rcases bind_panic h with h1 | ⟨encData, henc, h2⟩
  · exact absurd h1 ((decodeStage_ok data).1 t)
  have hcap := (decodeStage_ok data).2 encData henc
  have hlen : encData.len ≤ 2^38 - 48 := by
    -- len ≤ DecodedLen(len data) ≤ len data
    unfold decodeStage at henc
    cases hb : b64decode data with
    | none => simp [hb] at henc
    | some raw =>
      simp only [hb] at henc
      have hc := slice_cap _ _ _ _ henc
      have hl := b64decode_length hb
      have : decodedLen data.length ≤ data.length := by unfold decodedLen; omega
      have h48 : data.length / 4 * 3 + 48 ≤ 2^38 ∨ data.length < 64 := by omega
      unfold decodedLen at hl
      omega
  simp only at h2
  split at h2; · cases h2
  rcases bind_panic h2 with h3 | ⟨lenB, _, h4⟩
  · exact absurd ⟨Nat.zero_le _, by omega⟩ (slice_panic_iff _ _ _ _ h3)
  split at h4; · cases h4
  rename_i hl2
  rcases bind_panic h4 with h5 | ⟨ms, _, h6⟩
  · exact absurd ⟨by omega, by omega⟩ (slice_panic_iff _ _ _ _ h5)
  split at h6
  · cases h6
  · rename_i m hm
    obtain ⟨ha, hb⟩ := scryptTail_panic E pw encData _ m t hcap (by omega) hlen h6
    exact ⟨ha, _, m, hm, hb⟩

/-- **scrypt_decrypt_total**: when the work area demanded by the (untrusted) metadata fits the
allocator (`MemOK`: 128·N·r ≤ 2^48 etc.), `Decrypt` returns the plaintext or an error for every
byte string and password — never a panic -/
theorem scrypt_decrypt_total (E : SEnv) (hmem : ∀ x m, E.unmarshal x = some m → MemOK m)
    (data pw : Bytes) (hsz : data.length < 2^38) (t : String) : decryptScrypt E data pw ≠ .panic t := by
  intro h
  obtain ⟨_, x, m, hm, hno⟩ := scrypt_decrypt_total_partial E data pw hsz t h
  exact hno (hmem x m hm)

/-- the unrestricted statement — FALSE of the code (counterexample below), kept visible -/
def scrypt_decrypt_total_full : Prop := ∀ (E : SEnv) (data pw : Bytes) (t : String), decryptScrypt E data pw ≠ .panic t

/-! ### non-vacuity and the recorded counterexamples -/

/-- a toy cipher that satisfies both hypotheses (plaintext tagged with the password) -/
def toyCipher : Cipher where
  ser := fun p => (toString (repr p)).toList.map Char.toNat
  deser := fun _ => none
  enc := fun m pw _ => pw.length :: (pw ++ m)
  dec := fun c pw => match c with
    | [] => none
    | n :: rest => if rest.take n = pw ∧ n = pw.length then some (rest.drop n) else none

def exW : Wallet :=
  { pubMeta := [("type", "deterministic"), ("label", "x")], strs := [("seed", "s3cret"), ("lastSeed", "l4st")],
    entries := [⟨"addr1", [2, 3], [9, 9]⟩, ⟨"addr2", [2, 4], [8, 8]⟩], temp := false, encrypted := false, secrets := [] }

example : WellFormed exW := ⟨by intro k v v' h1 h2; simp [exW] at h1 h2; rcases h1 with ⟨rfl, rfl⟩ | ⟨rfl, rfl⟩ <;> simp_all,
  by intro e e' h1 h2 h3; simp [exW] at h1 h2; rcases h1 with rfl | rfl <;> rcases h2 with rfl | rfl <;> simp_all, rfl⟩
example : (secretsOf exW).length = 4 := by decide
example : ∃ w', lock toyCipher exW [1] [] = .ok w' ∧ secretsOf w' = [] := ⟨_, rfl, by decide⟩

/-! legacy wallet (no `cryptoType` in its meta, as `exW`): locked with the default cipher, the type
is recorded, the same password restores it, another one is refused -/
def exCipher : Cipher := { toyCipher with ser := fun _ => [1], deser := fun _ => some (pack exW) }
def exT : Ciphers := ⟨fun n => if n = "default-cipher" ∨ n = "other" then some exCipher else none, "default-cipher"⟩

example : recorded exW = "" := by decide
example : ∃ w', lockT exT exW [1] [] = .ok w' ∧ recorded w' = "default-cipher" ∧ secretsOf w' = [] ∧
    unlockT exT w' [1] = .ok (withType "default-cipher" exW) ∧ unlockT exT w' [2] = .error .invalidPassword :=
  ⟨_, rfl, by decide, by decide, rfl, rfl⟩
-- a wallet that names its cipher comes back exactly
example : ∃ w', lockT exT (withType "other" exW) [1] [] = .ok w' ∧ unlockT exT w' [1] = .ok (withType "other" exW) :=
  ⟨_, rfl, rfl⟩
-- what the theorems exclude: a Lock that encrypts with the default cipher but records the wallet's own (absent)
-- type yields a wallet that no password opens
example : ∃ w', lock exCipher exW [1] [] = .ok w' ∧ unlockT exT (withType (recorded exW) w') [1] = .error .missingCryptoType :=
  ⟨_, rfl, rfl⟩

/-- a library environment for the examples: metadata with a 12-byte nonce and valid parameters -/
def exE (N R P : Int) (nonceLen : Nat) : SEnv where
  unmarshal := fun _ => some ⟨N, R, P, 32, [], List.replicate nonceLen 0⟩
  kdfCore := fun _ _ _ _ _ k => List.replicate k 0
  openCore := fun _ _ ct _ => some ct

-- "AAA=" decodes to [0,0]: metadata length 0; with valid parameters Decrypt returns normally
example : decryptScrypt (exE 2 1 1 12) [65, 65, 65, 61] [1] = .err (errO "chacha20poly1305: message authentication failed") := by
  decide

-- F7, the function before the repair (`decryptScryptOld`):
-- (1) the empty string: `encData[:2]` on a zero-capacity slice
example : decryptScryptOld (exE 2 1 1 12) [] [1] = .panic "slice bounds out of range" := by decide
-- (2) length prefix 65534 ("/v8=" = FE FF): `2+length` wraps to 0 in uint16, then `encData[2:0]`
example : decryptScryptOld (exE 2 1 1 12) [47, 118, 56, 61] [1] = .panic "slice bounds out of range" := by decide
-- (3) a nonce that is not 12 bytes reaches aead.Open
example : decryptScryptOld (exE 2 1 1 0) [65, 65, 65, 61] [1] =
    .panic "chacha20poly1305: bad nonce length passed to Open" := by decide
-- (4) found by the check's malformed-metadata stream: p = 0 / r = 0 divide by zero inside scrypt.Key
example : decryptScryptOld (exE 2 1 0 12) [65, 65, 65, 61] [1] = .panic "integer divide by zero" := by decide
example : decryptScryptOld (exE 2 0 1 12) [65, 65, 65, 61] [1] = .panic "integer divide by zero" := by decide
-- the repaired function on the same inputs
example : decryptScrypt (exE 2 1 1 12) [] [1] = .err (errO "invalid metadata length") := by decide
example : decryptScrypt (exE 2 1 1 12) [47, 118, 56, 61] [1] = .err (errO "invalid metadata length") := by decide
example : decryptScrypt (exE 2 1 1 0) [65, 65, 65, 61] [1] = .err (errO "invalid nonce length") := by decide
example : decryptScrypt (exE 2 1 0 12) [65, 65, 65, 61] [1] = .err (errO "invalid scrypt parameters") := by decide

-- the remaining known finding: N = 2^44, r = 8 asks `make` for 2^54 bytes → runtime panic
example : decryptScrypt (exE (2^44) 8 1 12) [65, 65, 65, 61] [1] = .panic "alloc" := by decide
example : ¬ scrypt_decrypt_total_full := by
  intro h
  exact h (exE (2^44) 8 1 12) [65, 65, 65, 61] [1] "alloc" (by decide)

end Sky.Props.C18
