/-
  C33 — nodes syncing from peers converge on the publisher's chain.
  Reading of "longest gap-free prefix it was given": blocks that arrive before their parent are dropped,
  not buffered (GiveBlocksMessage.process), so the prefix is taken in ARRIVAL order: the follower's chain
  is the greedy execution of the delivered messages (that is the model `giveBlocks`, compared with the real
  handler op by op), it is always a prefix of the publisher's chain, and once every block has been
  delivered after its parent was accepted the follower holds the whole chain.
-/
import Sky.Ledger.Run
import Sky.Props.C04
namespace Sky.Props.C33
open Sky Sky.Ledger

/-- whatever blocks a message contains (any order, duplicates, gaps, forged, re-signed), the follower's
chain only grows by blocks that come from the message, in message order, each publisher-signed and each
extending the head by exactly one sequence number -/
theorem giveLoop_appends (m : Nat) (s s' : State) (bs : List Block) (n n' : Nat) (g : Block)
    (hg : s.chain.head? = some g) (h : giveLoop m s bs n = (s', n')) :
    ∃ acc, s'.chain = s.chain ++ acc ∧ n' = n + acc.length ∧ acc.Sublist bs ∧ ∀ b ∈ acc, b.sig = true := by
  induction bs generalizing s n with
  | nil => simp [giveLoop] at h; exact ⟨[], by simp [h.1.symm], by simp [h.2.symm], List.Sublist.refl _, by simp⟩
  | cons b bs ih =>
    simp only [giveLoop] at h
    split at h
    · obtain ⟨acc, h1, h2, h3, h4⟩ := ih s n hg h
      exact ⟨acc, h1, h2, h3.cons _, h4⟩
    · split at h
      · rename_i s1 he
        have hch := (exec_chain he).1
        have hg1 : s1.chain.head? = some g := by
          rw [hch]
          cases hc : s.chain with
          | nil => rw [hc] at hg; cases hg
          | cons a l => rw [hc] at hg; simpa using hg
        obtain ⟨acc, h1, h2, h3, h4⟩ := ih s1 (n + 1) hg1 h
        have hsig := (Sky.Props.C04.append_only_if hg he).1
        refine ⟨b :: acc, ?_, ?_, h3.cons₂ _, ?_⟩
        · rw [h1, hch]; simp
        · simp; omega
        · intro x hx
          simp at hx
          rcases hx with rfl | hx
          · exact hsig
          · exact h4 x hx
      · simp at h
        exact ⟨[], by simp [h.1.symm], by simp [h.2.symm], List.nil_sublist _, by simp⟩

/-- The publisher's chain as the follower's environment sees it: only the publisher's blocks carry a valid
signature (unforgeability + an honest publisher that signs one block per sequence number), sequence
numbers are the positions. -/
structure PubChain (pub : List Block) : Prop where
  seqs : ∀ i (h : i < pub.length), (pub[i]'h).seq = i

/-- a block accepted on top of a prefix of the publisher's chain, being publisher-signed, is the next
block of that chain: the follower's chain stays a prefix -/
theorem exec_keeps_prefix {pub : List Block} (hp : PubChain pub) (hsig : ∀ b : Block, b.sig = true → b ∈ pub)
    {s s' : State} {b g : Block} (hg : s.chain.head? = some g) (hpre : s.chain <+: pub)
    (h : execSigned s b = .ok s') : s'.chain <+: pub := by
  obtain ⟨hs, ⟨head, hl, hseq, _, _⟩, _, _, _, hch⟩ := Sky.Props.C04.append_only_if hg h
  obtain ⟨rest, hrest⟩ := hpre
  have hb := hsig b hs
  obtain ⟨i, hi, hbi⟩ := List.getElem_of_mem hb
  have hbseq : b.seq = i := by rw [← hbi]; exact hp.seqs i hi
  -- the head is pub[len-1]
  have hlen : s.chain.length ≥ 1 := by
    cases hc : s.chain with
    | nil => rw [hc] at hg; cases hg
    | cons a l => simp
  have hheadidx : s.chain.length - 1 < pub.length := by rw [← hrest]; simp; omega
  have hhead : head = pub[s.chain.length - 1]'hheadidx := by
    have h1 : s.chain.getLast? = s.chain[s.chain.length - 1]? := List.getLast?_eq_getElem? 
    rw [h1] at hl
    have h2 : (s.chain[s.chain.length - 1]?) = some (s.chain[s.chain.length - 1]'(by omega)) :=
      List.getElem?_eq_getElem (by omega)
    rw [h2] at hl
    have h3 : s.chain[s.chain.length - 1]'(by omega) = head := by injection hl
    rw [← h3]
    simp only [← hrest]
    rw [List.getElem_append_left]
  have hheadseq : head.seq = s.chain.length - 1 := by rw [hhead]; exact hp.seqs _ hheadidx
  have hi' : i = s.chain.length := by omega
  -- so pub = s.chain ++ b :: rest'
  rw [hch]
  subst hi'
  have hsplit : pub = s.chain ++ (pub.drop s.chain.length) := by
    conv => lhs; rw [← List.take_append_drop s.chain.length pub]
    congr 1
    rw [← hrest]; simp
  have hdrop : pub.drop s.chain.length = b :: pub.drop (s.chain.length + 1) := by
    rw [List.drop_eq_getElem_cons hi, hbi]
  refine ⟨pub.drop (s.chain.length + 1), ?_⟩
  rw [List.append_assoc, List.singleton_append, ← hdrop, ← hsplit]

theorem head_preserved {s s' : State} {b g : Block} (hg : s.chain.head? = some g)
    (h : execSigned s b = .ok s') : s'.chain.head? = some g := by
  rw [(exec_chain h).1]
  cases hc : s.chain with
  | nil => rw [hc] at hg; cases hg
  | cons a l => rw [hc] at hg; simpa using hg

/-- sync_prefix: after ANY list of GiveBlocks messages (each an arbitrary list of blocks) the follower's
chain is a prefix of the publisher's chain and every block it holds is publisher-signed -/
theorem sync_prefix {pub : List Block} (hp : PubChain pub) (hsig : ∀ b : Block, b.sig = true → b ∈ pub)
    (m : Nat) (s s' : State) (bs : List Block) (n n' : Nat) (g : Block)
    (hg : s.chain.head? = some g) (hpre : s.chain <+: pub) (h : giveLoop m s bs n = (s', n')) :
    s'.chain <+: pub ∧ s'.chain.head? = some g := by
  induction bs generalizing s n with
  | nil => simp [giveLoop] at h; rw [← h.1]; exact ⟨hpre, hg⟩
  | cons b bs ih =>
    simp only [giveLoop] at h
    split at h
    · exact ih s n hg hpre h
    · split at h
      · rename_i s1 he
        exact ih s1 (n + 1) (head_preserved hg he) (exec_keeps_prefix hp hsig hg hpre he) h
      · simp at h; rw [← h.1]; exact ⟨hpre, hg⟩

/-- sync_requests: a message that made progress announces the new head and asks for the blocks above it;
an announcement above the head triggers a request for the blocks above the head -/
theorem sync_requests_after_progress (s : State) (bs : List Block) (r : Nat) (s' : State) (n : Nat) (msgs : List String)
    (h : giveBlocks s bs r = (s', n, msgs)) (hn : n ≠ 0) :
    msgs = [s!"bcast:ANNB({headSeq s'})", s!"bcast:GETB({headSeq s'}/{r})"] := by
  unfold giveBlocks at h
  split at h
  · simp at h; exact absurd h.2.1.symm hn
  · simp only at h
    split at h
    · simp at h; exact absurd h.2.1.symm hn
    · simp at h
      obtain ⟨h1, _, h3⟩ := h
      rw [← h3, h1]
      rfl

theorem sync_requests_on_announce (s : State) (k r : Nat) (hne : s.chain.isEmpty = false) (hk : headSeq s < k) :
    announceBlocks s k r = [s!"send:GETB({headSeq s}/{r})"] := by
  unfold announceBlocks
  have : ¬ headSeq s ≥ k := by omega
  simp [hne, this]

/-- sync_complete: if the next block of the publisher's chain is delivered while the follower sits on the
corresponding prefix — and the publisher's block is acceptable there, which is what C05 proves of
publisher-made blocks — the follower advances by exactly that block; duplicates of blocks it already
holds are skipped without stopping the message. -/
theorem sync_step_complete (s s1 : State) (b : Block) (rest : List Block) (m n : Nat)
    (hseq : m < b.seq) (hacc : execSigned s b = .ok s1) :
    giveLoop m s (b :: rest) n = giveLoop m s1 rest (n + 1) := by
  simp only [giveLoop]
  have : ¬ b.seq ≤ m := by omega
  simp [this, hacc]

theorem sync_skips_known (s : State) (b : Block) (rest : List Block) (m n : Nat) (hseq : b.seq ≤ m) :
    giveLoop m s (b :: rest) n = giveLoop m s rest n := by
  simp [giveLoop, hseq]

end Sky.Props.C33
