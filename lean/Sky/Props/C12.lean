/-
  C12 — spend construction is sound, complete and well formed.
  Theorems about the executable model lean/Sky/C12/Model.lean (tied to src/transaction by the
  differential run of harness/c12 on every check).  `bf` is the burn factor (≥ 1).
-/
import Sky.C12.Lemmas
import Sky.Props.C31
namespace Sky.Props.C12
open Sky Sky.C12 Sky.C31

/-! ### DistributeCoinHoursProportional -/

/-- **auto_hours_sum**: the automatically distributed hours have one entry per destination and sum
EXACTLY to the allotted amount (the two top-up loops hand out precisely the rounding remainder) -/
theorem auto_hours_sum (coins : List Nat) (hours : Nat) (l : List Nat)
    (h : distributeProportional coins hours = .ok l) : l.length = coins.length ∧ l.sum = hours :=
  distProp_ok coins hours l h

/-- … and the function never panics (the index of the second top-up loop stays in range) -/
theorem auto_hours_no_panic (coins : List Nat) (hours : Nat) (t : String) :
    distributeProportional coins hours ≠ .panic t := by
  intro h
  unfold distributeProportional at h
  split at h; · cases h
  cases hp : propPre 0 coins with
  | err e => simp [hp] at h
  | panic p =>
    -- propPre never panics
    exfalso
    have : ∀ (l : List Nat) (tot : Nat) (t : String), propPre tot l ≠ .panic t := by
      intro l
      induction l with
      | nil => intro tot t; simp [propPre]
      | cons c r ih =>
        intro tot t hh
        unfold propPre at hh
        split at hh; · cases hh
        cases ha : addU64 tot c with
        | ok v => simp only [ha] at hh; split at hh; · cases hh
                  exact ih _ _ hh
        | err e => simp [ha] at hh
        | panic q => exact addU64_no_panic _ _ _ ha
    exact this _ _ _ hp
  | ok total =>
    simp only [hp] at h
    split at h; · cases h
    split at h; · cases h
    split at h; · cases h
    cases hs : sumFrom 0 (coins.map fun c => c * hours / total) with
    | err e => simp [hs] at h
    | panic p => exact sumFrom_no_panic _ _ _ hs
    | ok assigned =>
      simp only [hs] at h
      split at h; · cases h
      split at h; · cases h
      rename_i hrem
      obtain ⟨z1, z2, z3⟩ := topUpZeros_spec (coins.map fun c => c * hours / total) (hours - assigned)
      have hlen : (coins.map fun c => c * hours / total).length = coins.length := by simp
      obtain ⟨l', r1, _, _⟩ := topUpRest_spec (topUpZeros (coins.map fun c => c * hours / total) (hours - assigned)).1
        (topUpZeros (coins.map fun c => c * hours / total) (hours - assigned)).2 (by omega)
      have e : topUpRest (topUpZeros (coins.map fun c => c * hours / total) (hours - assigned)).1
            (topUpZeros (coins.map fun c => c * hours / total) (hours - assigned)).2 = .panic t := h
      rw [r1] at e; cases e

example : distributeProportional [1000000, 2000000, 1] 10 = .ok [3, 6, 1] := by decide
example : distributeProportional [5, 5, 5] 2 = .ok [1, 1, 0] := by decide

/-! ### ChooseSpends -/

theorem split_sumC (l : List UxB) :
    sumC (l.filter (fun u => u.hours ≠ 0)) + sumC (l.filter (fun u => u.hours = 0)) = sumC l := by
  induction l with
  | nil => simp [sumC]
  | cons x r ih =>
    by_cases hx : x.hours = 0 <;> simp [sumC, hx] at * <;> omega

theorem split_sumH (l : List UxB) :
    sumH (l.filter (fun u => u.hours ≠ 0)) + sumH (l.filter (fun u => u.hours = 0)) = sumH l := by
  induction l with
  | nil => simp [sumH]
  | cons x r ih =>
    by_cases hx : x.hours = 0 <;> simp [sumH, hx] at * <;> omega

theorem sumC_take_le (l : List UxB) (k : Nat) : sumC (l.take k) ≤ sumC l := by
  induction l generalizing k with
  | nil => simp [sumC]
  | cons x r ih => cases k with
    | zero => simp [sumC]
    | succ n => have := ih n; simp [sumC, List.take_succ_cons] at *; omega

theorem sumH_zero (l : List UxB) (h : ∀ u ∈ l, u.hours = 0) : sumH l = 0 := by
  induction l with
  | nil => simp [sumH]
  | cons x r ih =>
    have h1 := ih (fun u hu => h u (by simp [hu]))
    have h2 := h x (by simp)
    simp only [sumH, List.map_cons, List.sum_cons] at *
    omega

theorem sumH_take_le (l : List UxB) (k : Nat) : sumH (l.take k) ≤ sumH l := by
  induction l generalizing k with
  | nil => simp [sumH]
  | cons x r ih => cases k with
    | zero => simp [sumH]
    | succ n => have := ih n; simp [sumH, List.take_succ_cons] at *; omega

/-- the core of ChooseSpends on the already split and sorted lists -/
theorem chooseFrom_cases (bf c h : Nat) (first : UxB) (rest Z : List UxB)
    (hZ : ∀ u ∈ Z, u.hours = 0)
    (hC : first.coins + sumC rest + sumC Z < 2^64) (hH : first.hours + sumH rest < 2^64) :
    (∀ sp, chooseFrom bf c h first rest Z = .ok sp →
        sumC sp ≥ c ∧ remaining bf (sumH sp) ≥ h ∧ (∀ u ∈ sp, u = first ∨ u ∈ rest ∨ u ∈ Z) ∧
        sumC sp ≤ first.coins + sumC rest + sumC Z ∧ sumH sp ≤ first.hours + sumH rest ∧ sp ≠ []) ∧
    (∀ e, chooseFrom bf c h first rest Z = .err e →
        (e = user "ErrInsufficientBalance" ∧ first.coins + sumC rest + sumC Z < c) ∨
        (e = user "ErrInsufficientHours" ∧ first.coins + sumC rest + sumC Z ≥ c ∧
          remaining bf (first.hours + sumH rest) < h)) ∧
    (∀ t, chooseFrom bf c h first rest Z ≠ .panic t) := by
  have sCr := sortBy_sum ltCoinsHigh (·.coins) rest
  have sHr := sortBy_sum ltCoinsHigh (·.hours) rest
  have memR : ∀ u, u ∈ sortBy ltCoinsHigh rest → u ∈ rest := fun u hu => (sortBy_mem _ _ _).mp hu
  have w1 : wrap64 first.coins = first.coins := by unfold wrap64; exact Nat.mod_eq_of_lt (by omega)
  have w2 : wrap64 first.hours = first.hours := by unfold wrap64; exact Nat.mod_eq_of_lt (by omega)
  have f1 : sumC [first] = first.coins := by simp [sumC]
  have f2 : sumH [first] = first.hours := by simp [sumH]
  unfold chooseFrom
  simp only [w1, w2]
  by_cases he1 : enough bf c h first.coins first.hours = true
  · rw [if_pos he1]
    unfold enough at he1
    simp only [Bool.and_eq_true, decide_eq_true_eq] at he1
    refine ⟨?_, (fun _ hh => by cases hh), (fun _ hh => by cases hh)⟩
    intro sp hh; injection hh with hh; subst hh
    refine ⟨by rw [f1]; exact he1.1, by rw [f2]; exact he1.2, ?_, by rw [f1]; omega, by rw [f2]; omega, by simp⟩
    intro u hu; simp at hu; exact Or.inl hu
  · rw [if_neg he1]
    obtain ⟨k, k1, k2, k3, k4⟩ := takeZero_spec c Z [first] first.coins first.hours f1.symm f2.symm hZ
      (by rw [f1]; omega) (by rw [f2]; omega)
    rw [k1, k2, k3]
    have tC : sumC ([first] ++ Z.take k) = first.coins + sumC (Z.take k) := by rw [sumC_append, f1]
    have tH : sumH ([first] ++ Z.take k) = first.hours := by
      rw [sumH_append, f2, sumH_zero (Z.take k) (fun u hu => hZ u (List.mem_of_mem_take hu))]; rfl
    have tk := sumC_take_le Z k
    have mem0 : ∀ u ∈ [first] ++ Z.take k, u = first ∨ u ∈ rest ∨ u ∈ Z := by
      intro u hu
      rcases List.mem_append.mp hu with hu | hu
      · simp at hu; exact Or.inl hu
      · exact Or.inr (Or.inr (List.mem_of_mem_take hu))
    by_cases he2 : enough bf c h (sumC ([first] ++ Z.take k)) (sumH [first]) = true
    · rw [if_pos he2]
      unfold enough at he2
      simp only [Bool.and_eq_true, decide_eq_true_eq] at he2
      refine ⟨?_, (fun _ hh => by cases hh), (fun _ hh => by cases hh)⟩
      intro sp hh; injection hh with hh; subst hh
      exact ⟨he2.1, by rw [tH, ← f2]; exact he2.2, mem0, by rw [tC]; omega, by rw [tH]; omega, by simp⟩
    · rw [if_neg he2]
      have hf : enough bf c h (sumC ([first] ++ Z.take k)) (sumH [first]) = false := by
        cases hx : enough bf c h (sumC ([first] ++ Z.take k)) (sumH [first]) <;> simp_all
      obtain ⟨n1, n2, n3⟩ := takeNonzero_spec bf c h (sortBy ltCoinsHigh rest) ([first] ++ Z.take k)
        (sumC ([first] ++ Z.take k)) (sumH [first]) rfl (by rw [tH, f2])
        (by rw [tC]; simp only [sumC] at *; omega) (by rw [tH]; simp only [sumH] at *; omega) hf
      refine ⟨?_, ?_, n3⟩
      · intro sp hh
        obtain ⟨j, j1, j2, j3⟩ := n1 sp hh
        subst j1
        refine ⟨j2, j3, ?_, ?_, ?_, by simp⟩
        · intro u hu
          rcases List.mem_append.mp hu with hu | hu
          · exact mem0 u hu
          · exact Or.inr (Or.inl (memR u (List.mem_of_mem_take hu)))
        · rw [sumC_append, tC]
          have := sumC_take_le (sortBy ltCoinsHigh rest) j
          simp only [sumC] at *; omega
        · rw [sumH_append, tH]
          have := sumH_take_le (sortBy ltCoinsHigh rest) j
          simp only [sumH] at *; omega
      · intro e hh
        rcases n2 e hh with ⟨x1, x2⟩ | ⟨x1, x2, x3⟩
        · left
          refine ⟨x1, ?_⟩
          -- coins below the request after the zero loop means the zero loop took everything
          rcases k4 with k4 | k4
          · rw [tC] at x2; omega
          · rw [tC, k4] at x2; simp only [sumC] at *; omega
        · right
          refine ⟨x1, ?_, ?_⟩
          · rw [tC] at x2; simp only [sumC] at *; omega
          · rw [tH] at x3
            have : first.hours + sumH (sortBy ltCoinsHigh rest) = first.hours + sumH rest := by
              simp only [sumH] at *; omega
            rw [this] at x3; exact x3

/-- everything `chooseSpends` can answer, under the no-wrap hypotheses (the offered coins and hours
sum below 2^64, as the outputs of one chain do) -/
theorem choose_cases (bf : Nat) (uxa : List UxB) (c h : Nat)
    (hC : sumC uxa < 2^64) (hH : sumH uxa < 2^64) :
    (∀ sp, chooseSpends bf uxa c h = .ok sp →
        sumC sp ≥ c ∧ remaining bf (sumH sp) ≥ h ∧ (∀ u ∈ sp, u ∈ uxa) ∧ sumC sp ≤ sumC uxa ∧
        sumH sp ≤ sumH uxa ∧ sp ≠ []) ∧
    (∀ e, chooseSpends bf uxa c h = .err e →
        (e = user "ErrZeroSpend" ∧ c = 0) ∨ (e = user "ErrNoUnspents" ∧ uxa = []) ∨
        (e = noFee ∧ ∀ u ∈ uxa, u.hours = 0) ∨
        (e = user "ErrInsufficientBalance" ∧ sumC uxa < c) ∨
        (e = user "ErrInsufficientHours" ∧ sumC uxa ≥ c ∧ remaining bf (sumH uxa) < h)) ∧
    (∀ t, chooseSpends bf uxa c h = .panic t → ∃ u ∈ uxa, u.coins = 0) := by
  unfold chooseSpends
  by_cases h0 : c = 0
  · rw [if_pos h0]
    refine ⟨(fun _ hh => by cases hh), ?_, (fun _ hh => by cases hh)⟩
    intro e hh; injection hh with hh
    exact Or.inl ⟨hh.symm, h0⟩
  rw [if_neg h0]
  by_cases h1 : uxa.isEmpty = true
  · rw [if_pos h1]
    refine ⟨(fun _ hh => by cases hh), ?_, (fun _ hh => by cases hh)⟩
    intro e hh; injection hh with hh
    exact Or.inr (Or.inl ⟨hh.symm, by simpa using h1⟩)
  rw [if_neg h1]
  by_cases h2 : (uxa.any fun u => u.coins = 0) = true
  · rw [if_pos h2]
    refine ⟨(fun _ hh => by cases hh), (fun _ hh => by cases hh), ?_⟩
    intro t _
    obtain ⟨u, hu, hc⟩ := List.any_eq_true.mp h2
    exact ⟨u, hu, by simpa using hc⟩
  rw [if_neg h2]
  have pC := split_sumC uxa
  have pH := split_sumH uxa
  have sC1 := sortBy_sum ltCoinsHigh (·.coins) (uxa.filter fun u => u.hours ≠ 0)
  have sH1 := sortBy_sum ltCoinsHigh (·.hours) (uxa.filter fun u => u.hours ≠ 0)
  have sC0 := sortBy_sum ltCoinsHigh (·.coins) (uxa.filter fun u => u.hours = 0)
  have memNZ : ∀ u, u ∈ sortBy ltCoinsHigh (uxa.filter fun u => u.hours ≠ 0) → u ∈ uxa := by
    intro u hu; exact (List.mem_filter.mp ((sortBy_mem _ _ _).mp hu)).1
  have memZ : ∀ u, u ∈ sortBy ltCoinsHigh (uxa.filter fun u => u.hours = 0) → u ∈ uxa ∧ u.hours = 0 := by
    intro u hu
    have := List.mem_filter.mp ((sortBy_mem _ _ _).mp hu)
    exact ⟨this.1, by simpa using this.2⟩
  have z0 := sumH_zero (uxa.filter fun u => u.hours = 0) (fun u hu => by simpa using (List.mem_filter.mp hu).2)
  split
  · rename_i hs
    refine ⟨(fun _ hh => by cases hh), ?_, (fun _ hh => by cases hh)⟩
    intro e hh
    injection hh with hh
    right; right; left
    refine ⟨hh.symm, ?_⟩
    intro u hu
    by_cases hz : u.hours = 0
    · exact hz
    · have : u ∈ sortBy ltCoinsHigh (uxa.filter fun u => u.hours ≠ 0) :=
        (sortBy_mem _ _ _).mpr (List.mem_filter.mpr ⟨hu, by simpa using hz⟩)
      rw [hs] at this; cases this
  · rename_i first rest hs
    rw [hs] at sC1 sH1 memNZ
    have eC : first.coins + sumC rest + sumC (sortBy ltCoinsHigh (uxa.filter fun u => u.hours = 0)) = sumC uxa := by
      simp only [sumC, List.map_cons, List.sum_cons] at *; omega
    have eH : first.hours + sumH rest = sumH uxa := by
      simp only [sumH, List.map_cons, List.sum_cons] at *; omega
    obtain ⟨q1, q2, q3⟩ := chooseFrom_cases bf c h first rest (sortBy ltCoinsHigh (uxa.filter fun u => u.hours = 0))
      (fun u hu => (memZ u hu).2) (by omega) (by omega)
    refine ⟨?_, ?_, fun t hh => absurd hh (q3 t)⟩
    · intro sp hh
      obtain ⟨a1, a2, a3, a4, a5, a6⟩ := q1 sp hh
      refine ⟨a1, a2, ?_, by omega, by omega, a6⟩
      intro u hu
      rcases a3 u hu with r | r | r
      · subst r; exact memNZ _ (by simp)
      · exact memNZ _ (by simp [r])
      · exact (memZ u r).1
    · intro e hh
      rcases q2 e hh with ⟨x1, x2⟩ | ⟨x1, x2, x3⟩
      · exact Or.inr (Or.inr (Or.inr (Or.inl ⟨x1, by omega⟩)))
      · exact Or.inr (Or.inr (Or.inr (Or.inr ⟨x1, by omega, by rw [← eH]; exact x3⟩)))

/-- **choose soundness**: the chosen outputs are offered ones and cover the request -/
theorem choose_sound (bf : Nat) (uxa sp : List UxB) (c h : Nat) (hC : sumC uxa < 2^64) (hH : sumH uxa < 2^64)
    (hok : chooseSpends bf uxa c h = .ok sp) :
    sumC sp ≥ c ∧ remaining bf (sumH sp) ≥ h ∧ (∀ u ∈ sp, u ∈ uxa) ∧ sp ≠ [] :=
  let r := (choose_cases bf uxa c h hC hH).1 sp hok
  ⟨r.1, r.2.1, r.2.2.1, r.2.2.2.2.2⟩

/-- **choose_complete**: for a non-trivial request on an offer that has some output with coin hours,
choosing fails — and then with ErrInsufficientBalance / ErrInsufficientHours — exactly when the
offered outputs really cannot cover the requested coins or, after the fee, the requested hours -/
theorem choose_complete (bf : Nat) (hbf : 1 ≤ bf) (uxa : List UxB) (c h : Nat)
    (hC : sumC uxa < 2^64) (hH : sumH uxa < 2^64)
    (hc : 0 < c) (hpos : ∀ u ∈ uxa, 0 < u.coins) (hnz : ∃ u ∈ uxa, u.hours ≠ 0) :
    (chooseSpends bf uxa c h = .err (user "ErrInsufficientBalance") ∨
     chooseSpends bf uxa c h = .err (user "ErrInsufficientHours")) ↔
    (sumC uxa < c ∨ remaining bf (sumH uxa) < h) := by
  obtain ⟨p1, p2, p3⟩ := choose_cases bf uxa c h hC hH
  obtain ⟨u0, hu0, hnz0⟩ := hnz
  constructor
  · rintro (hh | hh)
    · rcases p2 _ hh with ⟨e, _⟩ | ⟨e, _⟩ | ⟨e, _⟩ | ⟨_, x⟩ | ⟨e, _⟩
      · exact absurd e (by decide)
      · exact absurd e (by decide)
      · exact absurd e (by decide)
      · exact Or.inl x
      · exact absurd e (by decide)
    · rcases p2 _ hh with ⟨e, _⟩ | ⟨e, _⟩ | ⟨e, _⟩ | ⟨e, _⟩ | ⟨_, _, x⟩
      · exact absurd e (by decide)
      · exact absurd e (by decide)
      · exact absurd e (by decide)
      · exact absurd e (by decide)
      · exact Or.inr x
  · intro hins
    cases hr : chooseSpends bf uxa c h with
    | ok sp =>
      exfalso
      obtain ⟨a1, a2, a3, a4, a5, _⟩ := p1 sp hr
      rcases hins with hins | hins
      · omega
      · -- `remaining` is monotone (C31): fewer hours in, fewer hours left after the fee
        have m := Sky.Props.C31.remaining_mono (sumH sp) (sumH uxa) bf a5 hbf
        unfold remaining at a2 hins; omega
    | err e =>
      rcases p2 e hr with ⟨_, x⟩ | ⟨_, x⟩ | ⟨_, x⟩ | ⟨x, _⟩ | ⟨x, _⟩
      · omega
      · subst x; cases hu0
      · exact absurd (x u0 hu0) hnz0
      · left; rw [x]
      · right; rw [x]
    | panic t =>
      obtain ⟨u, hu, hz⟩ := p3 t hr
      have := hpos u hu; omega

/-! ### Create -/

theorem hasDup_false_nodup : ∀ l : List Out, hasDup l = false → l.Nodup := by
  intro l
  induction l with
  | nil => intro _; exact List.nodup_nil
  | cons o r ih =>
    intro h
    simp only [hasDup, Bool.or_eq_false_iff] at h
    exact List.nodup_cons.mpr ⟨by simpa using h.1, ih h.2⟩

/-- what a successful `Params.Validate` establishes -/
theorem validate_ok {p : Params} (h : validate p = .ok ()) :
    p.to ≠ [] ∧ p.to.Nodup ∧ (∀ o ∈ p.to, o.coins ≠ 0 ∧ o.addr ≠ 0) ∧ p.change ≠ some 0 ∧
    (p.typ = "manual" ∨ (p.typ = "auto" ∧ ∀ o ∈ p.to, o.hours = 0)) := by
  unfold validate at h
  split at h; · cases h
  rename_i hch
  split at h; · cases h
  rename_i hne
  split at h; · cases h
  rename_i hfs
  split at h; · cases h
  rename_i hdup
  have h1 : p.to ≠ [] := by intro e; simp [e] at hne
  have h2 : p.to.Nodup := hasDup_false_nodup _ (by simpa using hdup)
  have h3 : ∀ o ∈ p.to, o.coins ≠ 0 ∧ o.addr ≠ 0 := by
    intro o ho
    have := List.findSome?_eq_none_iff.mp hfs o ho
    unfold receiverErr at this
    by_cases c : o.coins = 0
    · simp [c] at this
    · by_cases a : o.addr = 0
      · simp [c, a] at this
      · exact ⟨c, a⟩
  refine ⟨h1, h2, h3, hch, ?_⟩
  obtain ⟨_, ht, _⟩ := bind_ok h
  unfold checkType at ht
  by_cases ha : p.typ = "auto"
  · right
    refine ⟨ha, ?_⟩
    rw [if_pos ha] at ht
    by_cases hany : (p.to.any fun o => o.hours ≠ 0) = true
    · rw [if_pos hany] at ht; cases ht
    · intro o ho
      simp only [List.any_eq_true, not_exists, not_and] at hany
      simpa using hany o ho
  · left
    rw [if_neg ha] at ht
    by_cases hm : p.typ = "manual"
    · exact hm
    · rw [if_neg hm] at ht; cases ht

/-- what a successful `VerifyCreatedInvariants` establishes -/
theorem verifyCreated_ok {bf : Nat} {p : Params} {t : Txn} {inputs : List UxB}
    (h : verifyCreated bf p t inputs = .ok ()) :
    (∀ o ∈ t.outs, o.addr ≠ 0 ∧ o.coins ≠ 0) ∧
    (t.outs.length = p.to.length ∨ t.outs.length = p.to.length + 1) ∧
    t.ins = inputs.map (·.hash) ∧ (inputs.map (·.hash)).Nodup ∧
    sumH inputs ≥ outH t.outs ∧ sumH inputs - outH t.outs ≥ ceilDiv (sumH inputs) bf ∧ sumH inputs < 2^64 ∨ inputs = [] := by
  unfold verifyCreated at h
  by_cases h1 : (t.outs.any fun o => o.addr = 0) = true
  · rw [if_pos h1] at h; cases h
  rw [if_neg h1] at h
  by_cases h2 : (t.outs.any fun o => o.coins = 0) = true
  · rw [if_pos h2] at h; cases h
  rw [if_neg h2] at h
  by_cases h3 : t.outs.length ≠ p.to.length ∧ t.outs.length ≠ p.to.length + 1
  · rw [if_pos h3] at h; cases h
  rw [if_neg h3] at h
  split at h; · cases h
  by_cases h5 : t.ins.length ≠ inputs.length
  · rw [if_pos h5] at h; cases h
  rw [if_neg h5] at h
  by_cases h6 : t.ins ≠ inputs.map (·.hash)
  · rw [if_pos h6] at h; cases h
  rw [if_neg h6] at h
  split at h; · cases h
  split at h; · cases h
  split at h; · cases h
  by_cases h10 : ¬ (inputs.map (·.hash)).Nodup
  · rw [if_pos h10] at h; cases h
  rw [if_neg h10] at h
  cases hi : sumFrom 0 (inputs.map (·.hours)) with
  | err e => simp [hi] at h
  | panic x => simp [hi] at h
  | ok inH =>
    simp only [hi] at h
    cases ho : sumFrom 0 (t.outs.map (·.hours)) with
    | err e => simp [ho] at h
    | panic x => simp [ho] at h
    | ok oH =>
      simp only [ho] at h
      split at h; · cases h
      split at h; · cases h
      have e1 := sumFrom_ok _ _ _ hi
      have e2 := sumFrom_ok _ _ _ ho
      simp only [Nat.zero_add] at e1 e2
      subst e1 e2
      left
      refine ⟨?_, by omega, Decidable.of_not_not h6, Decidable.of_not_not h10, ?_, ?_, ?_⟩
      · intro o ho'
        simp only [List.any_eq_true, not_exists, not_and, decide_eq_true_eq] at h1 h2
        exact ⟨h1 o ho', h2 o ho'⟩
      · simp only [sumH, outH]; omega
      · simp only [sumH, outH]; omega
      · rcases sumFrom_lt _ _ _ hi with hl | hl
        · simp only [sumH]; omega
        · simp only [sumH, hl]; simp

/-- `create` = one activation, or one activation with the share factor replaced by 1.0: either way
the request's destinations, change address and hours mode are the caller's -/
theorem create_built {bf : Nat} {p : Params} {uxs : List Ux} {head : Nat} {t : Txn} {inputs : List UxB}
    (h : create bf p uxs head = .ok (t, inputs)) :
    ∃ p', p'.to = p.to ∧ p'.change = p.change ∧ p'.typ = p.typ ∧ p'.mode = p.mode ∧
      Built bf p' uxs head t inputs := by
  unfold create at h
  rcases createStep_ok h with h1 | h1
  · rcases createStep_ok h1 with h2 | h2
    · cases h2
    · exact ⟨{ p with share := some (1, 0) }, rfl, rfl, rfl, rfl, h2⟩
  · exact ⟨p, rfl, rfl, rfl, rfl, h1⟩

/-- **created_inputs_offered_nodup**: the transaction spends only offered outputs, each once, and
the returned input list is exactly the outputs behind `txn.In` -/
theorem created_inputs_offered_nodup {bf : Nat} {p : Params} {uxs : List Ux} {head : Nat} {t : Txn}
    {inputs : List UxB} (h : create bf p uxs head = .ok (t, inputs)) :
    (∃ uxb, mkUxBs head uxs = .ok uxb ∧ ∀ i ∈ inputs, i ∈ uxb) ∧
    t.ins = inputs.map (·.hash) ∧ t.ins.Nodup ∧ t.ins ≠ [] := by
  obtain ⟨p', _, _, _, _, b⟩ := create_built h
  obtain ⟨uxb, h1, _, h3⟩ := b.offered
  have hv := verifyCreated_ok b.verified
  rcases hv with ⟨_, _, v3, v4, _⟩ | hv
  · refine ⟨⟨uxb, h1, h3⟩, v3, by rw [v3]; exact v4, ?_⟩
    rw [v3]; intro e; exact b.nonempty (List.map_eq_nil_iff.mp e)
  · exact absurd hv b.nonempty

/-- **created_pays_exactly**: the first |To| outputs are the requested destinations — same address
and coins, in order; in manual mode also exactly the requested hours -/
theorem created_pays_exactly {bf : Nat} {p : Params} {uxs : List Ux} {head : Nat} {t : Txn}
    {inputs : List UxB} (h : create bf p uxs head = .ok (t, inputs)) :
    (t.outs.take p.to.length).map (fun o => (o.addr, o.coins)) = p.to.map (fun o => (o.addr, o.coins)) ∧
    (p.typ = "manual" → t.outs.take p.to.length = p.to) := by
  obtain ⟨p', e1, _, e3, _, b⟩ := create_built h
  obtain ⟨outs, rem, hb, ho⟩ := b.outs_ex
  obtain ⟨q1, q2, _⟩ := buildOuts_ok hb
  have hl : outs.length = p.to.length := by
    have := congrArg List.length q1; simpa [e1] using this
  have htake : t.outs.take p.to.length = outs := by
    rcases ho with ho | ⟨c, ho, _⟩
    · rw [ho, ← hl]; simp
    · rw [ho, ← hl]; simp
  rw [htake]
  exact ⟨by rw [q1, e1], fun hm => by rw [q2 (by rw [e3]; exact hm), e1]⟩

/-- **auto_hours_sum** at the level of `create`: in auto/share mode the destinations' hours sum
exactly to the allotted amount ⌊share · remaining⌋ (for the share factor actually used: the
caller's, or 1.0 after the documented fallback) -/
theorem created_auto_hours {bf : Nat} {p : Params} {uxs : List Ux} {head : Nat} {t : Txn}
    {inputs : List UxB} (h : create bf p uxs head = .ok (t, inputs)) (hauto : p.typ ≠ "manual") :
    ∃ (n : Int) (e rem : Nat), outH (t.outs.take p.to.length) = (Int.tdiv (n * (rem : Int)) ((10 : Int) ^ e)).toNat := by
  obtain ⟨p', e1, _, e3, _, b⟩ := create_built h
  obtain ⟨outs, rem, hb, ho⟩ := b.outs_ex
  obtain ⟨q1, _, q3⟩ := buildOuts_ok hb
  have hl : outs.length = p.to.length := by
    have := congrArg List.length q1; simpa [e1] using this
  have htake : t.outs.take p.to.length = outs := by
    rcases ho with ho | ⟨c, ho, _⟩
    · rw [ho, ← hl]; simp
    · rw [ho, ← hl]; simp
  obtain ⟨n, e, _, hs⟩ := q3 (by rw [e3]; exact hauto)
  exact ⟨n, e, rem, by rw [htake]; exact hs⟩

/-- **created_change**: no coins are lost — the outputs carry exactly the coins of the inputs; what
exceeds the requested total goes to ONE extra output, sent to the change address (the given one, or
the lexically first address among the spent outputs), and that output exists iff the excess is non-zero -/
theorem created_change {bf : Nat} {p : Params} {uxs : List Ux} {head : Nat} {t : Txn}
    {inputs : List UxB} (h : create bf p uxs head = .ok (t, inputs)) :
    outC t.outs = sumC inputs ∧
    ((t.outs.length = p.to.length ∧ sumC inputs = outC p.to) ∨
     (∃ c, t.outs = t.outs.take p.to.length ++ [c] ∧ c.coins = sumC inputs - outC p.to ∧ 0 < c.coins ∧
        c.addr = (match p.change with | some a => a | none => minAddr inputs))) := by
  obtain ⟨p', e1, e2, _, _, b⟩ := create_built h
  obtain ⟨outs, rem, hb, ho⟩ := b.outs_ex
  obtain ⟨q1, _, _⟩ := buildOuts_ok hb
  have hl : outs.length = p.to.length := by
    have := congrArg List.length q1; simpa [e1] using this
  have hoc : outC outs = outC p.to := by
    have := congrArg (fun l => (l.map Prod.snd).sum) q1
    simp only [List.map_map, Function.comp_def] at this
    rw [e1] at this; exact this
  refine ⟨b.conserve, ?_⟩
  have hc := b.conserve
  rcases ho with ho | ⟨c, ho, _, hpos, haddr⟩
  · left; rw [ho] at hc ⊢; exact ⟨hl, by omega⟩
  · right
    refine ⟨c, by rw [ho, ← hl]; simp, ?_, hpos, by rw [← e2]; exact haddr⟩
    rw [ho, outC_append] at hc
    simp [outC] at hc hoc ⊢; omega

/-- **created_fee_ge_required**: the hours burned (inputs − outputs) are at least ⌈input hours / bf⌉ -/
theorem created_fee_ge_required {bf : Nat} {p : Params} {uxs : List Ux} {head : Nat} {t : Txn}
    {inputs : List UxB} (h : create bf p uxs head = .ok (t, inputs)) :
    outH t.outs ≤ sumH inputs ∧ sumH inputs - outH t.outs ≥ ceilDiv (sumH inputs) bf := by
  obtain ⟨p', _, _, _, _, b⟩ := create_built h
  rcases verifyCreated_ok b.verified with ⟨_, _, _, _, v5, v6, _⟩ | hv
  · exact ⟨v5, v6⟩
  · exact absurd hv b.nonempty

/-- **created_wellformed**: the structural rules of `Transaction.Verify` that depend on Create's
choices hold: at least one input and one output, no duplicate input, NO DUPLICATE OUTPUT (F11), no
zero-coin and no null-address output, output coins do not overflow when the inputs' coins do not -/
theorem created_wellformed {bf : Nat} {p : Params} {uxs : List Ux} {head : Nat} {t : Txn}
    {inputs : List UxB} (h : create bf p uxs head = .ok (t, inputs)) :
    t.ins ≠ [] ∧ t.outs ≠ [] ∧ t.ins.Nodup ∧ t.outs.Nodup ∧
    (∀ o ∈ t.outs, o.coins ≠ 0 ∧ o.addr ≠ 0) ∧ (sumC inputs < 2^64 → outC t.outs < 2^64) := by
  obtain ⟨_, hins, hnd, hne⟩ := created_inputs_offered_nodup h
  obtain ⟨p', e1, _, e3, _, b⟩ := create_built h
  obtain ⟨v1, v2, v3, v4, v5⟩ := validate_ok b.valid
  obtain ⟨outs, rem, hb, ho⟩ := b.outs_ex
  obtain ⟨q1, q2, _⟩ := buildOuts_ok hb
  have hv := verifyCreated_ok b.verified
  have houts : ∀ o ∈ t.outs, o.coins ≠ 0 ∧ o.addr ≠ 0 := by
    rcases hv with ⟨w1, _⟩ | hv
    · intro o ho'; exact ⟨(w1 o ho').2, (w1 o ho').1⟩
    · exact absurd hv b.nonempty
  have houtsNd : outs.Nodup := by
    rcases v5 with hm | ⟨_, hz⟩
    · rw [q2 hm]; exact v2
    · -- auto: all requested hours are 0, so (address, coins) identifies a destination
      have hinj : (p'.to.map (fun o => (o.addr, o.coins))).Nodup := by
        unfold List.Nodup at v2 ⊢
        rw [List.pairwise_map]
        refine List.Pairwise.imp_of_mem ?_ v2
        intro a b' ha hb' hab heq
        have h1 := hz a ha; have h2 := hz b' hb'
        apply hab
        cases a; cases b'; simp_all
      rw [← q1] at hinj
      unfold List.Nodup at hinj ⊢
      rw [List.pairwise_map] at hinj
      exact hinj.imp (fun hne heq => hne (by rw [heq]))
  have hlen : outs ≠ [] := by
    intro e
    have := congrArg List.length q1
    simp [e] at this
    exact v1 (List.length_eq_zero_iff.mp this.symm)
  refine ⟨hne, ?_, hnd, ?_, houts, fun hb' => by rw [b.conserve]; exact hb'⟩
  · rcases ho with ho | ⟨c, ho, _⟩
    · rw [ho]; exact hlen
    · rw [ho]; simp
  · rcases ho with ho | ⟨c, ho, hnot, _⟩
    · rw [ho]; exact houtsNd
    · rw [ho]
      exact List.nodup_append.mpr ⟨houtsNd, by simp, by
        intro a ha b' hb'; simp at hb'; subst hb'; intro e; subst e; exact hnot ha⟩

/-- the clause that is NOT proved: "`create` fails only with a user-level error".  Full statement: -/
def create_error_user_level : Prop :=
  ∀ (bf : Nat) (p : Params) (uxs : List Ux) (head : Nat) (e : Err), 2 ≤ bf →
    (uxs.map (·.coins)).sum < 2^63 → (∀ u ∈ uxs, 0 < u.coins ∧ u.hash ≠ 0 ∧ ((u.bkSeq = 0) ↔ u.srcNull)) →
    (uxs.map (·.hash)).Nodup → uxs.length < 65535 → p.to.length < 65535 →
    (∀ uxb, mkUxBs head uxs = .ok uxb → sumH uxb < 2^63) →
    create bf p uxs head = .err e → Err.isUser e = true

/-- proved part: the errors of the validation and spend-choosing stages are user-level, and
`chooseSpends` reports lack of funds only when the funds are lacking (`choose_complete`);
the "this should not occur" branches after it (internal errors) are covered by the correspondence
(the driver flags any non-user error on a realistic offer as a property failure) but their
unreachability is not proved here. -/
theorem create_error_user_level_partial (p : Params) (e : Err) (h : validate p = .err e) :
    Err.isUser e = true := by
  unfold validate at h
  split at h; · injection h with h; subst h; rfl
  split at h; · injection h with h; subst h; rfl
  split at h
  · rename_i e' hfs
    injection h with h; subst h
    obtain ⟨_, o, _, _, ho, _⟩ := List.findSome?_eq_some_iff.mp hfs
    unfold receiverErr at ho
    split at ho
    · injection ho with ho; subst ho; rfl
    · split at ho
      · injection ho with ho; subst ho; rfl
      · cases ho
  · split at h; · injection h with h; subst h; rfl
    cases ht : checkType p with
    | ok _ =>
      simp only [ht, Res.bind] at h
      unfold checkShare at h
      split at h
      · split at h
        · injection h with h; subst h; rfl
        · cases h
      · split at h; · injection h with h; subst h; rfl
        split at h; · injection h with h; subst h; rfl
        cases h
    | panic x => simp [ht, Res.bind] at h
    | err e' =>
      simp only [ht, Res.bind] at h
      injection h with h; subst h
      unfold checkType at ht
      split at ht
      · split at ht; · injection ht with ht; subst ht; rfl
        split at ht; · cases ht
        split at ht <;> (injection ht with ht; subst ht; rfl)
      · split at ht
        · split at ht
          · injection ht with ht; subst ht; rfl
          · cases ht
        · injection ht with ht; subst ht; rfl

/-! ### DistributeSpendHours -/

/-- **distributeSpendHours_sum**: change hours + destination hours = input hours − required fee,
one entry per destination; so the `spendHours != remainingHours` panic in the code is unreachable -/
theorem distributeSpendHours_sum (bf inputHours nAddrs : Nat) (haveChange : Bool) (hn : 0 < nAddrs) :
    let r := distributeSpendHours bf inputHours nAddrs haveChange
    r.2.1.length = nAddrs ∧ r.2.1.sum + r.1 = inputHours - ceilDiv inputHours bf ∧
    r.2.2 = inputHours - ceilDiv inputHours bf ∧ (haveChange = false → r.1 = 0) := by
  intro r
  simp only [r, distributeSpendHours]
  generalize inputHours - ceilDiv inputHours bf = R
  generalize hC : (if haveChange = true then R / 2 + (if R % 2 = 1 then 1 else 0) else 0) = C
  have hCle : C ≤ R := by
    subst hC; split
    · split <;> omega
    · omega
  have hmod : (R - C) - (R - C) / nAddrs * nAddrs = (R - C) % nAddrs := by
    have := Nat.div_add_mod (R - C) nAddrs
    rw [Nat.mul_comm] at this; omega
  have hlt : (R - C) % nAddrs < nAddrs := Nat.mod_lt _ hn
  rw [hmod]
  have hsum : (R - C) % nAddrs * ((R - C) / nAddrs + 1) + (nAddrs - (R - C) % nAddrs) * ((R - C) / nAddrs) = R - C := by
    have h1 := Nat.div_add_mod (R - C) nAddrs
    have : (nAddrs - (R - C) % nAddrs) * ((R - C) / nAddrs) + (R - C) % nAddrs * ((R - C) / nAddrs)
        = nAddrs * ((R - C) / nAddrs) := by
      rw [← Nat.add_mul]; congr 1; omega
    rw [Nat.mul_add]; omega
  refine ⟨by simp; omega, by simp; omega, by simp; omega, ?_⟩
  intro hf; subst hC; simp [hf]

example : distributeSpendHours 10 100 3 true = (45, [15, 15, 15], 90) := by decide
example : distributeSpendHours 2 11 2 true = (3, [1, 1], 5) := by decide

/-! ### non-vacuity and the recorded defect -/

def exUx : List Ux := [⟨77, 1, 100, 5, 2000000, 100, false⟩]
def exP (h : Nat) : Params := ⟨"manual", "", none, [⟨9, 1000000, h⟩], some 9⟩

-- a request that succeeds: 1 coin + 44 h to address 9, change (1 coin, 46 h) to the same address
example : create 10 (exP 44) exUx 100 =
    .ok (⟨[77], [⟨9, 1000000, 44⟩, ⟨9, 1000000, 46⟩]⟩, [⟨77, 1, 5, 2000000, 100, 100, false⟩]) := by decide
-- F11: with 45 requested hours the change output (9, 1 coin, 45 h) would equal the destination output;
-- the repaired code refuses with a user-level error (before the repair it returned that transaction,
-- which Transaction.Verify rejects: "Duplicate output in transaction")
example : create 10 (exP 45) exUx 100 = .err (user "ErrChangeDuplicatesReceiver") := by decide
example : Err.isUser (user "ErrChangeDuplicatesReceiver") = true := by decide
-- chooseSpends: lack of funds is reported exactly when funds lack
example : chooseSpends 10 [⟨1, 1, 5, 10, 0, 100, false⟩] 11 0 = .err (user "ErrInsufficientBalance") := by decide
example : chooseSpends 10 [⟨1, 1, 5, 10, 0, 100, false⟩] 10 91 = .err (user "ErrInsufficientHours") := by decide
example : chooseSpends 10 [⟨1, 1, 5, 10, 0, 100, false⟩] 10 90 = .ok [⟨1, 1, 5, 10, 0, 100, false⟩] := by decide

end Sky.Props.C12
