/-
  C06 — the unconfirmed pool only holds admissible transactions and tracks the chain.
-/
import Sky.Ledger.Run
namespace Sky.Props.C06
open Sky Sky.Ledger

def isOk {α} : R α → Bool | .ok _ => true | .error _ => false

/-- a foreign transaction enters (or stays in) the pool only if it satisfies the HARD rules against the
current head; its validity flag records whether the soft rules hold too -/
theorem inject_foreign_only_if {s s' : State} {t : Txn} {k : Bool} {e : Option String}
    (h : injectForeign s t = .ok (k, e, s')) :
    (verifySingleSoftHard s t s.cfg.unconfirmed = .ok () ∧ e = none) ∨
    (∃ m, verifySingleSoftHard s t s.cfg.unconfirmed = .error m ∧ m.startsWith "soft:" = true ∧ e = some m) := by
  unfold injectForeign injectWith at h
  cases hv : verifySingleSoftHard s t s.cfg.unconfirmed with
  | ok u =>
    left; simp only [hv] at h
    split at h <;> (cases h; exact ⟨by cases u; rfl, rfl⟩)
  | error m =>
    simp only [hv] at h
    by_cases hs : m.startsWith "soft:" = true
    · right; simp only [hs, if_true] at h
      split at h <;> (cases h; exact ⟨m, rfl, hs, rfl⟩)
    · simp only [hs] at h; simp at h

/-- user submissions must satisfy user, hard AND soft rules -/
theorem inject_user_only_if {s s' : State} {t : Txn} {k : Bool} (h : injectUser s t = .ok (k, s')) :
    t.outs.any (·.addr == "anull") = false ∧ verifySingleSoftHard s t s.cfg.user = .ok () := by
  unfold injectUser at h
  simp only [bind, Except.bind] at h
  split at h
  · cases h
  · rename_i hn
    split at h
    · cases h
    · rename_i u hv
      exact ⟨by simpa using hn, by cases u; exact hv⟩

/-- re-submitting a known transaction does not duplicate it: the pool's hash list is unchanged -/
theorem inject_known_no_duplicate {s s' : State} {t : Txn} {p : VParams} {e : Option String}
    (h : injectWith s t p = .ok (true, e, s')) : s'.pool.map (·.txn.hash) = s.pool.map (·.txn.hash) := by
  unfold injectWith at h
  simp only at h
  split at h
  · cases h
  · split at h
    · cases h
      simp only [List.map_map]
      apply List.map_congr_left
      intro x _
      simp only [Function.comp]
      split <;> rfl
    · cases h

/-- a new transaction is appended once; `known` is reported false exactly then -/
theorem inject_new_appends {s s' : State} {t : Txn} {p : VParams} {e : Option String}
    (h : injectWith s t p = .ok (false, e, s')) :
    s.pool.any (·.txn.hash == t.hash) = false ∧ s'.pool.map (·.txn.hash) = s.pool.map (·.txn.hash) ++ [t.hash] := by
  unfold injectWith at h
  simp only at h
  split at h
  · cases h
  · split at h
    · cases h
    · rename_i hk
      cases h
      exact ⟨by simpa using hk, by simp⟩

/-- the pool never holds two entries with the same hash -/
theorem pool_hashes_nodup_inject {s s' : State} {t : Txn} {p : VParams} {k : Bool} {e : Option String}
    (hn : (s.pool.map (·.txn.hash)).Nodup) (h : injectWith s t p = .ok (k, e, s')) :
    (s'.pool.map (·.txn.hash)).Nodup := by
  cases k with
  | true => rw [inject_known_no_duplicate h]; exact hn
  | false =>
    obtain ⟨h1, h2⟩ := inject_new_appends h
    rw [h2, List.nodup_append]
    refine ⟨hn, by simp, ?_⟩
    intro a ha b hb hab
    simp at hb; subst hb; subst hab
    simp only [List.mem_map] at ha
    obtain ⟨x, hx, hxe⟩ := ha
    have := List.any_eq_false.mp h1 x hx
    simp [hxe] at this

/-- a transaction leaves the pool once a block containing it is accepted -/
theorem block_removes_its_txns {s s' : State} {b : Block} (h : execSigned s b = .ok s') :
    ∀ t ∈ b.txns, t.hash ∉ s'.pool.map (·.txn.hash) := by
  obtain ⟨_, _, _, s1, _, _, _, _, _, _, _, hp⟩ := execSigned_ok h
  intro t ht hm
  rw [hp] at hm
  simp only [List.mem_map, List.mem_filter] at hm
  obtain ⟨e, ⟨_, he2⟩, he3⟩ := hm
  simp at he2
  exact he2 t ht he3.symm

/-- …and nothing else leaves: the other entries stay, flags included -/
theorem block_keeps_other_txns {s s' : State} {b : Block} (h : execSigned s b = .ok s') :
    s'.pool = s.pool.filter (fun e => !(b.txns.map (·.hash)).contains e.txn.hash) := by
  obtain ⟨_, _, _, s1, _, _, _, _, _, _, _, hp⟩ := execSigned_ok h
  exact hp

theorem mem_insPool {e x : PoolEntry} {l : List PoolEntry} : x ∈ insPool e l ↔ x = e ∨ x ∈ l := by
  induction l with
  | nil => simp [insPool]
  | cons y ys ih =>
    simp only [insPool]
    split
    · simp
    · simp only [List.mem_cons, ih]
      constructor
      · rintro (h | h | h)
        · right; left; exact h
        · left; exact h
        · right; right; exact h
      · rintro (h | h | h)
        · right; left; exact h
        · left; exact h
        · right; right; exact h

theorem mem_poolSorted {s : State} {x : PoolEntry} : x ∈ poolSorted s ↔ x ∈ s.pool := by
  unfold poolSorted
  induction s.pool with
  | nil => simp
  | cons a l ih => simp only [List.foldr_cons, mem_insPool, ih, List.mem_cons]

theorem verifySingleHard_congr {s s' : State} (t : Txn) (h1 : s'.unspent = s.unspent) (h2 : s'.chain = s.chain) :
    verifySingleHard s' t = verifySingleHard s t := by
  simp [verifySingleHard, verifySingleHardWith, headTime, headSeq, collides, h1, h2]

/-- after invalid-removal runs, no pooled transaction violates a hard rule (against the same chain) -/
theorem after_removeInvalid_all_hard_ok (s : State) :
    ∀ e ∈ (removeInvalid s).2.pool, verifySingleHard (removeInvalid s).2 e.txn = .ok () := by
  intro e he
  have hc := verifySingleHard_congr (s := s) (s' := (removeInvalid s).2) e.txn rfl rfl
  rw [hc]
  simp only [removeInvalid, List.mem_filter] at he
  obtain ⟨he1, he2⟩ := he
  cases hv : verifySingleHard s e.txn with
  | ok u => rfl
  | error m =>
    exfalso
    simp only [Bool.not_eq_eq_eq_not, Bool.not_true, List.contains_eq_mem, List.mem_map, decide_eq_false_iff_not] at he2
    apply he2
    refine ⟨e, ?_, rfl⟩
    simp only [List.mem_filter]
    refine ⟨?_, by simp [hardBad, hv]⟩
    exact mem_poolSorted.mpr he1

/-- the flag a fresh re-check against the current chain gives an entry -/
def recheck (s : State) (e : PoolEntry) : PoolEntry :=
  { e with valid := isOk (verifySingleSoftHard s e.txn s.cfg.unconfirmed) }

theorem refreshStep_snd (s : State) (a : List Id) (acc : List PoolEntry) (e : PoolEntry) :
    (refreshStep s (a, acc) e).2 = acc ++ [recheck s e] := by
  unfold refreshStep recheck
  cases hv : verifySingleSoftHard s e.txn s.cfg.unconfirmed with
  | ok u => cases u; simp [isOk]
  | error m => simp [isOk]

theorem refresh_fold (s : State) (l : List PoolEntry) (p : List Id × List PoolEntry) :
    (l.foldl (refreshStep s) p).2 = p.2 ++ l.map (recheck s) := by
  induction l generalizing p with
  | nil => simp
  | cons e l ih =>
    simp only [List.foldl_cons, List.map_cons]
    rw [ih]
    have := refreshStep_snd s p.1 p.2 e
    rw [show (p.1, p.2) = p from rfl] at this
    rw [this]; simp

/-- after a refresh, the pool's validity flags match a fresh re-check against the current chain, for
every entry, and no entry is added or lost -/
theorem after_refresh_flags_exact (s : State) :
    (refresh s).2.pool = (poolSorted s).map (recheck s) := by
  unfold refresh
  simp only
  have := refresh_fold s (poolSorted s) ([], [])
  simpa using this

/-! ### the pool holds each transaction at most once — after EVERY history -/

def PoolNodup (s : State) : Prop := (s.pool.map (·.txn.hash)).Nodup

theorem nodup_map_filter {l : List PoolEntry} (p : PoolEntry → Bool) (h : (l.map (·.txn.hash)).Nodup) :
    ((l.filter p).map (·.txn.hash)).Nodup := by
  induction l with
  | nil => simp
  | cons a l ih =>
    simp only [List.map_cons, List.nodup_cons] at h
    simp only [List.filter_cons]
    split
    · simp only [List.map_cons, List.nodup_cons]
      refine ⟨?_, ih h.2⟩
      intro hm
      apply h.1
      simp only [List.mem_map] at hm ⊢
      obtain ⟨x, hx, hxe⟩ := hm
      exact ⟨x, (List.mem_filter.mp hx).1, hxe⟩
    · exact ih h.2

theorem insPool_hashes_nodup {e : PoolEntry} {l : List PoolEntry}
    (hn : (l.map (·.txn.hash)).Nodup) (he : e.txn.hash ∉ l.map (·.txn.hash)) :
    ((insPool e l).map (·.txn.hash)).Nodup := by
  induction l with
  | nil => simp [insPool]
  | cons y ys ih =>
    simp only [insPool]
    simp only [List.map_cons, List.nodup_cons, List.mem_cons, not_or] at hn he
    split
    · simp only [List.map_cons, List.nodup_cons, List.mem_cons, not_or]
      exact ⟨⟨he.1, he.2⟩, hn.1, hn.2⟩
    · simp only [List.map_cons, List.nodup_cons]
      refine ⟨?_, ih hn.2 he.2⟩
      intro hm
      simp only [List.mem_map] at hm
      obtain ⟨x, hx, hxe⟩ := hm
      rcases mem_insPool.mp hx with rfl | hx'
      · exact he.1 hxe
      · exact hn.1 (List.mem_map.mpr ⟨x, hx', hxe⟩)

theorem mem_foldr_insPool {l : List PoolEntry} {x : PoolEntry} : x ∈ l.foldr insPool [] ↔ x ∈ l := by
  induction l with
  | nil => simp
  | cons a l ih => simp only [List.foldr_cons, mem_insPool, ih, List.mem_cons]

theorem foldr_insPool_nodup (l : List PoolEntry) (h : (l.map (·.txn.hash)).Nodup) :
    ((l.foldr insPool []).map (·.txn.hash)).Nodup := by
  induction l with
  | nil => simp
  | cons a l ih =>
    simp only [List.map_cons, List.nodup_cons] at h
    simp only [List.foldr_cons]
    apply insPool_hashes_nodup (ih h.2)
    intro hm
    apply h.1
    simp only [List.mem_map] at hm ⊢
    obtain ⟨x, hx, hxe⟩ := hm
    exact ⟨x, mem_foldr_insPool.mp hx, hxe⟩

theorem poolSorted_nodup {s : State} (h : PoolNodup s) : ((poolSorted s).map (·.txn.hash)).Nodup :=
  foldr_insPool_nodup s.pool h

/-- after ANY history of blocks, injections, refreshes, invalid-removals and restarts the pool holds
every transaction hash at most once -/
theorem pool_nodup_after_run (s : State) (ops : List Op) (h0 : PoolNodup s) : PoolNodup (run s ops) := by
  induction ops generalizing s with
  | nil => exact h0
  | cons op ops ih =>
    simp only [run, List.foldl_cons]
    apply ih
    cases op with
    | exec b =>
      simp only [applyOp]
      split
      · rename_i s' he
        unfold PoolNodup
        rw [block_keeps_other_txns he]
        exact nodup_map_filter _ h0
      · exact h0
    | injectF t =>
      simp only [applyOp]
      split
      · rename_i k e s' hi
        exact pool_hashes_nodup_inject h0 hi
      · exact h0
    | injectU t =>
      simp only [applyOp]
      split
      · rename_i k s' hi
        unfold injectUser at hi
        simp only [bind, Except.bind] at hi
        split at hi
        · cases hi
        · split at hi
          · cases hi
          · split at hi
            · cases hi
            · rename_i v hv
              obtain ⟨k', e', s''⟩ := v
              cases hi
              exact pool_hashes_nodup_inject h0 hv
      · exact h0
    | refresh =>
      simp only [applyOp]
      unfold PoolNodup
      rw [after_refresh_flags_exact, List.map_map]
      have : ((fun x => x.txn.hash) ∘ recheck s) = (fun x => x.txn.hash) := by funext x; rfl
      rw [this]
      exact poolSorted_nodup h0
    | removeInvalid =>
      simp only [applyOp, removeInvalid]
      exact nodup_map_filter _ h0
    | restart =>
      simp only [applyOp, restart, removeInvalid]
      exact nodup_map_filter _ h0

end Sky.Props.C06
