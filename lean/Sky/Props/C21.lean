/-
  C21 — generated binary codecs are equivalent to the reference encoder.

  Three layers (all for EVERY value / EVERY byte string, no size bounds):

  A. the reference codec (`Sky.Codec.enc/dec/size`, transcribed from src/cipher/encoder/encoder.go and
     tied to it by the correspondence harness): round trip, size, canonicity of exact decoding (with the
     exact omitempty statement), error kinds and their order, decoded values respect `maxlen`;
  B. the generated programs (`Sky.Codec.DProg/EProg/SProg` with an operational semantics that CAN panic):
     a program equal to `refCodec t` decodes / encodes / sizes exactly like the reference and never panics;
  C. per generated file (REGENERATED `Sky.Gen.Codecs`, `gen_X_refines … := by decide`): the 29 extracted
     programs are the expected ones for the 29 extracted schemas, so A and B apply to each of them.

  Not a theorem: that `Sky.Codec.dec/enc` is what encoder.go does and that codecgen reads the generated
  files correctly — that is the tie (H for the former, the translator's exact shape matching for the latter).
-/
import Sky.Codec.Lemmas
import Sky.Codec.ProgLemmas
import Sky.Codec.Schemas
import Sky.Gen.CodecsThm
namespace Sky.Props.C21
open Sky.Codec

/-! ## A. the reference codec -/

/-- round trip with an arbitrary remainder (omitempty-free schemas): both decoders give back the value
that was encoded and leave exactly the bytes that followed. -/
theorem dec_enc (t : Ty) (hno : NoOmit t = true) (ht : TyOK t = true) (v : Val t) (hw : WF t v) (rest : Bytes) :
    dec t (enc t v ++ rest) = .ok v rest := Sky.Codec.dec_enc t hno ht v hw rest

/-- exact round trip, also for the omitempty type. -/
theorem decExact_enc (t : Ty) (ht : TyOK t = true) (v : Val t) (hw : WF t v) :
    decExact t (enc t v) = .ok v := by
  simp [decExact, Sky.Codec.dec_enc_exact t ht v hw, exact]

/-- `encoder.Size` = number of bytes written. -/
theorem size_eq_length (t : Ty) (v : Val t) (hw : WF t v) : size t v = (enc t v).length :=
  Sky.Codec.size_eq_length t v hw

/-- **exact decoding is canonical** for every schema without omitempty (28 of the 29 codecs): whenever a
byte string decodes, re-encoding the result yields the same bytes. -/
theorem decExact_canonical (t : Ty) (hno : NoOmit t = true) (bs : Bytes) (hb : BytesOK bs) (v : Val t)
    (h : decExact t bs = .ok v) : enc t v = bs := by
  have := (exact_ok_iff (dec t bs) v).1 h
  simpa using Sky.Codec.dec_canonical t hno bs hb v [] this

/-- the exact statement with omitempty (IntroductionMessage): re-encoding gives the same bytes, or the
input carried the empty last field explicitly (`… 00 00 00 00`) and the encoder leaves it out. -/
theorem decExact_canonical_omit (t : Ty) (ht : TyOK t = true) (bs : Bytes) (hb : BytesOK bs) (v : Val t)
    (h : decExact t bs = .ok v) :
    enc t v = bs ∨ (lastEmpty t v = true ∧ enc t v ++ [0, 0, 0, 0] = bs) := by
  have := (exact_ok_iff (dec t bs) v).1 h
  simpa using Sky.Codec.decG_canonical_omit t ht bs hb v [] this

/-- F13, as a theorem about the model: canonicity really fails for IntroductionMessage. -/
theorem intro_not_canonical :
    ∃ bs v, decExact Schemas.IntroductionMessage bs = .ok v ∧ enc Schemas.IntroductionMessage v ≠ bs :=
  ⟨[1, 0, 0, 0, 2, 0, 3, 0, 0, 0, 0, 0, 0, 0], (1, 2, 3, []), rfl, by decide⟩

/-- decoding only depends on the bytes it consumes. -/
theorem dec_consumes_prefix (t : Ty) (hno : NoOmit t = true) (ht : TyOK t = true) (bs : Bytes) (hb : BytesOK bs)
    (v : Val t) (rest extra : Bytes) (h : dec t bs = .ok v rest) :
    dec t (bs ++ extra) = .ok v (rest ++ extra) := Sky.Codec.dec_append t hno ht bs hb v rest extra h

/-- whatever is decoded is a value Go can hold and respects every `maxlen` tag (maximum-length
enforcement on the decoding side). -/
theorem dec_wf (t : Ty) (bs : Bytes) (hb : BytesOK bs) (v : Val t) (rest : Bytes) (h : dec t bs = .ok v rest) :
    WF t v := (Sky.Codec.dec_wf t bs hb v rest h).1

/-- error kinds of the plain decoder: never `ErrRemainingBytes`; `ErrInvalidBool` only with a bool field;
`ErrMaxLenExceeded` only with a maxlen tag. -/
theorem dec_error_kind (t : Ty) (bs : Bytes) (e : DecErr) (k : Nat) (h : dec t bs = .err e k) :
    e ≠ .remaining ∧ (e = .invalidBool → HasBool t = true) ∧ (e = .maxlen → HasMaxLen t = true) :=
  Sky.Codec.dec_err_kinds t bs e k h

/-- `ErrRemainingBytes` exactly when the plain decoder succeeds and leaves bytes. -/
theorem decExact_remaining_iff (t : Ty) (bs : Bytes) :
    decExact t bs = .error .remaining ↔ ∃ v b rest, dec t bs = .ok v (b :: rest) :=
  Sky.Codec.exact_remaining_iff t bs

/-- order of the checks: a length prefix that exceeds the rest of the buffer is `ErrBufferUnderflow`
even if it also exceeds maxlen … -/
theorem dec_underflow_before_maxlen (m : Nat) (t : Ty) (len : Nat) (body : Bytes)
    (h1 : len < 2 ^ 32) (h2 : body.length < len) :
    dec (.slice m t) (leBytes 4 len ++ body) = .err .underflow body.length :=
  Sky.Codec.dec_slice_underflow_first m t len body h1 h2

/-- … and a satisfiable one above maxlen is `ErrMaxLenExceeded` before any element is read. -/
theorem dec_maxlen (m : Nat) (t : Ty) (len : Nat) (body : Bytes)
    (h1 : len < 2 ^ 32) (h2 : len ≤ body.length) (hm : 0 < m) (h3 : m < len) :
    dec (.slice m t) (leBytes 4 len ++ body) = .err .maxlen body.length :=
  Sky.Codec.dec_slice_maxlen m t len body h1 h2 hm h3

/-- the generated encoder's bytes are the reference encoder's bytes … -/
theorem encG_ok_eq_enc (t : Ty) (v : Val t) (b : Bytes) (h : encG t v = .ok b) : b = enc t v :=
  Sky.Codec.encG_ok t v b h

/-- … it refuses exactly when a tagged field exceeds its maxlen … -/
theorem enc_maxlen_iff (t : Ty) (v : Val t) (hl : LenOK t v) : encG t v = .error .maxlen ↔ ¬ MaxLenOK t v :=
  Sky.Codec.encG_maxlen_iff t v hl

/-- … and accepts every well-formed value. -/
theorem encG_of_wf (t : Ty) (v : Val t) (hw : WF t v) : encG t v = .ok (enc t v) :=
  Sky.Codec.encG_of_wf t v hw

/-! non-vacuity: a concrete two-output transaction meets every hypothesis above -/
section Examples
open Schemas

def exOut : Val TransactionOutput := ((0, List.replicate 20 7), 1000000, 5)
def exTxn : Val Transaction :=
  (220, 0, List.replicate 32 1, [List.replicate 65 2], [List.replicate 32 3], [exOut, exOut])

example : NoOmit Transaction = true ∧ TyOK Transaction = true := by decide
example : WF Transaction exTxn := by
  simp [WF, exTxn, exOut]
example : decExact Transaction (enc Transaction exTxn) = .ok exTxn := rfl
example : (enc Transaction exTxn).length = 220 ∧ size Transaction exTxn = 220 := ⟨rfl, rfl⟩
example : TyOK IntroductionMessage = true ∧ NoOmit IntroductionMessage = false := by decide
/-- maxlen: three elements in a `maxlen=2` slice are refused by the generated encoder, and the reference
encoding of that value is refused by the decoder -/
example : encG (.slice 2 IPAddr) [(1, 2), (3, 4), (5, 6)] = .error .maxlen := rfl
example : dec (.slice 2 IPAddr) (enc (.slice 2 IPAddr) [(1, 2), (3, 4), (5, 6)]) = .err .maxlen 18 := rfl
/-- an invalid bool and a truncated length prefix give their own kinds -/
example : dec (.pair .bool .u8) [2, 0] = .err .invalidBool 1 := rfl
example : dec (.bytes 0) [5, 0, 0, 0, 1] = .err .underflow 1 := rfl
end Examples

/-! ## B + C. the 29 generated codecs -/

/-- the regenerated table of generated codecs: every extracted program is the expected program of its
extracted schema, and every schema satisfies the side conditions of the generic theorems. -/
theorem all_refine : ∀ e ∈ Sky.Gen.Codecs.all,
    denote e.2.2 = refCodec e.2.1 ∧ TyOK e.2.1 = true := by decide

/-- 29 generated files, and only IntroductionMessage has an omitempty field. -/
theorem all_count : Sky.Gen.Codecs.all.length = 29 := by decide
theorem all_noOmit_except_intro : ∀ e ∈ Sky.Gen.Codecs.all,
    e.1 ≠ "daemon_IntroductionMessage" → NoOmit e.2.1 = true := by decide

/-- **generated `decodeX` ≡ `encoder.DeserializeRaw`** on every byte string, for each of the 29 codecs:
same value, same consumed length, same error kind. -/
theorem gen_decode_eq_ref (name : String) (t : Ty) (g : GenCodec) (h : (name, t, g) ∈ Sky.Gen.Codecs.all)
    (bs : Bytes) : runDecode t g.dec bs = ofDRes (dec t bs) :=
  runDecode_refCodec t (all_refine _ h).2 g (all_refine _ h).1 bs

/-- **no generated decoder panics**, on any byte string. -/
theorem gen_decode_never_panics (name : String) (t : Ty) (g : GenCodec) (h : (name, t, g) ∈ Sky.Gen.Codecs.all)
    (bs : Bytes) : ∀ w, runDecode t g.dec bs ≠ .panic w :=
  (runDecode_total t (all_refine _ h).2 g (all_refine _ h).1 bs).1

/-- **generated `encodeX` ≡ `encoder.Serialize` + maxlen enforcement**, and it never panics. -/
theorem gen_encode_eq_ref (name : String) (t : Ty) (g : GenCodec) (h : (name, t, g) ∈ Sky.Gen.Codecs.all)
    (v : Val t) (hw : WF t v) : runEncode t g v = .ok (enc t v) := by
  rw [runEncode_refCodec t g (all_refine _ h).1 v (wf_shapeOK t v hw), Sky.Codec.encG_of_wf t v hw]; rfl

/-- … including the refusals: for every value Go can hold (maxlen NOT assumed) the generated encoder
returns `ErrMaxLenExceeded` exactly when `encG` does (`enc_maxlen_iff`), else the reference bytes. -/
theorem gen_encode_eq_encG (name : String) (t : Ty) (g : GenCodec) (h : (name, t, g) ∈ Sky.Gen.Codecs.all)
    (v : Val t) (hw : ShapeOK t v) : runEncode t g v = ofExcept (encG t v) :=
  runEncode_refCodec t g (all_refine _ h).1 v hw

/-- **generated `encodeSizeX` ≡ `encoder.Size`**. -/
theorem gen_size_eq_ref (name : String) (t : Ty) (g : GenCodec) (h : (name, t, g) ∈ Sky.Gen.Codecs.all)
    (v : Val t) : runSizeOf t g.size v = some (size t v) :=
  runSizeOf_refCodec t g (all_refine _ h).1 v

/-- canonicity for the 28 omitempty-free generated codecs, through the generated decoder's semantics:
if generated `decodeXExact` accepts `bs` with value `v` then `encoder.Serialize v = bs`. -/
theorem gen_decodeExact_canonical (name : String) (t : Ty) (g : GenCodec) (h : (name, t, g) ∈ Sky.Gen.Codecs.all)
    (hn : name ≠ "daemon_IntroductionMessage") (bs : Bytes) (hb : BytesOK bs) (v : Val t)
    (hd : runDecode t g.dec bs = .ok (v, [])) : enc t v = bs := by
  rw [gen_decode_eq_ref name t g h bs] at hd
  have hno := all_noOmit_except_intro _ h hn
  cases hdec : dec t bs with
  | err e k => rw [hdec] at hd; cases hd
  | ok v' r =>
    rw [hdec] at hd; simp only [ofDRes] at hd
    injection hd with hd; injection hd with h1 h2; subst h1 h2
    simpa using Sky.Codec.dec_canonical t hno bs hb v' [] hdec

example : ("coin_Transaction", Sky.Gen.Codecs.ty_coin_Transaction, Sky.Gen.Codecs.prog_coin_Transaction)
    ∈ Sky.Gen.Codecs.all := by decide

end Sky.Props.C21
