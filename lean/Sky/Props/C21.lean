/-
  C21 — generated binary codecs ≡ reference encoder: property theorems (work in progress; see final file).
-/
import Sky.Codec.Lemmas
import Sky.Codec.Schemas
import Sky.Gen.Codecs
namespace Sky.Props.C21
open Sky.Codec

theorem dec_enc (t : Ty) (hno : NoOmit t = true) (ht : TyOK t = true) (v : Val t) (hw : WF t v) (rest : Bytes) :
    dec t (enc t v ++ rest) = .ok v rest := Sky.Codec.dec_enc true t hno ht v hw rest

end Sky.Props.C21
