/-
  C22 — the wire protocol frames and parses any byte stream correctly.

  Model: Sky/C22/Model.lean (`decodeData`, readLoop's buffer handling `feed/feedAll`, `convertToMessage`), message table and
  framing constants REGENERATED from src/daemon/messages.go and gnet (Sky.Gen.Codecs.messages …), per-message decoders =
  the generated codecs of C21.

  * `frames_of_chunks`        every message sequence, EVERY chunking of its byte stream: delivered exactly, in order, buffer empty
  * `bad_length_disconnects`  a length prefix < 4 or > max (after any valid frames) → ErrDisconnectInvalidMessageLength
  * `convert_ok_iff` + `convert_*` error theorems: truncated id / unknown id / body does not decode / trailing bytes
  * `receive_total`           no byte string makes a message decoder panic (C21) — framing and conversion are total functions
  * `queue_ok_iff`            the receive queue accepts a burst iff it fits (the property's "bursts small enough" proviso)
-/
import Sky.C22.Lemmas
import Sky.Props.C21
namespace Sky.Props.C22
open Sky.Codec Sky.C22 Sky.Gen.Codecs

/-- **any chunking**: for every sequence of well-formed messages and every way its byte stream is split into reads,
readLoop (starting with an empty connection buffer) delivers exactly that sequence, in order, nothing lost or
duplicated, and ends with an empty buffer. -/
theorem frames_of_chunks (max : Nat) (ms : List Bytes) (hv : ∀ m ∈ ms, Valid max m) (cs : List Bytes)
    (h : cs.flatten = frames ms) : feedAll max [] cs [] = .ok (ms, []) := by
  have := feedAll_frames max ms hv [] cs (stable_nil max) (by simpa using h) []
  simpa using this

/-- the same from any intermediate state: after some reads the buffer holds exactly the undelivered, incomplete
suffix, and the remaining reads deliver the remaining messages. -/
theorem frames_of_chunks_resume (max : Nat) (ms : List Bytes) (hv : ∀ m ∈ ms, Valid max m) (buf : Bytes)
    (cs : List Bytes) (hs : Stable max buf) (h : buf ++ cs.flatten = frames ms) (delivered : List Bytes) :
    feedAll max buf cs delivered = .ok (delivered ++ ms, []) :=
  feedAll_frames max ms hv buf cs hs h delivered

/-- one call of `decodeData` on any cut `x` of a stream of valid frames: exactly the complete frames come out and
exactly the unfinished rest stays. -/
theorem decodeData_cut (max : Nat) (ms : List Bytes) (hv : ∀ m ∈ ms, Valid max m) (x y : Bytes)
    (h : x ++ y = frames ms) :
    ∃ j x', decodeData max x = .ok (ms.take j, x') ∧ x' ++ y = frames (ms.drop j) ∧ Stable max x' := by
  obtain ⟨j, x', h1, h2, h3⟩ := decodeLoop_prefix max ms hv x y h x.length (Nat.le_refl _) []
  exact ⟨j, x', by simpa [decodeData] using h1, h2, h3⟩

/-- **a bad length prefix disconnects**, also when valid frames precede it in the buffer. -/
theorem bad_length_disconnects (max : Nat) (ms : List Bytes) (hv : ∀ m ∈ ms, Valid max m) (bad : Bytes)
    (hb : 4 < bad.length) (hl : leVal (bad.take 4) < 4 ∨ max < leVal (bad.take 4)) :
    decodeData max (frames ms ++ bad) = .error .invalidLength :=
  decodeLoop_bad_length max ms hv bad hb hl _ (Nat.le_refl _) []

/-! ### convertToMessage -/

/-- a frame converts to a message exactly when it carries a registered id and its body decodes EXACTLY
(generated `Decode` consumes every byte). -/
theorem convert_ok_iff (tbl : Table) (b : Bytes) (name : String) (t : Ty) (v : Val t) :
    (∃ m, convert tbl b = .ok m ∧ m.name = name ∧ m.ty = t ∧ HEq m.val v) ↔
      4 ≤ b.length ∧ lookup tbl (b.take 4) = some (name, t) ∧ decG t (b.drop 4) = .ok v [] := by
  constructor
  · rintro ⟨m, hc, hn, ht, hv⟩
    unfold convert at hc
    split at hc
    · cases hc
    · rename_i hlen
      split at hc
      · cases hc
      · rename_i name' t' hl
        split at hc
        · cases hc
        · rename_i v' rest hd
          split at hc
          · rename_i he
            injection hc with hc; subst hc
            simp only at hn ht hv
            subst hn ht
            have hv' := eq_of_heq hv; subst hv'
            have : rest = [] := by cases rest <;> simp_all
            subst this
            exact ⟨by omega, hl, hd⟩
          · cases hc
  · rintro ⟨hlen, hl, hd⟩
    refine ⟨⟨name, t, v⟩, ?_, rfl, rfl, HEq.rfl⟩
    have : ¬ b.length < 4 := by omega
    simp [convert, this, hl, hd]

theorem convert_truncated (tbl : Table) (b : Bytes) (h : b.length < 4) :
    convert tbl b = .error .truncatedMessageID := by simp [convert, h]

theorem convert_unknown (tbl : Table) (b : Bytes) (h : 4 ≤ b.length) (hl : lookup tbl (b.take 4) = none) :
    convert tbl b = .error .unknownMessage := by
  have : ¬ b.length < 4 := by omega
  simp [convert, this, hl]

theorem convert_malformed (tbl : Table) (b : Bytes) (name : String) (t : Ty) (e : DecErr) (k : Nat) (h : 4 ≤ b.length)
    (hl : lookup tbl (b.take 4) = some (name, t)) (hd : decG t (b.drop 4) = .err e k) :
    convert tbl b = .error .malformedMessage := by
  have : ¬ b.length < 4 := by omega
  simp [convert, this, hl, hd]

theorem convert_trailing (tbl : Table) (b : Bytes) (name : String) (t : Ty) (v : Val t) (x : Nat) (rest : Bytes)
    (h : 4 ≤ b.length) (hl : lookup tbl (b.take 4) = some (name, t)) (hd : decG t (b.drop 4) = .ok v (x :: rest)) :
    convert tbl b = .error .decodeUnderflow := by
  have : ¬ b.length < 4 := by omega
  simp [convert, this, hl, hd]

/-- conversion either succeeds or gives one of the four disconnect reasons — by construction a total function;
what could panic in Go is the per-message decoder, see `receive_total`. -/
theorem convert_total (tbl : Table) (b : Bytes) : (∃ m, convert tbl b = .ok m) ∨ (∃ e, convert tbl b = .error e) := by
  cases convert tbl b with
  | ok m => exact Or.inl ⟨m, rfl⟩
  | error e => exact Or.inr ⟨e, rfl⟩

/-! ### the regenerated protocol tables -/

theorem table_size : messages.length = 12 := by decide
theorem table_ids_distinct : (messages.map (·.1)).Nodup := by decide
theorem table_ids_four_bytes : ∀ e ∈ messages, e.1.length = 4 := by decide
/-- the constants the model uses are the ones in the source -/
theorem framing_consts : messagePrefixLength = minLength ∧ messageLengthPrefixSize = prefixSize ∧
    msgChanCap = queueCap := by decide

/-- every registered message is an empty message (its `Decode` is `return 0, nil`) or is decoded by one of the
generated codecs of C21 -/
theorem table_decoders : ∀ e ∈ messages,
    e.2.2 = Ty.unit ∨ (Sky.Gen.Codecs.all.any fun c => decide (c.2.1 = e.2.2)) = true := by decide

/-- **no byte stream makes the node panic** in the receive path: the decoder of every registered message,
run as the generated program with its panic-capable semantics, never panics. -/
theorem receive_total : ∀ e ∈ messages, e.2.2 = Ty.unit ∨
    ∃ name g, (name, e.2.2, g) ∈ Sky.Gen.Codecs.all ∧ ∀ bs w, runDecode e.2.2 g.dec bs ≠ .panic w := by
  intro e he
  rcases table_decoders e he with h | h
  · exact Or.inl h
  · right
    obtain ⟨c, hc, hce⟩ := List.any_eq_true.1 h
    have hce : c.2.1 = e.2.2 := by simpa using hce
    obtain ⟨name, t, g⟩ := c
    simp only at hce
    subst hce
    exact ⟨name, g, hc, fun bs w => Sky.Props.C21.gen_decode_never_panics name _ g hc bs w⟩

/-- the non-blocking hand-over to the 32-slot channel succeeds iff the burst fits -/
theorem queue_ok_iff (queued : Nat) (fs : List Bytes) :
    (enqueue queued fs).isSome = true ↔ queued + fs.length ≤ queueCap := by
  unfold enqueue; split <;> simp_all

/-! ### non-vacuity -/
section Examples
def ping : Bytes := [80, 73, 78, 71]
def getb : Bytes := [71, 69, 84, 66, 1, 0, 0, 0, 0, 0, 0, 0, 2, 0, 0, 0, 0, 0, 0, 0]

example : Valid 1048576 ping ∧ Valid 1048576 getb := by
  refine ⟨⟨by decide, by decide, by decide⟩, ⟨by decide, by decide, by decide⟩⟩
/-- a stream of three messages cut in the middle of a length prefix and in the middle of a body -/
example : feedAll 1048576 [] [[4, 0], [0, 0, 80, 73, 78, 71, 20, 0, 0, 0, 71, 69, 84],
    [66, 1, 0, 0, 0, 0, 0, 0, 0, 2, 0, 0, 0, 0, 0, 0, 0, 4, 0, 0, 0, 80, 73, 78, 71]] [] =
    .ok ([ping, getb, ping], []) := rfl
example : decodeData 1048576 [3, 0, 0, 0, 1, 2, 3] = .error .invalidLength := rfl
example : decodeData 100 [101, 0, 0, 0, 1, 2, 3] = .error .invalidLength := rfl
example : (convert messages getb).isOk = true := rfl
example : convert messages [71, 69, 84] = .error .truncatedMessageID := rfl
example : convert messages [88, 88, 88, 88, 1] = .error .unknownMessage := rfl
example : convert messages (ping ++ [0]) = .error .decodeUnderflow := rfl
example : convert messages (getb.take 19) = .error .malformedMessage := rfl
end Examples

end Sky.Props.C22
