/-
  C27 — HTTP API access control is enforced on every endpoint: property theorems.

  `routes` / `guiRoutes` are REGENERATED from src/api/http.go on every run (Sky.Gen.Routes); every
  theorem below that mentions them is re-checked against the chains the code builds now.
  `tokErr` (the token verdict) is a parameter: `verifyCode` is what the code does, `verifyDoc` what
  the documentation promises.
-/
import Sky.C27.Lemmas
namespace Sky.Props.C27
open Sky.C27 Sky.Gen.Routes

/-- a route the server registers: one of the static ones, or a static-file route of the GUI -/
def Registered (r : Route) : Prop := r ∈ routes ∨ ∃ p, r ∈ guiRoutes p

/-- method is served at the route (no API-set table: every method goes to the handler) -/
def methodServed (r : Route) (m : Method) : Prop :=
  match r.gate? with
  | none => True
  | some s => lookupSets s m ≠ []

/-- one of the API sets the route lists for the method is enabled -/
def apiSetEnabled (cfg : Cfg) (r : Route) (m : Method) : Prop :=
  match r.gate? with
  | none => True
  | some s => ∃ a ∈ lookupSets s m, a ∈ cfg.enabled

/-- T: every registered route is wrapped exactly by the canonical chain (so: basic auth on every
route, host + origin/referer checks on every route unless globally disabled, CORS, the API-set gate
innermost). -/
theorem chains_canonical (r : Route) (h : Registered r) :
    r.chain = canonicalChain r.ver r.csrfChecked r.gate? := by
  rcases h with h | ⟨p, h⟩
  · revert r; decide
  · simp only [guiRoutes, List.mem_singleton] at h; subst h; rfl

/-- T: the only route without the CSRF check is the token endpoint itself -/
theorem csrf_everywhere (r : Route) (h : Registered r) (hp : r.path ≠ "/api/v1/csrf") :
    r.csrfChecked = true := by
  rcases h with h | ⟨p, h⟩
  · have key : ∀ r ∈ routes, r.path ≠ "/api/v1/csrf" → r.csrfChecked = true := by decide
    exact key r h hp
  · simp only [guiRoutes, List.mem_singleton] at h; subst h; rfl

/-- T: the ungated routes (reachable whatever API sets are enabled) are exactly these -/
theorem ungated_routes (r : Route) (h : r ∈ routes) (hg : r.gate? = none) :
    r.path = "/" ∨ r.path = "/api/v1/csrf" ∨ r.path = "/api/v1/version" := by
  have key : ∀ r ∈ routes, r.gate? = none →
      r.path = "/" ∨ r.path = "/api/v1/csrf" ∨ r.path = "/api/v1/version" := by decide
  exact key r h hg

/-- T: a gated route lists at least one API set for every method it mentions, and no method twice -/
theorem gate_tables_wellformed (r : Route) (h : r ∈ routes) (s : List (Method × List ApiSet))
    (hs : r.gate? = some s) : s ≠ [] ∧ (∀ e ∈ s, e.2 ≠ []) ∧ (s.map (·.1)).Nodup := by
  have key : ∀ r ∈ routes, let s := r.gate?.getD [(.GET, [.READ])]
      s ≠ [] ∧ (∀ e ∈ s, e.2 ≠ []) ∧ (s.map (·.1)).Nodup := by decide
  have := key r h
  rw [hs] at this
  exact this

/-- the server's decision equals the hand-written status precedence
401 → 415 → 403 host → 403 origin → 403 token → preflight → 405 → 403 disabled → handler -/
theorem decide_eq_spec (tokErr : Tok → Option Why) (cfg : Cfg) (r : Route) (req : Req) (h : Registered r) :
    Sky.C27.decide tokErr cfg r req = specDecide tokErr cfg r.ver r.csrfChecked r.gate? req := by
  unfold Sky.C27.decide
  rw [chains_canonical r h]
  exact run_canonical_eq_spec tokErr cfg r.ver r.csrfChecked r.gate? req

/-- MAIN: a request reaches the endpoint's handler iff every condition of the property holds -/
theorem reaches_handler_iff (tokErr : Tok → Option Why) (cfg : Cfg) (r : Route) (req : Req) (h : Registered r) :
    Sky.C27.decide tokErr cfg r req = .reach ↔
      methodServed r req.method ∧ apiSetEnabled cfg r req.method ∧
      (r.csrfChecked = true → cfg.disableCSRF = false → stateChanging req.method = true → tokErr req.tok = none) ∧
      (cfg.disableHeaderCheck = false → hostOK cfg req = true ∧ originCheck cfg req = none) ∧
      credsOK cfg req = true ∧
      (r.ver = .v2 → req.method = .POST → req.ctJSON = true) ∧
      ¬ (isPreflight req = true ∧ cfg.corsPassthrough = false) := by
  rw [decide_eq_spec tokErr cfg r req h]
  unfold methodServed apiSetEnabled
  exact spec_reach_iff tokErr cfg r.ver r.csrfChecked r.gate? req

/-- with the CODE's token check: a state-changing request reaches a protected route only with a
well-formed, correctly signed (issued by this node), unexpired token -/
theorem state_change_needs_token (cfg : Cfg) (r : Route) (req : Req) (h : Registered r)
    (hp : r.path ≠ "/api/v1/csrf") (hc : cfg.disableCSRF = false) (hm : stateChanging req.method = true)
    (hr : Sky.C27.decide verifyCode cfg r req = .reach) :
    req.tok.twoParts = true ∧ req.tok.b64ok = true ∧ req.tok.sigOK = true ∧ req.tok.jsonOK = true ∧
      req.tok.unexpired = true := by
  have := ((reaches_handler_iff verifyCode cfg r req h).1 hr).2.2.1 (csrf_everywhere r h hp) hc hm
  exact verifyCode_none_iff.1 this

/-- credentials: when configured, exactly the configured PAIR must be presented -/
theorem creds_exact (cfg : Cfg) (r : Route) (req : Req) (h : Registered r) (tokErr : Tok → Option Why)
    (hcfg : cfg.username ≠ "" ∨ cfg.password ≠ "") (hr : Sky.C27.decide tokErr cfg r req = .reach) :
    req.creds = some (cfg.username, cfg.password) := by
  have := ((reaches_handler_iff tokErr cfg r req h).1 hr).2.2.2.2.1
  exact credsOK_pairwise cfg req hcfg this

/-- status precedence, first clause: wrong or missing credentials are answered 401 before anything else -/
theorem unauthorized_first (tokErr : Tok → Option Why) (cfg : Cfg) (r : Route) (req : Req) (h : Registered r)
    (hc : credsOK cfg req = false) : Sky.C27.decide tokErr cfg r req = .refuse .unauthorized := by
  rw [decide_eq_spec tokErr cfg r req h]; unfold specDecide; simp [hc]

/-- a refusal carries one of the documented statuses -/
theorem refusal_status (tokErr : Tok → Option Why) (cfg : Cfg) (r : Route) (req : Req) (w : Why)
    (_h : Sky.C27.decide tokErr cfg r req = .refuse w) : w.status = 401 ∨ w.status = 403 ∨ w.status = 405 ∨ w.status = 415 := by
  cases w <;> simp [Why.status]

/-- method not served → 405, served but no listed API set enabled → 403 (when nothing earlier refuses) -/
theorem gate_statuses (tokErr : Tok → Option Why) (cfg : Cfg) (r : Route) (req : Req) (h : Registered r)
    (s : List (Method × List ApiSet)) (hs : r.gate? = some s)
    (hpass : specDecide tokErr cfg r.ver r.csrfChecked none req = .reach) :
    Sky.C27.decide tokErr cfg r req =
      (if (lookupSets s req.method).isEmpty then .refuse .methodNotAllowed
       else if (lookupSets s req.method).any (fun a => cfg.enabled.contains a) then .reach
       else .refuse .disabled) := by
  rw [decide_eq_spec tokErr cfg r req h, hs]
  exact spec_gate tokErr cfg r.ver r.csrfChecked s req hpass

/-! ### tokens -/

/-- PARTIAL (what the code guarantees): a presented token is accepted iff it was issued by this
node and has not expired.  `hUF` is the HMAC assumption: a signature that verifies can only belong
to a payload this node issued.  Missing w.r.t. the documented behaviour: `TokenFresh`. -/
theorem token_valid_iff_issued_unexpired_partial {σ} [DecidableEq σ] (mac : Payload → σ) (s : TokState)
    (now : Nat) (t : Token σ) (hUF : t.sig = mac t.payload → t.payload ∈ s.issued) :
    verifyToken mac s now t = true ↔ (t.payload ∈ s.issued ∧ t.sig = mac t.payload) ∧ now ≤ t.payload.expiresAt := by
  unfold verifyToken
  simp only [Bool.and_eq_true, beq_iff_eq, Bool.not_eq_true', decide_eq_false_iff_not, Nat.not_lt]
  constructor
  · rintro ⟨h1, h2⟩; exact ⟨⟨hUF h1, h1⟩, h2⟩
  · rintro ⟨⟨_, h1⟩, h2⟩; exact ⟨h1, h2⟩

/-- the FULL documented statement `TokenFresh` is FALSE of the code's check (defect F10b, recorded
as a known finding): an older unexpired token stays valid after a new one is issued. -/
theorem token_fresh_counterexample {σ} [DecidableEq σ] (mac : Payload → σ) :
    ¬ TokenFresh (verifyToken mac) mac := by
  intro h
  have := h ⟨[⟨0, 10⟩]⟩ ⟨0, 10⟩ ⟨1, 20⟩ 5 (by simp) (by decide)
  simp [verifyToken] at this

/-- under the DOCUMENTED rule a superseded token never gets a state-changing request through -/
theorem doc_rule_refuses_older (cfg : Cfg) (r : Route) (req : Req) (h : Registered r)
    (hp : r.path ≠ "/api/v1/csrf") (hc : cfg.disableCSRF = false) (hm : stateChanging req.method = true)
    (hold : req.tok.latest = false) : Sky.C27.decide verifyDoc cfg r req ≠ .reach := by
  intro hr
  have := ((reaches_handler_iff verifyDoc cfg r req h).1 hr).2.2.1 (csrf_everywhere r h hp) hc hm
  unfold verifyDoc at this
  split at this
  · cases this
  · simp [hold] at this

/-- byte level: a presented token is accepted iff its signature part is EXACTLY the MAC of its payload
part under the node's key and it has not expired — nothing an attacker can assemble from observed
tokens (re-dated payloads, spliced or swapped signatures) passes unless it is such a MAC -/
theorem raw_accept_iff (mac : List Nat → List Nat → List Nat) (key : List Nat) (expired : Bool) (t : RawToken) :
    rawVerify mac key expired t = none ↔ t.sig = mac key t.payload ∧ expired = false := by
  unfold rawVerify
  by_cases h : t.sig = mac key t.payload <;> cases expired <;> simp [h]

/-- the token the node issues (specification) is accepted until it expires, and only with its own payload -/
theorem issued_token_verifies (mac : List Nat → List Nat → List Nat) (key payload : List Nat) :
    rawVerify mac key false (issueSpec mac key payload) = none := by
  simp [rawVerify, issueSpec]

theorem forged_signature_refused (mac : List Nat → List Nat → List Nat) (key : List Nat) (e : Bool) (t : RawToken)
    (h : t.sig ≠ mac key t.payload) : rawVerify mac key e t = some .csrfSig := by
  simp [rawVerify, h]

/-! ### non-vacuity: concrete requests on the regenerated table -/

def exCfg : Cfg := { host := "127.0.0.1:6420", isLocalhost := true, port := 6420, whitelist := ["wl.example.com"], disableCSRF := false, disableHeaderCheck := false, enabled := [.WALLET], username := "a", password := "bc", corsPassthrough := corsOptionsPassthrough }
def exTok : Tok := ⟨true, true, true, true, true, true⟩
def exReq : Req := { method := .POST, host := "localhost:6420", origin := .host "127.0.0.1:6420", referer := .absent, creds := some ("a", "bc"), tok := exTok, ctJSON := false, acrm := false }
def exRoute : Route := (routes.find? (fun r => r.path == "/api/v1/wallet/create")).getD ⟨"", .v1, []⟩

example : Registered exRoute := Or.inl (by decide)
-- a fully acceptable request reaches the handler
example : Sky.C27.decide verifyCode exCfg exRoute exReq = .reach := by decide
-- and each single deviation is refused with the status of its own check
example : Sky.C27.decide verifyCode exCfg exRoute { exReq with creds := some ("ab", "c") } = .refuse .unauthorized := by decide
example : Sky.C27.decide verifyCode exCfg exRoute { exReq with host := "evil.com" } = .refuse .badHost := by decide
example : Sky.C27.decide verifyCode exCfg exRoute { exReq with origin := .host "evil.com" } = .refuse .badOrigin := by decide
example : Sky.C27.decide verifyCode exCfg exRoute { exReq with tok := { exTok with unexpired := false } } = .refuse .csrfExpired := by decide
example : Sky.C27.decide verifyCode exCfg exRoute { exReq with tok := { exTok with sigOK := false } } = .refuse .csrfSig := by decide
example : Sky.C27.decide verifyCode exCfg exRoute { exReq with method := .GET } = .refuse .methodNotAllowed := by decide
example : Sky.C27.decide verifyCode { exCfg with enabled := [.READ] } exRoute exReq = .refuse .disabled := by decide
-- the older-token request: accepted by the code's rule, refused by the documented rule (F10b)
example : Sky.C27.decide verifyCode exCfg exRoute { exReq with tok := { exTok with latest := false } } = .reach := by decide
example : Sky.C27.decide verifyDoc exCfg exRoute { exReq with tok := { exTok with latest := false } } = .refuse .csrfSuperseded := by decide
-- F10a in one line: comparing the CONCATENATION accepts a differently split pair
example : ("ab", "c") ≠ ("a", "bc") ∧ "ab" ++ "c" = "a" ++ "bc" := by decide
-- byte level, with a toy MAC: the splice "own payload ‖ tail of an observed signature" is refused
example : rawVerify (fun k m => k ++ m) [1] false ⟨[5, 6], [5, 6] ++ [1, 9]⟩ = some .csrfSig := by decide
example : rawVerify (fun k m => k ++ m) [1] false (issueSpec (fun k m => k ++ m) [1] [5, 6]) = none := by decide
-- hypotheses of the token theorem are satisfiable
example : verifyToken (fun p => p.nonce + 7) ⟨[⟨3, 100⟩]⟩ 50 ⟨⟨3, 100⟩, 10⟩ = true := by decide

end Sky.Props.C27
