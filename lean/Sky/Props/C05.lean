/-
  C05 — blocks made by the publisher are valid and pick conflicts deterministically.
  Proved (any mode, all pools): every transaction of a created block comes from the offered pool,
  passes ALL hard and soft rules under the block-creation parameters and the in-block hard constraints;
  the candidate list the block is cut from respects the configured block size and is a prefix of the
  fee-ordered list; the block time is later than the head's; the fee is the checked sum of the
  transaction fees; the transaction list is sorted by (fee per kB descending, hash ascending) and free of
  shared inputs; and the created block passes every check of `Blockchain.processBlock` on an independent
  non-arbitrating node holding the same chain (`created_block_passes_processBlock`, by completeness of the
  non-arbitrating loops, `Sky/Ledger/Accept.lean`).  Carried by the correspondence (model vs real publisher on every created block, then
  the block is executed on an independent real follower): the exact transaction order (fee per kB
  descending, ties by hash), which of several conflicting transactions is included, and acceptance by
  the follower.
-/
import Sky.Ledger.Create
import Sky.Ledger.Sorted
import Sky.Ledger.Accept
import Sky.Ledger.Progress
namespace Sky.Props.C05
open Sky Sky.Ledger

theorem take_sum_le (l : List Nat) (n : Nat) : (l.take n).sum ≤ l.sum := by
  induction l generalizing n with
  | nil => simp
  | cons a l ih =>
    cases n with
    | zero => simp
    | succ n => simp only [List.take_succ_cons, List.sum_cons]; have := ih n; omega

theorem created_block_facts {s : State} {txns r : List Txn} {when_ fee : Nat}
    (h : createBlock s txns when_ = .ok (r, fee)) :
    headTime s < when_ ∧ r ≠ [] ∧
    (∀ t ∈ r, t ∈ txns ∧ verifySingleSoftHard s t s.cfg.create = .ok () ∧ verifyBlockTxn s t = .ok ()) ∧
    (∃ cand : List Txn, (∀ t ∈ r, t ∈ cand) ∧ (cand.map (fun t => t.size.getD 0)).sum ≤ s.cfg.maxBlock ∧ cand.length ≤ 65535) := by
  unfold createBlock at h
  simp only [bind, Except.bind] at h
  split at h
  · cases h
  · split at h
    · cases h
    · split at h
      · cases h
      · rename_i sorted hsorted
        split at h
        · cases h
        · split at h
          · cases h
          · rename_i hwhen
            split at h
            · cases h
            · rename_i txns2 hpt
              split at h
              · cases h
              · rename_i hne2
                split at h
                · cases h
                · split at h
                  · cases h
                    have htr := truncateBytesTo_facts sorted s.cfg.maxBlock
                    have hmem := processTransactions_mem hpt
                    refine ⟨by omega, by intro e; subst e; simp at hne2, ?_, ?_⟩
                    · intro t ht
                      obtain ⟨m1, m2⟩ := hmem t ht
                      have m3 : t ∈ truncateBytesTo sorted s.cfg.maxBlock := (List.take_subset _ _) m1
                      have m4 : t ∈ sorted := htr.1.subset m3
                      have m5 := sortTransactions_mem hsorted t m4
                      simp only [List.mem_filter] at m5
                      refine ⟨m5.1, ?_, m2⟩
                      have := m5.2
                      split at this
                      · rename_i hu; exact hu
                      · simp at this
                    · refine ⟨(truncateBytesTo sorted s.cfg.maxBlock).take 65535, ?_, ?_, ?_⟩
                      · intro t ht; exact (hmem t ht).1
                      · have hle : (((truncateBytesTo sorted s.cfg.maxBlock).take 65535).map (fun t => t.size.getD 0)).sum
                            ≤ ((truncateBytesTo sorted s.cfg.maxBlock).map (fun t => t.size.getD 0)).sum := by
                          rw [List.map_take]; exact take_sum_le _ _
                        omega
                      · simp [List.length_take]; omega
                  · cases h

/-- each transaction of a created block passes the block-level hard constraints, so in particular its
input coins equal its output coins -/
theorem created_txns_balanced {s : State} {txns r : List Txn} {when_ fee : Nat}
    (h : createBlock s txns when_ = .ok (r, fee)) :
    ∀ t ∈ r, ∃ uxIn, getArray s.unspent t.ins = .ok uxIn ∧ coinsOfUx uxIn = coinsOfOuts t.outs := by
  intro t ht
  obtain ⟨_, _, hv, _⟩ := created_block_facts h
  obtain ⟨uxIn, h1, _, h3, _⟩ := verifyBlockTxn_ok (hv t ht).2.2
  exact ⟨uxIn, h1, h3⟩

/-- the publisher (arbitrating mode) lists transactions by fee per kilobyte, highest first, ties by
lowest hash: the block's transaction list is a sub-sequence of a list ordered by that key, and the keys
are the real fees per kB against the current head (saturating `fee*1024`, divided by the encoded size) -/
theorem created_sorted {s : State} {txns r : List Txn} {when_ fee : Nat} (harb : s.cfg.arb = true)
    (h : createBlock s txns when_ = .ok (r, fee)) :
    ∃ ks : List Keyed, r.Sublist (ks.map (·.txn)) ∧ ks.Pairwise kle ∧
      ∀ k ∈ ks, ∃ f sz, txnFee s k.txn = .ok f ∧ k.txn.size = some sz ∧ k.fee = feeKB f sz := by
  unfold createBlock at h
  simp only [bind, Except.bind] at h
  split at h
  · cases h
  · split at h
    · cases h
    · split at h
      · cases h
      · split at h
        · cases h
        · split at h
          · cases h
          · split at h
            · cases h
            · rename_i txns2 hpt
              split at h
              · cases h
              · split at h
                · cases h
                · split at h
                  · cases h
                    exact processTransactions_arb_sorted harb hpt
                  · cases h

/-- two transactions of a created block never spend the same output, whatever the pool contained -/
theorem created_no_conflict {s : State} {txns r : List Txn} {when_ fee : Nat}
    (h : createBlock s txns when_ = .ok (r, fee)) : r.Pairwise (fun a b => sharesInput a b = false) := by
  unfold createBlock at h
  simp only [bind, Except.bind] at h
  split at h
  · cases h
  · split at h
    · cases h
    · split at h
      · cases h
      · split at h
        · cases h
        · split at h
          · cases h
          · split at h
            · cases h
            · rename_i txns2 hpt
              split at h
              · cases h
              · split at h
                · cases h
                · split at h
                  · cases h
                    exact (processTransactions_facts hpt).2.1
                  · cases h

/-- the transaction list of a created block is the output of `processTransactions` on the publisher -/
theorem createBlock_pt {s : State} {txns r : List Txn} {when_ fee : Nat}
    (h : createBlock s txns when_ = .ok (r, fee)) : ∃ cand, processTransactions s cand = .ok r := by
  unfold createBlock at h
  simp only [bind, Except.bind] at h
  split at h
  · cases h
  · split at h
    · cases h
    · split at h
      · cases h
      · split at h
        · cases h
        · split at h
          · cases h
          · split at h
            · cases h
            · rename_i txns2 hpt
              split at h
              · cases h
              · split at h
                · cases h
                · split at h
                  · cases h; exact ⟨_, hpt⟩
                  · cases h

/-- **a block the publisher creates passes every check of `Blockchain.processBlock` on an independent,
non-arbitrating node that holds the same chain** (same unspent set and checksum — which C07 shows are functions
of the chain): header sequence, time, parent hash and body hash; every transaction's hard constraints; no
duplicate transaction, no double spend, no output collision inside the block or with the unspent set; the
block is not re-arbitrated; the unspent checksum matches.  The block is assembled as `coin.NewBlock` does:
`seq = head+1`, `prev = head hash`, `time = when`, body hash of its own transactions, checksum of the
publisher's unspent set. -/
theorem created_block_passes_processBlock {s f : State} {pool r : List Txn} {when_ fee : Nat} {b g last : Block}
    (h : createBlock s pool when_ = .ok (r, fee))
    (hu : f.unspent = s.unspent) (hc : f.chain = s.chain) (hx : f.xor = s.xor) (harb : f.cfg.arb = false)
    (hg : s.chain.head? = some g) (hl : s.chain.getLast? = some last)
    (hb : b.txns = r) (hseq : b.seq = last.seq + 1) (htime : b.time = when_) (hprev : b.prev = last.hh)
    (hbody : b.cb = b.body) (huxh : b.uxh = hex16 s.xor) (hnew : (g.hh == b.hh) = false) :
    processBlock f b = .ok () := by
  obtain ⟨hwhen, hne, _, _⟩ := created_block_facts h
  obtain ⟨cand, hpt⟩ := createBlock_pt h
  obtain ⟨hv, hs, hnd, hfresh⟩ := processTransactions_facts hpt
  have hh := processTransactions_hashes hpt
  have hne' : s.chain.isEmpty = false := by
    cases hcs : s.chain with
    | nil => rw [hcs] at hg; cases hg
    | cons a l => rfl
  have hptf : processTransactions f b.txns = .ok r := by
    unfold processTransactions
    rw [hc, hne', harb, hb]
    simp only [Bool.false_eq_true, if_false]
    exact ptCore_complete f r hne
      (fun t ht => by rw [verifyBlockTxn_congr hu hc t]; exact (hv t ht).2) hh hs hnd
      (fun x hx => by rw [hu]; exact hfresh x hx)
  have hhdr : verifyBlockHeader f b = .ok () := by
    unfold verifyBlockHeader
    have ht : ¬ (b.time ≤ last.time) := by
      have : headTime s = last.time := by unfold headTime; rw [hl]
      omega
    simp only [hc, hl, bind, Except.bind, hseq, hprev, hbody, bne_self_eq_false, Bool.false_eq_true, if_false, ht]
  have hsame : sameTxns r r = true := by unfold sameTxns; simp
  rw [hb] at hptf
  unfold processBlock
  simp only [hc, hg, hnew, hhdr, bind, Except.bind, Bool.false_eq_true, if_false, hb, hx, huxh,
    bne_self_eq_false, hptf, hsame, Bool.not_true]

/-- **a block the publisher creates is EXECUTED by an independent node holding the same chain**: it passes
`processBlock` (above) and, the follower being in a state histories reach (`Strong`), none of the storage steps can
fail (`Sky.Ledger.execSigned_succeeds`).  Hypotheses about hashes: the new header hash is not in the follower's
block store and the parent reference is not the null hash (both hold for real SHA-256 header hashes), and the
transactions of the block have pairwise distinct hashes / distinct inputs each (`HashInj`, `WfSound`: C09). -/
theorem created_block_executed {s f : State} {pool r : List Txn} {when_ fee : Nat} {b g last : Block}
    (h : createBlock s pool when_ = .ok (r, fee))
    (hu : f.unspent = s.unspent) (hc : f.chain = s.chain) (hx : f.xor = s.xor) (harb : f.cfg.arb = false)
    (hstf : Strong f) (hwf : ∀ t ∈ r, WfSound t) (hinj : HashInj r)
    (hg : s.chain.head? = some g) (hl : s.chain.getLast? = some last)
    (hb : b.txns = r) (hseq : b.seq = last.seq + 1) (htime : b.time = when_) (hprev : b.prev = last.hh)
    (hbody : b.cb = b.body) (huxh : b.uxh = hex16 s.xor) (hsig : b.sig = true)
    (hnew : (f.chain.any (·.hh == b.hh)) = false) (hnz : (b.prev == "0000000000000000") = false) :
    ∃ f', execSigned f b = .ok f' := by
  have hgf : f.chain.head? = some g := by rw [hc]; exact hg
  have hlf : f.chain.getLast? = some last := by rw [hc]; exact hl
  have hne : (g.hh == b.hh) = false := by
    rw [List.any_eq_false] at hnew
    have hmem : g ∈ f.chain := by
      cases hcs : f.chain with
      | nil => rw [hcs] at hgf; cases hgf
      | cons a l => rw [hcs] at hgf; simp at hgf; subst hgf; simp
    have := hnew g hmem
    simpa using this
  have hpb := created_block_passes_processBlock h hu hc hx harb hg hl hb hseq htime hprev hbody huxh hne
  exact execSigned_succeeds hstf (by rw [hb]; exact hwf) hgf hlf hsig hpb hnew hnz (by rw [hb]; exact hinj)

/- FULL conflict clause of the property ("exactly one of two conflicting pending transactions is included,
the earlier one") is FALSE of code and model in conflict chains X < A < B (X∩A ≠ ∅, A∩B ≠ ∅, X∩B = ∅):
the block is [X], neither A nor B — known finding F36; the check evaluates the clause on every block the
real publisher makes and reports any other violation of it. -/

end Sky.Props.C05
