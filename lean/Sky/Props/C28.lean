/-
  C28 — no API request can crash the node: the PARTIAL, logic-only part.

  Proved: `Visor.VerifyTxnVerbose` (model of the current code) never panics, for every database
  state and transaction; the pre-repair version panics exactly on a not-yet-confirmed transaction
  whose inputs are all known and at least one of them already spent (defect F6); the regenerated
  `PageIndex.Cal` never panics and its result always is a valid slice range.
  NOT proved (carried only by the request-generation harness, which is testing): JSON decoding,
  net/http, the ~50 handlers, wallet service, the rest of visor.
-/
import Sky.C28.Model
import Sky.Gen.PageIndex
namespace Sky.Props.C28
open Sky Sky.C28 Sky.Gen.PageIndex

theorem finish_total (v : VIn) (n t : Nat) (c : Bool) (e : Option ErrClass) : ∀ p, finish v n t c e ≠ .panic p := by
  intro p; unfold finish; split <;> (try split) <;> simp

/-- verifying ANY transaction against ANY state returns a verdict (never a panic) -/
theorem verifyTxnVerbose_total (v : VIn) : ∀ p, verifyTxnVerbose v ≠ .panic p := by
  intro p
  unfold verifyTxnVerbose verifyTxnVerboseG
  split
  · exact finish_total _ _ _ _ _ p
  · split
    · exact finish_total _ _ _ _ _ p
    · split
      · simp only [if_true]; exact finish_total _ _ _ _ _ p
      · split
        · split <;> exact finish_total _ _ _ _ _ p
        · exact finish_total _ _ _ _ _ p

/-- F6, exactly: the unrepaired function panics iff some input is not unspent, none is unknown and
the transaction itself is not in the history -/
theorem verifyTxnVerboseF6_panics_iff (v : VIn) :
    (∃ p, verifyTxnVerboseF6 v = .panic p) ↔
      (v.ins.all (· == .unspent) = false ∧ v.ins.any (· == .unknown) = false ∧ v.inHistory = none) := by
  unfold verifyTxnVerboseF6 verifyTxnVerboseG
  constructor
  · rintro ⟨p, h⟩
    split at h
    · exact absurd h (finish_total _ _ _ _ _ p)
    · split at h
      · exact absurd h (finish_total _ _ _ _ _ p)
      · split at h
        · rename_i h1 h2 _ h3
          exact ⟨Bool.eq_false_iff.2 h1, Bool.eq_false_iff.2 h2, h3⟩
        · split at h
          · split at h <;> exact absurd h (finish_total _ _ _ _ _ p)
          · exact absurd h (finish_total _ _ _ _ _ p)
  · rintro ⟨h1, h2, h3⟩
    simp [h1, h2, h3]

/-- a double spend of an already spent output is reported as a hard-constraint violation -/
theorem double_spend_verdict (v : VIn) (h1 : v.ins.all (· == .unspent) = false)
    (h2 : v.ins.any (· == .unknown) = false) (h3 : v.inHistory = none) :
    verifyTxnVerbose v = .ok ⟨false, false, some .hard⟩ := by
  unfold verifyTxnVerbose verifyTxnVerboseG
  simp [h1, h2, h3, finish]

/-- a transaction is reported confirmed only if the history holds it -/
theorem confirmed_only_if_in_history (v : VIn) (o : VOut) (h : verifyTxnVerbose v = .ok o)
    (hc : o.confirmed = true) : v.inHistory ≠ none := by
  intro hn
  unfold verifyTxnVerbose verifyTxnVerboseG at h
  simp only [hn] at h
  split at h
  · unfold finish at h; split at h <;> (try split at h) <;> (cases h; cases hc)
  · split at h
    · unfold finish at h; split at h <;> (try split at h) <;> (cases h; cases hc)
    · simp only [if_true] at h
      unfold finish at h; split at h <;> (try split at h) <;> (cases h; cases hc)

/-- paging arithmetic (regenerated from PageIndex.Cal): never a panic (no division by zero escapes
the zero-size check) … -/
theorem cal_total (page size n : Nat) : ∀ p, PageIndex_Cal page size n ≠ .panic p := by
  intro p
  unfold PageIndex_Cal
  by_cases hs : size = 0
  · simp [hs]
  · by_cases hp : page = 0
    · simp [hs, hp]
    · simp only [hs, hp, if_false]
      repeat' split
      all_goals simp

/-- … and the range it returns can always be sliced out of a list of `n` items: start ≤ end ≤ n
(`size + n < 2^64`: the API caps the page size at 100 and `n` is a slice length) -/
theorem cal_range_valid (page size n s e t : Nat) (hsn : size + n < 2^64)
    (h : PageIndex_Cal page size n = .ok (s, e, t)) : s ≤ e ∧ e ≤ n := by
  unfold PageIndex_Cal at h
  by_cases hs : size = 0
  · simp [hs] at h
  · by_cases hp : page = 0
    · simp [hs, hp] at h
    · simp only [hs, hp, if_false] at h
      unfold wrap64 at h
      repeat' split at h
      all_goals (simp only [Res.ok.injEq, Prod.mk.injEq] at h)
      all_goals (obtain ⟨h1, h2, _⟩ := h; subst h1; subst h2)
      all_goals first
        | omega
        | (constructor <;> omega)
        | skip
      all_goals (generalize size * sub64 page 1 % 2 ^ 64 = a at *; omega)


/-- **exact paging**: for a non-zero page size and page number (and no 64-bit wrap:
`size·(page−1) < 2^64`, `size + n < 2^64`) the result is the textbook one — the number of pages is
`⌈n/size⌉`, a page beyond the last is the empty range, and page `p` is `[size·(p−1), min(size·p, n))`. -/
theorem cal_exact (page size n s e t : Nat) (hs : size ≠ 0) (hp : page ≠ 0) (hp64 : page < 2^64)
    (hmul : size * (page - 1) < 2^64) (hsn : size + n < 2^64)
    (h : PageIndex_Cal page size n = .ok (s, e, t)) :
    t = n / size + (if n % size ≠ 0 then 1 else 0) ∧
    (if page > t ∨ size * (page - 1) ≥ n then s = 0 ∧ e = 0
     else s = size * (page - 1) ∧ e = min (size * (page - 1) + size) n) := by
  unfold PageIndex_Cal at h
  simp only [hs, hp, if_false] at h
  have hsub : sub64 page 1 = page - 1 := by unfold sub64; omega
  rw [hsub] at h
  unfold wrap64 at h
  have hdiv : n / size ≤ n := Nat.div_le_self n size
  generalize size * (page - 1) = a at *
  generalize n / size = q at *
  generalize n % size = r at *
  repeat' split at h
  all_goals (simp only [Res.ok.injEq, Prod.mk.injEq] at h)
  all_goals (obtain ⟨h1, h2, h3⟩ := h; subst h1; subst h2; subst h3)
  all_goals (split <;> split <;> omega)

/-- a transaction all of whose inputs are still unspent is never reported confirmed, and its verdict is
the outcome of the constraint checks unless the verbose inputs cannot be built -/
theorem all_unspent_unconfirmed (v : VIn) (o : VOut) (ha : v.ins.all (· == .unspent) = true)
    (h : verifyTxnVerbose v = .ok o) : o.confirmed = false ∧ (o.err = v.checks ∨ o.err = some .other) := by
  unfold verifyTxnVerbose verifyTxnVerboseG at h
  rw [if_pos ha] at h
  unfold finish at h
  split at h
  · split at h <;> (cases h; simp)
  · cases h; simp

/-- an input known nowhere (and not every input unspent) is an internal error, never a panic and never
"confirmed" -/
theorem unknown_input_verdict (v : VIn) (h1 : v.ins.all (· == .unspent) = false)
    (h2 : v.ins.any (· == .unknown) = true) :
    verifyTxnVerbose v = .ok ⟨false, false, some .other⟩ := by
  unfold verifyTxnVerbose verifyTxnVerboseG
  simp [h1, h2, finish]

/-! non-vacuity -/
-- the F6 witness: one already spent input, transaction unknown to the history
def f6 : VIn := ⟨[.spent], none, none, 1500000600, none, false⟩
example : verifyTxnVerboseF6 f6 = .panic "nil dereference: historyTxn.BlockSeq" := by decide
example : verifyTxnVerbose f6 = .ok ⟨false, false, some .hard⟩ := by decide
-- a confirmed transaction in block 3, a valid unconfirmed one, an unknown input
example : verifyTxnVerbose ⟨[.spent, .spent], some 3, some 1500001800, 1500003000, none, false⟩ = .ok ⟨true, true, none⟩ := by decide
example : verifyTxnVerbose ⟨[.unspent], none, none, 1500003000, none, false⟩ = .ok ⟨true, false, none⟩ := by decide
example : verifyTxnVerbose ⟨[.unspent, .unknown], none, none, 1500003000, none, false⟩ = .ok ⟨false, false, some .other⟩ := by decide
example : PageIndex_Cal 2 10 25 = .ok (10, 20, 3) := by decide
example : PageIndex_Cal 3 10 25 = .ok (20, 25, 3) := by decide
example : PageIndex_Cal 4 10 25 = .ok (0, 0, 3) := by decide

end Sky.Props.C28
