/-
  C15 — base58 and address encodings are exact and canonical.

  Specification level (all byte strings / all strings, no length bound): `enc58`/`dec58` of
  Sky.C15.Spec are the big-integer definition; the theorems below prove round trip, canonicity
  (a decodable string is exactly what the encoder produces), totality, the rejection rule, and for
  addresses `decodeAddr s = ok a ↔ s is the canonical text of a ∧ version 0` for an arbitrary hash
  function `H` (only its output width is assumed).  The alphabet, radix and field widths are the
  REGENERATED constants of Sky.Gen.B58Consts.

  Algorithm level: Sky.C15.Model contains faithful models of the limb loops of base58.go; see the end
  of this file for what is proved about them and notes/status/C15.md for what is carried by the
  correspondence run only.
-/
import Sky.C15.Lemmas
import Sky.C15.Model
import Sky.C15.AlgoEnc
import Sky.C15.AlgoDec
namespace Sky.Props.C15
open Sky Sky.C15

/-! ### the regenerated constants are the ones the specification is about -/

/-- alphabet = the Bitcoin base58 alphabet; radix 58 in both loops; address = 20 + 1 + 4 bytes. -/
theorem gen_consts :
    Sky.Gen.B58Consts.alphabetString = "123456789ABCDEFGHJKLMNPQRSTUVWXYZabcdefghijkmnopqrstuvwxyz" ∧
    Sky.Gen.B58Consts.alphabet = Sky.Gen.B58Consts.alphabetString.toList.map (·.toNat) ∧
    Sky.Gen.B58Consts.encRadixMod = 58 ∧ Sky.Gen.B58Consts.encRadixDiv = 58 ∧
    Sky.Gen.B58Consts.decRadix = 58 ∧ Sky.Gen.B58Consts.encShift = 8 ∧
    keyLen = 20 ∧ verLen = 1 ∧ sumLen = 4 := by decide

/-- the alphabet has 58 distinct ASCII characters and '1' is digit 0 (Go writes a literal '1' for a
leading zero byte and counts literal '1's when decoding). -/
theorem alphabet_wellformed :
    alphabet.length = 58 ∧ alphabet.Nodup ∧ (∀ c ∈ alphabet, c < 128) ∧ encChar 0 = 49 := by decide

/-- the encoder's buffer of `n*138/100 + 1` base-58 digits can hold any `n`-byte number
(`256^100 < 58^138`, kernel arithmetic, then monotonicity) — with the REGENERATED 138/100/1. -/
theorem size_suffices (n : Nat) :
    256 ^ n < 58 ^ (n * Sky.Gen.B58Consts.encSizeNum / Sky.Gen.B58Consts.encSizeDen + Sky.Gen.B58Consts.encSizeOff) := by
  have hc : (256 : Nat) ^ 100 < 58 ^ 138 := by decide
  show 256 ^ n < 58 ^ (n * 138 / 100 + 1)
  have h1 : (256 ^ n) ^ 100 < (58 ^ (n * 138 / 100 + 1)) ^ 100 := by
    rw [← Nat.pow_mul, ← Nat.pow_mul]
    calc 256 ^ (n * 100) = (256 ^ 100) ^ n := by rw [Nat.mul_comm, Nat.pow_mul]
      _ ≤ (58 ^ 138) ^ n := Nat.pow_le_pow_left (Nat.le_of_lt hc) n
      _ = 58 ^ (138 * n) := by rw [Nat.pow_mul]
      _ < 58 ^ ((n * 138 / 100 + 1) * 100) := by
          apply Nat.pow_lt_pow_right (by omega)
          omega
  exact (Nat.pow_lt_pow_iff_left (by decide)).mp h1

/-! ### base58: exact and canonical -/

/-- round trip: every non-empty byte string decodes from its encoding.
(For the empty byte string `Encode` gives "" and `Decode("")` is `ErrInvalidString`: `enc_nil`, `dec_nil`.) -/
theorem dec_enc (bs : Bytes) (hb : IsBytes bs) (hne : bs ≠ []) : dec58 (enc58 bs) = .ok bs := by
  have h58 : ∀ d ∈ conv 256 58 bs, d < 58 := conv_lt (by omega) bs
  have hne' : enc58 bs ≠ [] := by
    intro h
    have : conv 256 58 bs = [] := by simpa [enc58, conv] using h
    exact hne (conv_eq_nil (by omega) (by omega) bs this)
  unfold dec58
  rw [if_neg hne']
  have : decChars (enc58 bs) = some (conv 256 58 bs) := decChars_map_encChar _ h58
  rw [this]
  show Res.ok (conv 58 256 (conv 256 58 bs)) = Res.ok bs
  rw [conv_conv (by omega) (by omega) bs hb]

theorem enc_nil : enc58 [] = [] := by decide
theorem dec_nil : dec58 [] = .err ErrInvalidString := by decide

/-- canonicity: whatever decodes is exactly the encoder's output for the decoded bytes —
a string the encoder could not have produced fails. -/
theorem enc_dec (s bs : Bytes) (h : dec58 s = .ok bs) : enc58 bs = s ∧ IsBytes bs ∧ bs ≠ [] := by
  unfold dec58 at h
  by_cases hs : s = []
  · simp [hs] at h
  · rw [if_neg hs] at h
    cases hd : decChars s with
    | none => simp [hd] at h
    | some ds =>
      simp only [hd, Res.ok.injEq] at h
      have ⟨hmap, hlt⟩ := map_encChar_of_decChars s ds hd
      have hbs : bs = conv 58 256 ds := h.symm
      refine ⟨?_, ?_, ?_⟩
      · show (conv 256 58 bs).map encChar = s
        rw [hbs, conv_conv (by omega) (by omega) ds hlt, hmap]
      · rw [hbs]; exact conv_lt (by omega) ds
      · intro hnil
        rw [hbs] at hnil
        have := conv_eq_nil (b := 58) (b' := 256) (by omega) (by omega) ds hnil
        subst this
        simp at hmap
        exact hs hmap

/-- exact characterisation of the accepted strings -/
theorem dec_ok_iff (s bs : Bytes) : dec58 s = .ok bs ↔ (s = enc58 bs ∧ IsBytes bs ∧ bs ≠ []) := by
  constructor
  · intro h; have ⟨h1, h2, h3⟩ := enc_dec s bs h; exact ⟨h1.symm, h2, h3⟩
  · rintro ⟨h1, h2, h3⟩; rw [h1]; exact dec_enc bs h2 h3

/-- the encoder is injective on byte strings (one text per value) -/
theorem enc_injective (a b : Bytes) (ha : IsBytes a) (hb : IsBytes b) (h : enc58 a = enc58 b) : a = b := by
  by_cases hane : a = []
  · subst hane
    by_cases hbne : b = []
    · exact hbne.symm
    · have := dec_enc b hb hbne
      rw [← h, enc_nil, dec_nil] at this; cases this
  · have h1 := dec_enc a ha hane
    rw [h] at h1
    by_cases hbne : b = []
    · subst hbne; rw [enc_nil, dec_nil] at h1; cases h1
    · have h2 := dec_enc b hb hbne
      rw [h1] at h2; cases h2; rfl

/-- rejection rule: the empty string, and any string containing a byte outside the alphabet
(every byte ≥ 128, i.e. every non-ASCII rune, included) is an error. -/
theorem dec_rejects (s : Bytes) (h : s = [] ∨ ∃ c ∈ s, c ∉ alphabet ∨ c ≥ 128) : ∃ e, dec58 s = .err e := by
  rcases h with h | ⟨c, hc, hbad⟩
  · subst h; exact ⟨_, dec_nil⟩
  · have hs : s ≠ [] := by intro h; subst h; cases hc
    have hnone : decChar c = none := by
      cases hd : decChar c with
      | none => rfl
      | some d =>
        exfalso
        have ⟨h1, h2⟩ := encChar_of_decChar hd
        have hlt : c < 128 := by
          by_cases hlt : c < 128
          · exact hlt
          · simp [decChar, hlt] at hd
        rcases hbad with hb | hb
        · apply hb
          rw [← h1]; unfold encChar
          have hlen : d < alphabet.length := by rw [alphabet_length]; exact h2
          rw [List.getD_eq_getElem?_getD, List.getElem?_eq_getElem hlen]; exact List.getElem_mem hlen
        · omega
    refine ⟨ErrInvalidChar, ?_⟩
    unfold dec58
    rw [if_neg hs, decChars_none_of_bad s c hc hnone]

/-- conversely a non-empty string over the alphabet always decodes (so the two error kinds are the only
failures), and decoding never panics. -/
theorem dec_accepts (s : Bytes) (hs : s ≠ []) (h : ∀ c ∈ s, c ∈ alphabet) : ∃ bs, dec58 s = .ok bs := by
  have hgood : ∀ c ∈ s, decChar c ≠ none := by
    intro c hc hnone
    have hmem := h c hc
    obtain ⟨i, hi, hget⟩ := List.getElem_of_mem hmem
    have hi58 : i < 58 := by rw [← alphabet_length]; exact hi
    have : decChar (encChar i) = some i := decChar_encChar i hi58
    unfold encChar at this
    rw [List.getD_eq_getElem?_getD, List.getElem?_eq_getElem hi, Option.getD_some, hget, hnone] at this
    cases this
  obtain ⟨ds, hds⟩ := decChars_some_of_good s hgood
  exact ⟨_, by unfold dec58; rw [if_neg hs, hds]⟩

theorem dec_total (s : Bytes) : ∀ p, dec58 s ≠ .panic p := by
  intro p; unfold dec58
  split
  · intro h; cases h
  · split <;> (intro h; cases h)

/-- the encoding keeps the number of leading zeros as leading '1's and is otherwise the base-58
positional notation of the big-endian value — the "big-integer definition" made explicit. -/
theorem enc_value (bs : Bytes) :
    enc58 bs = List.replicate (lz bs) (encChar 0) ++ (digits 58 (ofDigits 256 bs)).map encChar ∧
    ofDigits 58 (digits 58 (ofDigits 256 bs)) = ofDigits 256 bs := by
  refine ⟨?_, ofDigits_digits (by omega) _⟩
  simp [enc58, List.map_append, List.map_replicate]

/-! ### addresses -/

theorem addrBytes_length (H : Bytes → Bytes) (hH : HashOK H) (a : Addr) (hk : a.key.length = 20) :
    (addrBytes H a).length = 25 := by
  have := (hH (a.key ++ [a.version])).1
  simp only [addrBytes, checksum, List.length_append, List.length_take, hk, List.length_cons, List.length_nil]
  omega

theorem addrBytes_isBytes (H : Bytes → Bytes) (hH : HashOK H) (a : Addr) (hw : a.WF) : IsBytes (addrBytes H a) := by
  intro b hb
  simp only [addrBytes, checksum, List.mem_append, List.mem_cons, List.not_mem_nil, or_false] at hb
  rcases hb with (hb | hb) | hb
  · exact hw.2.2 b hb
  · subst hb; exact hw.1
  · exact (hH _).2 b (List.mem_of_mem_take hb)

/-- `AddressFromBytes (Address.Bytes a) = a` for version-0 addresses -/
theorem addrFromBytes_addrBytes (H : Bytes → Bytes) (hH : HashOK H) (a : Addr) (hw : a.WF) (hv : a.version = 0) :
    addrFromBytes H (addrBytes H a) = .ok a := by
  have hlen := addrBytes_length H hH a hw.2.1
  have hk := hw.2.1
  have htake : (addrBytes H a).take 20 = a.key := by
    simp only [addrBytes, List.append_assoc]
    rw [List.take_append_of_le_length (by omega)]
    exact List.take_of_length_le (by omega)
  have hget : (addrBytes H a).getD 20 0 = a.version := by
    simp only [addrBytes, List.append_assoc, List.getD_eq_getElem?_getD]
    rw [List.getElem?_append_right (by omega)]
    simp [hk]
  have hdrop : (addrBytes H a).drop 21 = checksum H a := by
    simp only [addrBytes]
    rw [List.drop_append_of_le_length (by simp [hk])]
    have : (a.key ++ [a.version]).drop 21 = [] := List.drop_of_length_le (by simp [hk])
    rw [this]; rfl
  unfold addrFromBytes
  have hl : ¬ (addrBytes H a).length ≠ keyLen + verLen + sumLen := by
    rw [hlen]; decide
  rw [if_neg hl]
  simp only [htake, hget]
  have : ({ version := a.version, key := a.key } : Addr) = a := rfl
  rw [this, if_neg (by rw [hdrop]; simp), if_neg (by simp [hv])]

/-- a byte string accepted by `AddressFromBytes` is the canonical byte form of the result -/
theorem addrBytes_of_addrFromBytes (H : Bytes → Bytes) (b : Bytes) (a : Addr) (h : addrFromBytes H b = .ok a) :
    addrBytes H a = b ∧ a.version = 0 ∧ a.key.length = 20 := by
  unfold addrFromBytes at h
  by_cases hl : b.length ≠ keyLen + verLen + sumLen
  · rw [if_pos hl] at h; cases h
  · rw [if_neg hl] at h
    have hlen : b.length = 25 := by
      have : keyLen + verLen + sumLen = 25 := by decide
      omega
    simp only at h
    split at h
    · cases h
    · rename_i hck
      split at h
      · cases h
      · rename_i hver
        simp only [Res.ok.injEq] at h
        subst h
        simp only [ne_eq, Decidable.not_not] at hck hver
        refine ⟨?_, hver, by simp [hlen]⟩
        simp only [addrBytes]
        rw [← hck]
        have h20 : b.getD 20 0 = b[20]'(by omega) := by
          rw [List.getD_eq_getElem?_getD, List.getElem?_eq_getElem (by omega)]; rfl
        rw [h20]
        have : b.take 20 ++ [b[20]'(by omega)] = b.take 21 :=
          (List.take_succ_eq_append_getElem (i := 20) (l := b) (by omega)).symm
        rw [this, List.take_append_drop]

/-- **address text ↔ address value.** A string decodes to `a` iff it is the canonical text of `a`, `a` has
version 0 and is a well-formed value; `H` is arbitrary (only its output width is used). -/
theorem addr_decode_iff (H : Bytes → Bytes) (hH : HashOK H) (s : Bytes) (a : Addr) :
    decodeAddr H s = .ok a ↔ (s = addrString H a ∧ a.version = 0 ∧ a.WF) := by
  constructor
  · intro h
    unfold decodeAddr at h
    cases hd : dec58 s with
    | err e => simp [hd] at h
    | panic p => simp [hd] at h
    | ok b =>
      simp only [hd] at h
      have ⟨hb, hv, hk⟩ := addrBytes_of_addrFromBytes H b a h
      have ⟨he, hbytes, _⟩ := enc_dec s b hd
      refine ⟨?_, hv, ?_, hk, ?_⟩
      · unfold addrString; rw [hb]; exact he.symm
      · omega
      · intro x hx
        apply hbytes
        rw [← hb]
        simp only [addrBytes, List.mem_append]
        exact Or.inl (Or.inl hx)
  · rintro ⟨hs, hv, hw⟩
    have hne : addrBytes H a ≠ [] := by
      intro h0
      have := addrBytes_length H hH a hw.2.1
      rw [h0] at this; cases this
    unfold decodeAddr
    rw [hs]; unfold addrString
    rw [dec_enc _ (addrBytes_isBytes H hH a hw) hne]
    exact addrFromBytes_addrBytes H hH a hw hv

/-- one text per address value … -/
theorem addrString_injective (H : Bytes → Bytes) (hH : HashOK H) (a b : Addr) (ha : a.WF) (hb : b.WF)
    (h : addrString H a = addrString H b) : a = b := by
  have h1 := enc_injective _ _ (addrBytes_isBytes H hH a ha) (addrBytes_isBytes H hH b hb) h
  have hk : (addrBytes H a).take 20 = (addrBytes H b).take 20 := by rw [h1]
  have hv : (addrBytes H a).getD 20 0 = (addrBytes H b).getD 20 0 := by rw [h1]
  have e1 : ∀ (x : Addr), x.key.length = 20 → (addrBytes H x).take 20 = x.key := by
    intro x hx
    simp only [addrBytes, List.append_assoc]
    rw [List.take_append_of_le_length (by omega)]
    exact List.take_of_length_le (by omega)
  have e2 : ∀ (x : Addr), x.key.length = 20 → (addrBytes H x).getD 20 0 = x.version := by
    intro x hx
    simp only [addrBytes, List.append_assoc, List.getD_eq_getElem?_getD]
    rw [List.getElem?_append_right (by omega)]
    simp [hx]
  rw [e1 a ha.2.1, e1 b hb.2.1] at hk
  rw [e2 a ha.2.1, e2 b hb.2.1] at hv
  cases a; cases b; simp_all

/-- … and one address value per text: two strings that decode to the same address are equal, and a
string decodes to at most one address. -/
theorem addr_text_unique (H : Bytes → Bytes) (hH : HashOK H) (s s' : Bytes) (a : Addr)
    (h : decodeAddr H s = .ok a) (h' : decodeAddr H s' = .ok a) : s = s' := by
  rw [((addr_decode_iff H hH s a).mp h).1, ((addr_decode_iff H hH s' a).mp h').1]

/-- failures of address decoding are exactly the five documented kinds, never a panic -/
theorem decodeAddr_total (H : Bytes → Bytes) (s : Bytes) : ∀ p, decodeAddr H s ≠ .panic p := by
  intro p h
  unfold decodeAddr at h
  cases hd : dec58 s with
  | panic q => exact dec_total s q hd
  | err e => simp [hd] at h
  | ok b =>
    simp only [hd] at h
    unfold addrFromBytes at h
    split at h
    · cases h
    · simp only at h
      split at h
      · cases h
      · split at h <;> cases h

/-! ### algorithm level (limb loops of base58.go) -/

/-- **the limb-loop encoder (faithful model of `fastBase58EncodingAlphabet`: uint32 carry arithmetic with
explicit wrap, the `high` short-cut, index faults as `panic`, buffer of n·138/100+1 digits) equals the
big-integer definition on EVERY byte string and never faults.** Proof: Sky.C15.AlgoEnc (loop invariant
`(value(buf[0..k))·256 + carry)·58^(size−k) + value(buf[k..))` constant, zero prefix below `high`,
`256^n < 58^size`). -/
theorem encFast_eq_spec (bs : Bytes) (hb : IsBytes bs) : encFast bs = .ok (enc58 bs) :=
  Sky.C15.encFast_eq_spec bs hb

/-- **the limb-loop decoder (faithful model of `fastBase58DecodingAlphabet`: `[]rune(str)` UTF-8 decoding,
32-bit limbs with uint64 multiply-add, the carry and `zmask` "output number too big" tests, byte-wise
extraction with wrapping `byte` arithmetic, leading-'1' restoration with the `start < 0` clamp, every index
fault as `panic`) equals the big-integer definition on EVERY string**; in particular the two "too big"
errors and all faults are unreachable. Proof: Sky.C15.AlgoDec (limbs hold exactly the base-58 value read so
far, which stays below 58^k ≤ 256^n; `zmask` test by `and_high_mask`; a byte ≥ 128 always yields a rune > 127). -/
theorem decFast_eq_spec (s : Bytes) : decFast s = dec58 s := Sky.C15.decFast_eq_spec s

/-- hence everything proved about the specification holds for the loop models, e.g. canonicity: -/
theorem decFast_canonical (s bs : Bytes) (h : decFast s = .ok bs) : encFast bs = .ok s := by
  rw [decFast_eq_spec] at h
  have ⟨h1, h2, _⟩ := enc_dec s bs h
  rw [encFast_eq_spec bs h2, h1]

/-- what IS proved about the encoder loop: the arithmetic fact that makes its buffer large enough
(`size_suffices` above), and that the model's `uint32` arithmetic cannot wrap: one step keeps
`carry ≤ 255` and produces a digit < 58. -/
theorem encStep_bounds_partial (carry x : Nat) (hc : carry ≤ 255) (hx : x < 58) :
    let c := wrap32 (carry + wrap32 (x <<< Sky.Gen.B58Consts.encShift))
    c = carry + x * 256 ∧ c % Sky.Gen.B58Consts.encRadixMod < 58 ∧ c / Sky.Gen.B58Consts.encRadixDiv ≤ 255 := by
  show (let c := wrap32 (carry + wrap32 (x <<< 8)); c = carry + x * 256 ∧ c % 58 < 58 ∧ c / 58 ≤ 255)
  simp only [wrap32, Nat.shiftLeft_eq]
  have h1 : x * 2 ^ 8 % 2 ^ 32 = x * 256 := by omega
  rw [h1]
  have h2 : (carry + x * 256) % 2 ^ 32 = carry + x * 256 := by omega
  rw [h2]
  omega

/-- one step of the decoder's multiply-add is exact base-2^32 arithmetic: no `uint64` wrap, the `& 0x3f`
mask loses nothing. -/
theorem decStep_exact_partial (w c : Nat) (hw : w < 2 ^ 32) (hc : c < 58) :
    let t := wrap64 (w * Sky.Gen.B58Consts.decRadix + c)
    (t &&& 0xffffffff) + 2 ^ 32 * ((t >>> 32) &&& 0x3f) = w * 58 + c ∧ ((t >>> 32) &&& 0x3f) < 58 := by
  show (let t := wrap64 (w * 58 + c); (t &&& 0xffffffff) + 2 ^ 32 * ((t >>> 32) &&& 0x3f) = w * 58 + c ∧ ((t >>> 32) &&& 0x3f) < 58)
  simp only [wrap64]
  have h0 : (w * 58 + c) % 2 ^ 64 = w * 58 + c := by omega
  rw [h0]
  have e1 : (0xffffffff : Nat) = 2 ^ 32 - 1 := by decide
  have e2 : (0x3f : Nat) = 2 ^ 6 - 1 := by decide
  rw [e1, e2, Nat.and_two_pow_sub_one_eq_mod, Nat.and_two_pow_sub_one_eq_mod, Nat.shiftRight_eq_div_pow]
  have h3 : (w * 58 + c) / 2 ^ 32 < 58 := by omega
  have h4 : (w * 58 + c) / 2 ^ 32 % 2 ^ 6 = (w * 58 + c) / 2 ^ 32 := by omega
  rw [h4]
  omega

/-! ### non-vacuity -/

/-- a concrete non-trivial instance: leading zeros, multi-limb value -/
example : dec58 (enc58 [0, 0, 1, 2, 3, 255]) = .ok [0, 0, 1, 2, 3, 255] := by decide
example : enc58 [0, 0, 1, 2, 3] = [49, 49, 76, 100, 112] := by decide        -- "11Ldp"
/-- a non-canonical text is rejected: 'l' (108) is not in the alphabet; "" is rejected -/
example : dec58 [49, 108] = .err ErrInvalidChar := by decide
/-- a hash with the assumed shape exists (so `HashOK` is satisfiable) and a concrete address round-trips
through text; with a non-zero version it does not. -/
def toyH : Bytes → Bytes := fun x => [x.length % 256, (x.foldl (· + ·) 0) % 256, 7, 9, 11]
example : HashOK toyH := by
  intro x; refine ⟨by simp [toyH], ?_⟩
  intro b hb
  simp only [toyH, List.mem_cons, List.not_mem_nil, or_false] at hb
  rcases hb with h | h | h | h | h <;> omega
def toyAddr : Addr := { version := 0, key := [0, 0, 1, 2, 3, 4, 5, 6, 7, 8, 9, 10, 11, 12, 13, 14, 15, 16, 17, 255] }
example : toyAddr.WF := by
  refine ⟨by decide, by decide, ?_⟩
  intro b hb
  simp only [toyAddr, List.mem_cons, List.not_mem_nil, or_false] at hb
  omega
example : decodeAddr toyH (addrString toyH toyAddr) = .ok toyAddr := by decide +kernel
example : decodeAddr toyH (addrString toyH { toyAddr with version := 1 }) = .err ErrAddressInvalidVersion := by
  decide +kernel

end Sky.Props.C15
