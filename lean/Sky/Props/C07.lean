/-
  C07 — derived indexes and query views agree with the chain.
  Proved here (both configurations, all histories): the unspent-set checksum is exactly the
  xor of the snapshot hashes of the unspent outputs; the address-index height and the history's parsed
  sequence always equal the head sequence (so the start-up rebuilds are no-ops); pool operations never
  touch any derived structure; the per-address unspent index (unspent_pool_addr_index, poolAddrIndex.adjust
  in two passes) lists for every address exactly the ids of that address's unspent outputs after every
  history, so an address-indexed lookup returns the same outputs as a scan of the unspent set.
  The history buckets, balances and block queries are carried by the correspondence: the harness dumps every one of these views from the real node after
  EVERY op and the driver recomputes them from the model (lean/Sky/Ledger/Drv.lean `digest`).
-/
import Sky.Ledger.Run
import Sky.Ledger.Xor
import Sky.Ledger.AddrIndex
import Sky.Ledger.Replay
import Sky.Ledger.Progress
namespace Sky.Props.C07
open Sky Sky.Ledger

theorem parseBlock_parsed {s s' : State} {b : Block} (h : parseBlock s b = .ok s') : s'.hparsed = some b.seq := by
  unfold parseBlock at h
  simp only [bind, Except.bind] at h
  split at h
  · cases h
  · cases h; rfl

/-- after an accepted block the index height and the parsed-history sequence are the block's seq -/
theorem exec_markers {s s' : State} {b : Block} (h : execSigned s b = .ok s') :
    s'.aih = some b.seq ∧ s'.hparsed = some b.seq := by
  have h' := h
  obtain ⟨_, _, _, s1, hs1, _, _, _, _, _, haih, _⟩ := execSigned_ok h
  obtain ⟨_, _, _, _, _, _, h7, _⟩ := unspentProcessBlock_ok hs1
  constructor
  · rw [haih, h7]
  · unfold execSigned at h'
    simp only [bind, Except.bind] at h'
    split at h'
    · cases h'
    · split at h'
      · cases h'
      · split at h'
        · cases h'
        · split at h'
          · cases h'
          · split at h'
            · cases h'
            · exact parseBlock_parsed h'

/-- state predicate: checksum exact, markers current -/
def Derived (s : State) : Prop :=
  s.xor = xorOf s.unspent ∧ s.aih = some (headSeq s) ∧ s.hparsed = some (headSeq s)

theorem headSeq_append (l : List Block) (b : Block) (s : State) (h : s.chain = l ++ [b]) : headSeq s = b.seq := by
  unfold headSeq; rw [h]; simp

/-- after EVERY history: the stored checksum equals the xor over the current unspent set (the value
block headers must carry), and both rebuild markers equal the head sequence -/
theorem derived_after_run {G : Nat} {g : Block} {cfg : Cfg} (s0 : State)
    (ops : List Op) (h0 : Good G g cfg s0) (hd : Derived s0)
    (hwf : ∀ op ∈ ops, OpOK op) : Derived (run s0 ops) := by
  have := run_induction (fun st => Good G g cfg st ∧ Derived st) ops OpOK
    (by
      intro s s' hs ⟨hg, hdv⟩
      have hs' := hs
      obtain ⟨a1, a2, a3, a4, _, a6, a7, _⟩ := hs
      refine ⟨?_, ?_⟩
      · obtain ⟨h1, h2, h3, h4⟩ := hg
        exact ⟨by rw [a2]; exact h1, by rw [a4]; exact h2, by unfold Ledger.Inv; rw [a1]; exact ⟨h3, h4⟩⟩
      · obtain ⟨d1, d2, d3⟩ := hdv
        unfold Derived headSeq at *
        rw [a1, a2, a3, a6, a7]; exact ⟨d1, d2, d3⟩)
    (by
      intro s s' b ⟨hg, hdv⟩ hq he
      obtain ⟨h1, h2, h3⟩ := hg
      obtain ⟨c1, c2⟩ := exec_chain he
      refine ⟨⟨?_, by rw [c2]; exact h2, exec_preserves_inv hq.2 h1 h3 hq.1 he⟩, ?_⟩
      · rw [c1]
        cases hc : s.chain with
        | nil => rw [hc] at h1; cases h1
        | cons a l => rw [hc] at h1; simpa using h1
      · obtain ⟨m1, m2⟩ := exec_markers he
        have hs := headSeq_append _ _ s' c1
        exact ⟨exec_preserves_xor hq.2 h1 h3 hdv.1 hq.1 he, by rw [m1, hs], by rw [m2, hs]⟩)
    s0 ⟨h0, hd⟩ hwf
  exact this.2

/-- pool operations (inject, refresh, invalid-removal, restart) never change chain, unspent set,
checksum, indexes or history -/
theorem pool_ops_keep_derived (s : State) (op : Op) (h : ∀ b, op ≠ .exec b) : SameLedger s (applyOp s op) := by
  rcases applyOp_same_or_exec s op with hs | ⟨b, hb, _⟩
  · exact hs
  · exact absurd hb (h b)

/-- after EVERY history the per-address index is exact: `id` is listed under address `a` iff some
unspent output with that id belongs to `a` -/
theorem addr_index_exact_after_run {G : Nat} {g : Block} {cfg : Cfg} (s0 : State) (ops : List Op)
    (h0 : Good G g cfg s0) (hai : AidxOK s0) (hwf : ∀ op ∈ ops, OpOK op) (a : Addr) (id : Id) :
    id ∈ aidxGet (run s0 ops).aidx a ↔ ∃ u ∈ (run s0 ops).unspent, u.addr = a ∧ u.id = id := by
  rw [aidx_after_run s0 ops h0 hai hwf a id]
  exact mem_idsOfAddr

/-- one executed block keeps the index exact (the step lemma, stated on its own) -/
theorem addr_index_step {s s' : State} {b : Block} (hnd : (s.unspent.map (·.id)).Nodup)
    (hai : AidxOK s) (h : execSigned s b = .ok s') : AidxOK s' := exec_preserves_aidx hnd hai h

/-- the empty index over the empty unspent set is exact (the state a fresh database starts from) -/
example (s : State) (h1 : s.aidx = []) (h2 : s.unspent = []) : AidxOK s := by
  intro a id; rw [h1, h2]; simp [aidxGet, idsOfAddr]

/-- **rebuild**: after EVERY history from the empty database (the first accepted block is the genesis
block), replaying the stored blocks from an empty database — `Unspents.ProcessBlock` then
`HistoryDB.ParseBlock` per block, what the start-up rebuilds do — succeeds and yields exactly the unspent set,
checksum, address index and height, and the complete history (outputs with their spenders, transaction →
block, address → outputs, address → transactions) the node holds -/
theorem rebuild_from_blocks_same (cfg : Cfg) (ops : List Op) :
    ∃ d, replayFrom (emptyDb cfg) (run (emptyDb cfg) ops).chain = .ok d ∧ DerivedEq d (run (emptyDb cfg) ops) := by
  have h := replayed_after_run (emptyDb cfg) ops (replayed_empty cfg)
  have hcfg : (run (emptyDb cfg) ops).cfg = cfg := by
    have := run_induction (fun s => s.cfg = cfg) ops (fun _ => True)
      (by intro s s' hs h; rw [hs.2.2.2.1]; exact h)
      (by intro s s' b h _ he; rw [(exec_chain he).2]; exact h)
      (emptyDb cfg) rfl (by intro _ _; trivial)
    exact this
  unfold Replayed at h
  rw [hcfg] at h
  revert h
  cases replayFrom (emptyDb cfg) (run (emptyDb cfg) ops).chain with
  | error e => intro h; exact h.elim
  | ok d => intro h; exact ⟨d, rfl, h⟩

/-- the same from any state whose data already equal the replay of its chain -/
theorem rebuild_same_after_run (s0 : State) (ops : List Op) (h0 : Replayed s0) : Replayed (run s0 ops) :=
  replayed_after_run s0 ops h0

/-- after EVERY history: unspent ids are unique, the per-address index is exact and duplicate-free, the history
has a record for every unspent output, and the index height is the head sequence — the invariants under which no
storage step of block execution can fail (`Sky.Ledger.execSigned_succeeds`) -/
theorem storage_invariants_after_run {G : Nat} {g : Block} {cfg : Cfg} (s0 : State) (ops : List Op)
    (h0 : Good G g cfg s0) (hst : Strong s0) (hwf : ∀ op ∈ ops, OpOK op) : Strong (run s0 ops) :=
  strong_after_run s0 ops h0 hst hwf

/-- the state right after genesis (one output, one index row) is exact — the hypothesis of
`addr_index_exact_after_run` is met by the state every node starts from -/
example (s : State) (u : Ux) (h1 : s.aidx = [(u.addr, [u.id])]) (h2 : s.unspent = [u]) : AidxOK s := by
  intro a id; rw [h1, h2]
  by_cases h : u.addr = a
  · simp [aidxGet, idsOfAddr, h]
  · simp [aidxGet, idsOfAddr, h]

end Sky.Props.C07
