/-
  C13 — wallet signing signs exactly the requested inputs.
  Theorems about the model lean/Sky/C13/Model.lean of wallet.SignTransaction (tied to the real
  function on real wallets by harness/c13).  The signature scheme is idealised: a produced
  signature is the term `made key inner uxid`; that it verifies for the address of `key` is the
  explicit hypothesis `SigScheme` of `sigs_verify`, never an axiom.
-/
import Sky.C13.Model
namespace Sky.Props.C13
open Sky Sky.C13

/-! ### helper lemmas -/

theorem pickRequested_ok (sigs : List Sig) : ∀ (l S : List Nat), pickRequested sigs l = .ok S →
    S = l ∧ ∀ i ∈ l, sigs[i]? = some .null := by
  intro l
  induction l with
  | nil => intro S h; simp [pickRequested] at h; simp [h]
  | cons i r ih =>
    intro S h
    unfold pickRequested at h
    cases hs : sigs[i]? with
    | none => simp [hs] at h
    | some s =>
      simp only [hs] at h
      split at h; · cases h
      rename_i hn
      cases hr : pickRequested sigs r with
      | ok l' =>
        simp only [hr] at h
        injection h with h
        obtain ⟨e1, e2⟩ := ih l' hr
        refine ⟨by rw [← h, e1], ?_⟩
        intro j hj
        rcases List.mem_cons.mp hj with e | e
        · subst e; rw [hs]; cases s <;> simp_all [isNull]
        · exact e2 j e
      | err e => simp [hr] at h
      | panic p => simp [hr] at h

theorem pickMissing_ok (sigs : List Sig) : ∀ (l S : List Nat), pickMissing sigs l = .ok S →
    S = l.filter (fun i => sigs[i]? = some .null) ∧ ∀ i ∈ l, i < sigs.length := by
  intro l
  induction l with
  | nil => intro S h; simp [pickMissing] at h; simp [h]
  | cons i r ih =>
    intro S h
    unfold pickMissing at h
    cases hs : sigs[i]? with
    | none => simp [hs] at h
    | some s =>
      simp only [hs] at h
      cases hr : pickMissing sigs r with
      | ok l' =>
        simp only [hr] at h
        injection h with h
        obtain ⟨e1, e2⟩ := ih l' hr
        have hi : i < sigs.length := by
          have := List.getElem?_eq_some_iff.mp hs; exact this.1
        refine ⟨?_, ?_⟩
        · rw [← h, e1]
          cases s <;> simp [isNull, List.filter_cons, hs]
        · intro j hj
          rcases List.mem_cons.mp hj with e | e
          · subst e; exact hi
          · exact e2 j e
      | err e => simp [hr] at h
      | panic p => simp [hr] at h

theorem mapM_keys (f : Nat → Option (Nat × Nat)) (hf : ∀ i p, f i = some p → p.1 = i) :
    ∀ (S : List Nat) (keys : List (Nat × Nat)), S.mapM f = some keys →
      keys.map Prod.fst = S ∧ ∀ p ∈ keys, f p.1 = some p := by
  intro S
  induction S with
  | nil => intro keys h; simp at h; subst h; simp
  | cons i r ih =>
    intro keys h
    simp only [List.mapM_cons] at h
    cases hi : f i with
    | none => simp [hi] at h
    | some p =>
      cases hr : r.mapM f with
      | none => simp [hi, hr] at h
      | some ks =>
        simp [hi, hr] at h
        subst h
        obtain ⟨e1, e2⟩ := ih ks hr
        have := hf i p hi
        refine ⟨by simp [e1, this], ?_⟩
        intro q hq
        rcases List.mem_cons.mp hq with e | e
        · subst e; rw [this]; exact hi
        · exact e2 q e

/-- signing a list of distinct in-range indexes: exactly those positions change -/
theorem signAll_spec (t : STxn) : ∀ (keys : List (Nat × Nat)) (sg : List Sig),
    (keys.map Prod.fst).Nodup →
    let r := keys.foldl (fun sg (ik : Nat × Nat) => setSig sg ik.1 (.made ik.2 t.inner (t.ins.getD ik.1 0))) sg
    r.length = sg.length ∧
    (∀ j, j ∉ keys.map Prod.fst → r[j]? = sg[j]?) ∧
    (∀ p ∈ keys, p.1 < sg.length → r[p.1]? = some (.made p.2 t.inner (t.ins.getD p.1 0))) := by
  intro keys
  induction keys with
  | nil => intro sg _; simp
  | cons p ks ih =>
    intro sg hnd
    simp only [List.map_cons, List.nodup_cons] at hnd
    simp only [List.foldl_cons]
    obtain ⟨i1, i2, i3⟩ := ih (setSig sg p.1 (.made p.2 t.inner (t.ins.getD p.1 0))) hnd.2
    refine ⟨by rw [i1]; simp [setSig], ?_, ?_⟩
    · intro j hj
      simp only [List.map_cons, List.mem_cons, not_or] at hj
      rw [i2 j hj.2]
      simp [setSig, List.getElem?_set, Ne.symm hj.1]
    · intro q hq hlt
      rcases List.mem_cons.mp hq with e | e
      · subst e
        rw [i2 q.1 hnd.1]
        simp [setSig, List.getElem?_set, hlt]
      · exact i3 q e (by simpa [setSig] using hlt)

/-- everything a successful `signTxn` establishes -/
theorem signTxn_ok {w : W} {t t' : STxn} {idx : List Int} {ux : List Nat}
    (h : signTxn w t idx ux = .ok t') :
    w.typ ≠ "xpub" ∧ w.encrypted = false ∧
    t'.ins = t.ins ∧ t'.outs = t.outs ∧ t'.inner = t.inner ∧ t'.sigs.length = t.sigs.length ∧
    ∃ S : List Nat,
      ((idx ≠ [] ∧ S = idx.map Int.toNat) ∨
       (idx = [] ∧ S = (List.range ux.length).filter (fun i => t.sigs[i]? = some .null))) ∧
      S.Nodup ∧ (∀ i ∈ S, t.sigs[i]? = some .null) ∧
      (∀ j, j ∉ S → t'.sigs[j]? = t.sigs[j]?) ∧
      (∀ i ∈ S, ∃ k, keyFor w.entries (ux.getD i 0) = some k ∧ k ≠ 0 ∧
          t'.sigs[i]? = some (.made k t.inner (t.ins.getD i 0))) := by
  unfold signTxn at h
  by_cases hx : w.typ = "xpub"
  · rw [if_pos hx] at h; cases h
  rw [if_neg hx] at h
  by_cases he : w.encrypted = true
  · rw [if_pos he] at h; cases h
  rw [if_neg he] at h
  by_cases c3 : ¬ t.innerOK = true
  · rw [if_pos c3] at h; cases h
  rw [if_neg c3] at h
  by_cases c4 : t.sigs.length = 0
  · rw [if_pos c4] at h; cases h
  rw [if_neg c4] at h
  by_cases c5 : fullySigned t.sigs = true
  · rw [if_pos c5] at h; cases h
  rw [if_neg c5] at h
  by_cases c6 : t.ins.length = 0
  · rw [if_pos c6] at h; cases h
  rw [if_neg c6] at h
  by_cases hlen : ux.length ≠ t.ins.length
  · rw [if_pos hlen] at h; cases h
  rw [if_neg hlen] at h
  cases hval : validateIdx idx ux.length with
  | some e => simp [hval] at h
  | none =>
  simp only [hval] at h
  -- which indexes
  generalize hp : (if idx ≠ [] then pickRequested t.sigs (idx.map Int.toNat)
      else pickMissing t.sigs (List.range ux.length)) = pick at h
  cases pick with
  | err e => simp at h
  | panic p => simp at h
  | ok S =>
    simp only at h
    split at h; · cases h
    rename_i keys hkeys
    split at h; · cases h
    split at h; · cases h
    rename_i hnz
    -- S and its properties
    have hS : ((idx ≠ [] ∧ S = idx.map Int.toNat) ∨
        (idx = [] ∧ S = (List.range ux.length).filter (fun i => t.sigs[i]? = some .null))) ∧
        S.Nodup ∧ (∀ i ∈ S, t.sigs[i]? = some .null) := by
      by_cases hi : idx ≠ []
      · rw [if_pos hi] at hp
        obtain ⟨e1, e2⟩ := pickRequested_ok _ _ _ hp
        refine ⟨Or.inl ⟨hi, e1⟩, ?_, by rw [e1]; exact e2⟩
        -- distinct non-negative indexes stay distinct as naturals
        unfold validateIdx at hval
        split at hval; · cases hval
        split at hval; · cases hval
        rename_i hrange
        split at hval; · cases hval
        rename_i hnd
        have hnd : idx.Nodup := Decidable.of_not_not hnd
        have hnn : ∀ i ∈ idx, 0 ≤ i := by
          intro i hi'
          simp only [List.any_eq_true, not_exists, not_and, decide_eq_true_eq, not_or] at hrange
          have := hrange i hi'; omega
        rw [e1]
        unfold List.Nodup at hnd ⊢
        rw [List.pairwise_map]
        refine List.Pairwise.imp_of_mem ?_ hnd
        intro a b ha hb hab heq
        have := hnn a ha; have := hnn b hb
        apply hab; omega
      · rw [if_neg hi] at hp
        have hi : idx = [] := Decidable.of_not_not hi
        obtain ⟨e1, _⟩ := pickMissing_ok _ _ _ hp
        refine ⟨Or.inr ⟨hi, e1⟩, by rw [e1]; exact (List.nodup_range).filter _, ?_⟩
        intro i hi'; rw [e1] at hi'; simpa using (List.mem_filter.mp hi').2
    obtain ⟨hS1, hS2, hS3⟩ := hS
    have kp : ∀ i p, keyPair w.entries ux i = some p → p.1 = i ∧ keyFor w.entries (ux.getD i 0) = some p.2 := by
      intro i p hp'
      unfold keyPair at hp'
      cases hk : keyFor w.entries (ux.getD i 0) with
      | none => rw [hk] at hp'; cases hp'
      | some k => rw [hk] at hp'; injection hp' with hp'; subst hp'; exact ⟨rfl, rfl⟩
    obtain ⟨k1, k2⟩ := mapM_keys (keyPair w.entries ux) (fun i p hp' => (kp i p hp').1) S keys hkeys
    obtain ⟨s1, s2, s3⟩ := signAll_spec t keys t.sigs (by rw [k1]; exact hS2)
    have hres : t' = { t with sigs := signAll t keys } := by
      split at h
      · split at h
        · injection h with h; exact h.symm
        · cases h
      · split at h
        · cases h
        · injection h with h; exact h.symm
    subst hres
    refine ⟨hx, by simpa using he, rfl, rfl, rfl, s1, S, hS1, hS2, hS3, ?_, ?_⟩
    · intro j hj; exact s2 j (by rw [k1]; exact hj)
    · intro i hi
      have : i ∈ keys.map Prod.fst := by rw [k1]; exact hi
      obtain ⟨p, hp1, hp2⟩ := List.mem_map.mp this
      obtain ⟨_, hf⟩ := kp p.1 p (k2 p hp1)
      rw [hp2] at hf
      have hlt : i < t.sigs.length := (List.getElem?_eq_some_iff.mp (hS3 i hi)).1
      refine ⟨p.2, hf, ?_, ?_⟩
      · intro hz
        apply hnz
        simp only [List.any_eq_true, decide_eq_true_eq]
        exact ⟨p, hp1, hz⟩
      · have := s3 p hp1 (by rw [hp2]; exact hlt)
        rw [hp2] at this
        exact this

/-! ### the property -/

/-- the set of inputs a call is asked to sign: the named indexes, or every unsigned input -/
def targets (t : STxn) (idx : List Int) (n : Nat) : List Nat :=
  if idx ≠ [] then idx.map Int.toNat else (List.range n).filter (fun i => t.sigs[i]? = some .null)

/-- **signed_set_exact**: the signatures that differ between the result and the argument are
exactly the requested inputs (or, if none are named, all unsigned inputs) -/
theorem signed_set_exact {w : W} {t t' : STxn} {idx : List Int} {ux : List Nat}
    (h : signTxn w t idx ux = .ok t') (i : Nat) :
    t'.sigs[i]? ≠ t.sigs[i]? ↔ i ∈ targets t idx ux.length := by
  obtain ⟨_, _, _, _, _, _, S, hS, _, hnull, hkeep, hnew⟩ := signTxn_ok h
  have hT : targets t idx ux.length = S := by
    unfold targets
    rcases hS with ⟨a, b⟩ | ⟨a, b⟩
    · rw [if_pos a, b]
    · rw [if_neg (by simp [a]), b]
  rw [hT]
  constructor
  · intro hne
    exact Decidable.by_contra (fun hni => hne (hkeep i hni))
  · intro hi
    obtain ⟨k, _, _, hk⟩ := hnew i hi
    rw [hk, hnull i hi]
    simp

/-- **signed_preserves**: inputs, outputs and inner hash are unchanged, and so is every signature
outside the requested set -/
theorem signed_preserves {w : W} {t t' : STxn} {idx : List Int} {ux : List Nat}
    (h : signTxn w t idx ux = .ok t') :
    t'.ins = t.ins ∧ t'.outs = t.outs ∧ t'.inner = t.inner ∧ t'.sigs.length = t.sigs.length ∧
    ∀ i, i ∉ targets t idx ux.length → t'.sigs[i]? = t.sigs[i]? := by
  obtain ⟨_, _, a, b, c, d, _⟩ := signTxn_ok h
  exact ⟨a, b, c, d, fun i hi => Decidable.by_contra (fun hne => hi ((signed_set_exact h i).mp hne))⟩

/-- **no_overwrite**: every input that gets signed was unsigned; in particular naming an already
signed input is an error -/
theorem no_overwrite {w : W} {t : STxn} {idx : List Int} {ux : List Nat} (i : Int)
    (hi : i ∈ idx) (s : Sig) (hs : t.sigs[i.toNat]? = some s) (hnn : s ≠ .null) :
    ∀ t', signTxn w t idx ux ≠ .ok t' := by
  intro t' h
  obtain ⟨_, _, _, _, _, _, S, hS, _, hnull, _⟩ := signTxn_ok h
  rcases hS with ⟨_, b⟩ | ⟨a, _⟩
  · have : i.toNat ∈ S := by rw [b]; exact List.mem_map.mpr ⟨i, hi, rfl⟩
    have := hnull _ this
    rw [hs] at this; injection this with this; exact hnn this
  · subst a; cases hi

/-- **resubmit_refused**: handing the result of a successful request back with the SAME non-empty index
list is an error, never a further signing (in particular a list that names only already-signed
inputs is not reinterpreted as "sign everything"; Visor.WalletSignTransaction passes the list on
unchanged) -/
theorem resubmit_refused {w : W} {t t' : STxn} {idx : List Int} {ux : List Nat}
    (h : signTxn w t idx ux = .ok t') (hne : idx ≠ []) : ∀ t'', signTxn w t' idx ux ≠ .ok t'' := by
  obtain ⟨_, _, _, _, _, _, S, hS, _, _, _, hnew⟩ := signTxn_ok h
  rcases hS with ⟨_, b⟩ | ⟨a, _⟩
  · cases idx with
    | nil => exact absurd rfl hne
    | cons i r =>
      have hi : i.toNat ∈ S := by rw [b]; simp
      obtain ⟨k, _, _, hk⟩ := hnew _ hi
      exact no_overwrite i (by simp) _ hk (by simp)
  · exact absurd a hne

/-- the signature scheme: a signature made with key `k` over `(inner, uxid)` verifies for the
address of `k` -/
def SigScheme (addrOf : Nat → Nat) (verify : Nat → Sig → Nat → Nat → Bool) : Prop :=
  ∀ k inner uxid, k ≠ 0 → verify (addrOf k) (.made k inner uxid) inner uxid = true

/-- **sigs_verify**: in a wallet whose entries are consistent (`addr = addrOf sec`), every produced
signature verifies against the address of the output being spent, for the hash of (inner hash, uxid) -/
theorem sigs_verify (addrOf : Nat → Nat) (verify : Nat → Sig → Nat → Nat → Bool)
    (hsch : SigScheme addrOf verify)
    {w : W} (hcons : ∀ e ∈ w.entries, e.sec ≠ 0 → e.addr = addrOf e.sec)
    {t t' : STxn} {idx : List Int} {ux : List Nat} (h : signTxn w t idx ux = .ok t')
    (i : Nat) (hi : i ∈ targets t idx ux.length) :
    ∃ s, t'.sigs[i]? = some s ∧ verify (ux.getD i 0) s t.inner (t.ins.getD i 0) = true := by
  obtain ⟨_, _, _, _, _, _, S, hS, _, _, _, hnew⟩ := signTxn_ok h
  have hT : targets t idx ux.length = S := by
    unfold targets
    rcases hS with ⟨a, b⟩ | ⟨a, b⟩
    · rw [if_pos a, b]
    · rw [if_neg (by simp [a]), b]
  rw [hT] at hi
  obtain ⟨k, hk, hk0, hsig⟩ := hnew i hi
  refine ⟨_, hsig, ?_⟩
  -- the key belongs to an entry with exactly that address
  unfold keyFor at hk
  cases hf : w.entries.find? (·.addr = ux.getD i 0) with
  | none => rw [hf] at hk; cases hk
  | some e =>
    rw [hf] at hk
    have hk : e.sec = k := by simpa using hk
    have hmem := List.mem_of_find?_eq_some hf
    have haddr : e.addr = ux.getD i 0 := by simpa using List.find?_some hf
    rw [← haddr, hcons e hmem (by rw [hk]; exact hk0), hk]
    exact hsch k _ _ hk0

/-- **cant_sign**: a watch-only (xpub) or encrypted wallet never signs; neither does a wallet that
lacks the key of a requested input -/
theorem cant_sign (w : W) (t : STxn) (idx : List Int) (ux : List Nat) :
    (w.typ = "xpub" → signTxn w t idx ux = .err (user "ErrWalletCantSign")) ∧
    (w.typ ≠ "xpub" → w.encrypted = true → signTxn w t idx ux = .err (user "ErrWalletEncrypted")) ∧
    (∀ t', signTxn w t idx ux = .ok t' →
        ∀ i ∈ targets t idx ux.length, ∃ k, keyFor w.entries (ux.getD i 0) = some k ∧ k ≠ 0) := by
  refine ⟨?_, ?_, ?_⟩
  · intro hx; unfold signTxn; rw [if_pos hx]
  · intro hx he; unfold signTxn; rw [if_neg hx, if_pos he]
  · intro t' h i hi
    obtain ⟨_, _, _, _, _, _, S, hS, _, _, _, hnew⟩ := signTxn_ok h
    have hT : targets t idx ux.length = S := by
      unfold targets
      rcases hS with ⟨a, b⟩ | ⟨a, b⟩
      · rw [if_pos a, b]
      · rw [if_neg (by simp [a]), b]
    rw [hT] at hi
    obtain ⟨k, hk, hk0, _⟩ := hnew i hi
    exact ⟨k, hk, hk0⟩

/-- **created_sigs_verify**: in a transaction created AND signed by the wallet
(`CreateTransactionSigned`), every input's signature verifies against the address of the output
that input spends, over (inner hash, uxid) — whatever the order in which the chosen inputs
revisit the wallet's addresses -/
theorem keyFor_sec_zero (entries : List Entry) (hw : ∀ e ∈ entries, e.sec = 0) (a k : Nat)
    (h : keyFor entries a = some k) : k = 0 := by
  unfold keyFor at h
  cases hf : entries.find? (·.addr = a) with
  | none => simp [hf] at h
  | some e =>
    simp [hf] at h
    rw [← h]
    exact hw e (List.mem_of_find?_eq_some hf)

/-- **created_never_panics**: the signing loop of `CreateTransactionSigned` signs or refuses; a wallet entry without a
secret key (watch-only / xpub wallets) is an ERROR, never a panic -/
theorem created_never_panics (entries : List Entry) (inner : Nat) :
    ∀ (ins : List (Nat × Nat)) (t : String), signCreated entries inner ins ≠ .panic t := by
  intro ins
  induction ins with
  | nil => intro t h; simp [signCreated] at h
  | cons x r ih =>
    intro t h
    obtain ⟨u, a⟩ := x
    unfold signCreated at h
    split at h
    · cases h
    · split at h
      · cases h
      · split at h
        · cases h
        · rename_i e he
          rw [h] at he
          exact ih t (by assumption) |> fun f => f

/-- a watch-only wallet (every entry without secret key) is refused as soon as one input is owned by it -/
theorem created_watch_only_refused (entries : List Entry) (hw : ∀ e ∈ entries, e.sec = 0) (inner u a : Nat)
    (r : List (Nat × Nat)) : ∃ e, signCreated entries inner ((u, a) :: r) = .err e := by
  unfold signCreated
  cases hk : keyFor entries a with
  | none => exact ⟨_, rfl⟩
  | some k =>
    have : k = 0 := keyFor_sec_zero entries hw a k hk
    subst this
    exact ⟨internal "invalid secret key", by simp⟩

theorem created_sigs_verify (addrOf : Nat → Nat) (verify : Nat → Sig → Nat → Nat → Bool)
    (hsch : SigScheme addrOf verify)
    (entries : List Entry) (hcons : ∀ e ∈ entries, e.sec ≠ 0 → e.addr = addrOf e.sec) (inner : Nat) :
    ∀ (ins : List (Nat × Nat)) (sigs : List Sig), signCreated entries inner ins = .ok sigs →
      sigs.length = ins.length ∧
      ∀ i (h : i < ins.length), ∃ s, sigs[i]? = some s ∧ verify (ins[i]).2 s inner (ins[i]).1 = true := by
  intro ins
  induction ins with
  | nil => intro sigs h; simp [signCreated] at h; subst h; exact ⟨rfl, fun i hi => absurd hi (by simp)⟩
  | cons p r ih =>
    intro sigs h
    obtain ⟨u, a⟩ := p
    unfold signCreated at h
    cases hk : keyFor entries a with
    | none => simp [hk] at h
    | some k =>
      simp only [hk] at h
      split at h; · cases h
      rename_i hk0
      cases hr : signCreated entries inner r with
      | err e => simp [hr] at h
      | panic x => simp [hr] at h
      | ok l =>
        simp only [hr] at h
        injection h with h; subst h
        obtain ⟨l1, l2⟩ := ih l hr
        refine ⟨by simp [l1], ?_⟩
        intro i hi
        cases i with
        | zero =>
          refine ⟨_, rfl, ?_⟩
          -- the key is the key of the entry with exactly this address
          unfold keyFor at hk
          cases hf : entries.find? (·.addr = a) with
          | none => rw [hf] at hk; cases hk
          | some e =>
            rw [hf] at hk
            have hke : e.sec = k := by simpa using hk
            have hmem := List.mem_of_find?_eq_some hf
            have haddr : e.addr = a := by simpa using List.find?_some hf
            show verify a (.made k inner u) inner u = true
            rw [← haddr, hcons e hmem (by rw [hke]; exact hk0), hke]
            exact hsch k _ _ hk0
        | succ j =>
          obtain ⟨s, hs1, hs2⟩ := l2 j (by simpa using hi)
          exact ⟨s, by simpa using hs1, by simpa using hs2⟩

example : signCreated [⟨11, 1⟩, ⟨12, 2⟩] 7 [(101, 11), (102, 12), (103, 11)] =
    .ok [.made 1 7 101, .made 2 7 102, .made 1 7 103] := by decide

/-! ### non-vacuity -/

def exW : W := ⟨"deterministic", false, [⟨11, 1⟩, ⟨12, 2⟩]⟩
def exT : STxn := ⟨[101, 102, 103], 5, 7, true, [.null, .ext 1, .null]⟩

example : signTxn exW exT [] [11, 12, 11] =
    .ok { exT with sigs := [.made 1 7 101, .ext 1, .made 1 7 103] } := by decide
example : signTxn exW exT [2] [11, 12, 11] = .ok { exT with sigs := [.null, .ext 1, .made 1 7 103] } := by decide
example : signTxn exW exT [1] [11, 12, 11] = .err (userOther "Transaction is already signed at index") := by decide
example : signTxn exW exT [] [11, 12, 99] = .err (userOther "Wallet cannot sign all requested inputs") := by decide
example : targets exT [] 3 = [0, 2] := by decide
-- outside the precondition |sigs| = |inputs| the Go code indexes past the signature slice
example : signTxn exW { exT with sigs := [.null, .null] } [] [11, 12, 11] = .panic "index out of range" := by decide

end Sky.Props.C13
