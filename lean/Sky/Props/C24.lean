/-
  C24 — connection bookkeeping matches the set of live connections.

  Model: Sky.C24.Model (`step`, `run` over the events pending / connected / introduced / remove /
  modify of daemon.Connections; address split/join are parameters `E`).  All theorems quantify over
  EVERY event list (any order, any arguments, failing calls included) — no bound on length,
  addresses, ids, mirrors or ports.  `E.WF` is the single fact used about `SplitAddr`: the empty
  string is not an address (`goEnv_wf` proves it for the driver's `splitAddr`).

  Environment assumption (only for the exact connection-id map): `EnvOKSeq` — a `connected` event
  never carries an id that a held connection already has (the gnet pool numbers connections with a
  counter).  Everything else, including "no stale ids" and "all removed ⇒ all maps empty", holds
  without it.
-/
import Sky.C24.Preserve
import Sky.C24.Legacy
namespace Sky.Props.C24
open Sky.C24 Sky.C24.AMap

variable (E : Env)

/-- **Main invariant.** After any event sequence: one record per address; per-IP counts = number of
held connections per IP with no zero entries; the IP+mirror registry = exactly the introduced
connections with their listen port, no empty inner maps; no two introduced connections share IP and
mirror; the listen-address map = held connections grouped by listen key, no duplicates, no empty
lists, no "" key; pending ⇔ no connection id. -/
theorem inv_holds (wf : E.WF) (evs : List Ev) : InvCore E (run E State.init evs) :=
  inv_run E wf evs (inv_init E)

/-- the invariant is inductive from ANY state satisfying it -/
theorem inv_preserved (wf : E.WF) (s : State) (h : InvCore E s) (ev : Ev) : InvCore E (step E s ev).1 :=
  inv_step E wf h ev

theorem ipCounts_exact (wf : E.WF) (evs : List Ev) (ip : String) :
    (run E State.init evs).ipCounts.get ip =
      (let n := (run E State.init evs).conns.countP (fun c => ipOf E c.addr = some ip)
       if n = 0 then none else some n) :=
  (inv_holds E wf evs).ipCounts ip

theorem ipCounts_no_zero_entries (wf : E.WF) (evs : List Ev) (ip : String) :
    (run E State.init evs).ipCounts.get ip ≠ some 0 := by
  rw [ipCounts_exact E wf evs ip]
  simp only
  split <;> simp_all

theorem mirrors_exact (wf : E.WF) (evs : List Ev) (m : Nat) (ip : String) (p : Nat) :
    mget (run E State.init evs).mirrors m ip = some p ↔
      ∃ c ∈ (run E State.init evs).conns,
        c.state = .introduced ∧ c.mirror = m ∧ ipOf E c.addr = some ip ∧ c.listenPort = p :=
  (inv_holds E wf evs).mirrors m ip p

theorem no_two_introduced_share_ip_mirror (wf : E.WF) (evs : List Ev) :
    ∀ a ∈ (run E State.init evs).conns, ∀ b ∈ (run E State.init evs).conns,
      a.state = .introduced → b.state = .introduced → a.mirror = b.mirror →
      ipOf E a.addr = ipOf E b.addr → a = b :=
  (inv_holds E wf evs).mirrorUnique

theorem listenAddrs_exact (wf : E.WF) (evs : List Ev) (k a : String) :
    a ∈ ((run E State.init evs).listenAddrs.get k).getD [] ↔
      (k ≠ "" ∧ ∃ c ∈ (run E State.init evs).conns, c.addr = a ∧ c.listenKey E = k) :=
  (inv_holds E wf evs).listen k a

theorem listenAddrs_no_dup_no_empty (wf : E.WF) (evs : List Ev) (k : String) :
    (((run E State.init evs).listenAddrs.get k).getD []).Nodup ∧
    (run E State.init evs).listenAddrs.get k ≠ some [] :=
  ⟨(inv_holds E wf evs).listenNodup k, (inv_holds E wf evs).listenNoEmpty k⟩

/-- connection-id map, exact, under the environment assumption -/
theorem gnetIDs_exact (wf : E.WF) (evs : List Ev) (henv : EnvOKSeq E State.init evs) (id : Nat) (a : String) :
    (run E State.init evs).gnetIDs.get id = some a ↔
      (id ≠ 0 ∧ ∃ c ∈ (run E State.init evs).conns, c.gnetID = id ∧ c.addr = a) :=
  (ids_run E wf evs (inv_init E) ids_init henv).gnetIDs id a

theorem gnetIDs_distinct (wf : E.WF) (evs : List Ev) (henv : EnvOKSeq E State.init evs) :
    ∀ a ∈ (run E State.init evs).conns, ∀ b ∈ (run E State.init evs).conns,
      a.gnetID = b.gnetID → a.gnetID ≠ 0 → a = b :=
  (ids_run E wf evs (inv_init E) ids_init henv).idsDistinct

/-- connection-id map, unconditional half: never a zero id, never the id of a connection that is gone -/
theorem gnetIDs_no_stale (wf : E.WF) (evs : List Ev) (id : Nat) (a : String)
    (h : (run E State.init evs).gnetIDs.get id = some a) :
    id ≠ 0 ∧ ∃ c ∈ (run E State.init evs).conns, c.gnetID = id :=
  gsub_run E wf evs (inv_init E) gsub_init id a h

/-- a connection becomes introduced only from the connected state, by an `introduced` event carrying
the connection's own id (from any state, for any event) -/
theorem introduced_only_from_connected_same_id (s : State) (ev : Ev) :
    ∀ c' ∈ (step E s ev).1.conns, c'.state = .introduced →
      (∃ c ∈ s.conns, c.addr = c'.addr ∧ c.state = .introduced) ∨
      (∃ id m p, ev = .introduced c'.addr id m p ∧
        ∃ c ∈ s.conns, c.addr = c'.addr ∧ c.state = .connected ∧ c.gnetID = id) := by
  intro c' hc' hst
  rcases trans_step E s ev c' hc' hst with h | h
  · exact Or.inl h
  · refine Or.inr ?_
    cases ev with
    | introduced a id m p =>
      simp only [IntroducedBy] at h
      obtain ⟨rfl, hr⟩ := h
      exact ⟨id, m, p, rfl, hr⟩
    | _ => simp [IntroducedBy] at h

/-- removing every connection leaves every map empty (after any history) -/
theorem all_removed_all_empty (wf : E.WF) (evs : List Ev) (h : (run E State.init evs).conns = []) :
    (run E State.init evs).mirrors = [] ∧ (run E State.init evs).ipCounts = [] ∧
    (run E State.init evs).gnetIDs = [] ∧ (run E State.init evs).listenAddrs = [] :=
  all_empty E (inv_holds E wf evs) (gsub_run E wf evs (inv_init E) gsub_init) h

/-- a call that returns an error (or panics) changes nothing -/
theorem failed_call_changes_nothing (s : State) (ev : Ev) (h : (step E s ev).2 ≠ .ok) :
    (step E s ev).1 = s :=
  step_not_ok_unchanged E s ev h

/-- pending / connected / introduced / remove never panic (in particular `updateMirror` cannot fail
after `canUpdateMirror`); `modify` panics exactly when its function changes Mirror or ListenPort -/
theorem only_modify_panics (s : State) (ev : Ev) (h : ∀ a id ht m p, ev ≠ .modify a id ht m p) :
    (step E s ev).2 ≠ .panic :=
  step_no_panic E s ev h

theorem modify_panics_iff (s : State) (a : String) (id ht : Nat) (m p : Option Nat) :
    (step E s (.modify a id ht m p)).2 = .panic ↔
      ∃ c, getConn s.conns a = some c ∧ c.gnetID = id ∧
        (m.getD c.mirror ≠ c.mirror ∨ p.getD c.listenPort ≠ c.listenPort) :=
  modify_panic_iff s a id ht m p

/-- soundness of the driver's `fail` verdict: when a finite check evaluates to false on a dumped
state, that state violates the corresponding invariant -/
theorem check_false_refutes (s s' : State) (ev : Ev) :
    (invCoreB E s = false → ¬ InvCore E s) ∧ (invIdsB s = false → ¬ InvIds s) ∧
    (transB s ev s' = false → ¬ TransOK s ev s') := by
  refine ⟨fun h hi => ?_, fun h hi => ?_, fun h hi => ?_⟩
  · rw [invCoreB_of E hi] at h; cases h
  · rw [invIdsB_of hi] at h; cases h
  · rw [transB_of hi] at h; cases h

/-- the driver's address functions satisfy the one assumption -/
theorem driver_env_wf : goEnv.WF := goEnv_wf

/-! ### non-vacuity: a concrete history that exercises every index -/

/-- outgoing A (pending → connected → introduced, mirror 0), incoming B on the same IP introduced with
mirror 7 and listen port 6001, incoming C connected only, then C removed. -/
def witness : List Ev :=
  [.pending "10.0.0.1:6000", .connected "10.0.0.1:6000" 1, .introduced "10.0.0.1:6000" 1 0 6000,
   .connected "10.0.0.1:50001" 2, .introduced "10.0.0.1:50001" 2 7 6001,
   .connected "10.0.0.1:50002" 3, .remove "10.0.0.1:50002" 3]

example : EnvOKSeq goEnv State.init witness := by
  simp only [witness, EnvOKSeq, EnvOK]
  decide

example : ((run goEnv State.init witness).conns.length,
           (run goEnv State.init witness).ipCounts,
           (run goEnv State.init witness).gnetIDs.length,
           mget (run goEnv State.init witness).mirrors 7 "10.0.0.1",
           (run goEnv State.init witness).listenAddrs.get "10.0.0.1:6001")
        = (2, [("10.0.0.1", 2)], 2, some 6001, some ["10.0.0.1:50001"]) := by decide

/-- and draining it empties everything (instance of `all_removed_all_empty`) -/
example : (run goEnv State.init (witness ++ [.remove "10.0.0.1:6000" 1, .remove "10.0.0.1:50001" 2])).conns = [] := by
  decide

/-! ### defect F9, machine-checked on the pre-repair `remove` (Sky.C24.Legacy) -/

/-- removing the never-introduced connection :50002 erases the registry entry of the introduced :50001 -/
example : ¬ InvCore goEnv (runLegacy goEnv State.init
    [.connected "10.0.0.1:50001" 1, .introduced "10.0.0.1:50001" 1 0 6000,
     .connected "10.0.0.1:50002" 2, .remove "10.0.0.1:50002" 2]) := by
  intro h
  have := invCoreB_of goEnv h
  revert this
  decide

/-- … so a third connection with the same IP and mirror is then accepted: two introduced
connections share IP and mirror -/
example : ((runLegacy goEnv State.init
    [.connected "10.0.0.1:50001" 1, .introduced "10.0.0.1:50001" 1 0 6000,
     .connected "10.0.0.1:50002" 2, .remove "10.0.0.1:50002" 2,
     .connected "10.0.0.1:50003" 3, .introduced "10.0.0.1:50003" 3 0 6000]).conns.filter
      (fun c => c.state = .introduced ∧ c.mirror = 0)).length = 2 := by decide

/-- after removing everything, `ipCounts` keeps a zero entry and a port-0 peer stays in `listenAddrs` -/
example : (runLegacy goEnv State.init [.pending "10.0.0.3:0", .remove "10.0.0.3:0" 0]).ipCounts = [("10.0.0.3", 0)]
    ∧ (runLegacy goEnv State.init [.pending "10.0.0.3:0", .remove "10.0.0.3:0" 0]).listenAddrs
        = [("10.0.0.3:0", ["10.0.0.3:0"])] := by decide

end Sky.Props.C24
