/-
  C16 — BIP32/39/44 derivation matches the standards.

  Theorems about the Lean specification Sky.C16.Spec (which the published BIP32/BIP39 vectors are run
  through on every check, and which the Go code is compared with byte for byte):
  BIP39 is positional notation (round trips, "valid iff checksum"), string-level rejection rules,
  BIP32 public/private commutation in the abstract prime-order group incl. coinciding failures,
  hardened public derivation fails, serialisation round trip, depth limit, BIP44 path shape.
-/
import Sky.C16.Lemmas
import Sky.C10.ECDSA
namespace Sky.Props.C16
open Sky Sky.C16 Sky.Crypto.Secp256k1

def IsBytes (bs : Bytes) : Prop := ∀ b ∈ bs, b < 256

/-! ### the word list -/

set_option maxRecDepth 100000 in
/-- the list regenerated from src/cipher/bip39/wordlists/english.go is the BIP-0039 English list:
2048 words, SHA-256 of the canonical text = that of the published english.txt -/
theorem wordlist_is_bip39_english :
    Sky.Gen.Bip39Words.count = 2048 ∧ Sky.Gen.Bip39Words.words.size = 2048 ∧
    Sky.Gen.Bip39Words.textSha256 = "2f5eed53a4727b4bf8880d8f3f199efc90e58503646d9ff8eff3a2ed3b24dbda" := by
  refine ⟨by decide, by decide +kernel, by decide⟩

/-! ### BIP39: entropy ↔ word indices -/

theorem entropy_mnemonic_roundtrip (H : Bytes → Bytes) (ent : Bytes) (m : Nat) (hb : IsBytes ent)
    (hl : ent.length = 4 * m) (hm : m ≤ 8) :
    indicesToEntropy H (entropyToIndices H ent) = some ent := by
  have hcs : ent.length / 4 = m := by omega
  have hE : ofDigits 256 ent < 2 ^ (32 * m) := by
    have := ofDigits_lt (b := 256) (by decide) ent hb
    rwa [hl, pow256] at this
  have hc := checksumBits_lt H ent m hm
  have hpos : 0 < 2 ^ m := Nat.pow_pos (by decide)
  have hv : ofDigits 256 ent * 2 ^ m + checksumBits H ent m < 2048 ^ (m * 3) := by
    rw [pow2048]
    have : (ofDigits 256 ent + 1) * 2 ^ m ≤ 2 ^ (32 * m) * 2 ^ m := Nat.mul_le_mul_right _ hE
    rw [Nat.add_mul, Nat.one_mul] at this
    omega
  unfold indicesToEntropy entropyToIndices
  simp only [hcs, fixedDigits_length]
  have h3 : m * 3 / 3 = m := by omega
  rw [h3, ofDigits_fixedDigits (by decide) _ _ hv]
  have hdiv : (ofDigits 256 ent * 2 ^ m + checksumBits H ent m) / 2 ^ m = ofDigits 256 ent := by
    rw [Nat.mul_comm, Nat.mul_add_div hpos, Nat.div_eq_of_lt hc, Nat.add_zero]
  have hmod : (ofDigits 256 ent * 2 ^ m + checksumBits H ent m) % 2 ^ m = checksumBits H ent m := by
    rw [Nat.mul_comm, Nat.mul_add_mod, Nat.mod_eq_of_lt hc]
  rw [hdiv, hmod]
  have hfd : fixedDigits 256 (4 * m) (ofDigits 256 ent) = ent := by
    rw [← hl]; exact fixedDigits_ofDigits (by decide) ent hb
  rw [hfd, if_pos rfl]

theorem mnemonic_entropy_roundtrip (H : Bytes → Bytes) (idx : List Nat) (m : Nat) (ent : Bytes)
    (hi : ∀ i ∈ idx, i < 2048) (hl : idx.length = 3 * m) (hm : m ≤ 8)
    (h : indicesToEntropy H idx = some ent) :
    entropyToIndices H ent = idx ∧ ent.length = 4 * m ∧ IsBytes ent := by
  have h3 : idx.length / 3 = m := by omega
  unfold indicesToEntropy at h
  simp only [h3] at h
  split at h
  · rename_i hchk
    simp only [Option.some.injEq] at h
    have hlen : ent.length = 4 * m := by rw [← h, fixedDigits_length]
    have hbytes : IsBytes ent := by rw [← h]; exact fixedDigits_lt (by decide) _ _
    refine ⟨?_, hlen, hbytes⟩
    have hv : ofDigits 2048 idx < 2 ^ (32 * m) * 2 ^ m := by
      have := ofDigits_lt (b := 2048) (by decide) idx hi
      have e : idx.length = m * 3 := by omega
      rwa [e, pow2048] at this
    have hpos : 0 < 2 ^ m := Nat.pow_pos (by decide)
    have hq : ofDigits 2048 idx / 2 ^ m < 256 ^ (4 * m) := by
      rw [pow256, Nat.div_lt_iff_lt_mul hpos]; exact hv
    have hE : ofDigits 256 ent = ofDigits 2048 idx / 2 ^ m := by
      rw [← h]; exact ofDigits_fixedDigits (by decide) _ _ hq
    unfold entropyToIndices
    have hcs : ent.length / 4 = m := by omega
    simp only [hcs]
    rw [hE, ← h] at *
    rw [← hchk]
    have : ofDigits 2048 idx / 2 ^ m * 2 ^ m + ofDigits 2048 idx % 2 ^ m = ofDigits 2048 idx := Nat.div_add_mod' _ _
    rw [this]
    have e : m * 3 = idx.length := by omega
    rw [e]
    exact fixedDigits_ofDigits (by decide) idx hi
  · cases h

/-- **a mnemonic validates iff its checksum is correct**: a list of 3m word indices passes
`indicesToEntropy` exactly when it is the encoding of some 4m-byte entropy, i.e. when its trailing m bits
are the first m bits of the hash of its leading 32m bits. -/
theorem validate_iff_checksum (H : Bytes → Bytes) (idx : List Nat) (m : Nat)
    (hi : ∀ i ∈ idx, i < 2048) (hl : idx.length = 3 * m) (hm : m ≤ 8) :
    (indicesToEntropy H idx).isSome ↔ ∃ ent, ent.length = 4 * m ∧ IsBytes ent ∧ entropyToIndices H ent = idx := by
  constructor
  · intro h
    obtain ⟨ent, he⟩ := Option.isSome_iff_exists.mp h
    have ⟨h1, h2, h3⟩ := mnemonic_entropy_roundtrip H idx m ent hi hl hm he
    exact ⟨ent, h2, h3, h1⟩
  · rintro ⟨ent, h1, h2, h3⟩
    rw [← h3, entropy_mnemonic_roundtrip H ent m h2 h1 hm]; rfl

/-- the allowed sentence lengths are exactly 12, 15, 18, 21, 24 (entropy 128..256 bits, step 32) -/
theorem validCount_iff (n : Nat) : validCount n = true ↔ (n = 12 ∨ n = 15 ∨ n = 18 ∨ n = 21 ∨ n = 24) := by
  unfold validCount
  simp only [Bool.and_eq_true, beq_iff_eq, decide_eq_true_eq]
  omega

/-- entropy sizes accepted by `NewMnemonic`: 16, 20, 24, 28, 32 bytes, nothing else -/
theorem newMnemonic_error_iff (H : Bytes → Bytes) (ent : Bytes) :
    newMnemonic H ent = .err (E "ErrInvalidEntropyLength") ↔
      ¬ (ent.length = 16 ∨ ent.length = 20 ∨ ent.length = 24 ∨ ent.length = 28 ∨ ent.length = 32) := by
  unfold newMnemonic
  simp only
  split
  · rename_i h; constructor
    · intro _; omega
    · intro _; rfl
  · rename_i h; constructor
    · intro h'; cases h'
    · intro h'; omega

/-! ### BIP39: string-level rejection -/

theorem splitSp_go_double (a b cur : Bytes) : [] ∈ splitSp.go (a ++ 32 :: 32 :: b) cur := by
  induction a generalizing cur with
  | nil =>
    simp only [List.nil_append, splitSp.go, if_true]
    exact List.mem_cons_of_mem _ (List.mem_cons_self)
  | cons c r ih =>
    simp only [List.cons_append, splitSp.go]
    split
    · exact List.mem_cons_of_mem _ (ih [])
    · exact ih (c :: cur)

/-- leading / trailing blanks, doubled separators, wrong word counts and unknown words are rejected
with the error the code reports, in the code's order of checks. -/
theorem split_rejects (s : Bytes) :
    (s.head? = some 32 → splitMnemonicWords s = .err (E "ErrSurroundingWhitespace")) ∧
    (s.getLast? = some 32 → splitMnemonicWords s = .err (E "ErrSurroundingWhitespace")) ∧
    (hasSurroundingSpace s = false → (∃ a b, s = a ++ 32 :: 32 :: b) →
        splitMnemonicWords s = .err (E "ErrInvalidSeparator")) ∧
    (hasSurroundingSpace s = false → (splitSp s).any (· == []) = false → validCount (splitSp s).length = false →
        splitMnemonicWords s = .err (E "ErrInvalidNumberOfWords")) ∧
    (hasSurroundingSpace s = false → (splitSp s).any (· == []) = false → validCount (splitSp s).length = true →
        (∃ w ∈ splitSp s, indexOf? w = none) → splitMnemonicWords s = .err (E "ErrUnknownWord")) := by
  refine ⟨?_, ?_, ?_, ?_, ?_⟩
  · intro h
    have : hasSurroundingSpace s = true := by
      cases s with
      | nil => simp at h
      | cons c r =>
        simp only [List.head?_cons, Option.some.injEq] at h; subst h
        simp [hasSurroundingSpace, spacePatterns, List.isPrefixOf]
    simp [splitMnemonicWords, this]
  · intro h
    have : hasSurroundingSpace s = true := by
      have hr : s.reverse.head? = some 32 := by rw [List.head?_reverse]; exact h
      cases hs : s.reverse with
      | nil => rw [hs] at hr; simp at hr
      | cons c r =>
        rw [hs] at hr
        simp only [List.head?_cons, Option.some.injEq] at hr; subst hr
        simp [hasSurroundingSpace, spacePatterns, List.isPrefixOf, hs]
    simp [splitMnemonicWords, this]
  · rintro h1 ⟨a, b, rfl⟩
    have : (splitSp (a ++ 32 :: 32 :: b)).any (· == []) = true := by
      rw [List.any_eq_true]; exact ⟨[], splitSp_go_double a b [], by simp⟩
    unfold splitMnemonicWords
    simp only [h1, Bool.false_eq_true, if_false, this, if_true]
  · intro h1 h2 h3
    unfold splitMnemonicWords
    simp only [h1, h2, h3, Bool.false_eq_true, if_false, Bool.not_false, if_true]
  · rintro h1 h2 h3 ⟨w, hw, hnone⟩
    have : (splitSp s).mapM indexOf? = none := by
      generalize splitSp s = ws at hw
      induction ws with
      | nil => cases hw
      | cons x r ih =>
        rw [List.mapM_cons]
        rcases List.mem_cons.mp hw with h | h
        · subst h; simp [hnone]
        · cases hx : indexOf? x with
          | none => simp
          | some v => simp [ih h]
    unfold splitMnemonicWords
    simp only [h1, h2, h3, Bool.false_eq_true, if_false, Bool.not_true, this]

/-! ### BIP32 -/

section abstract
open Sky.C10.ECDSA
variable {n : ℕ} [Fact n.Prime] {G : Type*} [AddCommGroup G] [Module (ZMod n) G]

/-- **public derivation commutes with private derivation** (normal child): the public key of the child
private key IL + k is IL•g + (public key of k). -/
theorem ckd_commutes (g : G) (il k : ZMod n) : pub g (il + k) = il • g + pub g k :=
  Sky.C10.ECDSA.ckd_commutes g il k

/-- … and the failure cases coincide: the public child is the point at infinity exactly when the private
child is zero. (The remaining failure, IL ≥ n, is the same test on the same IL on both sides.) -/
theorem ckd_fail_coincide (g : G) (hg : g ≠ 0) (il k : ZMod n) : il • g + pub g k = 0 ↔ il + k = 0 :=
  Sky.C10.ECDSA.ckd_fail_coincide g hg il k

end abstract

/-- in the executable specification both derivations read IL from the same HMAC input for a normal
child: the data hashed by CKDpriv is the serialised public key that CKDpub hashes. -/
theorem ckd_same_hmac_input (hs : Hashes) (k : XKey) (i : Nat) (hi : i < hardened) :
    (if i ≥ hardened then 0 :: k.key else pubBytesOf k.key) ++ be32 i = (neuter k).key ++ be32 i := by
  have : ¬ i ≥ hardened := by omega
  simp [this, neuter]

theorem hardened_pub_fails (hs : Hashes) (k : XKey) (i : Nat) (hd : k.depth ≠ 255) (hi : hardened ≤ i) :
    ckdPub hs k i = .err (E "ErrHardenedChildPublicKey") := by
  unfold ckdPub
  rw [if_neg hd, if_pos hi]

theorem depth_limit (hs : Hashes) (k : XKey) (i : Nat) (hd : k.depth = 255) :
    ckdPriv hs k i = .err (E "ErrMaxDepthReached") ∧ ckdPub hs k i = .err (E "ErrMaxDepthReached") := by
  unfold ckdPriv ckdPub
  simp [hd]

/-- children are one level deeper, carry the index and the parent's fingerprint, and a derived private
key is always a valid secret scalar (0 < k < n) -/
theorem ckdPriv_shape (hs : Hashes) (k c : XKey) (i : Nat) (h : ckdPriv hs k i = .ok c) :
    c.priv = true ∧ c.depth = k.depth + 1 ∧ c.childNum = i ∧ c.parentFP = fingerprint hs (pubBytesOf k.key) ∧
    ∃ x, c.key = toBE32 x ∧ 0 < x ∧ x < N := by
  unfold ckdPriv at h
  by_cases hd : k.depth = 255
  · rw [if_pos hd] at h; cases h
  · rw [if_neg hd] at h
    simp only at h
    generalize (if i ≥ hardened then 0 :: k.key else pubBytesOf k.key) = data at h
    by_cases hv : (!secValid (List.take 32 (hs.hmac k.chainCode (data ++ be32 i)))) = true
    · rw [if_pos hv] at h; cases h
    · rw [if_neg hv] at h
      by_cases hz : (ofBE (List.take 32 (hs.hmac k.chainCode (data ++ be32 i))) + ofBE k.key) % N = 0
      · rw [if_pos hz] at h; cases h
      · rw [if_neg hz] at h
        simp only [Res.ok.injEq] at h
        subst h
        exact ⟨rfl, rfl, rfl, rfl, _, rfl, by omega, Nat.mod_lt _ (by decide)⟩

/-- well-formed extended key: what the Go `key` struct holds after any constructor -/
structure XKeyWF (k : XKey) : Prop where
  depth : k.depth < 256
  fpLen : k.parentFP.length = 4
  cn : k.childNum < 2 ^ 32
  ccLen : k.chainCode.length = 32
  keyLen : k.key.length = if k.priv then 32 else 33
  keyOK : if k.priv then okPrivKey k.key = true else okPubKey k.key = true
  master : k.depth = 0 → k.parentFP = [0, 0, 0, 0] ∧ k.childNum = 0

/-- **serialisation round trip**: the 82-byte form (version ‖ depth ‖ parent fingerprint ‖ child number ‖
chain code ‖ key ‖ 4-byte double-SHA-256 checksum) deserialises to the same key; the checksum hash is a
parameter of which only the output width is used. -/
theorem serialize_roundtrip (hs : Hashes) (hH : ∀ x, 4 ≤ (hs.dsha x).length) (k : XKey) (wf : XKeyWF k) :
    deserialize hs okPrivKey okPubKey k.priv (serialize hs k) = .ok k := by
  obtain ⟨hdep, hfp, hcn, hcc, hkl, hkok, hmaster⟩ := wf
  have hC : ((hs.dsha (payload k)).take 4).length = 4 := by
    rw [List.length_take]; have := hH (payload k); omega
  cases hp : k.priv with
  | true =>
    rw [hp] at hkl hkok
    simp only [if_true] at hkl hkok
    have hpay : payload k = privVersion ++ ([k.depth] ++ (k.parentFP ++ (be32 k.childNum ++ (k.chainCode ++ (0 :: k.key))))) := by
      simp [payload, hp, List.append_assoc]
    have hplen : (payload k).length = 78 := by
      rw [hpay]; simp [privVersion, hfp, be32_length, hcc, hkl]
    have hser : serialize hs k = payload k ++ (hs.dsha (payload k)).take 4 := rfl
    generalize hCdef : (hs.dsha (payload k)).take 4 = C at hser hC
    have hlen : (serialize hs k).length = 82 := by rw [hser]; simp [hplen, hC]
    have htake : (serialize hs k).take 78 = payload k := by rw [hser]; exact take_app hplen
    have hdrop : (serialize hs k).drop 78 = C := by rw [hser]; exact drop_app hplen
    have hdata : serialize hs k = privVersion ++ ([k.depth] ++ (k.parentFP ++ (be32 k.childNum ++ (k.chainCode ++ (0 :: (k.key ++ C)))))) := by
      rw [hser, hpay]; simp [List.append_assoc]
    have f1 : (serialize hs k).take 4 = privVersion := by rw [hdata]; exact take_app rfl
    have f2 : (serialize hs k).getD 4 0 = k.depth := by
      rw [hdata]; exact getD_app (a := privVersion) rfl
    have f3 : ((serialize hs k).drop 5).take 4 = k.parentFP := by
      rw [hdata, ← List.append_assoc privVersion]; exact drop_take_app (by simp [privVersion]) hfp
    have f4 : ((serialize hs k).drop 9).take 4 = be32 k.childNum := by
      rw [hdata, ← List.append_assoc privVersion, ← List.append_assoc (privVersion ++ [k.depth])]
      exact drop_take_app (by simp [privVersion, hfp]) (be32_length _)
    have f5 : ((serialize hs k).drop 13).take 32 = k.chainCode := by
      rw [hdata, ← List.append_assoc privVersion, ← List.append_assoc (privVersion ++ [k.depth]),
        ← List.append_assoc (privVersion ++ [k.depth] ++ k.parentFP)]
      exact drop_take_app (by simp [privVersion, hfp, be32_length]) hcc
    have hpre : (privVersion ++ [k.depth] ++ k.parentFP ++ be32 k.childNum ++ k.chainCode).length = 45 := by
      simp [privVersion, hfp, be32_length, hcc]
    have hdata2 : serialize hs k = (privVersion ++ [k.depth] ++ k.parentFP ++ be32 k.childNum ++ k.chainCode) ++ (0 :: (k.key ++ C)) := by
      rw [hdata]; simp [List.append_assoc]
    have f6 : (serialize hs k).getD 45 0 = 0 := by rw [hdata2]; exact getD_app hpre
    have f7 : ((serialize hs k).drop 46).take 32 = k.key := by
      have : serialize hs k = (privVersion ++ [k.depth] ++ k.parentFP ++ be32 k.childNum ++ k.chainCode ++ [0]) ++ (k.key ++ C) := by
        rw [hdata2]; simp [List.append_assoc]
      rw [this]; exact drop_take_app (by simp [privVersion, hfp, be32_length, hcc]) hkl
    unfold deserialize
    rw [if_neg (by omega), htake, hdrop, hCdef, if_neg (by simp)]
    simp only [f1, f2, f3, f4, f5, f6, f7, ofBE_be32 _ hcn]
    have e1 : (privVersion == privVersion) = true := by decide
    have e2 : (privVersion == pubVersion) = false := by decide
    simp only [e1, e2, Bool.not_true, Bool.false_and, Bool.and_false, Bool.false_eq_true, if_false, Bool.not_false,
      Bool.true_and, if_true, ne_eq, not_true_eq_false, hkok]
    by_cases hd0 : k.depth = 0
    · obtain ⟨m1, m2⟩ := hmaster hd0
      simp only [hd0, m1, m2, true_and, not_true_eq_false, if_false]
      cases k; simp_all
    · simp only [hd0, false_and, if_false]
      cases k; simp_all
  | false =>
    rw [hp] at hkl hkok
    simp only [Bool.false_eq_true, if_false] at hkl hkok
    have hpay : payload k = pubVersion ++ ([k.depth] ++ (k.parentFP ++ (be32 k.childNum ++ (k.chainCode ++ k.key)))) := by
      simp [payload, hp, List.append_assoc]
    have hplen : (payload k).length = 78 := by
      rw [hpay]; simp [pubVersion, hfp, be32_length, hcc, hkl]
    have hser : serialize hs k = payload k ++ (hs.dsha (payload k)).take 4 := rfl
    generalize hCdef : (hs.dsha (payload k)).take 4 = C at hser hC
    have hlen : (serialize hs k).length = 82 := by rw [hser]; simp [hplen, hC]
    have htake : (serialize hs k).take 78 = payload k := by rw [hser]; exact take_app hplen
    have hdrop : (serialize hs k).drop 78 = C := by rw [hser]; exact drop_app hplen
    have hdata : serialize hs k = pubVersion ++ ([k.depth] ++ (k.parentFP ++ (be32 k.childNum ++ (k.chainCode ++ (k.key ++ C))))) := by
      rw [hser, hpay]; simp [List.append_assoc]
    have f1 : (serialize hs k).take 4 = pubVersion := by rw [hdata]; exact take_app rfl
    have f2 : (serialize hs k).getD 4 0 = k.depth := by
      rw [hdata]; exact getD_app (a := pubVersion) rfl
    have f3 : ((serialize hs k).drop 5).take 4 = k.parentFP := by
      rw [hdata, ← List.append_assoc pubVersion]; exact drop_take_app (by simp [pubVersion]) hfp
    have f4 : ((serialize hs k).drop 9).take 4 = be32 k.childNum := by
      rw [hdata, ← List.append_assoc pubVersion, ← List.append_assoc (pubVersion ++ [k.depth])]
      exact drop_take_app (by simp [pubVersion, hfp]) (be32_length _)
    have f5 : ((serialize hs k).drop 13).take 32 = k.chainCode := by
      rw [hdata, ← List.append_assoc pubVersion, ← List.append_assoc (pubVersion ++ [k.depth]),
        ← List.append_assoc (pubVersion ++ [k.depth] ++ k.parentFP)]
      exact drop_take_app (by simp [pubVersion, hfp, be32_length]) hcc
    have f7 : ((serialize hs k).drop 45).take 33 = k.key := by
      have : serialize hs k = (pubVersion ++ [k.depth] ++ k.parentFP ++ be32 k.childNum ++ k.chainCode) ++ (k.key ++ C) := by
        rw [hdata]; simp [List.append_assoc]
      rw [this]; exact drop_take_app (by simp [pubVersion, hfp, be32_length, hcc]) hkl
    unfold deserialize
    rw [if_neg (by omega), htake, hdrop, hCdef, if_neg (by simp)]
    simp only [f1, f2, f3, f4, f5, f7, ofBE_be32 _ hcn]
    have e1 : (pubVersion == privVersion) = false := by decide
    have e2 : (pubVersion == pubVersion) = true := by decide
    simp only [e1, e2, Bool.not_true, Bool.not_false, Bool.false_and, Bool.and_false, Bool.and_true, Bool.false_eq_true,
      if_false, Bool.true_and, if_true, ne_eq, not_true_eq_false, hkok]
    by_cases hd0 : k.depth = 0
    · obtain ⟨m1, m2⟩ := hmaster hd0
      simp only [hd0, m1, m2, true_and, not_true_eq_false, if_false]
      cases k; simp_all
    · simp only [hd0, false_and, if_false]
      cases k; simp_all

/-- BIP44: account a, chain c, address index i is the BIP32 path m/44'/coin'/a'/c/i -/
theorem path_shape (hs : Hashes) (seed : Bytes) (coin a c i : Nat) (hc : coin < hardened) (ha : a < hardened) :
    bip44Key hs seed coin a c i =
      (match newMasterKey hs seed with
       | .ok m => derivePriv hs m [44 + hardened, coin + hardened, a + hardened, c, i]
       | .err e => .err e
       | .panic p => .panic p) := by
  have hc' : ¬ coin ≥ hardened := by omega
  have ha' : ¬ a ≥ hardened := by omega
  unfold bip44Key bip44Coin
  rw [if_neg hc']
  cases newMasterKey hs seed with
  | err e => rfl
  | panic p => rfl
  | ok m =>
    simp only [derivePriv]
    cases ckdPriv hs m (44 + hardened) with
    | err e => rfl
    | panic p => rfl
    | ok k1 =>
      simp only
      cases ckdPriv hs k1 (coin + hardened) with
      | err e => rfl
      | panic p => rfl
      | ok k2 =>
        simp only [bip44Account, if_neg ha']
        cases ckdPriv hs k2 (a + hardened) with
        | err e => rfl
        | panic p => rfl
        | ok k3 =>
          simp only
          cases ckdPriv hs k3 c with
          | err e => rfl
          | panic p => rfl
          | ok k4 =>
            simp only
            cases ckdPriv hs k4 i <;> rfl

/-! ### non-vacuity -/

/-- toy hash for concrete instances (the theorems hold for every hash) -/
def toyH : Bytes → Bytes := fun x => [(x.foldl (· + ·) 0 * 37 + x.length) % 256, 1, 2, 3, 4]

/-- a concrete 16-byte entropy round-trips through 12 indices, and a mnemonic with a wrong last index fails -/
example : indicesToEntropy toyH (entropyToIndices toyH [0, 1, 2, 3, 4, 5, 6, 7, 8, 9, 10, 11, 12, 13, 14, 255])
    = some [0, 1, 2, 3, 4, 5, 6, 7, 8, 9, 10, 11, 12, 13, 14, 255] := by decide +kernel
example : (entropyToIndices toyH [0, 1, 2, 3, 4, 5, 6, 7, 8, 9, 10, 11, 12, 13, 14, 255]).length = 12 := by decide +kernel
example : indicesToEntropy toyH [0, 0, 0, 0, 0, 0, 0, 0, 0, 0, 0, 2] = none := by decide +kernel
def toyHashes : Hashes := { hmac := fun k m => (List.range 64).map fun i => (k.length + m.length + i * 7) % 256,
                            h160 := fun b => (b.take 20), dsha := fun b => [b.length % 256, 9, 8, 7, 6] }

/-- a well-formed extended key exists and round-trips (instance of `serialize_roundtrip`) -/
def toyKey : XKey := { priv := true, depth := 3, parentFP := [1, 2, 3, 4], childNum := 2 ^ 31 + 5,
                       chainCode := List.replicate 32 7, key := toBE32 12345 }
example : deserialize toyHashes okPrivKey okPubKey true (serialize toyHashes toyKey) = .ok toyKey := by decide +kernel
example : ckdPub toyHashes (neuter toyKey) (2 ^ 31) = .err (E "ErrHardenedChildPublicKey") := by decide +kernel
example : ckdPriv toyHashes { toyKey with depth := 255 } 0 = .err (E "ErrMaxDepthReached") := by decide +kernel

end Sky.Props.C16
