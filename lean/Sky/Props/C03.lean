/-
  C03 — accepted transactions never create coin hours (apart from the documented exceptions).
  The accrual formula itself (`specCoinHours`) is tied to the code by C31 (`coinHours_spec` over the
  regenerated UxOut.CoinHours); here are the ledger-level statements.
-/
import Sky.Ledger.Run
import Sky.Props.C31
namespace Sky.Props.C03
open Sky Sky.Ledger

/-- accrued hours never decrease as time moves forward -/
theorem coinHours_mono (u : Ux) (t t' h h' : Nat) (htt : t ≤ t')
    (e1 : coinHours u t = .ok h) (e2 : coinHours u t' = .ok h') : h ≤ h' := by
  unfold coinHours at e1 e2
  split at e1 <;> try cases e1
  split at e2 <;> try cases e2
  rename_i h1 _ h2
  exact Sky.Props.C31.coinHours_mono _ _ _ _ _ _ _ htt h1 h2

/-- accrued hours are the initial hours plus ⌊coins·Δ/3.6e9⌋ (whole coin = 1e6 droplets, per hour) -/
theorem coinHours_formula (u : Ux) (t h : Nat) (ht : u.time ≤ t) (e : coinHours u t = .ok h) :
    h = u.hours + u.coins * (t - u.time) / 3600000000 := by
  unfold coinHours at e
  split at e <;> try cases e
  rename_i h1
  unfold Sky.C31.specCoinHours at h1
  have : ¬ t < u.time := by omega
  rw [if_neg this] at h1
  simp only at h1
  repeat (split at h1 <;> try cases h1)
  rfl

def natHoursOut (t : Txn) : Nat := (t.outs.map (·.hours)).sum

theorem sumFrom?_isSome_lt (xs : List Nat) (acc n : Nat) (hacc : acc < 2^64) (h : sumFrom? xs acc = some n) :
    n = acc + xs.sum ∧ n < 2^64 := by
  rcases sumFrom?_some xs acc n h with h1 | ⟨h1, h2⟩
  · exact h1
  · subst h1; subst h2; simp; exact hacc

/-- a node never admits a new unconfirmed transaction whose output hours overflow: admission (foreign
or user path) implies the hours sum fits 64 bits -/
theorem pool_admits_no_hours_overflow {s : State} {t : Txn} {p : VParams} {k : Bool} {e : Option String}
    {s' : State} (h : injectWith s t p = .ok (k, e, s')) : natHoursOut t < 2^64 := by
  -- admission means the hard part of verifySingleSoftHard passed, whose first check is OutputHours
  have key : ∀ uxIn, (∃ r, verifySingleHardWith s t uxIn = r ∧ (r = .ok () ∨ ∃ m, r = .error m ∧ m.startsWith "soft:" = true)) →
      natHoursOut t < 2^64 := by
    intro uxIn ⟨r, hr, hcase⟩
    unfold verifySingleHardWith at hr
    simp only [bind, Except.bind] at hr
    split at hr
    · rename_i hov
      subst hr
      rcases hcase with h1 | ⟨m, h1, h2⟩
      · cases h1
      · cases h1; simp at h2
    · rename_i hsome
      cases hn : outputHours? t with
      | none => simp [hn] at hsome
      | some n =>
        unfold outputHours? sumU64? at hn
        have := sumFrom?_isSome_lt _ 0 n (by decide) hn
        unfold natHoursOut; omega
  unfold injectWith at h
  simp only at h
  cases hv : verifySingleSoftHard s t p with
  | ok u =>
    unfold verifySingleSoftHard at hv
    simp only [bind, Except.bind] at hv
    split at hv
    · cases hv
    · rename_i uxIn _
      split at hv
      · cases hv
      · rename_i u2 hh
        exact key uxIn ⟨_, rfl, Or.inl (by cases u2; exact hh)⟩
  | error m =>
    rw [hv] at h
    simp only at h
    by_cases hs : m.startsWith "soft:" = true
    · unfold verifySingleSoftHard at hv
      simp only [bind, Except.bind] at hv
      split at hv
      · rename_i e2 he2
        cases hv
        unfold hard at he2
        split at he2
        · cases he2
        · cases he2; simp at hs
      · rename_i uxIn _
        split at hv
        · rename_i e3 he3
          cases hv
          exact key uxIn ⟨_, he3, Or.inr ⟨_, rfl, hs⟩⟩
        · rename_i u2 hh
          exact key uxIn ⟨_, hh, Or.inl (by cases u2; rfl)⟩
    · simp only [hs] at h
      simp at h

theorem foldl_hours (outs : List Out) (a : Nat) :
    outs.foldl (fun a o => a + o.hours) a = a + (outs.map (·.hours)).sum := by
  induction outs generalizing a with
  | nil => simp
  | cons o os ih => simp only [List.foldl_cons, ih, List.map_cons, List.sum_cons]; omega

theorem verifyHoursSpending_ok {ht : Nat} {uxIn : List Ux} {outs : List Out}
    (h : verifyHoursSpending ht uxIn outs = .ok ()) :
    ∃ hin, hoursInLegacy ht uxIn 0 = .ok hin ∧ (outs.map (·.hours)).sum % 2^64 ≤ hin := by
  unfold verifyHoursSpending at h
  simp only [bind, Except.bind] at h
  split at h
  · cases h
  · rename_i hin hh
    split at h
    · cases h
    · rename_i hlt
      refine ⟨hin, hh, ?_⟩
      rw [foldl_hours] at hlt
      simp only [Nat.zero_add] at hlt
      omega

theorem verifyTxnHard_hours {t : Txn} {ht : Nat} {uxIn : List Ux} (h : verifyTxnHard t ht uxIn = .ok ()) :
    verifyHoursSpending ht uxIn t.outs = .ok () := by
  unfold verifyTxnHard at h
  simp only [bind, Except.bind] at h
  split at h
  · cases h
  · split at h
    · cases h
    · split at h
      · cases h
      · split at h
        · cases h
        · exact h

/-- PARTIAL (full statement below): for every transaction of every accepted block, if the output
hours do not overflow 64 bits, they do not exceed the hours its inputs have accrued at the previous
block's time — an input whose accrual reports the documented legacy overflow counting as zero. -/
theorem block_txn_hours_partial {s s' : State} {b g : Block} (hinj : HashInj b.txns)
    (hg : s.chain.head? = some g) (h : execSigned s b = .ok s') :
    ∀ t ∈ b.txns, ∃ uxIn hin, getArray s.unspent t.ins = .ok uxIn ∧
      hoursInLegacy (headTime s) uxIn 0 = .ok hin ∧ (natHoursOut t < 2^64 → natHoursOut t ≤ hin) := by
  obtain ⟨hv, _⟩ := accepted_block_facts hinj hg h
  intro t ht
  have hvt := hv t ht
  unfold verifyBlockTxn at hvt
  simp only [bind, Except.bind] at hvt
  split at hvt
  · cases hvt
  · rename_i uxIn hux
    split at hvt
    · cases hvt
    · rename_i u hh
      obtain ⟨hin, h1, h2⟩ := verifyHoursSpending_ok (verifyTxnHard_hours (hard_ok hh))
      refine ⟨uxIn, hin, hard_ok hux, h1, ?_⟩
      intro hlt
      unfold natHoursOut at hlt ⊢
      rw [Nat.mod_eq_of_lt hlt] at h2
      exact h2

/- FULL statement: the same WITHOUT the hypothesis `natHoursOut t < 2^64`.  It is FALSE of the code
and of the model: the block path sums output hours with an unchecked `+=` (deliberate: legacy mainnet
blocks depend on it, see src/transaction/verify.go).  Known finding F14; witness proved here: -/

def f14In : Ux := { id := "u", addr := "a0", coins := 1000000, hours := 10, time := 0, seq := 0, src := "s" }
def f14Out1 : Out := { addr := "a1", coins := 500000, hours := 2^63, id := "o1" }
def f14Out2 : Out := { addr := "a2", coins := 500000, hours := 2^63 + 5, id := "o2" }

/-- outputs carrying 2^64+5 hours are accepted against inputs that accrued 10 hours -/
theorem block_txn_hours_counterexample :
    verifyHoursSpending 0 [f14In] [f14Out1, f14Out2] = .ok () ∧
      hoursInLegacy 0 [f14In] 0 = .ok 10 ∧ ([f14Out1, f14Out2].map (·.hours)).sum = 2^64 + 5 := by
  refine ⟨by rfl, by rfl, by decide⟩

end Sky.Props.C03
