/-
  C10 — signed transactions and blocks are not malleable by third parties; only low-s signatures with
  a recovery id below 4 are ever accepted or produced.

  Three layers (DESIGN §5 C10):
  (a) scalar / byte level, unconditional: the acceptance tests that the translator finds in the
      CURRENT secp256k1.go (Sky.Gen.SigConsts) accept exactly `s ≤ n/2 ∧ recid < 4`; the constants in
      the Go tables are the curve's; the textbook signer only produces such signatures.
  (b) abstract prime-order ECDSA (Sky.C10.ECDSA, Mathlib): a correct signature verifies and recovers
      the key; negating s preserves verification (so the low-s rule is necessary) and the negated
      signature is rejected by the rule (so it is sufficient against that transform); flipping the
      recovery parity recovers a different key.
  (c) whole objects (Sky.C10.Reduction): under canonical decoding, collision-free hashing and strong
      unforgeability, an accepted byte string in the same role is the original byte string.
-/
import Sky.C10.Lemmas
import Sky.C10.Reduction
import Sky.C10.ECDSA
namespace Sky.Props.C10
open Sky Sky.C10 Sky.Crypto.Secp256k1 Sky.Gen.SigConsts

/-! ### (a) constants and the acceptance rule -/

/-- the byte tables in the Go sources are the curve order, its half, the field prime and the base point;
the table the wrapper compares `sig[32:64]` with is ⌊n/2⌋. -/
theorem go_constants :
    ofBE orderBytes = N ∧ ofBE halfOrderBytes = halfN ∧ ofBE pBytes = P ∧
    ofBE gxBytes = Gx ∧ ofBE gyBytes = Gy ∧
    wrapperHalfOrder.length = 32 ∧ ofBE wrapperHalfOrder = halfN ∧ (∀ b ∈ wrapperHalfOrder, b < 256) := by
  decide

/-- both acceptance functions perform the same three tests -/
theorem go_tests : validityTests = ["highbit", "halforder", "recid"] ∧ verifyTests = validityTests := by decide

/-- **`VerifySignatureValidity` accepts exactly low-s signatures with recovery id < 4.** -/
theorem accept_sig_iff (sig : Bytes) (hb : IsBytes sig) (hl : sig.length = 65) :
    sigValidity sig = .ok 1 ↔ (ofBE (sigS sig) ≤ halfN ∧ sig.getD 64 0 < 4) := by
  obtain ⟨rest, hs, hrl⟩ := sigS_cons sig hl
  have hsb := sigS_isBytes sig hb
  have hsl := sigS_length sig hl
  have htab := go_constants
  have hlex : lexGt (sigS sig) wrapperHalfOrder = true ↔ halfN < ofBE (sigS sig) := by
    rw [lexGt_iff _ _ (by rw [hsl, htab.2.2.2.2.2.1]) hsb htab.2.2.2.2.2.2.2, htab.2.2.2.2.2.2.1]
  have h0 : sig.getD 32 0 < 256 := by
    have : sig.getD 32 0 ∈ sigS sig := by rw [hs]; simp
    exact hsb _ this
  have hval : ofBE (sigS sig) = sig.getD 32 0 * 256 ^ 31 + ofBE rest := by
    rw [hs, ofBE_cons, Nat.mod_eq_of_lt h0, hrl]
  have hrest : ofBE rest < 256 ^ 31 := by have := ofBE_lt rest; rwa [hrl] at this
  have hhalf : halfN < 128 * 256 ^ 31 := by decide
  have hhigh : ((sig.getD 32 0) >>> 7 == 1) = true ↔ 128 ≤ sig.getD 32 0 := by
    rw [Nat.shiftRight_eq_div_pow, beq_iff_eq]; omega
  have hrec : decide (sig.getD 64 0 ≥ 4) = true ↔ 4 ≤ sig.getD 64 0 := decide_eq_true_iff
  have hany : validityTests.any (shapeTest sig) =
      (((sig.getD 32 0) >>> 7 == 1) || (lexGt (sigS sig) wrapperHalfOrder || decide (sig.getD 64 0 ≥ 4))) := by
    rw [go_tests.1]
    simp only [List.any_cons, List.any_nil, Bool.or_false, shapeTest]
    simp only [show ("highbit" == "highbit") = true from by decide, show ("halforder" == "highbit") = false from by decide,
      show ("halforder" == "halforder") = true from by decide, show ("recid" == "highbit") = false from by decide,
      show ("recid" == "halforder") = false from by decide, show ("recid" == "recid") = true from by decide,
      if_true, Bool.false_eq_true, if_false]
  unfold sigValidity
  rw [if_neg (by omega), hany]
  have h128 : 128 ≤ sig.getD 32 0 → halfN < ofBE (sigS sig) := by
    intro h
    have : 128 * 256 ^ 31 ≤ sig.getD 32 0 * 256 ^ 31 := Nat.mul_le_mul_right _ h
    omega
  have hor : (((sig.getD 32 0) >>> 7 == 1) || (lexGt (sigS sig) wrapperHalfOrder || decide (sig.getD 64 0 ≥ 4))) = true ↔
      (128 ≤ sig.getD 32 0 ∨ halfN < ofBE (sigS sig) ∨ 4 ≤ sig.getD 64 0) := by
    rw [Bool.or_eq_true, Bool.or_eq_true, hhigh, hlex, hrec]
  by_cases hq : (((sig.getD 32 0) >>> 7 == 1) || (lexGt (sigS sig) wrapperHalfOrder || decide (sig.getD 64 0 ≥ 4))) = true
  · rw [if_pos hq]
    constructor
    · intro h; cases h
    · rintro ⟨h1, h2⟩
      exfalso
      rcases hor.mp hq with h | h | h
      · have := h128 h; omega
      · omega
      · omega
  · rw [if_neg hq]
    have hn : ¬ (128 ≤ sig.getD 32 0 ∨ halfN < ofBE (sigS sig) ∨ 4 ≤ sig.getD 64 0) := fun h => hq (hor.mpr h)
    constructor
    · intro _; omega
    · intro _; rfl

/-- the same rule guards `VerifySignature` -/
theorem verify_shape_iff (sig : Bytes) (hb : IsBytes sig) (hl : sig.length = 65) :
    verifyShapeOK sig = true ↔ (ofBE (sigS sig) ≤ halfN ∧ sig.getD 64 0 < 4) := by
  rw [← accept_sig_iff sig hb hl]
  unfold verifyShapeOK sigValidity
  rw [if_neg (by omega), go_tests.2]
  cases validityTests.any (shapeTest sig) <;> simp

/-- the rule that the code had before the repair (top bit of s only) is strictly weaker: s = n/2 + 1
passes it although it is a high s — together with `negS_verifies` below this is defect F12. -/
theorem highbit_rule_too_weak :
    ∃ s, s < N ∧ halfN < s ∧ (toBE32 s).getD 0 0 >>> 7 = 0 ∧ N - s ≤ halfN := ⟨halfN + 1, by decide⟩

/-- of s and n − s exactly one is low (for 0 < s < n): the rule picks one representative -/
theorem lowS_unique (s : Nat) (h0 : 0 < s) (hN : s < N) : s ≤ halfN ↔ ¬ (N - s ≤ halfN) := by
  have : 2 * halfN + 1 = N := by decide
  omega

/-- malleation by negating s is rejected whatever recovery id is attached -/
theorem negS_rejected (g : Sky.C14.Sig65) (h : Sky.C14.sigWellFormed g = true) (h0 : 0 < g.s) (v' : Nat) :
    Sky.C14.sigWellFormed { r := g.r, s := N - g.s, recid := v' } = false := by
  have hN : 2 * halfN + 1 = N := by decide
  simp only [Sky.C14.sigWellFormed, Bool.and_eq_true, decide_eq_true_eq] at h
  simp only [Sky.C14.sigWellFormed, Bool.and_eq_false_iff, decide_eq_false_iff_not]
  left; omega

/-- the textbook signer (what `Signature.Sign` is compared with, byte for byte) only ever produces
low-s signatures with 0 < s and a recovery id below 4 -/
theorem sign_produces_lowS (d z k : Nat) (sg : Sig) (h : sign d z k = some sg) :
    0 < sg.s ∧ sg.s ≤ halfN ∧ sg.recid < 4 := by
  have hN : 2 * halfN + 1 = N := by decide
  unfold sign at h
  split at h
  · cases h
  · rename_i rx ry _
    simp only at h
    have hrec : ∀ (a b : Nat), (a = 0 ∨ a = 2) → b < 2 → a + b < 4 ∧ (a + b) ^^^ 1 < 4 := by
      intro a b ha hb
      have : b = 0 ∨ b = 1 := by omega
      rcases ha with rfl | rfl <;> rcases this with rfl | rfl <;> decide
    have hr := hrec (if rx ≥ N then 2 else 0) (ry % 2) (by split <;> simp) (Nat.mod_lt _ (by decide))
    split at h
    · cases h
    · rename_i hs0
      have hspos : 0 < invMod k N * ((rx % N * d + z) % N) % N := by
        have : ¬ (invMod k N * ((rx % N * d + z) % N) % N = 0) := by simpa using hs0
        omega
      have hslt : invMod k N * ((rx % N * d + z) % N) % N < N := Nat.mod_lt _ (by decide)
      split at h
      · rename_i hhigh
        simp only [Option.some.injEq] at h
        subst h
        exact ⟨by simp only; omega, by simp only; omega, hr.2⟩
      · rename_i hlow
        simp only [Option.some.injEq] at h
        subst h
        exact ⟨hspos, by simp only; omega, hr.1⟩

/-! ### (b) abstract prime-order ECDSA (statements re-exported from Sky.C10.ECDSA) -/

section abstract
open Sky.C10.ECDSA
variable {n : ℕ} [Fact n.Prime] {G : Type*} [AddCommGroup G] [Module (ZMod n) G]

theorem verify_sign (g : G) (x : G → ZMod n) (d z k : ZMod n) (hk : k ≠ 0)
    (hr : x (k • g) ≠ 0) (hs : sOf d z k (x (k • g)) ≠ 0) :
    verify g x (pub g d) z (x (k • g)) (sOf d z k (x (k • g))) :=
  ECDSA.verify_sign g x d z k hk hr hs

theorem recover_sign (g : G) (x : G → ZMod n) (d z k : ZMod n) (hk : k ≠ 0) (hr : x (k • g) ≠ 0) :
    recoverFrom g (k • g) z (x (k • g)) (sOf d z k (x (k • g))) = pub g d :=
  ECDSA.recover_sign g x d z k hk hr

/-- negating s preserves verification: without a rule on s every signature has a twin -/
theorem negS_verifies (g : G) (x : G → ZMod n) (hx : ∀ P, x (-P) = x P) (Q : G) (z r s : ZMod n)
    (h : verify g x Q z r s) : verify g x Q z r (-s) :=
  ECDSA.negS_verifies g x hx Q z r s h

/-- … and the twin recovers the same key with the parity bit of the recovery id flipped -/
theorem negS_recovers (g : G) (R : G) (z r s : ZMod n) :
    recoverFrom g (-R) z r (-s) = recoverFrom g R z r s :=
  ECDSA.negS_recovers g R z r s

/-- flipping only the parity bit recovers a different key (so the address check rejects it) -/
theorem recid_changes_key (g : G) (R : G) (z r s : ZMod n) (hr : r ≠ 0) (hs : s ≠ 0)
    (h2 : (2 : ZMod n) ≠ 0) (hR : R ≠ 0) :
    recoverFrom g (-R) z r s ≠ recoverFrom g R z r s :=
  ECDSA.recid_changes_key g R z r s hr hs h2 hR

end abstract

/-! ### (c) whole objects -/

open Sky.C10.Reduction in
/-- a third party cannot produce a different byte string that is accepted as a transaction spending
outputs of honest owners: see Sky.C10.Reduction for the meaning of each hypothesis. -/
theorem txn_nonmalleable {In Out Sg Hash Msg Addr : Type}
    (enc : Txn In Out Sg Hash → List Nat) (hInner : List In → List Out → Hash) (msgOf : Hash → In → Msg)
    (owner : In → Addr) (accepts : Addr → Msg → Sg → Prop)
    (decExact : List Nat → Option (Txn In Out Sg Hash))
    (canonical : ∀ b t, decExact b = some t → enc t = b)
    (encLen : ∀ t t' : Txn In Out Sg Hash, t.sigs = t'.sigs → t.ins = t'.ins → t.outs = t'.outs →
      (enc t).length = (enc t').length)
    (hInner_inj : ∀ i o i' o', hInner i o = hInner i' o' → i = i' ∧ o = o')
    (msg_inj : ∀ h i h' i', msgOf h i = msgOf h' i' → h = h' ∧ i = i')
    (Signed : Addr → Msg → Sg → Prop) (suf : ∀ a m σ, accepts a m σ → Signed a m σ)
    (t : Txn In Out Sg Hash) (ht : Accepted enc hInner msgOf owner accepts t)
    (honest : ∀ a m σ, Signed a m σ →
      ∃ i, ∃ (h : i < t.ins.length) (h' : i < t.sigs.length), a = owner t.ins[i] ∧ m = msgOf t.inner t.ins[i] ∧ σ = t.sigs[i])
    (b' : List Nat) (t' : Txn In Out Sg Hash) (hdec : decExact b' = some t')
    (ht' : Accepted enc hInner msgOf owner accepts t') : b' = enc t :=
  Reduction.txn_nonmalleable enc hInner msgOf owner accepts decExact canonical encLen hInner_inj msg_inj Signed suf t ht
    honest b' t' hdec ht'

open Sky.C10.Reduction in
theorem block_nonmalleable {Hdr Body Sg Hash : Type}
    (hashHeader : Hdr → Hash) (hashBody : Body → Hash) (bodyHashOf : Hdr → Hash) (seqOf : Hdr → Nat)
    (accepts : Hash → Sg → Prop)
    (enc : SBlock Hdr Body Sg → List Nat) (decExact : List Nat → Option (SBlock Hdr Body Sg))
    (canonical : ∀ x b, decExact x = some b → enc b = x)
    (hHeader_inj : ∀ h h', hashHeader h = hashHeader h' → h = h')
    (hBody_inj : ∀ y y', hashBody y = hashBody y' → y = y')
    (Signed : Hash → Sg → Prop) (suf : ∀ m σ, accepts m σ → Signed m σ)
    (published : List (SBlock Hdr Body Sg))
    (honest : ∀ m σ, Signed m σ → ∃ p ∈ published, m = hashHeader p.head ∧ σ = p.sig)
    (onePerSeq : ∀ p ∈ published, ∀ q ∈ published, seqOf p.head = seqOf q.head → p = q)
    (seq : Nat) (b : SBlock Hdr Body Sg) (hb : b ∈ published)
    (hacc : BlockAccepted hashHeader hashBody bodyHashOf seqOf accepts seq b)
    (x' : List Nat) (b' : SBlock Hdr Body Sg) (hdec : decExact x' = some b')
    (hacc' : BlockAccepted hashHeader hashBody bodyHashOf seqOf accepts seq b') : x' = enc b :=
  Reduction.block_nonmalleable hashHeader hashBody bodyHashOf seqOf accepts enc decExact canonical hHeader_inj hBody_inj
    Signed suf published honest onePerSeq seq b hb hacc x' b' hdec hacc'

/-! ### non-vacuity -/

/-- a real low-s signature (textbook signer, d = 12345, z = 67890, k = 424242) is accepted by the rule,
its negation is not -/
example : (sign 12345 67890 424242).isSome = true := by decide +kernel
example : sigValidity (toBE32 1 ++ toBE32 halfN ++ [3]) = .ok 1 := by decide +kernel
example : sigValidity (toBE32 1 ++ toBE32 (halfN + 1) ++ [0]) = .ok 0 := by decide +kernel
example : sigValidity (toBE32 1 ++ toBE32 1 ++ [4]) = .ok 0 := by decide +kernel

end Sky.Props.C10
