/-
  C25 — only correctly introduced peers reach the protocol.

  Model: Sky/C25/Model.lean — `verifyIntro` follows IntroductionMessage.Verify check by check (each Go slice expression is
  an explicit `slice` that can panic), `parseUA ∘ sanitize` is useragent.Parse ∘ Sanitize (regexp + blang/semver by hand),
  `gate` is the head of Daemon.onMessageEvent, `processIntro` is IntroductionMessage.process up to the state change.

  * `intro_total`        no panic for ANY Extra (and any header fields, any config)
  * `intro_verify_iff`   Verify accepts ⇔ not ourselves ∧ supported version ∧ Extra = own pubkey ‖ valid verify-params ‖
                         length-prefixed (≤ 256) user agent that is valid after sanitising ‖ (nothing | ≥ 32 bytes)
  * `intro_format_accepted` / `_rejected`  the same for an Extra written in the documented format
  * `intro_error_order_*` which reason is reported (the code's order)
  * `gate_blocks`, `gate_passes_iff`, `becomes_introduced_only_if_verified`
-/
import Sky.C25.Lemmas
import Sky.Gen.Codecs
namespace Sky.Props.C25
open Sky.Codec Sky.C25

/-- **malformed introduction extras never crash the node**: for every config and every message (arbitrary Extra) the
model of `Verify` — in which each slice expression of the Go code can panic — does not panic. -/
theorem intro_total (cfg : Cfg) (m : Intro) : ∀ w, verifyIntro cfg m ≠ .panic w :=
  fun w => verifyIntro_no_panic cfg m w

/-- what `Verify` accepts, without reference to the code's control flow -/
def Accepts (cfg : Cfg) (m : Intro) : Prop :=
  m.mirror ≠ cfg.mirror ∧                                   -- not a connection to ourselves
  cfg.minVersion ≤ m.version ∧                              -- supported protocol version
  42 ≤ m.extra.length ∧ m.extra.take 33 = cfg.pubkey ∧      -- carries this network's blockchain public key
  ∃ burn maxSize prec uaRaw rest,
    decExact VerifyTxnTy ((m.extra.take 42).drop 33) = .ok (burn, maxSize, prec) ∧
    minBurnFactor ≤ burn ∧ minTransactionSize ≤ maxSize ∧ prec ≤ dropletExponent ∧   -- valid verification parameters
    dec (.str userAgentMaxLen) (m.extra.drop 42) = .ok uaRaw rest ∧                  -- length-prefixed string ≤ 256
    (parseUA (sanitize uaRaw)).isSome = true ∧                                       -- a valid user agent
    (rest = [] ∨ 32 ≤ rest.length)                                                   -- no or a whole genesis hash

/-- **Verify accepts exactly the well-formed introductions.** -/
theorem intro_verify_iff (cfg : Cfg) (m : Intro) : (∃ p, verifyIntro cfg m = .ok p) ↔ Accepts cfg m := by
  rw [verifyIntro_eq_spec]
  unfold verifySpec Accepts
  constructor
  · rintro ⟨p, h⟩
    split at h; · cases h
    rename_i h1
    split at h; · cases h
    rename_i h2
    split at h; · cases h
    split at h; · cases h
    split at h; · cases h
    rename_i h5
    split at h; · cases h
    rename_i h6
    split at h; · cases h
    rename_i burn maxSize prec hp
    split at h; · cases h
    rename_i h7
    split at h; · cases h
    rename_i h8
    split at h; · cases h
    rename_i h9
    split at h; · cases h
    rename_i uaRaw rest hd
    split at h; · cases h
    rename_i ua hu
    split at h; · cases h
    rename_i h10
    refine ⟨h1, by omega, by omega, (Classical.not_not.1 h5).symm, burn, maxSize, prec, uaRaw, rest, hp,
      Nat.le_of_not_lt h7, Nat.le_of_not_lt h8, Nat.le_of_not_lt h9, hd, by simp [hu], ?_⟩
    cases rest with
    | nil => exact Or.inl rfl
    | cons x xs => right; simp only [List.length_cons] at h10 ⊢; omega
  · rintro ⟨h1, h2, h3, h4, burn, maxSize, prec, uaRaw, rest, hp, h7, h8, h9, hd, hu, hr⟩
    have c1 : ¬ m.version < cfg.minVersion := by omega
    have c2 : ¬ m.extra.length = 0 := by omega
    have c3 : ¬ m.extra.length < 33 := by omega
    have c4 : ¬ m.extra.length < 42 := by omega
    have c5 : ¬ burn < minBurnFactor := Nat.not_lt.2 h7
    have c6 : ¬ maxSize < minTransactionSize := Nat.not_lt.2 h8
    have c7 : ¬ prec > dropletExponent := Nat.not_lt.2 h9
    have c8 : ¬ (0 < rest.length ∧ rest.length < 32) := by
      rcases hr with h | h
      · subst h; simp
      · omega
    obtain ⟨ua, hua⟩ := Option.isSome_iff_exists.1 hu
    simp only [h1, c1, c2, c3, c4, h4, if_false, not_true_eq_false, hp, c5, c6, c7, hd, hua, c8]
    exact ⟨_, rfl⟩

/-- an Extra written in the documented format
`pubkey(33) ‖ BurnFactor u32 ‖ MaxTransactionSize u32 ‖ MaxDropletPrecision u8 ‖ len u32 ‖ userAgent ‖ tail`
is accepted exactly when the parameters and the (sanitised) user agent are valid and the tail is empty or holds a hash. -/
theorem intro_format_iff (cfg : Cfg) (mirror port : Nat) (version : Int) (burn maxSize prec : Nat) (ua tail : Bytes)
    (hpk : cfg.pubkey.length = 33) (hb : burn < 2 ^ 32) (hm : maxSize < 2 ^ 32) (hp : prec < 2 ^ 8)
    (hua : ua.length ≤ 256) :
    Accepts cfg ⟨mirror, port, version,
        cfg.pubkey ++ (enc VerifyTxnTy (burn, maxSize, prec) ++ (enc (.str userAgentMaxLen) ua ++ tail))⟩ ↔
      mirror ≠ cfg.mirror ∧ cfg.minVersion ≤ version ∧ minBurnFactor ≤ burn ∧ minTransactionSize ≤ maxSize ∧
      prec ≤ dropletExponent ∧ (parseUA (sanitize ua)).isSome = true ∧ (tail = [] ∨ 32 ≤ tail.length) := by
  have hlen9 : (enc VerifyTxnTy (burn, maxSize, prec)).length = 9 := by simp [enc]
  have htake33 : ∀ r : Bytes, (cfg.pubkey ++ r).take 33 = cfg.pubkey := by
    intro r; rw [← hpk]; simp
  have tl : ∀ (l₁ l₂ : Bytes) (n : Nat), l₁.length = n → (l₁ ++ l₂).take n = l₁ := by
    intro l₁ l₂ n h; subst h; simp
  have dl : ∀ (l₁ l₂ : Bytes) (n : Nat), l₁.length = n → (l₁ ++ l₂).drop n = l₂ := by
    intro l₁ l₂ n h; subst h; simp
  have h42 : ∀ r : Bytes, ((cfg.pubkey ++ (enc VerifyTxnTy (burn, maxSize, prec) ++ r)).take 42).drop 33 =
      enc VerifyTxnTy (burn, maxSize, prec) := by
    intro r
    rw [← List.append_assoc, tl _ r 42 (by simp [hpk, hlen9]), dl _ _ 33 hpk]
  have hdrop42 : ∀ r : Bytes, (cfg.pubkey ++ (enc VerifyTxnTy (burn, maxSize, prec) ++ r)).drop 42 = r := by
    intro r
    have : (cfg.pubkey ++ enc VerifyTxnTy (burn, maxSize, prec)).length = 42 := by simp [hpk, hlen9]
    rw [← List.append_assoc, ← this]; simp
  have hparams : decExact VerifyTxnTy (enc VerifyTxnTy (burn, maxSize, prec)) = .ok (burn, maxSize, prec) := by
    have := Sky.Codec.dec_enc_exact VerifyTxnTy (by decide) (burn, maxSize, prec) ⟨hb, hm, hp⟩
    simp [decExact, this, exact]
  have hstr : dec (.str userAgentMaxLen) (enc (.str userAgentMaxLen) ua ++ tail) = .ok ua tail :=
    Sky.Codec.dec_enc (.str userAgentMaxLen) rfl rfl ua ⟨by omega, Or.inr hua⟩ tail
  unfold Accepts
  simp only [htake33, h42, hdrop42, hparams, hstr]
  constructor
  · rintro ⟨h1, h2, _, _, b', ms', p', ua', rest', he, h3, h4, h5, hd, hu, hr⟩
    injection he with he; injection he with e1 e23; injection e23 with e2 e3
    injection hd with e4 e5
    subst e1 e2 e3 e4 e5
    exact ⟨h1, h2, h3, h4, h5, hu, hr⟩
  · rintro ⟨h1, h2, h3, h4, h5, hu, hr⟩
    refine ⟨h1, h2, ?_, trivial, burn, maxSize, prec, ua, tail, rfl, h3, h4, h5, rfl, hu, hr⟩
    simp [hpk, hlen9]; omega

/-! ### which reason is reported (the code's order) -/

theorem intro_error_order_self (cfg : Cfg) (m : Intro) (h : m.mirror = cfg.mirror) :
    verifyIntro cfg m = .err "ErrDisconnectSelf" := by
  rw [verifyIntro_eq_spec]; simp [verifySpec, h]

theorem intro_error_order_version (cfg : Cfg) (m : Intro) (h1 : m.mirror ≠ cfg.mirror) (h2 : m.version < cfg.minVersion) :
    verifyIntro cfg m = .err "ErrDisconnectVersionNotSupported" := by
  rw [verifyIntro_eq_spec]; simp [verifySpec, h1, h2]

theorem intro_error_order_no_pubkey (cfg : Cfg) (m : Intro) (h1 : m.mirror ≠ cfg.mirror) (h2 : cfg.minVersion ≤ m.version)
    (h3 : m.extra = []) : verifyIntro cfg m = .err "ErrDisconnectBlockchainPubkeyNotProvided" := by
  have : ¬ m.version < cfg.minVersion := by omega
  rw [verifyIntro_eq_spec]; simp [verifySpec, h1, this, h3]

theorem intro_error_order_pubkey (cfg : Cfg) (m : Intro) (h1 : m.mirror ≠ cfg.mirror) (h2 : cfg.minVersion ≤ m.version)
    (h3 : 33 ≤ m.extra.length) (h4 : m.extra.take 33 ≠ cfg.pubkey) :
    verifyIntro cfg m = .err "ErrDisconnectBlockchainPubkeyNotMatched" := by
  have c1 : ¬ m.version < cfg.minVersion := by omega
  have c2 : ¬ m.extra.length = 0 := by omega
  have c3 : ¬ m.extra.length < 33 := by omega
  have c4 : ¬ cfg.pubkey = m.extra.take 33 := fun h => h4 h.symm
  rw [verifyIntro_eq_spec]; simp [verifySpec, h1, c1, c2, c3, c4]

/-! ### the gate -/

/-- **any other message received before introduction causes a disconnect**: on a connection that has not
introduced, every message kind except INTR, DISC and GIVP is answered with ErrDisconnectNoIntroduction and is
not processed. -/
theorem gate_blocks (gnetID : Nat) (k : MsgKind) (hk : k ≠ .intr ∧ k ≠ .disc ∧ k ≠ .givp) :
    gate (some (gnetID, false)) gnetID k = .disconnectNoIntroduction := by
  obtain ⟨h1, h2, h3⟩ := hk
  cases k <;> simp_all [gate]

/-- a message is processed iff its connection exists with the same gnet id and either it has introduced or the
message is INTR / DISC / GIVP. -/
theorem gate_passes_iff (conn : Option (Nat × Bool)) (ctx : Nat) (k : MsgKind) :
    gate conn ctx k = .processed ↔
      ∃ introduced, conn = some (ctx, introduced) ∧ (introduced = true ∨ k = .intr ∨ k = .disc ∨ k = .givp) := by
  cases conn with
  | none => simp [gate]
  | some c =>
    obtain ⟨id, intro⟩ := c
    by_cases hid : id = ctx
    · subst hid
      cases intro <;> cases k <;> simp [gate]
    · simp [gate, hid]

/-- **a connection becomes introduced only if its introduction verifies**: `process` reaches the state change
(`connections.introduced`) exactly when `Verify` accepts, and then with the parsed data. -/
theorem becomes_introduced_only_if_verified (cfg : Cfg) (m : Intro) (p : Parsed) :
    processIntro cfg m = .tryIntroduce p ↔ verifyIntro cfg m = .ok p := by
  unfold processIntro
  cases verifyIntro cfg m <;> simp

theorem rejected_intro_disconnects (cfg : Cfg) (m : Intro) (h : ¬ Accepts cfg m) :
    ∃ r, processIntro cfg m = .disconnect r := by
  unfold processIntro
  cases hv : verifyIntro cfg m with
  | ok p => exact absurd ((intro_verify_iff cfg m).1 ⟨p, hv⟩) h
  | err r => exact ⟨r, rfl⟩
  | panic w => exact absurd hv (intro_total cfg m w)

/-! ### regenerated constants -/

theorem consts_eq : Sky.Gen.Codecs.paramsMinBurnFactor = minBurnFactor ∧
    Sky.Gen.Codecs.paramsMinTransactionSize = minTransactionSize ∧ Sky.Gen.Codecs.dropletExponent = dropletExponent ∧
    Sky.Gen.Codecs.useragentMaxLen = userAgentMaxLen := by decide

/-- the user-agent grammar the model implements is the one in the source -/
theorem useragent_patterns :
    Sky.Gen.Codecs.useragentIllegalChars = "`<>&\"'#@|{}` + \"`\"" ∧
    Sky.Gen.Codecs.useragentNamePattern = "`[A-Za-z0-9\\-_+]+`" ∧
    Sky.Gen.Codecs.useragentVersionPattern = "`[0-9]+\\.[0-9]+\\.[0-9][A-Za-z0-9\\-.+]*`" ∧
    Sky.Gen.Codecs.useragentRemarkPattern = "`[A-Za-z0-9\\-_+;:!$%,.=?~ ]+`" ∧
    Sky.Gen.Codecs.useragentPattern = "`^(` + NamePattern + `):(` + VersionPattern + `)(\\(` + RemarkPattern + `\\))?$`" ∧
    Sky.Gen.Codecs.useragentSanitizeRe = "regexp.MustCompile(fmt.Sprintf(\"([^[:print:]]|[%s])+\", IllegalChars))" := by decide

/-! ### non-vacuity -/
section Examples
def pk : Bytes := 2 :: List.replicate 32 7
def cfg : Cfg := ⟨1111, 24, pk⟩
/-- "skycoin:0.26.0(x)" -/
def uaBytes : Bytes := [115, 107, 121, 99, 111, 105, 110, 58, 48, 46, 50, 54, 46, 48, 40, 120, 41]
def goodExtra : Bytes := pk ++ (enc VerifyTxnTy (10, 32768, 3) ++ (enc (.str 256) uaBytes ++ List.replicate 32 9))

example : (verifyIntro cfg ⟨5, 6000, 25, goodExtra⟩ matches .ok _) = true := by decide
example : verifyIntro cfg ⟨5, 6000, 25, goodExtra.take 50⟩ = .err "ErrDisconnectInvalidExtraData" := by decide
example : verifyIntro cfg ⟨5, 6000, 25, goodExtra ++ [1]⟩ matches .ok _ := by decide
example : verifyIntro cfg ⟨5, 6000, 25, goodExtra.take 70⟩ = .err "ErrDisconnectInvalidExtraData" := by decide
example : verifyIntro cfg ⟨1111, 6000, 25, goodExtra⟩ = .err "ErrDisconnectSelf" := by decide
example : (parseUA (sanitize uaBytes)).isSome = true := by decide
/-- "skycoin:01.2.3" has a leading zero -/
example : parseUA [115, 107, 121, 99, 111, 105, 110, 58, 48, 49, 46, 50, 46, 51] = none := by decide
example : gate (some (7, false)) 7 .getb = .disconnectNoIntroduction ∧ gate (some (7, false)) 7 .intr = .processed ∧
    gate (some (7, true)) 7 .getb = .processed ∧ gate (some (7, true)) 8 .getb = .dropped := by decide
end Examples

end Sky.Props.C25
