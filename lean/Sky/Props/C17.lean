/-
  C17 — wallet address derivation is deterministic and batch-independent.
  The iterator `step`, the child-key functions and `pubOf`/`addrOf` are parameters; the one
  cryptographic fact used (`ckd_commutes`, C16) is an explicit hypothesis.
-/
import Sky.C17.Model
namespace Sky.Props.C17
open Sky.C17

section det
variable {Seed Key : Type} (step : Seed → Seed × Key)

theorem iter_add (a b : Nat) (s : Seed) :
    iter step (a + b) s = ((iter step b (iter step a s).1).1, (iter step a s).2 ++ (iter step b (iter step a s).1).2) := by
  induction a generalizing s with
  | zero => simp [iter]
  | succ n ih =>
    have : n + 1 + b = (n + b) + 1 := by omega
    rw [this]
    simp only [iter]
    rw [ih]
    simp

theorem iter_length (n : Nat) (s : Seed) : (iter step n s).2.length = n := by
  induction n generalizing s with
  | zero => simp [iter]
  | succ n ih => simp [iter, ih]

/-- the wallet holds exactly the first N keys of the sequence unfolded from its seed, and its
`lastSeed` is the N-th iterator state -/
def Inv (w : DW Seed Key) : Prop :=
  w.entries = (iter step w.entries.length w.seed).2 ∧ w.last = (iter step w.entries.length w.seed).1

theorem init_inv (seed : Seed) : Inv step (DW.init seed : DW Seed Key) := by simp [Inv, DW.init, iter]

theorem generate_inv (w : DW Seed Key) (n : Nat) (h : Inv step w) :
    Inv step (generate step w n) ∧ (generate step w n).seed = w.seed ∧
    (generate step w n).entries.length = w.entries.length + n := by
  unfold generate
  by_cases hn : n = 0
  · simp [hn, h]
  · rw [if_neg hn]
    obtain ⟨h1, h2⟩ := h
    -- the source state is the state after the keys already held
    have hsrc : (if w.entries.isEmpty then w.seed else w.last) = (iter step w.entries.length w.seed).1 := by
      by_cases he : w.entries.isEmpty = true
      · have : w.entries = [] := by simpa using he
        simp [this, iter]
      · simp [he, h2]
    rw [hsrc]
    have hlen := iter_length step n (iter step w.entries.length w.seed).1
    have hadd := iter_add step w.entries.length n w.seed
    refine ⟨⟨?_, ?_⟩, rfl, by simp [hlen]⟩
    · simp only [List.length_append, hlen]
      rw [hadd]; simp only; rw [← h1]
    · simp only [List.length_append, hlen]
      rw [hadd]

theorem reset_inv (w : DW Seed Key) : Inv step (reset w) := by simp [Inv, reset, iter]

theorem scan_inv (w : DW Seed Key) (n : Nat) (active : List Bool) (h : Inv step w) :
    Inv step (scan step w n active) ∧ (scan step w n active).seed = w.seed ∧
    (scan step w n active).entries.length = if n = 0 then w.entries.length
      else w.entries.length + keepNum (active.take n) := by
  unfold scan
  by_cases hn : n = 0
  · simp [hn, h]
  · rw [if_neg hn, if_neg hn]
    obtain ⟨g1, g2, g3⟩ := generate_inv step (reset w) (w.entries.length + keepNum (active.take n)) (reset_inv step w)
    exact ⟨g1, by simpa [reset] using g2, by simpa [reset] using g3⟩

theorem apply_inv (w : DW Seed Key) (op : Op) (h : Inv step w) :
    Inv step (apply step w op) ∧ (apply step w op).seed = w.seed := by
  cases op with
  | gen n => exact ⟨(generate_inv step w n h).1, (generate_inv step w n h).2.1⟩
  | scan n a => exact ⟨(scan_inv step w n a h).1, (scan_inv step w n a h).2.1⟩
  | reload => exact ⟨h, rfl⟩
  | relock => exact ⟨h, rfl⟩
  | lock => exact ⟨h, rfl⟩
  | unlock => exact ⟨h, rfl⟩
  | scanFail n => exact ⟨h, rfl⟩

/-- **entries_eq_prefix**: after ANY sequence of generate / scan / save-reload / lock / unlock
operations the wallet's entries are exactly the first N keys of the single sequence determined by
the seed, N = the number of entries kept so far, and `lastSeed` is the N-th state: the addresses
depend on the seed and on how many were derived in total, not on the batches -/
theorem entries_eq_prefix (seed : Seed) (ops : List Op) :
    let w := run step seed ops
    w.seed = seed ∧ w.entries = (iter step w.entries.length seed).2 ∧ w.last = (iter step w.entries.length seed).1 := by
  intro w
  have : ∀ (ops : List Op) (w0 : DW Seed Key), Inv step w0 →
      Inv step (ops.foldl (apply step) w0) ∧ (ops.foldl (apply step) w0).seed = w0.seed := by
    intro ops
    induction ops with
    | nil => intro w0 h; exact ⟨h, rfl⟩
    | cons op r ih =>
      intro w0 h
      obtain ⟨a1, a2⟩ := apply_inv step w0 op h
      obtain ⟨b1, b2⟩ := ih _ a1
      exact ⟨b1, by simp only [List.foldl_cons]; rw [b2, a2]⟩
  obtain ⟨⟨i1, i2⟩, i3⟩ := this ops (DW.init seed) (init_inv step seed)
  have hs : w.seed = seed := i3
  refine ⟨hs, ?_, ?_⟩
  · rw [← hs]; exact i1
  · rw [← hs]; exact i2

/-- **batch independence**: generating `a` then `b` addresses is generating `a + b` -/
theorem generate_batch (w : DW Seed Key) (a b : Nat) :
    generate step (generate step w a) b = generate step w (a + b) := by
  by_cases ha : a = 0
  · subst ha; simp [generate]
  by_cases hb : b = 0
  · subst hb; simp [generate]
  have hab : a + b ≠ 0 := by omega
  simp only [generate, if_neg ha, if_neg hb, if_neg hab]
  have hne : (w.entries ++ (iter step a (if w.entries.isEmpty then w.seed else w.last)).2).isEmpty = false := by
    have := iter_length step a (if w.entries.isEmpty then w.seed else w.last)
    cases h : (iter step a (if w.entries.isEmpty then w.seed else w.last)).2 with
    | nil => rw [h] at this; simp at this; omega
    | cons x r => simp
  simp only [hne, Bool.false_eq_true, if_false]
  rw [iter_add]
  simp [List.append_assoc]

/-- a shorter derivation is a prefix of a longer one -/
theorem prefix_stable (seed : Seed) (n m : Nat) (h : n ≤ m) :
    (iter step m seed).2.take n = (iter step n seed).2 := by
  obtain ⟨d, rfl⟩ := Nat.exists_eq_add_of_le h
  rw [iter_add]
  simp only
  have := iter_length step n seed
  rw [List.take_append_of_le_length (by omega)]
  rw [List.take_of_length_le (by omega)]

end det

/-! ### entries are consistent -/

/-- a deterministic / collection entry is built from its secret key: `pub = pubOf sec`,
`addr = addrOf pub` hold by construction -/
structure Entry (Sec Pub Addr : Type) where
  sec : Sec
  pub : Pub
  addr : Addr

def mkEntry {Sec Pub Addr : Type} (pubOf : Sec → Pub) (addrOf : Pub → Addr) (s : Sec) : Entry Sec Pub Addr :=
  ⟨s, pubOf s, addrOf (pubOf s)⟩

theorem entry_consistent {Sec Pub Addr : Type} (pubOf : Sec → Pub) (addrOf : Pub → Addr) (keys : List Sec) :
    ∀ e ∈ keys.map (mkEntry pubOf addrOf), e.addr = addrOf e.pub ∧ e.pub = pubOf e.sec := by
  intro e he
  obtain ⟨s, _, rfl⟩ := List.mem_map.mp he
  exact ⟨rfl, rfl⟩

/-! ### chain wallets -/

section chain
variable {Pub : Type} (child : Nat → Pub)

def CInv (w : CW Pub) : Prop := w.entries = (List.range w.entries.length).map child

theorem cgen_inv (w : CW Pub) (n : Nat) (h : CInv child w) :
    CInv child (cgen child w n) ∧ (cgen child w n).entries.length = w.entries.length + n := by
  unfold cgen CInv at *
  refine ⟨?_, by simp⟩
  simp only [List.length_append, List.length_map, List.length_range]
  rw [List.range_add, List.map_append, ← h]
  simp [List.map_map, Function.comp_def]

theorem crun_inv (ops : List Op) : CInv child (crun child ops) := by
  have : ∀ (ops : List Op) (w0 : CW Pub), CInv child w0 → CInv child (ops.foldl (capply child) w0) := by
    intro ops
    induction ops with
    | nil => intro w0 h; exact h
    | cons op r ih =>
      intro w0 h
      apply ih
      cases op with
      | gen n => exact (cgen_inv child w0 n h).1
      | scan n a =>
        unfold capply cscan
        by_cases hn : n = 0
        · simp [hn, h]
        · simp only [if_neg hn]
          exact (cgen_inv child ⟨[]⟩ _ (by simp [CInv])).1
      | reload => exact h
      | relock => exact h
      | lock => exact h
      | unlock => exact h
      | scanFail n => exact h
  exact this ops ⟨[]⟩ (by simp [CInv])

/-- **entries_eq_prefix** for bip44 chains and xpub wallets: entry i is child i of the chain key,
whatever the batches -/
theorem chain_entries_eq_prefix (ops : List Op) :
    (crun child ops).entries = (List.range (crun child ops).entries.length).map child :=
  crun_inv child ops

/-- a scan never shrinks a chain: the entries held before are a prefix of the entries held after
(each account and chain of a multi-account wallet is such a chain) -/
theorem cscan_keeps (w : CW Pub) (n : Nat) (active : List Bool) (h : CInv child w) :
    (cscan child w n active).entries.take w.entries.length = w.entries ∧
    w.entries.length ≤ (cscan child w n active).entries.length := by
  unfold cscan
  by_cases hn : n = 0
  · simp [hn]
  · rw [if_neg hn]
    unfold cgen
    simp only [List.length_nil, Nat.zero_add, List.nil_append, List.length_map, List.length_range]
    refine ⟨?_, by omega⟩
    rw [List.range_add, List.map_append, List.take_append_of_le_length (by simp)]
    rw [List.take_of_length_le (by simp)]
    exact h.symm

theorem cgen_batch (w : CW Pub) (a b : Nat) : cgen child (cgen child w a) b = cgen child w (a + b) := by
  simp only [cgen, List.length_append, List.length_map, List.length_range, List.append_assoc]
  congr 2
  rw [List.range_add, List.map_append]
  simp [List.map_map, Function.comp_def, Nat.add_assoc]

/-- **xpub_matches_bip44**: a watch-only wallet built from the public key `P` of a bip44
external chain derives the same public keys (hence addresses) as the bip44 wallet does on that
chain, for the same number of entries, and — under `ckd_commutes` (C16) — each is the public key
of the bip44 entry's secret key -/
theorem xpub_matches_bip44 {Sec : Type} (pubOf : Sec → Pub) (ckdPriv : Sec → Nat → Sec) (ckdPub : Pub → Nat → Pub)
    (kExt : Sec) (hckd : ∀ i, pubOf (ckdPriv kExt i) = ckdPub (pubOf kExt) i)
    (opsX opsB : List Op)
    (hN : (crun (ckdPub (pubOf kExt)) opsX).entries.length = (crun (ckdPub (pubOf kExt)) opsB).entries.length) :
    (crun (ckdPub (pubOf kExt)) opsX).entries = (crun (ckdPub (pubOf kExt)) opsB).entries ∧
    (crun (ckdPub (pubOf kExt)) opsB).entries =
      (List.range (crun (ckdPub (pubOf kExt)) opsB).entries.length).map (fun i => pubOf (ckdPriv kExt i)) := by
  have h1 := chain_entries_eq_prefix (ckdPub (pubOf kExt)) opsX
  have h2 := chain_entries_eq_prefix (ckdPub (pubOf kExt)) opsB
  refine ⟨by rw [h1, h2, hN], ?_⟩
  rw [h2]
  simp only [List.length_map, List.length_range]
  apply List.map_congr_left
  intro i _
  exact (hckd i).symm

end chain

/-! ### non-vacuity -/

def exStep : Nat → Nat × Nat := fun s => (s * 3 + 1, s * 10)

example : (run exStep 7 [.gen 2, .reload, .gen 1, .scan 3 [false, true, false], .relock]).entries =
    (iter exStep 5 7).2 := by decide
example : (run exStep 7 [.gen 2, .gen 3]).entries = (run exStep 7 [.gen 5]).entries := by decide
example : (run exStep 7 [.gen 2, .scan 4 [false, false, false, false]]).entries = (iter exStep 2 7).2 := by decide
example : keepNum [false, true, true, false] = 3 := by decide
example : (crun (fun i => i * i) [.gen 2, .scan 3 [true, false, false], .gen 1]).entries = [0, 1, 4, 9] := by decide

end Sky.Props.C17
