/-
  C30 — property theorems about the hand model of `droplet.ToString` / `droplet.FromString`
  (Sky.C30.Model; tied to the Go code by the correspondence harness) and the grammar G of decimal
  amount strings (Sky.C30.Spec).  All statements are for ALL amounts / ALL byte strings.
-/
import Sky.C30.Text
import Sky.C30.Sound
namespace Sky.Props.C30
open Sky Sky.C30

/-- amounts above MaxInt64 have no text -/
theorem toString_large (n : Nat) (h : n > maxInt64) : toText n = .err (.named "ErrTooLarge") := by
  unfold toText; rw [if_pos h]

/-- the six-decimal text of a representable amount: digits of `n / 10^6` (no superfluous leading
zero), a point, exactly six digits spelling `n % 10^6` -/
theorem toString_shape (n : Nat) (h : n ≤ maxInt64) :
    ∃ ip fp, toText n = .ok (ip ++ [46] ++ fp) ∧ ip ≠ [] ∧ ip.all isDigit = true ∧
      fp.all isDigit = true ∧ fp.length = 6 ∧ valOf ip = n / 1000000 ∧ valOf fp = n % 1000000 ∧
      (ip = [48] ∨ ∃ b r, ip = b :: r ∧ b ≠ 48) := by
  obtain ⟨ip, fp, hs, hne, hid, hfd, hfl, hv, hz⟩ := stringFixed6_split n
  refine ⟨ip, fp, ?_, hne, hid, hfd, hfl, ?_, ?_, hz⟩
  · unfold toText; rw [if_neg (by omega), round_half_up_id, hs]
  all_goals
    rw [valOf_append, hfl] at hv
    have hlt := valOf_lt fp hfd
    rw [hfl] at hlt
    have e : (10 : Nat) ^ 6 = 1000000 := by decide
    rw [e] at hv hlt
    omega

/-- **text → amount inverts amount → text, for every representable amount** -/
theorem toString_fromString (n : Nat) (h : n ≤ maxInt64) (s : Bytes) (hs : toText n = .ok s) :
    fromString s = .ok n := by
  obtain ⟨ip, fp, hsplit, hne, hid, hfd, hfl, hv, _⟩ := stringFixed6_split n
  have hs' : s = ip ++ [46] ++ fp := by
    unfold toText at hs; rw [if_neg (by omega), round_half_up_id, hsplit] at hs
    cases hs; rfl
  let l : Lit := ⟨[], ip, some fp, none⟩
  have hwf : l.WF := ⟨rfl, hid, hfd, by simp [l, Lit.fpDigits, hne], by intro m s' d he; cases he⟩
  have hr : l.render = s := by rw [hs']; simp [Lit.render, l, cDot]
  have hfp : l.fpDigits = fp := rfl
  have htd : l.tdigits ≠ [] := by simp [Lit.tdigits, l, hne]
  have hex : l.expVal = 0 := rfl
  have htl := trimRight0_length_le fp
  have hce : l.cexp = -((trimRight0 fp).length : Int) := by simp [Lit.cexp, hfp, hex]
  have hcoef : l.coef = (valOf (ip ++ trimRight0 fp) : Int) := by
    simp [Lit.coef, Lit.neg, Lit.tdigits, Lit.fpDigits, l, signedVal]
  have hval : valOf (ip ++ trimRight0 fp) * 10 ^ (l.cexp + 6).toNat = n := by
    rw [← hv, valOf_trimRight0 ip fp]
    congr 2; omega
  rw [← hr, fromString_render l hwf htd (by rw [hex]; decide)]
  have hprod : l.coef * 10 ^ (l.cexp + 6).toNat = (n : Int) := by
    rw [hcoef, ← hval]; simp
  rw [hprod]
  have hmax : (maxInt64 : Int) = 9223372036854775807 := rfl
  have hmaxn : maxInt64 = 9223372036854775807 := rfl
  rw [if_neg (by omega), if_neg (by rw [hcoef]; omega), if_neg (by omega), if_neg (by omega), if_neg (by omega)]
  simp

/-- `FromString` never panics -/
theorem fromString_total (s : Bytes) (p : String) : fromString s ≠ .panic p := by
  unfold fromString
  split; · intro h; cases h
  split; · intro h; cases h
  split; · intro h; cases h
  split; · intro h; cases h
  dsimp only
  split; · intro h; cases h
  split <;> (intro h; cases h)

/-- **exact characterisation of acceptance**: `FromString s = v` iff `s` is a literal of the grammar
G with at least one integer or significant digit whose coefficient `c` and exponent `e` in the
library's normal form (fraction zeros trimmed) satisfy `c ≥ 0`, `−6 ≤ e ≤ 2^31−7`,
`c·10^(e+6) ≤ MaxInt64`, and `v = c·10^(e+6)`. -/
theorem fromString_iff (s : Bytes) (v : Nat) :
    fromString s = .ok v ↔
      ∃ l : Lit, l.WF ∧ l.render = s ∧ l.tdigits ≠ [] ∧
        (-2147483648 ≤ l.expVal ∧ l.expVal ≤ 2147483647) ∧ -2147483648 ≤ l.cexp ∧
        0 ≤ l.coef ∧ -6 ≤ l.cexp ∧ l.cexp ≤ 2147483641 ∧
        l.coef * 10 ^ (l.cexp + 6).toNat ≤ (maxInt64 : Int) ∧
        v = (l.coef * 10 ^ (l.cexp + 6).toNat).toNat := by
  constructor
  · intro h
    have hcds : containsDotSign s = false := by
      cases hc : containsDotSign s with
      | false => rfl
      | true => unfold fromString at h; rw [hc] at h; simp at h
    cases hn : newFromString s with
    | none => unfold fromString at h; rw [hcds, hn] at h; simp at h
    | some d =>
      obtain ⟨l, hwf, hr, htd, hre, hrc, hd⟩ := newFromString_sound s d hcds hn
      rw [← hr, fromString_render l hwf htd hre] at h
      split at h; · cases h
      split at h; · cases h
      split at h; · cases h
      split at h; · cases h
      split at h; · cases h
      cases h
      exact ⟨l, hwf, hr, htd, hre, hrc.1, by omega, by omega, by omega, by omega, rfl⟩
  · rintro ⟨l, hwf, hr, htd, hre, hlo, hc0, h6, hhi, hfit, hv⟩
    rw [← hr, fromString_render l hwf htd hre]
    rw [if_neg (by omega), if_neg (by omega), if_neg (by omega), if_neg (by omega), if_neg (by omega), hv]

/-- **soundness by value**: an accepted string is a literal of G denoting a non-negative amount,
the result is its exact number of droplets (10^-6), and it fits in int64 -/
theorem fromString_sound (s : Bytes) (v : Nat) (h : fromString s = .ok v) :
    ∃ l : Lit, l.WF ∧ l.render = s ∧ l.nonneg = true ∧ l.IsDroplets v ∧ v ≤ maxInt64 := by
  obtain ⟨l, hwf, hr, _, _, _, hc0, h6, _, hfit, hv⟩ := (fromString_iff s v).1 h
  have hnn := (l.coef_nonneg_iff).1 hc0
  refine ⟨l, hwf, hr, hnn, ?_, ?_⟩
  · rw [hv]; exact l.isDroplets_of_normal hnn h6
  · rw [hv]
    have hmax : (maxInt64 : Int) = 9223372036854775807 := rfl
    have hmaxn : maxInt64 = 9223372036854775807 := rfl
    omega

/-- strings outside G are rejected (with an error, not a panic) -/
theorem fromString_rejects_non_decimal (s : Bytes) (h : ∀ l : Lit, l.WF → l.render ≠ s) :
    ∃ e, fromString s = .err e := by
  cases hf : fromString s with
  | ok v => obtain ⟨l, hwf, hr, _⟩ := fromString_sound s v hf; exact absurd hr (h l hwf)
  | err e => exact ⟨e, rfl⟩
  | panic p => exact absurd hf (fromString_total s p)

/-- **completeness in normal form**: a literal denoting a non-negative amount with exact droplet
value `v ≤ MaxInt64` is accepted with that value, provided its normal-form exponent is ≥ −6. -/
theorem fromString_complete (l : Lit) (hwf : l.WF) (htd : l.tdigits ≠ [])
    (hre : -2147483648 ≤ l.expVal ∧ l.expVal ≤ 2147483647) (hhi : l.cexp ≤ 2147483641)
    (hnn : l.nonneg = true) (h6 : -6 ≤ l.cexp) (v : Nat) (hv : l.IsDroplets v) (hfit : v ≤ maxInt64) :
    fromString l.render = .ok v := by
  have hc0 := (l.coef_nonneg_iff).2 hnn
  have hd := l.isDroplets_of_normal hnn h6
  have heq := isDroplets_unique l _ _ hd hv
  have hp0 : 0 ≤ l.coef * 10 ^ (l.cexp + 6).toNat := Int.mul_nonneg hc0 (Int.pow_nonneg (by decide))
  have hmax : (maxInt64 : Int) = 9223372036854775807 := rfl
  have hmaxn : maxInt64 = 9223372036854775807 := rfl
  rw [fromString_render l hwf htd hre]
  rw [if_neg (by omega), if_neg (by omega), if_neg (by omega), if_neg (by omega), if_neg (by omega), heq]

/-- **ordinary notation (no exponent part, at least one integer digit) is accepted exactly by
value**: `FromString` returns `v` iff the amount is non-negative, `v` is its exact number of droplets
(so it has at most six decimal places, trailing zeros not counted) and `v ≤ MaxInt64`. -/
theorem fromString_plain_iff (l : Lit) (hwf : l.WF) (hex : l.ex = none) (hip : l.ip ≠ []) (v : Nat) :
    fromString l.render = .ok v ↔ l.nonneg = true ∧ l.IsDroplets v ∧ v ≤ maxInt64 := by
  have htd : l.tdigits ≠ [] := by simp [Lit.tdigits, hip]
  have hev : l.expVal = 0 := by simp [Lit.expVal, hex]
  have hre : -2147483648 ≤ l.expVal ∧ l.expVal ≤ 2147483647 := by rw [hev]; decide
  have hce : l.cexp = -((trimRight0 l.fpDigits).length : Int) := by simp [Lit.cexp, hev]
  have hmax : (maxInt64 : Int) = 9223372036854775807 := rfl
  have hmaxn : maxInt64 = 9223372036854775807 := rfl
  constructor
  · intro h
    rw [fromString_render l hwf htd hre] at h
    split at h; · cases h
    split at h; · cases h
    split at h; · cases h
    split at h; · cases h
    split at h; · cases h
    cases h
    rename_i _ hc0 h6 _ hfit
    have hnn := (l.coef_nonneg_iff).1 (by omega)
    exact ⟨hnn, l.isDroplets_of_normal hnn (by omega), by omega⟩
  · rintro ⟨hnn, hv, hfit⟩
    have h6 : -6 ≤ l.cexp := by
      by_cases ht : trimRight0 l.fpDigits = []
      · rw [hce, ht]; simp
      · exact l.cexp_ge_of_droplets v hv (l.tdigits_mod10 hwf ht)
    exact fromString_complete l hwf htd hre (by omega) hnn h6 v hv hfit

/-- `ToString` succeeds exactly on the representable amounts -/
theorem toString_ok_iff (n : Nat) : (∃ s, toText n = .ok s) ↔ n ≤ maxInt64 := by
  constructor
  · rintro ⟨s, hs⟩
    refine Nat.le_of_not_lt fun hgt => ?_
    rw [toString_large n hgt] at hs; cases hs
  · intro h
    obtain ⟨ip, fp, hs, _⟩ := toString_shape n h
    exact ⟨_, hs⟩

/-- `ToString` never panics -/
theorem toString_total (n : Nat) (p : String) : toText n ≠ .panic p := by
  by_cases h : n ≤ maxInt64
  · obtain ⟨s, hs⟩ := (toString_ok_iff n).2 h
    rw [hs]; intro e; cases e
  · rw [toString_large n (by omega)]; intro e; cases e

/-- **the text is a faithful name of the amount**: two amounts with the same text are equal
(no two balances print alike) -/
theorem toString_injective (m n : Nat) (s : Bytes) (hm : toText m = .ok s) (hn : toText n = .ok s) :
    m = n := by
  have hm' := (toString_ok_iff m).1 ⟨s, hm⟩
  have hn' := (toString_ok_iff n).1 ⟨s, hn⟩
  have e1 := toString_fromString m hm' s hm
  have e2 := toString_fromString n hn' s hn
  rw [e1] at e2; cases e2; rfl

/-- **canonicalisation**: whatever spelling was accepted, printing the parsed amount gives a text
that parses back to the same amount (parse ∘ print ∘ parse = parse) -/
theorem fromString_toString_fromString (s : Bytes) (v : Nat) (h : fromString s = .ok v) :
    ∃ t, toText v = .ok t ∧ fromString t = .ok v := by
  obtain ⟨_, _, _, _, _, hfit⟩ := fromString_sound s v h
  obtain ⟨t, ht⟩ := (toString_ok_iff v).2 hfit
  exact ⟨t, ht, toString_fromString v hfit t ht⟩

/-! ### non-vacuity and the recorded counterexamples -/

-- "123.000456"
example : fromString [49,50,51,46,48,48,48,52,53,54] = .ok 123000456 := by decide
-- "1.0000000" (seven decimals, by value six) and "1e-6", "0.1e-5"
example : fromString [49,46,48,48,48,48,48,48,48] = .ok 1000000 := by decide
example : fromString [49,101,45,54] = .ok 1 := by decide
example : fromString [48,46,49,101,45,53] = .ok 1 := by decide
-- "9223372036854.775807" is the largest amount, "…808" is too large
example : fromString [57,50,50,51,51,55,50,48,51,54,56,53,52,46,55,55,53,56,48,55] = .ok 9223372036854775807 := by decide
example : fromString [57,50,50,51,51,55,50,48,51,54,56,53,52,46,55,55,53,56,48,56] = .err (.named "ErrTooLarge") := by decide
example : toText 123000456 = .ok [49,50,51,46,48,48,48,52,53,54] := by decide
-- F24 (repaired): the library itself parses ".+5" as 5·10^-2; `FromString` now rejects it
example : newFromString [46,43,53] = some ⟨5, -2⟩ := by decide
example : fromString [46,43,53] = .err (.other "syntax") := by decide
-- F23 (known finding): unusual spellings of representable amounts are rejected —
-- "10e-7" (= 0.000001), "0e-7" (= 0), ".0" (= 0)
example : fromString [49,48,101,45,55] = .err (.named "ErrTooManyDecimals") ∧
    (parseLit [49,48,101,45,55]).bind Lit.specValue = some (.ok 1) := by decide
example : fromString [48,101,45,55] = .err (.named "ErrTooManyDecimals") ∧
    (parseLit [48,101,45,55]).bind Lit.specValue = some (.ok 0) := by decide
example : fromString [46,48] = .err (.other "decimal") ∧
    (parseLit [46,48]).bind Lit.specValue = some (.ok 0) := by decide

end Sky.Props.C30
