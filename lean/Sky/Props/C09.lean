/-
  C09 — transaction validity is exactly the documented rule set; decoding is canonical.

  Model: Sky/C09/Model.lean (`verifyTxn` = coin.Transaction.verify in the code's order and with its error kinds; parameters
  `H` = SHA-256 and `recoverOK` = cipher.VerifySignatureRecoverPubKey). Encoding, size and decoding are the reference codec of
  C21 on the REGENERATED schema of coin.Transaction; the coin sum is the REGENERATED mathutil.AddUint64.

  * `verify_iff`        verifyTxn env signed t = ok ⇔ WellFormed env signed t   (all transactions, both modes)
  * `verify_error_order_*`  which rule is reported first
  * `decode_canonical`  DeserializeTransaction b = ok t ⇒ Serialize t = b;  `decode_total`: the generated decoder never panics
  * `decode_encode`     a serializable well-formed value decodes back from its encoding
-/
import Sky.C09.Lemmas
import Sky.Props.C21
namespace Sky.Props.C09
open Sky Sky.Codec Sky.C09

/-- the documented rule set -/
def WellFormed (env : Env) (signed : Bool) (t : Txn) : Prop :=
  0 < t.ins.length ∧                                            -- at least one input
  0 < t.outs.length ∧                                           -- at least one output
  t.sigs.length = t.ins.length ∧                                -- one signature per input
  t.ins.length ≤ 65535 ∧ t.outs.length ≤ 65535 ∧
  t.ins.Nodup ∧                                                 -- no repeated inputs
  t.type = 0 ∧                                                  -- type zero
  (∀ o ∈ t.outs, o.2.1 ≠ 0) ∧                                   -- no zero-coin output
  (t.outs.map (·.2.1)).sum < 2 ^ 64 ∧                           -- output coins do not overflow
  (enc Schemas.Transaction t).length < 2 ^ 32 ∧
  t.length = (enc Schemas.Transaction t).length ∧               -- length field = encoded size
  (t.outs.map (outputHash env (env.H (enc Schemas.Transaction t)))).Nodup ∧   -- no two identical outputs (by output id)
  hashInner env t = t.inner ∧                                   -- correct inner hash
  (∀ p ∈ t.sigs.zip t.ins, p.1 ≠ nullSig → env.recoverOK p.1 (env.H (t.inner ++ p.2)) = true) ∧   -- every signature recoverable
  (signed = true → nullSig ∉ t.sigs) ∧                          -- signed check: no missing signature
  (signed = false → nullSig ∈ t.sigs)                           -- unsigned check: at least one missing, only null in their place

theorem err_iff_false {r : Rule} {P : Prop} (hP : ¬ P) : (Except.error r : Except Rule Unit) = .ok () ↔ P :=
  Iff.intro (fun h => by cases h) (fun h => absurd h hP)

/-- **A transaction is judged well formed if and only if it satisfies the rule set** (coins are uint64 values). -/
theorem verify_iff (env : Env) (signed : Bool) (t : Txn) (hc : ∀ o ∈ t.outs, o.2.1 < 2 ^ 64) :
    verifyTxn env signed t = .ok () ↔ WellFormed env signed t := by
  unfold verifyTxn WellFormed
  by_cases h1 : t.ins.length = 0
  · rw [if_pos h1]; exact err_iff_false (fun h => by omega)
  rw [if_neg h1]
  by_cases h2 : t.outs.length = 0
  · rw [if_pos h2]; exact err_iff_false (fun h => by omega)
  rw [if_neg h2]
  by_cases h3 : t.sigs.length ≠ t.ins.length
  · rw [if_pos h3]; exact err_iff_false (fun h => h3 h.2.2.1)
  rw [if_neg h3]
  have h3' : t.sigs.length = t.ins.length := Classical.not_not.1 h3
  by_cases h4 : t.sigs.length > 65535
  · rw [if_pos h4]; exact err_iff_false (fun h => by have := h.2.2.2.1; omega)
  rw [if_neg h4]
  by_cases h5 : t.outs.length > 65535
  · rw [if_pos h5]; exact err_iff_false (fun h => by have := h.2.2.2.2.1; omega)
  rw [if_neg h5]
  by_cases h6 : allDistinct t.ins = true
  · have h6' := (allDistinct_iff _).1 h6
    rw [if_neg (by simp [h6])]
    by_cases h7 : t.type ≠ 0
    · rw [if_pos h7]; exact err_iff_false (fun h => h7 h.2.2.2.2.2.2.1)
    rw [if_neg h7]
    by_cases h8 : t.outs.any (fun o => o.2.1 == 0) = true
    · rw [if_pos h8]
      obtain ⟨o, ho, hz⟩ := List.any_eq_true.1 h8
      exact err_iff_false (fun h => h.2.2.2.2.2.2.2.1 o ho (by simpa using hz))
    rw [if_neg h8]
    have h8' : ∀ o ∈ t.outs, o.2.1 ≠ 0 := by
      intro o ho hz
      exact h8 (List.any_eq_true.2 ⟨o, ho, by simp [hz]⟩)
    have hsum := sumCoins_spec t.outs 0 (by decide) hc
    simp only [Nat.zero_add] at hsum
    rw [hsum]
    by_cases h9 : (t.outs.map (·.2.1)).sum < 2 ^ 64
    · rw [if_pos h9]
      have henc := encG_txn t (by omega) (by omega) (by omega)
      simp only [henc]
      by_cases h10 : (enc Schemas.Transaction t).length ≥ 2 ^ 32
      · rw [if_pos h10]; exact err_iff_false (fun h => by have := h.2.2.2.2.2.2.2.2.2.1; omega)
      rw [if_neg h10]
      by_cases h11 : t.length ≠ (enc Schemas.Transaction t).length
      · rw [if_pos h11]; exact err_iff_false (fun h => h11 h.2.2.2.2.2.2.2.2.2.2.1)
      rw [if_neg h11]
      by_cases h12 : allDistinct (t.outs.map (outputHash env (env.H (enc Schemas.Transaction t)))) = true
      · have h12' := (allDistinct_iff _).1 h12
        simp only [h12, Bool.not_true, Bool.false_eq_true, if_false]
        by_cases h13 : hashInner env t ≠ t.inner
        · rw [if_pos h13]; exact err_iff_false (fun h => h13 h.2.2.2.2.2.2.2.2.2.2.2.2.1)
        rw [if_neg h13]
        have hsig := checkSigs_ok_iff env signed t.inner t.sigs t.ins
        -- membership in the zip = membership in the signature list (equal lengths)
        have hzip : ∀ s, s ∈ t.sigs ↔ ∃ i, (s, i) ∈ t.sigs.zip t.ins := by
          intro s
          constructor
          · intro hs
            obtain ⟨k, hk, hget⟩ := List.getElem_of_mem hs
            refine ⟨t.ins[k]'(by omega), ?_⟩
            rw [List.mem_iff_getElem]
            exact ⟨k, by simp [List.length_zip]; omega, by simp [hget]⟩
          · rintro ⟨i, hi⟩; exact (List.of_mem_zip hi).1
        cases hcs : checkSigs env signed t.inner t.sigs t.ins with
        | error r =>
          refine err_iff_false (fun h => ?_)
          obtain ⟨_, _, _, _, _, _, _, _, _, _, _, _, _, hrec, hs1, _⟩ := h
          have : checkSigs env signed t.inner t.sigs t.ins = .ok () := by
            rw [hsig]
            intro p hp
            refine ⟨fun hnull => ?_, fun hnn => hrec p hp hnn⟩
            cases hsg : signed with
            | false => rfl
            | true =>
              exfalso
              exact hs1 hsg ((hzip nullSig).2 ⟨p.2, by rw [← hnull]; exact hp⟩)
          rw [this] at hcs; cases hcs
        | ok u =>
          have hall := hsig.1 (by rw [hcs])
          simp only
          constructor
          · intro hfin
            refine ⟨by omega, by omega, h3', by omega, by omega, h6', Classical.not_not.1 h7, h8', h9, by omega,
              Classical.not_not.1 h11, h12', Classical.not_not.1 h13, fun p hp hnn => (hall p hp).2 hnn, ?_, ?_⟩
            · intro hsg hmem
              obtain ⟨i, hi⟩ := (hzip nullSig).1 hmem
              have := (hall _ hi).1 rfl
              rw [hsg] at this; cases this
            · intro hsg
              by_cases hm : nullSig ∈ t.sigs
              · exact hm
              · exfalso
                have hcont : t.sigs.contains nullSig = false := by simpa using hm
                rw [hsg, hcont] at hfin
                simp at hfin
          · intro h
            obtain ⟨_, _, _, _, _, _, _, _, _, _, _, _, _, _, _, hs2⟩ := h
            cases hsg : signed with
            | true => simp
            | false =>
              have := hs2 hsg
              simpa using this
      · have : ¬ (t.outs.map (outputHash env (env.H (enc Schemas.Transaction t)))).Nodup :=
          fun hn => h12 ((allDistinct_iff _).2 hn)
        have h12f : allDistinct (t.outs.map (outputHash env (env.H (enc Schemas.Transaction t)))) = false := by
          simpa using h12
        simp only [h12f, Bool.not_false, if_true]
        exact err_iff_false (fun h => this h.2.2.2.2.2.2.2.2.2.2.2.1)
    · rw [if_neg h9]
      exact err_iff_false (fun h => h9 h.2.2.2.2.2.2.2.2.1)
  · have : ¬ t.ins.Nodup := fun hn => h6 ((allDistinct_iff _).2 hn)
    have h6f : allDistinct t.ins = false := by simpa using h6
    rw [if_pos (by simp [h6f])]
    exact err_iff_false (fun h => this h.2.2.2.2.2.1)

/-! ### which rule is reported first (the code's order; compared by the correspondence) -/

theorem verify_error_order_noInputs (env : Env) (signed : Bool) (t : Txn) (h : t.ins = []) :
    verifyTxn env signed t = .error .noInputs := by simp [verifyTxn, h]

theorem verify_error_order_noOutputs (env : Env) (signed : Bool) (t : Txn) (h1 : t.ins ≠ []) (h2 : t.outs = []) :
    verifyTxn env signed t = .error .noOutputs := by
  have : t.ins.length ≠ 0 := by cases h : t.ins <;> simp_all
  simp [verifyTxn, this, h2]

theorem verify_error_order_sigCount (env : Env) (signed : Bool) (t : Txn) (h1 : t.ins ≠ []) (h2 : t.outs ≠ [])
    (h3 : t.sigs.length ≠ t.ins.length) : verifyTxn env signed t = .error .sigCount := by
  have a : t.ins.length ≠ 0 := by cases h : t.ins <;> simp_all
  have b : t.outs.length ≠ 0 := by cases h : t.outs <;> simp_all
  simp [verifyTxn, a, b, h3]

/-! ### decoding -/

/-- **decoding any byte string either fails or yields a transaction whose re-encoding is the same bytes** -/
theorem decode_canonical (b : Bytes) (hb : BytesOK b) (t : Txn) (h : deserialize b = .ok t) :
    encG Schemas.Transaction t = .ok b := by
  have hd : decExact Schemas.Transaction b = .ok t := h
  have hcanon := Sky.Props.C21.decExact_canonical Schemas.Transaction (by decide) b hb t hd
  have hdec := (exact_ok_iff (dec Schemas.Transaction b) t).1 hd
  have hwf := Sky.Props.C21.dec_wf Schemas.Transaction b hb t [] hdec
  rw [Sky.Codec.encG_of_wf Schemas.Transaction t hwf, hcanon]

/-- the generated decoder behind DeserializeTransaction never panics, on any byte string -/
theorem decode_total (b : Bytes) : ∀ w, runDecode Sky.Gen.Codecs.ty_coin_Transaction Sky.Gen.Codecs.prog_coin_Transaction.dec b ≠ .panic w :=
  Sky.Props.C21.gen_decode_never_panics "coin_Transaction" _ _ (by decide) b

/-- the regenerated schema of coin.Transaction is the one the model uses -/
theorem schema_eq : Sky.Gen.Codecs.ty_coin_Transaction = Schemas.Transaction := Sky.Gen.Codecs.ty_coin_Transaction_eq

/-- what Serialize produces decodes back (any transaction value that Go can hold and that is within maxlen) -/
theorem decode_encode (t : Txn) (hw : WF Schemas.Transaction t) :
    deserialize (enc Schemas.Transaction t) = .ok t :=
  Sky.Props.C21.decExact_enc Schemas.Transaction (by decide) t hw

/-! ### non-vacuity: a concrete transaction (hash function and signature predicate are toy instances here; the driver uses
SHA-256 and the implementation's verdicts) -/
section Examples
def toyEnv : Env := { H := fun b => (List.replicate 31 0) ++ [b.sum % 256], recoverOK := fun s _ => s.head? == some 1 }
def out1 : Output := ((0, List.replicate 20 7), 1000, 5)
def out2 : Output := ((0, List.replicate 20 8), 2000, 6)
def body : Txn := (0, 0, List.replicate 32 0, [1 :: List.replicate 64 0], [List.replicate 32 3], [out1, out2])
def good : Txn := ((enc Schemas.Transaction body).length, 0, hashInner toyEnv body, body.sigs, body.ins, body.outs)

set_option maxRecDepth 20000 in
example : verifyTxn toyEnv true good = .ok () := rfl
set_option maxRecDepth 20000 in
example : verifyTxn toyEnv false good = .error .noNullSig := rfl
set_option maxRecDepth 20000 in
example : verifyTxn toyEnv true (good.1, 1, good.2.2) = .error .badType := rfl
set_option maxRecDepth 20000 in
example : verifyTxn toyEnv true (good.1 + 1, good.2) = .error .badLength := rfl
set_option maxRecDepth 20000 in
example : verifyTxn toyEnv false (good.1, 0, good.inner, [nullSig], good.ins, good.outs) = .ok () := rfl
end Examples

end Sky.Props.C09
