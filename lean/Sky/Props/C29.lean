/-
  C29 — property theorems.  `PageIndex_Cal` is the REGENERATED definition (translated from
  src/visor/transaction_model.go on every run); everything is proved for ALL 64-bit page numbers,
  all page sizes the constructor admits (1..100; in fact whenever size + n < 2^64) and all list lengths.
-/
import Sky.C29.Lemmas
import Sky.Gen.PageIndex
namespace Sky.Props.C29
open Sky Sky.C29 Sky.Gen.PageIndex

/-- the regenerated `Cal` with the argument order of the model -/
def genCal (size page n : Nat) : Res (Nat × Nat × Nat) := PageIndex_Cal page size n

/-- `Cal` computes exactly the page bounds of the specification, for every 64-bit page number:
no intermediate product or sum wraps. -/
theorem cal_spec (size page n : Nat) (hp : page < 2^64) (hs : size + n < 2^64) :
    PageIndex_Cal page size n = specCal size page n := by
  unfold PageIndex_Cal specCal
  by_cases hz : size = 0
  · simp [hz]
  by_cases hpz : page = 0
  · simp [hz, hpz]
  have hpos : 0 < size := Nat.pos_of_ne_zero hz
  simp only [hz, hpz, if_false]
  have key := div_add_rem_eq_ceil n size hpos
  have hle := ceilDiv_le_self n size hpos
  have hsub : sub64 page 1 = page - 1 := by unfold sub64; omega
  have hw : wrap64 (n / size + 1) = n / size + 1 := by
    unfold wrap64; apply Nat.mod_eq_of_lt
    have := Nat.div_le_self n size; omega
  -- both branches of `if n % size != 0 { totalPages++ }` continue with totalPages = ⌈n/size⌉
  have tail : ∀ T, T = ceilDiv n size →
      (if page > T then (Res.ok (0, 0, T) : Res (Nat × Nat × Nat)) else
        if wrap64 (size * sub64 page 1) ≥ n then Res.ok (0, 0, T) else
          if wrap64 (wrap64 (size * sub64 page 1) + size) > n then
            Res.ok (wrap64 (size * sub64 page 1), n, T)
          else Res.ok (wrap64 (size * sub64 page 1), wrap64 (wrap64 (size * sub64 page 1) + size), T))
      = (if page > ceilDiv n size then Res.ok (0, 0, ceilDiv n size)
          else Res.ok (size * (page - 1), min (size * page) n, ceilDiv n size)) := by
    intro T hT
    subst hT
    by_cases hgt : page > ceilDiv n size
    · simp [hgt]
    · simp only [hgt, if_false]
      have hst := start_lt n size page hpos (by omega) (by omega)
      have hw1 : wrap64 (size * (page - 1)) = size * (page - 1) := by
        unfold wrap64; exact Nat.mod_eq_of_lt (by omega)
      have hmul : size * page = size * (page - 1) + size := by
        have : page = (page - 1) + 1 := by omega
        conv => lhs; rw [this, Nat.mul_succ]
      have hw2 : wrap64 (size * (page - 1) + size) = size * (page - 1) + size := by
        unfold wrap64; exact Nat.mod_eq_of_lt (by omega)
      rw [hsub, hw1, hw2, if_neg (by omega), hmul]
      by_cases he : size * (page - 1) + size > n
      · rw [if_pos he, Nat.min_eq_right (by omega)]
      · rw [if_neg he, Nat.min_eq_left (by omega)]
  by_cases hr : n % size ≠ 0
  · rw [if_pos hr] at key
    simp only [hr, ne_eq, not_false_eq_true, if_true, hw]
    exact tail _ key
  · rw [if_neg hr] at key
    simp only [hr, if_false]
    exact tail _ (by omega)

/-- the reported page count is N = ⌈n/size⌉ -/
theorem total_pages_eq (size page n s e t : Nat) (hp : page < 2^64) (hs : size + n < 2^64)
    (h : PageIndex_Cal page size n = .ok (s, e, t)) : t = ceilDiv n size := by
  rw [cal_spec size page n hp hs] at h
  unfold specCal at h
  split at h; · cases h
  split at h; · cases h
  dsimp only at h
  split at h <;> (cases h; rfl)

/-- the slice of `l` that page `k` of size `size` selects, computed by the regenerated `Cal`
followed by Go's `items[start:end]` (which panics on bad bounds). -/
def pageSlice {α} (l : List α) (size k : Nat) : Res (List α) :=
  match PageIndex_Cal k size l.length with
  | .panic p => .panic p
  | .err e => .err e
  | .ok (s, e, _) => goSlice l s e

theorem page_eq_chunk {α} (l : List α) (size k : Nat) (hs : size + l.length < 2^64)
    (h0 : 0 < size) (h1 : 1 ≤ k) (hN : k ≤ ceilDiv l.length size) :
    pageSlice l size k = .ok (chunk l size (k - 1)) := by
  have hk : k < 2^64 := by have := ceilDiv_le_self l.length size h0; omega
  unfold pageSlice
  rw [cal_spec size k l.length hk hs]
  unfold specCal
  rw [if_neg (by omega), if_neg (by omega)]
  simp only [show ¬ k > ceilDiv l.length size by omega, if_false]
  exact goSlice_chunk l size k h0 h1 hN

/-- **pages 1..N are consecutive slices that cover the list exactly once**: page `k` is the
`k−1`-th chunk and the chunks concatenate to the list. -/
theorem pages_partition {α} (l : List α) (size : Nat) (h0 : 1 ≤ size) (hs : size + l.length < 2^64) :
    (∀ k, 1 ≤ k → k ≤ ceilDiv l.length size → pageSlice l size k = .ok (chunk l size (k - 1))) ∧
    (List.range' 1 (ceilDiv l.length size)).flatMap (fun k => chunk l size (k - 1)) = l :=
  ⟨fun k h1 hN => page_eq_chunk l size k hs h0 h1 hN, flatMap_chunks_range' l size h0⟩

/-- **every page beyond N is empty — for every 64-bit page number** (this is the statement that
failed before the repair of `Cal`: size 2, page 2^63+1 returned `[0,2)`). -/
theorem beyond_empty {α} (l : List α) (size k : Nat) (h0 : 1 ≤ size) (hs : size + l.length < 2^64)
    (hk : k < 2^64) (hN : k > ceilDiv l.length size) : pageSlice l size k = .ok [] := by
  unfold pageSlice
  rw [cal_spec size k l.length hk hs]
  unfold specCal
  rw [if_neg (by omega), if_neg (by omega)]
  simp [hN, goSlice]

/-- paging never panics (no out-of-range slice expression) and never fails for a valid page index -/
theorem page_total {α} (l : List α) (size k : Nat) (h0 : 1 ≤ size) (hs : size + l.length < 2^64)
    (h1 : 1 ≤ k) (hk : k < 2^64) : ∃ p, pageSlice l size k = .ok p := by
  by_cases hN : k ≤ ceilDiv l.length size
  · exact ⟨_, page_eq_chunk l size k hs h0 h1 hN⟩
  · exact ⟨_, beyond_empty l size k h0 hs hk (by omega)⟩

/-! ### the container -/

/-- `Add`, `AddItem`, `Append` keep the container free of duplicate hashes -/
theorem add_nodup (c : List Item) (h : List Nat) (cf : Bool) (seq : Nat) (hc : (hashes c).Nodup) :
    (hashes (add c h cf seq)).Nodup := addItem_nodup c _ hc

theorem addItem_keeps_nodup (c : List Item) (it : Item) (hc : (hashes c).Nodup) :
    (hashes (addItem c it)).Nodup := addItem_nodup c it hc

theorem append_keeps_nodup (c d : List Item) (hc : (hashes c).Nodup) : (hashes (append c d)).Nodup :=
  append_nodup c d hc

/-- the operations that build a container in `getTxnsHashes` -/
inductive COp
  | add (h : List Nat) (cf : Bool) (seq : Nat)
  | addItem (it : Item)
  | append (d : List Item)

def COp.apply (c : List Item) : COp → List Item
  | .add h cf s => Sky.C29.add c h cf s
  | .addItem it => Sky.C29.addItem c it
  | .append d => Sky.C29.append c d

/-- after ANY sequence of adds/appends on a new container, no hash occurs twice -/
theorem built_nodup (ops : List COp) : (hashes (ops.foldl COp.apply [])).Nodup := by
  have : ∀ (c : List Item), (hashes c).Nodup → (hashes (ops.foldl COp.apply c)).Nodup := by
    induction ops with
    | nil => intro c hc; exact hc
    | cons o os ih =>
      intro c hc
      apply ih
      cases o with
      | add h cf s => exact add_nodup c h cf s hc
      | addItem it => exact addItem_nodup c it hc
      | append d => exact append_nodup c d hc
  exact this [] (by simp [hashes])

/-- `Sort` returns a permutation … -/
theorem sort_perm (o : Order) (c s : List Item) (h : sortItems o c = .ok s) : s.Perm c := by
  cases o <;> simp only [sortItems] at h <;> cases h <;> exact isort_perm _ _

/-- … that is strictly ascending by (seq, hash) … -/
theorem sort_sorted_asc (c s : List Item) (hc : (hashes c).Nodup) (h : sortItems .asc c = .ok s) :
    s.Pairwise (fun a b => itemLt a b = true) := by
  simp only [sortItems] at h; cases h; exact isort_sorted strictOn_asc c hc

/-- … or strictly descending … -/
theorem sort_sorted_desc (c s : List Item) (hc : (hashes c).Nodup) (h : sortItems .desc c = .ok s) :
    s.Pairwise (fun a b => itemLt b a = true) := by
  simp only [sortItems] at h; cases h; exact isort_sorted strictOn_desc c hc

/-- … and still free of duplicates. -/
theorem sort_nodup (o : Order) (c s : List Item) (hc : (hashes c).Nodup) (h : sortItems o c = .ok s) :
    (hashes s).Nodup := by
  unfold hashes at *
  exact ((sort_perm o c s h).map (·.hash)).nodup_iff.2 hc

/-- the sorted list is unique: whatever (unstable) algorithm `sort.Slice` uses, a strictly ascending
permutation of a duplicate-free container is the list the model computes. -/
theorem sort_unique_asc (c s s' : List Item) (hc : (hashes c).Nodup) (h : sortItems .asc c = .ok s)
    (hp : s'.Perm c) (hs' : s'.Pairwise (fun a b => itemLt a b = true)) : s' = s :=
  sorted_perm_unique strictOn_asc s' s (hp.trans (sort_perm .asc c s h).symm) hs'
    (sort_sorted_asc c s hc h)

theorem sort_unique_desc (c s s' : List Item) (hc : (hashes c).Nodup) (h : sortItems .desc c = .ok s)
    (hp : s'.Perm c) (hs' : s'.Pairwise (fun a b => itemLt b a = true)) : s' = s :=
  sorted_perm_unique strictOn_desc s' s (hp.trans (sort_perm .desc c s h).symm) hs'
    (sort_sorted_desc c s hc h)

/-- `Pagination` over the regenerated `Cal` is the specification-level pagination -/
theorem pagination_gen_eq (c : List Item) (size k : Nat) (hk : k < 2^64) (hs : size + c.length < 2^64) :
    paginationWith genCal c (some (size, k)) = pagination c (some (size, k)) := by
  simp only [pagination, paginationWith, genCal, cal_spec size k c.length hk hs]

/-- `Pagination` of a duplicate-free container returns, for page `k ≤ N`, exactly the `k−1`-th
chunk together with the page count N … -/
theorem pagination_page (c : List Item) (size k : Nat) (hc : (hashes c).Nodup) (h0 : 1 ≤ size)
    (hs : size + c.length < 2^64) (h1 : 1 ≤ k) (hN : k ≤ ceilDiv c.length size) :
    paginationWith genCal c (some (size, k)) = .ok (chunk c size (k - 1), ceilDiv c.length size) := by
  have hk : k < 2^64 := by have := ceilDiv_le_self c.length size h0; omega
  simp only [paginationWith, genCal, cal_spec size k c.length hk hs, specCal]
  rw [if_neg (by omega), if_neg (by omega)]
  simp only [show ¬ k > ceilDiv c.length size by omega, if_false, goSlice_chunk c size k h0 h1 hN]
  have hnd : (hashes (chunk c size (k - 1))).Nodup :=
    List.Nodup.sublist ((chunk_sublist c size (k - 1)).map _) hc
  rw [foldl_addItem_nil _ hnd]

/-- … and for every 64-bit page number beyond N the empty page. -/
theorem pagination_beyond (c : List Item) (size k : Nat) (h0 : 1 ≤ size)
    (hs : size + c.length < 2^64) (hk : k < 2^64) (hN : k > ceilDiv c.length size) :
    paginationWith genCal c (some (size, k)) = .ok ([], ceilDiv c.length size) := by
  simp only [paginationWith, genCal, cal_spec size k c.length hk hs, specCal]
  rw [if_neg (by omega), if_neg (by omega)]
  simp [hN, goSlice]

/-- **The property, end to end** (collected hashes → de-duplicating adds → Sort → Pagination):
for every order, page size 1..100 and list of offered items, with `R` the sorted de-duplicated
result list and `N = ⌈|R|/size⌉`: `R` has no duplicate hash, contains exactly the offered hashes,
pages `1..N` are the consecutive chunks of `R` and concatenate to `R`, each reports `N` pages,
and every page number in `(N, 2^64)` yields the empty page. -/
theorem query_pages_partition (adds : List Item) (o : Order) (ho : o ≠ .unknown) (size : Nat)
    (h0 : 1 ≤ size) (hsz : size ≤ 100) (hlen : adds.length < 2^63) :
    ∃ R, sortItems o (append [] adds) = .ok R ∧
      (hashes R).Nodup ∧ (∀ h, h ∈ hashes R ↔ h ∈ hashes adds) ∧
      (∀ k, 1 ≤ k → k ≤ ceilDiv R.length size →
        paginationWith genCal R (some (size, k)) = .ok (chunk R size (k - 1), ceilDiv R.length size)) ∧
      (List.range' 1 (ceilDiv R.length size)).flatMap (fun k => chunk R size (k - 1)) = R ∧
      (∀ k, k < 2^64 → k > ceilDiv R.length size →
        paginationWith genCal R (some (size, k)) = .ok ([], ceilDiv R.length size)) := by
  have hb : (hashes (append [] adds)).Nodup := append_nodup [] adds (by simp [hashes])
  have hex : ∃ R, sortItems o (append [] adds) = .ok R := by
    cases o with
    | asc => exact ⟨_, rfl⟩
    | desc => exact ⟨_, rfl⟩
    | unknown => exact absurd rfl ho
  obtain ⟨R, hR⟩ := hex
  have hperm := sort_perm o _ R hR
  have hnd := sort_nodup o _ R hb hR
  -- the built container is a sublist-free subset: its length is at most the number of adds
  have hlenB : ∀ (d c : List Item), (d.foldl addItem c).length ≤ c.length + d.length := by
    intro d
    induction d with
    | nil => intro c; simp
    | cons x xs ih =>
      intro c
      have := ih (addItem c x)
      have h2 : (addItem c x).length ≤ c.length + 1 := by
        unfold addItem; split <;> simp
      simp only [List.foldl_cons, List.length_cons]; omega
  have hRl : R.length ≤ adds.length := by
    rw [hperm.length_eq]; have := hlenB adds []; simpa [append] using this
  have hs : size + R.length < 2^64 := by omega
  have hmem : ∀ h, h ∈ hashes (append [] adds) ↔ h ∈ hashes adds := by
    have gen : ∀ (d c : List Item) h, h ∈ hashes (d.foldl addItem c) ↔ h ∈ hashes c ∨ h ∈ hashes d := by
      intro d
      induction d with
      | nil => intro c h; simp [hashes]
      | cons x xs ih =>
        intro c h
        rw [List.foldl_cons, ih]
        have : h ∈ hashes (addItem c x) ↔ h ∈ hashes c ∨ h = x.hash := by
          unfold addItem; split
          · rename_i hh
            have := (has_iff c x.hash).1 hh
            constructor
            · exact Or.inl
            · rintro (h1 | rfl) <;> assumption
          · simp [hashes]
        rw [this]; simp only [hashes, List.map_cons, List.mem_cons]
        constructor
        · rintro ((h1 | h1) | h1)
          · exact Or.inl h1
          · exact Or.inr (Or.inl h1)
          · exact Or.inr (Or.inr h1)
        · rintro (h1 | h1 | h1)
          · exact Or.inl (Or.inl h1)
          · exact Or.inl (Or.inr h1)
          · exact Or.inr h1
    intro h; rw [append, gen]; simp [hashes]
  refine ⟨R, hR, hnd, ?_, ?_, flatMap_chunks_range' R size h0, ?_⟩
  · intro h; rw [← hmem h]; exact (hperm.map (·.hash)).mem_iff
  · intro k h1 hN; exact pagination_page R size k hnd h0 hs h1 hN
  · intro k hk hN; exact pagination_beyond R size k h0 hs hk hN

/-! ### non-vacuity: concrete instances, including the witness of the repaired defect -/

def i1 : Item := ⟨[1, 2], 5, true⟩
def i2 : Item := ⟨[1, 3], 5, true⟩
def i3 : Item := ⟨[0, 9], 7, false⟩

example : specCal 2 (2^63 + 1) 5 = .ok (0, 0, 3) := by decide
example : specCal 2 3 5 = .ok (4, 5, 3) := by decide
example : query [i3, i2, i1, i2] .asc (some (2, 1)) = .ok ([i1, i2], 2) := by decide
example : query [i3, i2, i1, i2] .asc (some (2, 2)) = .ok ([i3], 2) := by decide
example : query [i3, i2, i1, i2] .desc (some (2, 1)) = .ok ([i3, i2], 2) := by decide
example : query [i3, i2, i1, i2] .asc (some (2, 9223372036854775809)) = .ok ([], 2) := by decide
example : pageSlice [10, 11, 12, 13, 14] 2 3 = .ok [14] := by decide
example : (2 : Nat) + [10, 11, 12, 13, 14].length < 2^64 := by decide

end Sky.Props.C29
