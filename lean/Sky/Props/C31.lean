/-
  C31 — property theorems.  Every theorem is about the REGENERATED definitions in Sky.Gen.*
  (translated from /repo on every run), for all 64-bit (32-bit) arguments.
-/
import Sky.C31.Spec
import Sky.Gen.Mathutil
import Sky.Gen.Fee
import Sky.Gen.CoinHours
namespace Sky.Props.C31
open Sky Sky.C31 Sky.Gen.Mathutil Sky.Gen.Fee Sky.Gen.CoinHours

theorem addU64_spec (a b : Nat) (ha : a < 2^64) (_hb : b < 2^64) :
    AddUint64 a b = specAddU64 a b := by
  unfold AddUint64 specAddU64 wrap64
  by_cases h : a + b < 2^64
  · have : (a + b) % 2^64 = a + b := Nat.mod_eq_of_lt h
    simp only [this, h, if_true]; split <;> first | rfl | omega
  · have : (a + b) % 2^64 = a + b - 2^64 := by omega
    simp only [this, h, if_false]; split <;> first | rfl | omega

theorem addU32_spec (a b : Nat) (ha : a < 2^32) (_hb : b < 2^32) :
    AddUint32 a b = specAddU32 a b := by
  unfold AddUint32 specAddU32 wrap32
  by_cases h : a + b < 2^32
  · have : (a + b) % 2^32 = a + b := Nat.mod_eq_of_lt h
    simp only [this, h, if_true]; split <;> first | rfl | omega
  · have : (a + b) % 2^32 = a + b - 2^32 := by omega
    simp only [this, h, if_false]; split <;> first | rfl | omega

theorem mulU64_spec (a b : Nat) (ha : a < 2^64) (hb : b < 2^64) :
    MultUint64 a b = specMulU64 a b := by
  unfold MultUint64 specMulU64 wrap64
  have hnp : ¬ (a ≠ 0 ∧ a = 0) := by omega
  simp only [hnp, if_false]
  by_cases h : a * b < 2^64
  · have hm : (a * b) % 2^64 = a * b := Nat.mod_eq_of_lt h
    simp only [hm, h, if_true]
    by_cases ha0 : a = 0
    · subst ha0; simp
    · have : a * b / a = b := Nat.mul_div_cancel_left b (Nat.pos_of_ne_zero ha0)
      simp [this]
  · simp only [h, if_false]
    have ha0 : a ≠ 0 := by intro h0; subst h0; simp at h
    have hlt : (a * b) % 2^64 < a * b := by
      have := Nat.mod_lt (a * b) (by decide : 2^64 > 0); omega
    have : (a * b) % 2^64 / a < b := by
      apply (Nat.div_lt_iff_lt_mul (Nat.pos_of_ne_zero ha0)).2
      rw [Nat.mul_comm b a]; exact hlt
    have hne : (a * b) % 2^64 / a ≠ b := by omega
    simp [ha0, hne]

theorem u64ToI64_spec (a : Nat) (ha : a < 2^64) :
    Uint64ToInt64 a = specU64ToI64 a := by
  unfold Uint64ToInt64 specU64ToI64 wrapI64
  by_cases h : a < 2^63
  · have : ((a : Int) + 2^63) % 2^64 - 2^63 = (a : Int) := by omega
    simp only [this, h, if_true]; split <;> first | rfl | omega
  · have : ((a : Int) + 2^63) % 2^64 - 2^63 = (a : Int) - 2^64 := by omega
    simp only [this, h, if_false]; split <;> first | rfl | omega

theorem i64ToU64_spec (a : Int) (hlo : -2^63 ≤ a) (hhi : a < 2^63) :
    Int64ToUint64 a = specI64ToU64 a := by
  unfold Int64ToUint64 specI64ToU64 toU64
  split
  · rfl
  · have : a % 2^64 = a := by omega
    rw [this]

theorem intToU32_spec (a : Int) (hlo : -2^63 ≤ a) (hhi : a < 2^63) :
    IntToUint32 a = specIntToU32 a := by
  unfold IntToUint32 specIntToU32 toU64 toU32
  by_cases h0 : a < 0
  · simp [h0]
  · have h64 : a % 2^64 = a := by omega
    rw [h64, if_neg h0, if_neg h0]
    by_cases h1 : a.toNat > 4294967295
    · have h1' : a > 2^32 - 1 := by omega
      rw [if_pos h1, if_pos h1']
    · have h1' : ¬ a > 2^32 - 1 := by omega
      have h32 : a % 2^32 = a := by omega
      rw [if_neg h1, if_neg h1', h32]

/-- `⌊h/bf⌋ + [h mod bf ≠ 0] = ⌈h/bf⌉` -/
theorem div_add_rem_eq_ceil (h bf : Nat) (hpos : 0 < bf) :
    (h / bf + if h % bf ≠ 0 then 1 else 0) = ceilDiv h bf := by
  unfold ceilDiv
  have hd := Nat.div_add_mod h bf
  have hm := Nat.mod_lt h hpos
  by_cases hr : h % bf ≠ 0
  · rw [if_pos hr]
    have e : h + bf - 1 = bf * (h / bf + 1) + (h % bf - 1) := by
      rw [Nat.mul_add]; omega
    rw [e, Nat.mul_add_div hpos]
    have : (h % bf - 1) / bf = 0 := Nat.div_eq_of_lt (by omega)
    omega
  · rw [if_neg hr]
    have e : h + bf - 1 = bf * (h / bf) + (bf - 1) := by omega
    rw [e, Nat.mul_add_div hpos]
    have : (bf - 1) / bf = 0 := Nat.div_eq_of_lt (by omega)
    omega

/-- the required fee is ⌈hours / burnFactor⌉ (no wrap: the increment cannot overflow). -/
theorem requiredFee_ceil (h bf : Nat) (hh : h < 2^64) (hbf : bf < 2^32) :
    RequiredFee h bf = specRequiredFee h bf := by
  unfold RequiredFee specRequiredFee wrap64
  by_cases hz : bf = 0
  · simp [hz]
  · have hpos : 0 < bf := Nat.pos_of_ne_zero hz
    have key := div_add_rem_eq_ceil h bf hpos
    simp only [hz, if_false]
    by_cases hr : h % bf ≠ 0
    · rw [if_pos hr] at key; rw [if_pos hr]
      have hle : h / bf ≤ h := Nat.div_le_self h bf
      have : (h / bf + 1) % 2^64 = h / bf + 1 := by
        apply Nat.mod_eq_of_lt
        have hd := Nat.div_add_mod h bf
        have hm := Nat.mod_lt h hpos
        have : h / bf < h := by
          rcases Nat.lt_or_ge (h / bf) h with h1 | h1
          · exact h1
          · have h2 : h / bf = h := by omega
            have : bf * h ≥ 1 * h := Nat.mul_le_mul_right h hpos
            rw [h2] at hd; omega
        omega
      rw [this, key]
    · rw [if_neg hr] at key; rw [if_neg hr]
      rw [← key]; simp

theorem ceilDiv_le (h bf : Nat) (hbf : 1 ≤ bf) : ceilDiv h bf ≤ h := by
  have key := div_add_rem_eq_ceil h bf hbf
  have hd := Nat.div_add_mod h bf
  have hm := Nat.mod_lt h hbf
  have hge : bf * (h / bf) ≥ 1 * (h / bf) := Nat.mul_le_mul_right _ hbf
  by_cases hr : h % bf ≠ 0
  · rw [if_pos hr] at key; omega
  · rw [if_neg hr] at key; omega

/-- the remainder after the fee never underflows. -/
theorem remaining_no_underflow (h bf : Nat) (hh : h < 2^64) (hbf : bf < 2^32) :
    RemainingHours h bf = specRemaining h bf := by
  unfold RemainingHours specRemaining
  rw [requiredFee_ceil h bf hh hbf]
  unfold specRequiredFee
  by_cases hz : bf = 0
  · simp [hz]
  · simp only [hz, if_false]
    have hle := ceilDiv_le h bf (by omega)
    unfold sub64
    have : (h + 2^64 - ceilDiv h bf) % 2^64 = h - ceilDiv h bf := by omega
    rw [this]

/-- `⌈·/bf⌉` is 1-Lipschitz. -/
theorem ceilDiv_add_le (a k bf : Nat) (hbf : 1 ≤ bf) : ceilDiv (a + k) bf ≤ ceilDiv a bf + k := by
  unfold ceilDiv
  calc (a + k + bf - 1) / bf ≤ ((a + bf - 1) + k * bf) / bf := by
        apply Nat.div_le_div_right
        have : k ≤ k * bf := Nat.le_mul_of_pos_right _ hbf
        omega
    _ = (a + bf - 1) / bf + k := Nat.add_mul_div_right _ _ hbf

/-- remaining hours are monotone in the hours offered (used by C12's completeness). -/
theorem remaining_mono (a b bf : Nat) (hab : a ≤ b) (hbf : 1 ≤ bf) :
    a - ceilDiv a bf ≤ b - ceilDiv b bf := by
  have h1 := ceilDiv_add_le a (b - a) bf hbf
  have h2 := ceilDiv_le a bf hbf
  have : a + (b - a) = b := by omega
  rw [this] at h1
  omega

theorem verifyFee_spec (hours fee bf : Nat) (hh : hours < 2^64) (hf : fee < 2^64) (hbf : bf < 2^32) :
    (VerifyTransactionFeeForHours hours fee bf).canon = specVerifyFee hours fee bf := by
  unfold VerifyTransactionFeeForHours specVerifyFee
  by_cases h0 : fee = 0
  · simp [h0, Res.canon, Err.canon]
  · simp only [h0, if_false]
    rw [addU64_spec hours fee hh hf]; unfold specAddU64
    by_cases hs : hours + fee < 2^64
    · have hs' : ¬ hours + fee ≥ 2^64 := by omega
      simp only [hs, hs', if_true, if_false]
      rw [requiredFee_ceil _ bf hs hbf]; unfold specRequiredFee
      by_cases hz : bf = 0
      · simp [hz, Res.canon]
      · simp only [hz, if_false]
        split <;> simp [Res.canon, Err.canon]
    · have hs' : hours + fee ≥ 2^64 := by omega
      simp [hs, hs', Res.canon, Err.canon, ovf]

/-- the floor identity behind the two-step computation of accrued hours -/
theorem coinSeconds_floor (coins Δ : Nat) :
    (Δ * (coins / 1000000) + Δ * (coins % 1000000) / 1000000) / 3600 = coins * Δ / 3600000000 := by
  have hc := Nat.div_add_mod coins 1000000
  have e : coins * Δ = 1000000 * (Δ * (coins / 1000000)) + Δ * (coins % 1000000) := by
    conv => lhs; rw [← hc]
    rw [Nat.add_mul, Nat.mul_comm (coins % 1000000) Δ, Nat.mul_assoc, Nat.mul_comm (coins / 1000000) Δ]
  rw [e, show (3600000000 : Nat) = 1000000 * 3600 from rfl, ← Nat.div_div_eq_div_mul,
    Nat.mul_add_div (by decide : 1000000 > 0)]

/-- accrued hours = initial + ⌊coins·Δ/3.6e9⌋, error exactly when an intermediate or the final
sum does not fit in 64 bits. -/
theorem coinHours_spec (coins hours time t : Nat)
    (hc : coins < 2^64) (hh : hours < 2^64) (htm : time < 2^64) (ht : t < 2^64) :
    (UxOut_CoinHours coins hours time t).canon = specCoinHours coins hours time t := by
  unfold UxOut_CoinHours specCoinHours
  by_cases hlt : t < time
  · simp [hlt, Res.canon]
  · rw [if_neg hlt, if_neg hlt]
    have hsub : sub64 t time = t - time := by unfold sub64; omega
    simp only [hsub]
    have hΔ : t - time < 2^64 := by omega
    have hW : coins / 1000000 < 2^64 := by omega
    have hd : coins % 1000000 < 2^64 := by omega
    rw [mulU64_spec _ _ hΔ hW, mulU64_spec _ _ hΔ hd]
    unfold specMulU64
    by_cases h1 : (t - time) * (coins / 1000000) < 2^64
    · have h1' : ¬ (t - time) * (coins / 1000000) ≥ 2^64 := by omega
      simp only [h1, h1', if_true, if_false]
      by_cases h2 : (t - time) * (coins % 1000000) < 2^64
      · have h2' : ¬ (t - time) * (coins % 1000000) ≥ 2^64 := by omega
        simp only [h2, h2', if_true, if_false]
        have hq : (t - time) * (coins % 1000000) / 1000000 < 2^64 := by
          have := Nat.div_le_self ((t - time) * (coins % 1000000)) 1000000; omega
        rw [addU64_spec _ _ h1 hq]; unfold specAddU64
        by_cases h3 : (t - time) * (coins / 1000000) + (t - time) * (coins % 1000000) / 1000000 < 2^64
        · have h3' : ¬ (t - time) * (coins / 1000000) + (t - time) * (coins % 1000000) / 1000000 ≥ 2^64 := by omega
          simp only [h3, h3', if_true, if_false]
          have hq2 : ((t - time) * (coins / 1000000) + (t - time) * (coins % 1000000) / 1000000) / 3600 < 2^64 := by
            have := Nat.div_le_self ((t - time) * (coins / 1000000) + (t - time) * (coins % 1000000) / 1000000) 3600; omega
          rw [addU64_spec _ _ hh hq2]; unfold specAddU64
          rw [coinSeconds_floor]
          by_cases h4 : hours + coins * (t - time) / 3600000000 < 2^64
          · have h4' : ¬ hours + coins * (t - time) / 3600000000 ≥ 2^64 := by omega
            simp [h4, h4', Res.canon]
          · have h4' : hours + coins * (t - time) / 3600000000 ≥ 2^64 := by omega
            simp [h4, h4', Res.canon, Err.canon]
        · have h3' : (t - time) * (coins / 1000000) + (t - time) * (coins % 1000000) / 1000000 ≥ 2^64 := by omega
          simp [h3, h3', Res.canon, Err.canon, ovf]
      · have h2' : (t - time) * (coins % 1000000) ≥ 2^64 := by omega
        simp [h2, h2', Res.canon, Err.canon, ovf]
    · have h1' : (t - time) * (coins / 1000000) ≥ 2^64 := by omega
      simp [h1, h1', Res.canon, Err.canon, ovf]

/-- accrued hours never decrease as time moves forward (C03 uses this). -/
theorem coinHours_mono (coins hours time t t' h h' : Nat) (htt : t ≤ t')
    (e1 : specCoinHours coins hours time t = .ok h) (e2 : specCoinHours coins hours time t' = .ok h') :
    h ≤ h' := by
  unfold specCoinHours at e1 e2
  by_cases c1 : t < time
  · rw [if_pos c1] at e1
    by_cases c2 : t' < time
    · rw [if_pos c2] at e2; cases e1; cases e2; exact Nat.le_refl _
    · rw [if_neg c2] at e2; simp only at e2
      repeat (split at e2 <;> try cases e2)
      cases e1; omega
  · have c2 : ¬ t' < time := by omega
    rw [if_neg c1] at e1; rw [if_neg c2] at e2; simp only at e1 e2
    repeat (split at e1 <;> try cases e1)
    repeat (split at e2 <;> try cases e2)
    have : coins * (t - time) / 3600000000 ≤ coins * (t' - time) / 3600000000 := by
      apply Nat.div_le_div_right; apply Nat.mul_le_mul_left; omega
    omega

/-- non-vacuity: concrete non-trivial instances, including the overflow witness of F1. -/
example : specCoinHours 1024819999999 0 0 18000000000000 = .err ovf := by decide
example : specCoinHours 5000000 7 100 (100 + 7200) = .ok 17 := by decide
example : specRequiredFee 11 2 = .ok 6 := by decide

/-- the checked addition does not depend on the order of its operands (results AND errors agree) -/
theorem addU64_comm (a b : Nat) (ha : a < 2^64) (hb : b < 2^64) : AddUint64 a b = AddUint64 b a := by
  rw [addU64_spec a b ha hb, addU64_spec b a hb ha]; unfold specAddU64; rw [Nat.add_comm]

/-- the checked multiplication does not depend on the order of its operands -/
theorem mulU64_comm (a b : Nat) (ha : a < 2^64) (hb : b < 2^64) : MultUint64 a b = MultUint64 b a := by
  rw [mulU64_spec a b ha hb, mulU64_spec b a hb ha]; unfold specMulU64; rw [Nat.mul_comm]

/-- a successful checked addition IS the unbounded sum (never a wrapped value) and fits 64 bits -/
theorem addU64_exact (a b c : Nat) (ha : a < 2^64) (hb : b < 2^64) (h : AddUint64 a b = .ok c) :
    c = a + b ∧ c < 2^64 := by
  rw [addU64_spec a b ha hb] at h; unfold specAddU64 at h
  split at h
  · cases h; exact ⟨rfl, by assumption⟩
  · cases h

end Sky.Props.C31
