/-
  C32 — the connection pool's strand protocol: mutual exclusion of the pool maps, every call completes
  or returns the pool-closed error, shutdown leaves no connection registered.   **PARTIAL by design.**

  Proved, for ALL interleavings of the model (Sky.C32.Model: unboundedly many client calls, the strand
  goroutine, the Shutdown goroutine; induction on executions): the theorems below.
  Tied to the code by (T) regenerated static facts (Sky.Gen.C32Facts: which methods touch the pool maps
  outside a strand closure; the shapes of Strand / processStrand / Shutdown) and (H) trace conformance:
  `trace_conformance_sound` — the monitor the driver runs on real traces accepts every trace of the model.
  NOT covered (stated in DESIGN §7 and the manifest): Go-memory-model data races in general and the race
  detector's verdict, variables captured by request closures (a call that returns on quit while its
  function is still running), OS-level blocking, liveness under fairness (only `shutdown_reachable`).
-/
import Sky.C32.Sim
import Sky.Gen.C32Facts
import Sky.C32.ErrChan
namespace Sky.Props.C32
open Sky.C32 Sky.Gen.C32Facts

/-- **mutual_exclusion (1)**: once Shutdown is past `<-strandDone` the strand goroutine has exited, so the
two parties that ever touch the maps are never active together -/
theorem mutual_exclusion (s : St) (h : Reach s) :
    ¬ ((∃ r, s.strand = .running r) ∧ (s.shut = .cleanup ∨ s.shut = .returned)) := by
  rintro ⟨⟨r, hr⟩, hc⟩
  have := (inv_reach h).cleanupExited hc
  rw [hr] at this; cases this

/-- **mutual_exclusion (2)**: every reported map access happens inside a running request on the strand
goroutine, or in Shutdown's clean-up after the strand goroutine has exited; never by anybody else -/
theorem access_only_in_region (s s' : St) (a : Actor) (h : Reach s) (st : Step s (some (.access a)) s') :
    (a = .strandG ∧ (∃ r, s.strand = .running r) ∧ s.shut ≠ .cleanup ∧ s.shut ≠ .returned) ∨
    (a = .shutG ∧ s.shut = .cleanup ∧ s.strand = .exited) := by
  cases st with
  | accessS r hs =>
    refine Or.inl ⟨rfl, ⟨r, hs⟩, ?_, ?_⟩
    · intro hc; have := (inv_reach h).cleanupExited (Or.inl hc); rw [hs] at this; cases this
    · intro hc; have := (inv_reach h).cleanupExited (Or.inr hc); rw [hs] at this; cases this
  | accessH hc => exact Or.inr ⟨rfl, hc, (inv_reach h).cleanupExited (Or.inl hc)⟩

/-- **mutual_exclusion (3)**: the maps change only when a request's function finishes on the strand
goroutine, or in Shutdown's clean-up -/
theorem maps_change_only_in_region (s s' : St) (o : Option Obs) (h : Reach s) (st : Step s o s')
    (hch : s'.conns ≠ s.conns ∨ s'.addrs ≠ s.addrs) :
    ((∃ r, s.strand = .running r) ∧ s.shut ≠ .cleanup ∧ s.shut ≠ .returned) ∨
    (s.shut = .cleanup ∧ s.strand = .exited) := by
  cases st with
  | finish r q hs hq =>
    refine Or.inl ⟨⟨r, hs⟩, ?_, ?_⟩
    · intro hc; have := (inv_reach h).cleanupExited (Or.inl hc); rw [hs] at this; cases this
    · intro hc; have := (inv_reach h).cleanupExited (Or.inr hc); rw [hs] at this; cases this
  | shutReturn hc => exact Or.inr ⟨hc, (inv_reach h).cleanupExited (Or.inl hc)⟩
  | _ => simp at hch

/-- **call_completes_or_closed**: a call that returned normally had its function run to completion; a call
that returned the pool-closed error did so after quit was closed (a call has no other way to return) -/
theorem call_completes_or_closed (s : St) (h : Reach s) (r : Nat) :
    (phaseOf s r = some .retOk → r ∈ s.finished) ∧ (phaseOf s r = some .retClosed → s.quit = true) :=
  ⟨(inv_reach h).retOkFinished r, (inv_reach h).retClosedQuit r⟩

/-- a function that was started is the only thing the strand goroutine runs until it finishes, and it is
not yet counted as finished -/
theorem running_not_finished (s : St) (h : Reach s) (r : Nat) (hr : s.strand = .running r) : r ∉ s.finished :=
  ((inv_reach h).running r hr).2

/-- **shutdown_empties**: after Shutdown has returned both maps are empty (and, being an invariant of all
reachable states, they stay empty) -/
theorem shutdown_empties (s : St) (h : Reach s) (hr : s.shut = .returned) : s.conns = [] ∧ s.addrs = [] :=
  (inv_reach h).returnedEmpty hr

/-- `pool.pool` and `pool.addresses` always describe the same connections (what makes `disconnectAll`,
which walks one map and deletes by the other's key, complete) -/
theorem maps_consistent (s : St) (h : Reach s) : Consistent s := (inv_reach h).consistent

theorem exec_trans {a b c : St} {t1 t2 : List Obs} (e1 : Exec a t1 b) (e2 : Exec b t2 c) : Exec a (t1 ++ t2) c := by
  induction e2 with
  | nil => simpa using e1
  | tau _ st ih => exact Exec.tau ih st
  | obs _ st ih => rw [← List.append_assoc]; exact Exec.obs ih st

/-- **shutdown_reachable** (termination, possibility form): from every reachable state the strand goroutine
and the Shutdown goroutine alone — no client has to cooperate — can bring Shutdown to its return.
(The fairness form "under weak fairness of those two goroutines Shutdown does return" is NOT proved:
`ShutdownTerminatesUnderFairness` below; `shutdown_terminates_partial` is the part that is.) -/
theorem shutdown_reachable (s : St) (h : Reach s) : ∃ tr s', Exec s tr s' ∧ s'.shut = .returned := by
  have hi := inv_reach h
  -- stage 1: let a running function finish
  have st1 : ∃ tr s1, Exec s tr s1 ∧ Inv s1 ∧ (∀ r, s1.strand ≠ .running r) := by
    cases hs : s.strand with
    | running r =>
      have := (hi.running r hs).1
      have hlt : r < s.clients.length := by rcases this with e | e <;> exact phaseOf_lt e
      have hq : (s.clients[r]?).map (·.2) = some (s.clients[r]).2 := by
        rw [List.getElem?_eq_getElem hlt]; rfl
      have stp := Step.finish s r _ hs hq
      exact ⟨_, _, Exec.obs (Exec.nil s) stp, inv_step hi stp, by intro r'; simp⟩
    | idle => exact ⟨_, s, Exec.nil s, hi, by intro r; rw [hs]; simp⟩
    | exited => exact ⟨_, s, Exec.nil s, hi, by intro r; rw [hs]; simp⟩
  obtain ⟨t1, s1, e1, i1, nr1⟩ := st1
  -- stage 2: get quit closed
  have st2 : ∃ tr s2, Exec s1 tr s2 ∧ Inv s2 ∧ (∀ r, s2.strand ≠ .running r) ∧ s2.quit = true := by
    cases hsh : s1.shut with
    | none =>
      have a := Step.shutCall s1 hsh
      have b := Step.closeQuit { s1 with shut := .called } rfl
      exact ⟨_, _, Exec.tau (Exec.obs (Exec.nil s1) a) b, inv_step (inv_step i1 a) b, nr1, rfl⟩
    | called =>
      have b := Step.closeQuit s1 hsh
      exact ⟨_, _, Exec.tau (Exec.nil s1) b, inv_step i1 b, nr1, rfl⟩
    | quitSet => exact ⟨_, s1, Exec.nil s1, i1, nr1, i1.quitIff.2 (Or.inl hsh)⟩
    | cleanup => exact ⟨_, s1, Exec.nil s1, i1, nr1, i1.quitIff.2 (Or.inr (Or.inl hsh))⟩
    | returned => exact ⟨_, s1, Exec.nil s1, i1, nr1, i1.quitIff.2 (Or.inr (Or.inr hsh))⟩
  obtain ⟨t2, s2, e2, i2, nr2, q2⟩ := st2
  -- stage 3: the strand goroutine exits
  have st3 : ∃ tr s3, Exec s2 tr s3 ∧ Inv s3 ∧ s3.strand = .exited := by
    cases hs : s2.strand with
    | running r => exact absurd hs (nr2 r)
    | idle =>
      have a := Step.strandExit s2 hs q2
      exact ⟨_, _, Exec.tau (Exec.nil s2) a, inv_step i2 a, rfl⟩
    | exited => exact ⟨_, s2, Exec.nil s2, i2, hs⟩
  obtain ⟨t3, s3, e3, i3, x3⟩ := st3
  -- stage 4: Shutdown proceeds to its return
  have st4 : ∃ tr s4, Exec s3 tr s4 ∧ s4.shut = .returned := by
    have q3 : s3.quit = true := i3.exitedQuit x3
    cases hsh : s3.shut with
    | none => have := i3.quitIff.1 q3; rw [hsh] at this; simp at this
    | called => have := i3.quitIff.1 q3; rw [hsh] at this; simp at this
    | quitSet =>
      have a := Step.sawDone s3 hsh x3
      have b := Step.shutReturn { s3 with shut := .cleanup } rfl
      exact ⟨_, _, Exec.obs (Exec.obs (Exec.nil s3) a) b, rfl⟩
    | cleanup =>
      have b := Step.shutReturn s3 hsh
      exact ⟨_, _, Exec.obs (Exec.nil s3) b, rfl⟩
    | returned => exact ⟨_, s3, Exec.nil s3, hsh⟩
  obtain ⟨t4, s4, e4, r4⟩ := st4
  exact ⟨_, s4, exec_trans (exec_trans (exec_trans e1 e2) e3) e4, r4⟩

/-! full statement of the liveness clause, kept visible; NOT proved.  (Weak fairness alone is not enough: with
quit closed `processStrand`'s select may keep choosing a pending request; Go picks uniformly at random, so the
quit branch is taken with probability 1 — in fairness terms the `strandExit` step needs STRONG fairness.) -/

/-- an infinite run: every position is a step of the model or a stutter -/
def IsRun (run : Nat → St) : Prop :=
  run 0 = St.init ∧ ∀ n, (∃ o, Step (run n) o (run (n + 1))) ∨ run (n + 1) = run n

/-- the strand goroutine leaves its loop whenever that is possible infinitely often (strong fairness) -/
def StrandExitFair (run : Nat → St) : Prop :=
  (∀ n, ∃ k ≥ n, (run k).strand = .idle ∧ (run k).quit = true) → ∃ n, (run n).strand = .exited

/-- a running function finishes; Shutdown's own steps are taken when they stay enabled (weak fairness) -/
def SystemProgress (run : Nat → St) : Prop :=
  (∀ n r, (run n).strand = .running r → ∃ k ≥ n, (run k).strand ≠ .running r) ∧
  (∀ n, (run n).shut = .called → ∃ k ≥ n, (run k).shut ≠ .called) ∧
  (∀ n, ((run n).shut = .quitSet ∧ (run n).strand = .exited) → ∃ k ≥ n, (run k).shut ≠ .quitSet) ∧
  (∀ n, (run n).shut = .cleanup → ∃ k ≥ n, (run k).shut ≠ .cleanup)

def ShutdownTerminatesUnderFairness : Prop :=
  ∀ run, IsRun run → StrandExitFair run → SystemProgress run → (∃ n, (run n).shut ≠ .none) →
    ∃ n, (run n).shut = .returned

/-- what IS proved about termination: no reachable state blocks shutdown (`shutdown_reachable`), and every
step of the strand goroutine / Shutdown that the path uses stays enabled until it is taken (they are
disabled by no other thread's step) — stated here only for the pivotal one: once quit is closed and the
strand goroutine is idle or exited, no client step can make it run again after it exits -/
theorem shutdown_terminates_partial (s s' : St) (o : Option Obs) (_h : Reach s) (hx : s.strand = .exited)
    (st : Step s o s') : s'.strand = .exited := by
  cases st <;> simp_all [disconnectAll_frame]
  all_goals first | exact hx | (rename_i hs; rw [hx] at hs; cases hs)

/-- **trace conformance is sound**: every observation sequence the model can produce is accepted by the
monitor; so a real trace the monitor rejects is not a run of the model -/
theorem trace_conformance_sound (tr : List Obs) (s : St) (e : Exec St.init tr s) : (Mon.run {} tr).isSome = true := by
  obtain ⟨m, hm, _⟩ := mon_accepts e
  rw [hm]; rfl

/-! ### regenerated static facts about the current source -/

/-- no exported method of ConnectionPool touches a pool map outside a strand closure (Shutdown touches them
only after `<-pool.strandDone`) -/
theorem no_unstranded_entries : unstrandedEntries = [] := by decide

/-- Strand's two select loops, processStrand's loop and Shutdown's order are the ones the model describes -/
theorem code_shapes_match_model : shutdownOrderOK = true ∧ processStrandOK = true ∧ strandSelectsOK = true := by decide

/-- handleConnection's error channel has room for one report from each of its goroutines, each of which reports at
most once, and handleConnection receives at most once (regenerated) -/
theorem errChan_facts : errProducers ≤ errChanCap ∧ errSendOnce = true := by decide

/-- hence no goroutine of a connection ever blocks reporting its error — whichever branch of handleConnection's
select is taken, in particular when `quit` fires and nothing is received — so `wg.Wait()` in handleConnection
returns, `Run` can close `done` and `Shutdown` returns (Sky.C32.ErrChan) -/
theorem connection_goroutines_finish {s : ErrChan.St} (h : ErrChan.Reach errChanCap errProducers s) :
    (0 < s.live → s.buffered < errChanCap) ∧ ∃ s', ErrChan.Reach errChanCap errProducers s' ∧ s'.live = 0 :=
  ⟨ErrChan.report_never_blocks errChan_facts.1 h, ErrChan.all_finish errChan_facts.1 h⟩

/-! ### non-vacuity: a concrete run of the model, accepted by the monitor; and traces it rejects -/

/-- two calls (a newConnection that completes, a read that is cut off by shutdown), then Shutdown -/
example : (Mon.run {} [.call 0, .enter 0 .strandG, .access .strandG, .exit 0 .strandG, .ret 0 false,
    .call 1, .shutCalled, .ret 1 true, .sawDone, .access .shutG, .returned 0]).isSome = true := by decide
/-- a map access by a third goroutine is rejected -/
example : (Mon.run {} [.call 0, .enter 0 .strandG, .access .other]).isSome = false := by decide
/-- a request entering the strand after Shutdown has seen strandDone is rejected -/
example : (Mon.run {} [.call 0, .shutCalled, .sawDone, .enter 0 .strandG]).isSome = false := by decide
/-- a normal return without the function having completed is rejected -/
example : (Mon.run {} [.call 0, .enter 0 .strandG, .ret 0 false]).isSome = false := by decide
/-- a non-empty pool after Shutdown is rejected -/
example : (Mon.run {} [.shutCalled, .sawDone, .returned 2]).isSome = false := by decide

/-- the model really registers connections: after one newConnection(7) request both maps hold it -/
example : ∃ s, Reach s ∧ s.conns = [(1, 7)] ∧ s.addrs = [(7, 1)] := by
  have a1 := Step.spawn St.init (.newConn 7)
  have a2 := Step.recv ⟨false, .idle, .none, [(.sending, .newConn 7)], [], [], [], 0⟩ 0 (by decide) rfl
  have a3 := Step.finish ⟨false, .running 0, .none, setPhase [(.sending, .newConn 7)] 0 .waiting, [], [], [], 0⟩ 0
    (.newConn 7) rfl (by decide)
  exact ⟨_, ⟨_, Exec.obs (Exec.obs (Exec.obs (Exec.nil _) a1) a2) a3⟩, by decide, by decide⟩

end Sky.Props.C32
