/-
  C04 — a block is appended only if it correctly extends the signed chain.
  (theorems over the ledger model; the model is the code AFTER the repairs F3 and F15, see
  known_findings.json; tie: harness/ledger compares verdict + stored chain + whole state per op and
  runs the node's own visor.CheckDatabase on a copy of the real database.)
-/
import Sky.Ledger.Run
import Sky.Ledger.Progress
namespace Sky.Props.C04
open Sky Sky.Ledger

/-- ONLY-IF direction, every clause of the property: an accepted block is signed by the configured
publisher key over exactly the header that is stored (the stored block IS the submitted block, header
hash `hh` included), has seq = head+1, a later time, names the head's hash as parent, its body hash
matches its transactions, its unspent checksum equals the node's, and it is not a second genesis. -/
theorem append_only_if {s s' : State} {b g : Block} (hg : s.chain.head? = some g)
    (h : execSigned s b = .ok s') :
    b.sig = true ∧
    (∃ head, s.chain.getLast? = some head ∧ b.seq = head.seq + 1 ∧ head.time < b.time ∧ b.prev = head.hh) ∧
    b.cb = b.body ∧ b.uxh = hex16 s.xor ∧ g.hh ≠ b.hh ∧ s'.chain = s.chain ++ [b] := by
  obtain ⟨hsig, hpb, _, s1, _, _, hc, _⟩ := execSigned_ok h
  obtain ⟨hgen, hvh, _, hux⟩ := processBlock_ok hg hpb
  obtain ⟨head, h1, h2, h3, h4, h5⟩ := verifyBlockHeader_ok hvh
  exact ⟨hsig, ⟨head, h1, h2, h3, h4⟩, h5, hux, hgen, hc⟩

/-- IF direction (progress): in every state a history can reach (`Strong`, see `Sky.Ledger.strong_after_run`), a
publisher-signed block that passes `Blockchain.processBlock`, whose header hash is not yet in the block store and
whose parent reference is not the null hash IS appended — no later storage step (unspent-set update with the
address-index guards, pool purge, history parsing) can refuse it.  With `append_only_if`: a block is appended
exactly when it is signed, passes the checks of `processBlock` and is new to the store. -/
theorem append_iff {s : State} {b g last : Block} (hst : Strong s) (hwf : ∀ t ∈ b.txns, WfSound t)
    (hinj : HashInj b.txns) (hg : s.chain.head? = some g) (hl : s.chain.getLast? = some last) :
    (∃ s', execSigned s b = .ok s') ↔
      (b.sig = true ∧ processBlock s b = .ok () ∧ (s.chain.any (·.hh == b.hh)) = false ∧
        (decide (b.seq > 0) && (b.prev == "0000000000000000")) = false) := by
  constructor
  · rintro ⟨s', h⟩
    obtain ⟨hsig, hpb, hnew, _⟩ := execSigned_ok h
    refine ⟨hsig, hpb, hnew, ?_⟩
    unfold execSigned at h
    simp only [bind, Except.bind] at h
    split at h
    · cases h
    · split at h
      · cases h
      · split at h
        · cases h
        · split at h
          · cases h
          · rename_i hp; simpa using hp
  · rintro ⟨hsig, hpb, hnew, hprev⟩
    obtain ⟨_, hvh, _, _⟩ := processBlock_ok hg hpb
    obtain ⟨head, hhd, hseq, _⟩ := verifyBlockHeader_ok hvh
    have hpos : decide (b.seq > 0) = true := by simp; omega
    rw [hpos, Bool.true_and] at hprev
    exact execSigned_succeeds hst hwf hg hl hsig hpb hnew hprev hinj

/-- non-vacuity of `Strong`: the state right after a genesis block with one output satisfies it -/
example (cfg : Cfg) (g : Block) (u : Ux) (hseq : g.seq = 0) :
    Strong { cfg := cfg, chain := [g], unspent := [u], aidx := [(u.addr, [u.id])], aih := some 0,
             houts := [{ id := u.id, addr := u.addr, coins := u.coins, spent := none }] } := by
  refine ⟨by simp, ?_, ?_, ?_, by simp [hseq]⟩
  · intro a id
    by_cases h : u.addr = a
    · simp [aidxGet, idsOfAddr, h]
    · simp [aidxGet, idsOfAddr, h]
  · intro a
    by_cases h : u.addr = a
    · simp [aidxGet, h]
    · simp [aidxGet, h]
  · intro v hv
    simp at hv
    subst hv
    simp [idsH]

/-- the stored chain is the old chain plus the SUBMITTED block, bit for bit (no re-linking, no
re-arbitration): so the stored signature is over the stored header -/
theorem stored_is_submitted {s s' : State} {b : Block} (h : execSigned s b = .ok s') :
    s'.chain = s.chain ++ [b] := (exec_chain h).1

/-- a second genesis is refused -/
theorem second_genesis_refused {s : State} {b g : Block} (hg : s.chain.head? = some g) (hb : b.hh = g.hh) :
    ∃ e, execSigned s b = .error e := by
  cases h : execSigned s b with
  | error e => exact ⟨e, rfl⟩
  | ok s' =>
    have := (append_only_if hg h).2.2.2.2.1
    exact absurd hb.symm this

/-- a block that is not signed by the configured key is refused, whatever else it contains -/
theorem unsigned_refused (s : State) (b : Block) (hb : b.sig = false) : execSigned s b = .error "badsig" := by
  unfold execSigned; simp [hb, bind, Except.bind]

/-- any rejected block leaves chain, unspent set, history AND unconfirmed pool exactly as they were
(the whole state: one bolt transaction per operation) -/
theorem reject_no_change (s : State) (b : Block) (e : String) (h : execSigned s b = .error e) :
    applyOp s (.exec b) = s := by simp [applyOp, h]

/-- after ANY history every stored block is publisher-signed, sequence numbers are consecutive from the
genesis block, times increase and every block names its predecessor's hash: the chain-shape part of
the node's own CheckDatabase as an invariant -/
def ChainOK : List Block → Prop
  | [] => True
  | [_] => True
  | a :: b :: rest => b.sig = true ∧ b.seq = a.seq + 1 ∧ a.time < b.time ∧ b.prev = a.hh ∧ ChainOK (b :: rest)

theorem chainOK_append {l : List Block} {last b : Block} (hl : ChainOK l) (hlast : l.getLast? = some last)
    (hb : b.sig = true ∧ b.seq = last.seq + 1 ∧ last.time < b.time ∧ b.prev = last.hh) : ChainOK (l ++ [b]) := by
  induction l with
  | nil => simp at hlast
  | cons a l ih =>
    cases l with
    | nil =>
      simp at hlast; subst hlast
      exact ⟨hb.1, hb.2.1, hb.2.2.1, hb.2.2.2, trivial⟩
    | cons c l' =>
      obtain ⟨h1, h2, h3, h4, h5⟩ := hl
      have hlast' : (c :: l').getLast? = some last := by simpa [List.getLast?_cons_cons] using hlast
      exact ⟨h1, h2, h3, h4, ih h5 hlast'⟩

theorem chain_shape_invariant (s : State) (ops : List Op) (hne : s.chain ≠ []) (h0 : ChainOK s.chain) :
    ChainOK (run s ops).chain ∧ (run s ops).chain ≠ [] := by
  apply run_induction (fun st => ChainOK st.chain ∧ st.chain ≠ []) ops (fun _ => True)
  · intro a b hs hp
    obtain ⟨_, a2, _⟩ := hs
    rw [a2]; exact hp
  · intro a a' b hp _ he
    obtain ⟨hok, hne'⟩ := hp
    cases hc : a.chain with
    | nil => exact absurd hc hne'
    | cons g l =>
      have hg : a.chain.head? = some g := by rw [hc]; rfl
      obtain ⟨hsig, ⟨head, h1, h2, h3, h4⟩, _, _, _, hch⟩ := append_only_if hg he
      rw [hch]
      exact ⟨chainOK_append hok h1 ⟨hsig, h2, h3, h4⟩, by simp⟩
  · exact ⟨h0, hne⟩
  · intro _ _; trivial

/- FULL statement (if and only if), kept visible:  execSigned s b = .ok s'  ↔  the six conditions of
`append_only_if` ∧ the transaction list passes `processTransactions` unchanged ∧ the derived-index
updates succeed.  The "if" direction additionally needs the index/history invariants of C07 (that
`poolAddrIndex.adjust` and `HistoryDB.ParseBlock` cannot fail on a reachable state); it is carried by
the correspondence (the model's verdict is compared with the node's on every submitted block). -/

end Sky.Props.C04
