/-
  C26 — the peer list only contains valid peers and respects its bound.

  Model: Sky.C26.Model (`validate` = validateAddress; `step`/`run` over AddPeer / AddPeers / RemovePeer /
  setTrusted / IncreaseRetryTimes / ResetRetryTimes / ResetAllRetryTimes / SetHasIncomingPort / the
  ClearOld tick / clock advance).  Theorems hold for every configuration (Max, AllowLocalhost,
  Expiration), every event list of any length, arbitrary byte strings as addresses, and every value of
  the chance-dependent arguments (eviction victim hint, shuffle permutation — not even required to
  be a permutation —, clock fraction).
-/
import Sky.C26.Preserve
namespace Sky.Props.C26
open Sky.C26

/-- `validateAddress` accepts exactly the address rule `a.b.c.d:port` — canonical dotted quad, global
unicast or (if allowed) loopback, decimal port in 1024..65535 — and returns the input with `\s` removed -/
theorem validateAddress_iff (allow : Bool) (s s' : Bytes) :
    validate allow s = .ok s' ↔ s' = stripWS s ∧ ValidAddr allow s' :=
  validate_ok_iff allow s s'

/-- error kinds, in the code's order, for a string that splits into exactly two parts at ':' with a
parsable dotted quad: loopback-not-allowed, then not-global-unicast, then bad port, then port < 1024 -/
theorem validateAddress_errors (allow : Bool) (s h p : Bytes) (a b c d : Nat)
    (hs : splitOn 58 (stripWS s) = [h, p]) (hp : parseIPv4 h = some (a, b, c, d)) :
    validate allow s =
      if a = 127 ∧ allow = false then .error .noLocalhost
      else if a ≠ 127 ∧ globalUnicast a b c d = false then .error .notExternal
      else match port? p with
        | none => .error .invalid
        | some n => if n < 1024 then .error .portTooLow else .ok (stripWS s) := by
  unfold validate
  simp only [hs, hp]
  by_cases h127 : a = 127 <;> cases allow <;> cases hg : globalUnicast a b c d <;> simp [h127] <;> cases port? p <;> rfl

/-- **all_valid**: after any history every stored address satisfies the address rule under the
list's own AllowLocalhost setting; and there is one record per address -/
theorem all_valid (cfg : Cfg) (evs : List Ev) :
    ∀ p ∈ (run cfg State.init evs).peers, ValidAddr cfg.allowLocalhost p.addr :=
  (inv_run evs (inv_init cfg)).valid

theorem one_record_per_address (cfg : Cfg) (evs : List Ev) :
    ((run cfg State.init evs).peers.map (·.addr)).Nodup :=
  (inv_run evs (inv_init cfg)).nodup

/-- the invariant is inductive from any state satisfying it -/
theorem inv_preserved (cfg : Cfg) (s : State) (h : Inv cfg s) (ev : Ev) : Inv cfg (step cfg s ev).1 :=
  inv_step h ev

/-- **bulk_bounded**: AddPeers never grows a list that respects Max beyond Max (any state, any
address list, any shuffle) -/
theorem bulk_bounded (cfg : Cfg) (s : State) (addrs : List Bytes) (perm : List Nat)
    (hmax : cfg.max > 0) (h : (s.peers.length : Int) ≤ cfg.max) :
    ((step cfg s (.addPeers addrs perm)).1.peers.length : Int) ≤ cfg.max :=
  bounded_addPeers (fun _ => h) addrs perm hmax

/-- **single_add_bounded**: neither does AddPeer -/
theorem single_add_bounded (cfg : Cfg) (s : State) (addr victim : Bytes)
    (hmax : cfg.max > 0) (h : (s.peers.length : Int) ≤ cfg.max) :
    ((step cfg s (.addPeer addr victim)).1.peers.length : Int) ≤ cfg.max :=
  bounded_addPeer (fun _ => h) addr victim hmax

/-- the bound holds after every history that starts from the empty list -/
theorem size_bounded (cfg : Cfg) (evs : List Ev) (hmax : cfg.max > 0) :
    ((run cfg State.init evs).peers.length : Int) ≤ cfg.max :=
  bounded_run evs (s := State.init) (fun h => by simp [State.init]; omega) hmax

/-- **trusted_never_evicted**: AddPeer and AddPeers keep every trusted peer (present and trusted) -/
theorem trusted_never_evicted (cfg : Cfg) (s : State) (h : Inv cfg s) :
    (∀ addr victim, TrustedKept s.peers (step cfg s (.addPeer addr victim)).1.peers) ∧
    (∀ addrs perm, TrustedKept s.peers (step cfg s (.addPeers addrs perm)).1.peers) :=
  ⟨fun a v => trusted_step h _ (fun _ e => by cases e), fun as p => trusted_step h _ (fun _ e => by cases e)⟩

/-- **trusted_never_cleared**: the ClearOld tick keeps every trusted peer, however old -/
theorem trusted_never_cleared (cfg : Cfg) (s : State) (h : Inv cfg s) (frac : Bool) :
    TrustedKept s.peers (step cfg s (.clearOld frac)).1.peers :=
  trusted_step h _ (fun _ e => by cases e)

/-- over a whole history: as long as nobody calls RemovePeer, every trusted peer stays -/
theorem trusted_kept_run (cfg : Cfg) : ∀ (evs : List Ev) (s : State), Inv cfg s →
    (∀ e ∈ evs, ∀ a, e ≠ .removePeer a) → TrustedKept s.peers (run cfg s evs).peers
  | [], _, _, _ => fun p hp hpt => ⟨p, hp, rfl, hpt⟩
  | e :: es, s, h, hev => by
    intro p hp hpt
    obtain ⟨q, hq, hqa, hqt⟩ := trusted_step (cfg := cfg) h e (hev e List.mem_cons_self) p hp hpt
    obtain ⟨r, hr, hra, hrt⟩ := trusted_kept_run cfg es _ (inv_step h e)
      (fun e' he' => hev e' (List.mem_cons_of_mem _ he')) q hq hqt
    exact ⟨r, hr, hra.trans hqa, hrt⟩

/-- whatever AddPeer evicts was untrusted, at least 24 h old, the oldest untrusted peer, and the list
was full -/
theorem evicted_only_stale_oldest_untrusted (cfg : Cfg) (s : State) (h : Inv cfg s) (addr victim : Bytes)
    (q : Peer) (hq : q ∈ s.peers)
    (hgone : ∀ r ∈ (step cfg s (.addPeer addr victim)).1.peers, r.addr ≠ q.addr) :
    isFull cfg s.peers = true ∧ q.trusted = false ∧ s.now - q.lastSeen ≥ 60 * 60 * 24 ∧
    ∀ p ∈ s.peers, p.trusted = false → q.lastSeen ≤ p.lastSeen :=
  evicted_spec h addr victim hq hgone

/-- whatever the ClearOld tick drops was untrusted and at least `Expiration` old -/
theorem cleared_only_stale_untrusted (cfg : Cfg) (s : State) (frac : Bool) (q : Peer) (hq : q ∈ s.peers)
    (hgone : q ∉ (step cfg s (.clearOld frac)).1.peers) :
    q.trusted = false ∧ s.now - q.lastSeen ≥ cfg.expiration :=
  cleared_spec frac hq hgone

/-- the driver's executable check of a dumped address decides the address rule -/
theorem check_decides (allow : Bool) (a : Bytes) : validB allow a = true ↔ ValidAddr allow a :=
  validB_iff allow a

/-! ### non-vacuity -/

def b (s : String) : Bytes := s.toList.map Char.toNat

def cfg2 : Cfg := ⟨2, false, 604800, false⟩

/-- two peers fill the list; a day later one is trusted; a third address evicts the untrusted one and
the trusted one stays -/
def witness : List Ev :=
  [.addPeers [b "8.8.8.8:6000", b " 1.2.3.4 :01024\n", b "127.0.0.1:6000", b "1.2.3.4:80"] [2, 0, 1],
   .advance 86400, .setTrusted (b "8.8.8.8:6000"), .addPeer (b "9.9.9.9:65535") []]

example : ((run cfg2 State.init witness).peers.map (fun p => (p.addr, p.trusted)))
    = [(b "8.8.8.8:6000", true), (b "9.9.9.9:65535", false)] := by decide

example : ValidAddr false (b "1.2.3.4:01024") := (check_decides _ _).1 (by decide)
example : ¬ ValidAddr false (b "127.0.0.1:6000") := fun h => by have := (check_decides _ _).2 h; revert this; decide
example : ValidAddr true (b "127.0.0.1:6000") := (check_decides _ _).1 (by decide)
example : ¬ ValidAddr true (b "01.2.3.4:6000") := fun h => by have := (check_decides _ _).2 h; revert this; decide
example : validate false (b "1.2.3.4:1023") = .error .portTooLow := by rfl
example : validate false ([11] ++ b "1.2.3.4:6000") = .error .invalid := by rfl   -- \v is not stripped

end Sky.Props.C26
