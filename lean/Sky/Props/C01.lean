/-
  C01 — coin supply is conserved by every ledger history (theorems over the ledger model).

  Modelled: Visor.executeSignedBlock, Blockchain.processBlock/processTransactions,
  VerifyBlockTxnConstraints → transaction.verifyTxnHardConstraints → coin.VerifyTransactionCoinsSpending,
  Unspents.ProcessBlock; pool operations.  Tie: correspondence of the whole state digest (harness/ledger).
  Scope of the proofs: BOTH configurations (ordinary node and arbitrating block publisher).
-/
import Sky.Ledger.Run
namespace Sky.Props.C01
open Sky Sky.Ledger

/-- The unspent coins (summed in ℕ — no modulus) equal the genesis volume after EVERY finite history of
block submissions (valid, invalid, stale, duplicated, re-ordered), transaction injections, refresh,
invalid-removal and restarts, starting from any state that holds the genesis supply. -/
theorem supply_conserved {G : Nat} {g : Block} {cfg : Cfg} (s0 : State) (ops : List Op)
    (h0 : Good G g cfg s0) (hwf : ∀ op ∈ ops, OpOK op) :
    coinsOfUx (run s0 ops).unspent = G :=
  (good_run s0 ops h0 hwf).2.2.2

/-- …and no two unspent outputs ever share an id -/
theorem unspent_ids_unique {G : Nat} {g : Block} {cfg : Cfg} (s0 : State) (ops : List Op)
    (h0 : Good G g cfg s0) (hwf : ∀ op ∈ ops, OpOK op) :
    ((run s0 ops).unspent.map (·.id)).Nodup :=
  (good_run s0 ops h0 hwf).2.2.1

/-- the state right after the genesis block (one transaction, no inputs, one output — what
coin.NewGenesisBlock builds) holds exactly the genesis coin volume -/
theorem genesis_good {cfg : Cfg} {gb : Block} {t : Txn} {o : Out} {s0 : State}
    (hb : gb.txns = [t]) (hi : t.ins = []) (ho : t.outs = [o])
    (h : execSigned { cfg := cfg } gb = .ok s0) : Good o.coins gb cfg s0 := by
  obtain ⟨_, _, _, s1, hs1, hu, hc, _, hcfg, _⟩ := execSigned_ok h
  obtain ⟨_, _, hun, _⟩ := unspentProcessBlock_ok hs1
  refine ⟨by rw [hc]; rfl, hcfg, ?_⟩
  unfold Ledger.Inv
  rw [hu, hun]
  simp [keptPool, blockCreated, hb, createUnspents, ho, coinsOfUx]

/-- every transaction of an accepted (non-genesis) block has input coins EXACTLY equal to output coins,
its inputs are unspent at the head, and both sums fit 64 bits -/
theorem accepted_txn_balanced {s s' : State} {b g : Block} (hinj : HashInj b.txns)
    (hg : s.chain.head? = some g) (h : execSigned s b = .ok s') :
    ∀ t ∈ b.txns, ∃ uxIn, getArray s.unspent t.ins = .ok uxIn ∧ coinsOfUx uxIn = coinsOfOuts t.outs := by
  obtain ⟨hv, _⟩ := accepted_block_facts hinj hg h
  intro t ht
  obtain ⟨uxIn, h1, _, h3, _⟩ := verifyBlockTxn_ok (hv t ht)
  exact ⟨uxIn, h1, h3⟩

/-- no coin sum overflows silently: the checked sum either IS the mathematical sum (and fits) or fails -/
theorem no_silent_overflow (xs : List Nat) (n : Nat) (h : sumU64? xs = some n) :
    n = xs.sum ∧ (xs ≠ [] → n < 2^64) :=
  ⟨sumU64?_some xs n h, sumU64?_lt xs n h⟩

/-- a rejected operation changes nothing (one bolt transaction per operation, rolled back on error) -/
theorem rejected_block_no_change (s : State) (b : Block) (e : String) (h : execSigned s b = .error e) :
    applyOp s (.exec b) = s := by
  simp [applyOp, h]

/-- **end to end from the genesis block**: start from the empty database, execute the genesis block
(one transaction, no inputs, one output) and then ANY history — the unspent coins are exactly the genesis
output's coins and no output id occurs twice -/
theorem supply_from_genesis {cfg : Cfg} {gb : Block} {t : Txn} {o : Out} {s0 : State} (ops : List Op)
    (hb : gb.txns = [t]) (hi : t.ins = []) (ho : t.outs = [o])
    (h : execSigned { cfg := cfg } gb = .ok s0) (hwf : ∀ op ∈ ops, OpOK op) :
    coinsOfUx (run s0 ops).unspent = o.coins ∧ ((run s0 ops).unspent.map (·.id)).Nodup :=
  ⟨supply_conserved s0 ops (genesis_good hb hi ho h) hwf,
   unspent_ids_unique s0 ops (genesis_good hb hi ho h) hwf⟩

/-- **one step, stated without reference to a supply constant**: an accepted block neither creates nor
destroys coins — the unspent sum after equals the unspent sum before -/
theorem accepted_block_keeps_supply {s s' : State} {b g : Block} (hinj : HashInj b.txns)
    (hg : s.chain.head? = some g) (hnd : (s.unspent.map (·.id)).Nodup)
    (hwf : ∀ t ∈ b.txns, WfSound t) (h : execSigned s b = .ok s') :
    coinsOfUx s'.unspent = coinsOfUx s.unspent :=
  (exec_preserves_inv hinj hg ⟨hnd, rfl⟩ hwf h).2

/-- the head of the chain never goes back: the genesis block stays at the bottom of the chain after every
history (together with `supply_conserved`: the supply is that of THIS genesis block) -/
theorem genesis_stays {G : Nat} {g : Block} {cfg : Cfg} (s0 : State) (ops : List Op)
    (h0 : Good G g cfg s0) (hwf : ∀ op ∈ ops, OpOK op) :
    (run s0 ops).chain.head? = some g ∧ (run s0 ops).cfg = cfg :=
  ⟨(good_run s0 ops h0 hwf).1, (good_run s0 ops h0 hwf).2.1⟩

end Sky.Props.C01
