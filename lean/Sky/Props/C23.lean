/-
  C23 — outgoing peer messages always fit the size limit and carry the longest fitting prefix.

  Model: Sky.C23.Model.  `sizes : List Nat` (encoded item sizes), `hdr` (empty-message size), `len`
  (number of hashes) and `max` are arbitrary; the constants `capX`, `maxlenX`, `frameX`, `sha256Size`,
  gnet's `lengthPrefixSize`, `msgIDSize`, `sendCountsLengthPrefix` and the definition
  `truncateSHA256SliceLen` are REGENERATED from the current source (Sky.Gen.C23Facts) on every run, after
  the translator has checked that each truncate function is an instance of its template.
  "Fits" is measured as gnet measures it before writing to a connection: `wireOverhead` + body ≤ max.
-/
import Sky.C23.Lemmas
namespace Sky.Props.C23
open Sky Sky.C23 Sky.Gen.C23Facts

/-! ### generic: any frame constant, header size, cap, sizes, limit -/

/-- loop template: for every limit that leaves room for the frame the function returns (no panic) the
longest prefix that fits when `frame` bytes are reserved -/
theorem loop_longest (frame hdr : Nat) (items : List Nat) (max : Nat) (h : frame + hdr ≤ max) :
    ∃ k, truncLoop frame hdr items max = .ok k ∧ IsLongestFit frame hdr items max k :=
  ⟨_, truncLoop_eq items (by omega), specKeep_longest items h⟩

/-- hash template: closed form `min len ((max − frame − hdr) / elem)`, longest fitting prefix, no panic -/
theorem hash_closed_form (frame hdr elem len max : Nat) (he : 0 < elem) (h : frame + hdr ≤ max) :
    truncHash frame hdr elem len max = .ok (min len ((max - frame - hdr) / elem)) ∧
    IsLongestFit frame hdr (List.replicate len elem) max (min len ((max - frame - hdr) / elem)) :=
  ⟨truncHash_eq len he h, hash_longest len he h⟩

/-- there is exactly one longest fitting prefix -/
theorem longest_unique (ovh hdr : Nat) (items : List Nat) (max k k' : Nat)
    (h : IsLongestFit ovh hdr items max k) (h' : IsLongestFit ovh hdr items max k') : k = k' :=
  longestFit_unique h h'

/-- the loop functions panic exactly below their frame constant (outside the property's quantifier) -/
theorem loop_panics_iff (frame hdr : Nat) (items : List Nat) (max : Nat) :
    (∃ p, truncLoop frame hdr items max = .panic p) ↔ max < frame :=
  truncLoop_panic_iff items

/-- what `IsLongestFit` with gnet's overhead means on the wire: the frame gnet builds is within the limit
that `sendMessage` enforces, the kept items are a prefix, and one more item would exceed the limit -/
theorem longest_means (hdr : Nat) (items : List Nat) (max k : Nat) (h : IsLongestFit wireOverhead hdr items max k) :
    wireOverhead + (hdr + (items.take k).sum) ≤ max ∧ k ≤ items.length ∧
    (k = items.length ∨ wireOverhead + (hdr + (items.take (k + 1)).sum) > max) := by
  obtain ⟨h1, h2, h3⟩ := h
  refine ⟨by omega, h1, ?_⟩
  rcases h3 with h3 | h3
  · exact Or.inl h3
  · exact Or.inr (by omega)

/-! ### regenerated facts: each truncate function reserves exactly gnet's framing bytes -/

theorem frameGiveBlocks_eq : frameGiveBlocks = wireOverhead := by decide
theorem frameGiveTxns_eq : frameGiveTxns = wireOverhead := by decide
theorem frameGivePeers_eq : frameGivePeers = wireOverhead := by decide
theorem frameAnnounceTxns_eq : frameAnnounceTxns = wireOverhead := by decide
theorem frameGetTxns_eq : frameGetTxns = wireOverhead := by decide

/-- the caps never exceed the `maxlen` tags, so encoding a built message never fails on maxlen -/
theorem caps_le_maxlen :
    capGiveBlocks ≤ maxlenGiveBlocks ∧ capGiveTxns ≤ maxlenGiveTxns ∧ capGivePeers ≤ maxlenGivePeers ∧
    capAnnounceTxns ≤ maxlenAnnounceTxns ∧ capGetTxns ≤ maxlenGetTxns := by decide

/-- with gnet's current constants the overhead is the whole of `EncodeMessage`'s framing -/
theorem wireOverhead_is_framing : wireOverhead = lengthPrefixSize + msgIDSize := by decide

/-! ### the five constructors: fits / is_prefix / maximal, for all item lists and all limits ≥ framing + empty message -/

theorem giveBlocks_longest (hdr : Nat) (sizes : List Nat) (max : Nat) (h : wireOverhead + hdr ≤ max) :
    ∃ k, mkLoop frameGiveBlocks hdr capGiveBlocks sizes max = .ok k ∧
      IsLongestFit wireOverhead hdr (sizes.take capGiveBlocks) max k := by
  unfold mkLoop; rw [frameGiveBlocks_eq]; exact loop_longest _ _ _ _ h

theorem giveTxns_longest (hdr : Nat) (sizes : List Nat) (max : Nat) (h : wireOverhead + hdr ≤ max) :
    ∃ k, mkLoop frameGiveTxns hdr capGiveTxns sizes max = .ok k ∧
      IsLongestFit wireOverhead hdr (sizes.take capGiveTxns) max k := by
  unfold mkLoop; rw [frameGiveTxns_eq]; exact loop_longest _ _ _ _ h

/-- `sizes` = sizes of the usable addresses among the first `capGivePeers` peers (the conversion loop of
NewGivePeersMessage, which skips unusable addresses after capping, is part of the harness's candidate list) -/
theorem givePeers_longest (hdr : Nat) (sizes : List Nat) (max : Nat) (h : wireOverhead + hdr ≤ max) :
    ∃ k, truncLoop frameGivePeers hdr sizes max = .ok k ∧ IsLongestFit wireOverhead hdr sizes max k := by
  rw [frameGivePeers_eq]; exact loop_longest _ _ _ _ h

theorem announceTxns_longest (hdr len max : Nat) (h : wireOverhead + hdr ≤ max) :
    ∃ k, mkHash frameAnnounceTxns hdr sha256Size capAnnounceTxns len max = .ok k ∧
      k = min (min len capAnnounceTxns) ((max - wireOverhead - hdr) / sha256Size) ∧
      IsLongestFit wireOverhead hdr (List.replicate (min len capAnnounceTxns) sha256Size) max k := by
  unfold mkHash; rw [frameAnnounceTxns_eq]
  have := hash_closed_form wireOverhead hdr sha256Size (min len capAnnounceTxns) max (by decide) h
  exact ⟨_, this.1, rfl, this.2⟩

theorem getTxns_longest (hdr len max : Nat) (h : wireOverhead + hdr ≤ max) :
    ∃ k, mkHash frameGetTxns hdr sha256Size capGetTxns len max = .ok k ∧
      k = min (min len capGetTxns) ((max - wireOverhead - hdr) / sha256Size) ∧
      IsLongestFit wireOverhead hdr (List.replicate (min len capGetTxns) sha256Size) max k := by
  unfold mkHash; rw [frameGetTxns_eq]
  have := hash_closed_form wireOverhead hdr sha256Size (min len capGetTxns) max (by decide) h
  exact ⟨_, this.1, rfl, this.2⟩

/-- the driver's specification value is the longest fitting prefix -/
theorem spec_is_longest (hdr : Nat) (items : List Nat) (max : Nat) (h : wireOverhead + hdr ≤ max) :
    IsLongestFit wireOverhead hdr items max (specKeep wireOverhead hdr items max) :=
  specKeep_longest items h

/-! ### non-vacuity -/

example : IsLongestFit 8 4 [100, 200, 300, 50] 320 2 := by decide
example : truncLoop 8 4 [100, 200, 300, 50] 320 = .ok 2 := by decide
example : truncLoop 8 4 [100, 200, 300, 50] 311 = .ok 1 := by decide   -- 8+4+100+200 = 312 > 311
example : truncHash 8 4 32 10 107 = .ok 2 ∧ truncHash 8 4 32 10 108 = .ok 3 := by decide
/-- reserving only 4 bytes keeps one hash too many for limits ≡ 8..11 (mod 32): 12 + 3·32 = 108 > 104 -/
example : truncHash 4 4 32 10 104 = .ok 3 ∧ ¬ IsLongestFit 8 4 (List.replicate 10 32) 104 3 := by decide

end Sky.Props.C23
