/-
  C22 model — the receive path of src/daemon/gnet (core Lean only, executable):

    readLoop      conn.Buffer.Write(data); datas, err := decodeData(conn.Buffer, max); each frame → msgChan (cap 32)
    decodeData    length-prefix framing of the connection buffer          (pool.go)
    convertToMessage / deserializeMessage                                 (dispatcher.go)
    message id table, per-message Decode                                  (daemon/messages.go; regenerated: Sky.Gen.Codecs.messages)

  `decodeData` follows the code statement by statement: loop while `buf.Len() > 4`; read the prefix;
  `length < 4` and `length > max` → ErrDisconnectInvalidMessageLength (frames decoded earlier in the same call
  are dropped, as in the code: `return [][]byte{}, err`); an incomplete frame stops the loop and RETURNS THE
  FRAMES DECODED SO FAR (the code returned an empty list here until the repair recorded in
  known_findings.json "fixed"); otherwise strip prefix and frame and continue.
-/
import Sky.Codec.Basic
namespace Sky.C22
open Sky.Codec

/-- gnet.ErrDisconnectInvalidMessageLength is the only error of the framing layer -/
inductive FrameErr where
  | invalidLength
deriving DecidableEq, Repr

/-- `messageLengthPrefixSize` / `messagePrefixLength` (regenerated constants are checked against these) -/
def prefixSize : Nat := 4
def minLength : Nat := 4
/-- capacity of the per-connection channel between readLoop and the message handler -/
def queueCap : Nat := 32

/-- a message on the wire: `uint32le(len) ‖ id(4) ‖ body` -/
def frame (m : Bytes) : Bytes := leBytes 4 m.length ++ m

/-- the loop of `decodeData`; `fuel` bounds the number of iterations (each consumes ≥ 8 bytes). -/
def decodeLoop (max : Nat) : Nat → Bytes → List Bytes → Except FrameErr (List Bytes × Bytes)
  | 0, buf, acc => .ok (acc.reverse, buf)
  | fuel+1, buf, acc =>
    if buf.length ≤ 4 then .ok (acc.reverse, buf)                 -- for buf.Len() > messageLengthPrefixSize
    else
      let len := leVal (buf.take 4)
      if len < 4 then .error .invalidLength                      -- length < messagePrefixLength
      else if len > max then .error .invalidLength               -- length > maxMsgLength
      else if buf.length - 4 < len then .ok (acc.reverse, buf)   -- incomplete: wait for more data
      else decodeLoop max fuel (buf.drop (4 + len)) ((buf.drop 4).take len :: acc)

/-- `decodeData(buf, max)`: the frames taken out of the buffer and what stays in it -/
def decodeData (max : Nat) (buf : Bytes) : Except FrameErr (List Bytes × Bytes) :=
  decodeLoop max buf.length buf []

/-- one iteration of readLoop: append the chunk just read to the connection buffer, decode -/
def feed (max : Nat) (buf chunk : Bytes) : Except FrameErr (List Bytes × Bytes) :=
  decodeData max (buf ++ chunk)

/-- readLoop over a list of reads; the frames delivered (in order) and the final buffer, or the disconnect -/
def feedAll (max : Nat) : Bytes → List Bytes → List Bytes → Except FrameErr (List Bytes × Bytes)
  | buf, [], acc => .ok (acc, buf)
  | buf, c :: cs, acc =>
    match feed max buf c with
    | .error e => .error e
    | .ok (fs, buf') => feedAll max buf' cs (acc ++ fs)

/-- the non-blocking hand-over to `msgChan` (`default: return errors.New("readLoop msgChan is closed or full")`)
when the consumer has taken `taken` of the queued frames since the previous read -/
def enqueue (queued : Nat) (frames : List Bytes) : Option Nat :=
  if queued + frames.length ≤ queueCap then some (queued + frames.length) else none

/-! ### convertToMessage -/

inductive ConvErr where
  | truncatedMessageID      -- ErrDisconnectTruncatedMessageID
  | unknownMessage          -- ErrDisconnectUnknownMessage
  | malformedMessage        -- ErrDisconnectMalformedMessage (Decode returned an error, or panicked and was recovered)
  | decodeUnderflow         -- ErrDisconnectMessageDecodeUnderflow (bytes left after Decode)
deriving DecidableEq, Repr

def ConvErr.toString : ConvErr → String
  | .truncatedMessageID => "ErrDisconnectTruncatedMessageID"
  | .unknownMessage => "ErrDisconnectUnknownMessage"
  | .malformedMessage => "ErrDisconnectMalformedMessage"
  | .decodeUnderflow => "ErrDisconnectMessageDecodeUnderflow"

/-- message table entry: 4-byte id, Go type name, schema -/
abbrev Table := List (Bytes × String × Ty)

def lookup (tbl : Table) (id : Bytes) : Option (String × Ty) :=
  (tbl.find? (fun e => e.1 == id)).map (·.2)

/-- a decoded message: its type name and value -/
structure Msg where
  name : String
  ty : Ty
  val : Val ty

/-- `convertToMessage(id, msg)` -/
def convert (tbl : Table) (msg : Bytes) : Except ConvErr Msg :=
  if msg.length < 4 then .error .truncatedMessageID
  else match lookup tbl (msg.take 4) with
    | none => .error .unknownMessage
    | some (name, t) =>
      match decG t (msg.drop 4) with
      | .err _ _ => .error .malformedMessage
      | .ok v rest => if rest.isEmpty then .ok ⟨name, t, v⟩ else .error .decodeUnderflow

end Sky.C22
