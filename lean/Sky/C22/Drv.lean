/-
  C22 driver: answers harness/c22 from Sky.C22.Model with the regenerated message table.

  verdict `fail` (the implementation's output violates the property on this input):
    frames: the reads together form a stream of well-formed frames (the one-shot parse of the concatenation is
            `ms` with nothing left) but the implementation did not deliver exactly `ms`; or it panicked; or model
            and implementation disagree on WHETHER the stream disconnects (bad length prefix);
    conv:   panic, or accept/reject differs (unknown id, undecodable body, trailing bytes must disconnect;
            a well-formed message must be accepted).
  `hold`: any other difference (model / correspondence broken).
-/
import Sky.Prim.DrvLib
import Sky.Codec.Text
import Sky.Gen.Codecs
import Sky.C22.Model
namespace Sky.C22
open Sky Sky.Drv Sky.Codec

def showFrames (fs : List Bytes) : String :=
  if fs.isEmpty then "." else "+".intercalate (fs.map hexOf)

/-- run the reads; returns per-read outputs and the terminal part -/
def runReads (max : Nat) : Bytes → List Bytes → List String → String
  | buf, [], acc => ",".intercalate acc.reverse ++ "|buf=" ++ hexOf buf
  | buf, c :: cs, acc =>
    match feed max buf c with
    | .error _ => ",".intercalate acc.reverse ++ "|err ErrDisconnectInvalidMessageLength"
    | .ok (fs, buf') => runReads max buf' cs (showFrames fs :: acc)

def parseChunks (s : String) : Option (List Bytes) := (s.splitOn ",").mapM parseBytes

/-- frames delivered according to an output line -/
def deliveredOf (out : String) : List String :=
  match out.splitOn "|" with
  | left :: _ => (left.splitOn ",").flatMap fun c => if c == "." || c == "" then [] else c.splitOn "+"
  | [] => []

def isErr (out : String) : Bool := (out.splitOn "|err ").length > 1

/-- walk the frames of a stream up to the first bad length prefix; returns the complete frames before it and
whether at least 5 bytes (the prefix and one more) are present from there -/
def scanBad (max : Nat) : Bytes → List Bytes × Bool :=
  let rec go (fuel : Nat) (buf : Bytes) (acc : List Bytes) : List Bytes × Bool :=
    match fuel with
    | 0 => (acc.reverse, false)
    | fuel + 1 =>
      if buf.length ≤ 4 then (acc.reverse, false)
      else
        let len := leVal (buf.take 4)
        if len < 4 || len > max then (acc.reverse, true)
        else if buf.length - 4 < len then (acc.reverse, false)
        else go fuel (buf.drop (4 + len)) ((buf.drop 4).take len :: acc)
  fun b => go b.length b []

def stepFrames (max : Nat) (chunks : List Bytes) (impl : String) : String × Verdict :=
  let m := runReads max [] chunks []
  if impl.startsWith "panic" then (m, .fail) else
  let stream := chunks.flatten
  match decodeData max stream with
  | .ok (ms, []) =>
    -- a stream of well-formed frames: the property demands exactly `ms`, in order, and no disconnect
    if deliveredOf impl == ms.map hexOf && !isErr impl then (m, .hold)
    else (m ++ " [property: a well-formed stream must be delivered exactly]", .fail)
  | _ =>
    if isErr impl == isErr m then (m, .hold) else (m ++ " [property: bad length prefix must disconnect]", .fail)

def showConv : Except ConvErr Msg → String
  | .ok m => "ok " ++ m.name ++ " " ++ dumpStr m.ty m.val
  | .error e => "err " ++ e.toString

def stepConv (b : Bytes) (impl : String) : String × Verdict :=
  let m := showConv (convert Sky.Gen.Codecs.messages b)
  if impl.startsWith "panic" then (m, .fail)
  else if impl.startsWith "ok" != m.startsWith "ok" then (m ++ " [property: accept/reject]", .fail)
  else (m, .hold)

def step (op impl : String) : String × Verdict :=
  match op.splitOn " " with
  | ["frames", max, cs] =>
    match max.toNat?, parseChunks cs with
    | some max, some chunks => stepFrames max chunks impl
    | _, _ => ("bad-op", .unknown)
  | ["readloop", max, cs] =>
    -- the real readLoop over scripted reads: by `frames_of_chunks` EVERY chunking of a well-formed stream (also the
    -- re-chunking done by bufio and readData) delivers exactly the complete frames, and nothing waits for more traffic
    match max.toNat?, parseChunks cs with
    | some max, some chunks =>
      if impl.startsWith "panic" || impl == "hang" then ("delivered", .fail) else
      match decodeData max chunks.flatten with
      | .ok (ms, _) =>
        let m := showFrames (ms.map id) ++ "|late=0|end=idle"
        if impl == m then (m, .hold) else (m ++ " [property: every fully received frame is delivered, in order, once]", .fail)
      | .error _ =>
        -- a bad length prefix somewhere in the stream: the frames before it (`good`), and whether the prefix plus
        -- at least one more byte arrived (then decodeData has looked at it and the peer must be disconnected)
        let (good, seen) := scanBad max chunks.flatten
        let delivered := deliveredOf impl
        let isPrefix := delivered == (good.map hexOf).take delivered.length
        let m := "<some prefix of " ++ showFrames good ++ ">|late=0|end=err ErrDisconnectInvalidMessageLength"
        if !seen then (impl, .unknown)
        else if isPrefix && (impl.splitOn "|end=err ErrDisconnectInvalidMessageLength").length > 1 then (impl, .hold)
        else (m ++ " [property: a bad length prefix must disconnect the peer]", .fail)
    | _, _ => ("bad-op", .unknown)
  | ["recv", max, cs] =>
    -- the whole receive path (readLoop, receiveMessage, convertToMessage, the daemon messages' Handle) on a
    -- well-formed burst: the messages queued for the event loop, looked at after the burst, re-encode to the frames
    match max.toNat?, parseChunks cs with
    | some max, some chunks =>
      if impl.startsWith "panic" || impl == "hang" then ("delivered", .fail) else
      match decodeData max chunks.flatten with
      | .ok (ms, _) =>
        -- PongMessage.Handle queues nothing for the event loop (gnet has already updated LastReceived)
        let m := showFrames ((ms.map id).filter (fun f => hexOf (f.take 4) != "504f4e47")) ++ "|end=idle"
        if impl == m then (m, .hold)
        else (m ++ " [property: the receiver delivers exactly the sequence of messages sent, in order]", .fail)
      | .error _ => (impl, .unknown)
    | _, _ => ("bad-op", .unknown)
  | ["conv", h] =>
    match parseBytes h with
    | some b => stepConv b impl
    | none => ("bad-op", .unknown)
  | _ => ("bad-op", .unknown)

end Sky.C22

def main : IO Unit := Sky.Drv.loopPure Sky.C22.step
