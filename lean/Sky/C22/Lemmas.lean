/-
  C22 lemmas: the framing loop against the specification "concatenation of frames, cut anywhere".
-/
import Sky.C22.Model
import Sky.Codec.Lemmas
namespace Sky.C22
open Sky.Codec

/-- a message the sender may frame: at least the 4-byte id, at most `max`, length fits the prefix -/
def Valid (max : Nat) (m : Bytes) : Prop := 4 ≤ m.length ∧ m.length ≤ max ∧ m.length < 2 ^ 32

def frames (ms : List Bytes) : Bytes := (ms.map frame).flatten

@[simp] theorem frames_nil : frames [] = [] := rfl
@[simp] theorem frames_cons (m : Bytes) (ms : List Bytes) : frames (m :: ms) = frame m ++ frames ms := rfl

theorem frame_length (m : Bytes) : (frame m).length = 4 + m.length := by simp [frame]

/-- a buffer from which `decodeData` takes nothing and which it leaves untouched -/
def Stable (max : Nat) (x : Bytes) : Prop :=
  ∀ fuel acc, decodeLoop max fuel x acc = .ok (acc.reverse, x)

theorem stable_nil (max : Nat) : Stable max [] := by
  intro fuel acc; cases fuel <;> simp [decodeLoop]

/-- one complete valid frame at the head of the buffer is taken out -/
theorem decodeLoop_frame (max fuel : Nat) (m tail : Bytes) (acc : List Bytes) (hv : Valid max m) :
    decodeLoop max (fuel + 1) (frame m ++ tail) acc = decodeLoop max fuel tail (m :: acc) := by
  obtain ⟨h4, hmax, h32⟩ := hv
  have hlen : (frame m ++ tail).length = 4 + m.length + tail.length := by simp [frame]; omega
  have htake : (frame m ++ tail).take 4 = leBytes 4 m.length := by
    simp only [frame, List.append_assoc]; exact take_left' (leBytes_length 4 m.length)
  have hval : leVal (leBytes 4 m.length) = m.length := leVal_leBytes 4 m.length (by omega)
  have hdrop : (frame m ++ tail).drop (4 + m.length) = tail := by
    have : (frame m).length = 4 + m.length := frame_length m
    rw [← this]; simp
  have hmid : ((frame m ++ tail).drop 4).take m.length = m := by
    simp only [frame, List.append_assoc]
    rw [drop_left' (leBytes_length 4 m.length)]; simp
  rw [decodeLoop]
  have c1 : ¬ (frame m ++ tail).length ≤ 4 := by omega
  simp only [c1, if_false, htake, hval]
  have c2 : ¬ m.length < 4 := by omega
  have c3 : ¬ m.length > max := by omega
  have c4 : ¬ (frame m ++ tail).length - 4 < m.length := by omega
  simp only [c2, c3, c4, if_false, hdrop, hmid]
where
  take_left' {l₁ l₂ : Bytes} {n : Nat} (h : l₁.length = n) : (l₁ ++ l₂).take n = l₁ := by subst h; simp
  drop_left' {l₁ l₂ : Bytes} {n : Nat} (h : l₁.length = n) : (l₁ ++ l₂).drop n = l₂ := by subst h; simp

/-- a proper prefix of a valid frame is left in the buffer -/
theorem stable_of_proper_prefix (max : Nat) (m x z : Bytes) (hv : Valid max m) (hx : frame m = x ++ z)
    (hz : z ≠ []) : Stable max x := by
  intro fuel acc
  obtain ⟨h4, hmax, h32⟩ := hv
  have hl : x.length + z.length = 4 + m.length := by
    have := congrArg List.length hx; simp [frame] at this; omega
  have hzl : 0 < z.length := by cases z <;> simp_all
  cases fuel with
  | zero => rfl
  | succ fuel =>
    rw [decodeLoop]
    by_cases c1 : x.length ≤ 4
    · simp [c1]
    · simp only [c1, if_false]
      have htake : x.take 4 = leBytes 4 m.length := by
        have h1 : (x ++ z).take 4 = x.take 4 := by rw [List.take_append_of_le_length (by omega)]
        rw [← h1, ← hx]; simp [frame]
      have hval : leVal (leBytes 4 m.length) = m.length := leVal_leBytes 4 m.length (by omega)
      have c2 : ¬ m.length < 4 := by omega
      have c3 : ¬ m.length > max := by omega
      have c4 : x.length - 4 < m.length := by omega
      simp [htake, hval, c2, c3, c4]

theorem append_split {α} (a b c d : List α) (h : a ++ b = c ++ d) (hl : c.length ≤ a.length) :
    ∃ a', a = c ++ a' ∧ d = a' ++ b := by
  rcases List.append_eq_append_iff.1 h with ⟨a', h1, h2⟩ | ⟨c', h1, h2⟩
  · -- c = a ++ a', b = a' ++ d
    have : a'.length = 0 := by have := congrArg List.length h1; simp at this; omega
    have ha' : a' = [] := List.eq_nil_of_length_eq_zero this
    subst ha'; exact ⟨[], by simpa using h1.symm, by simpa using h2.symm⟩
  · exact ⟨c', h1, h2⟩

/-- **the framing loop on any cut of a stream of valid frames**: from the part `x` received so far it takes
exactly the complete frames, in order, and keeps exactly the unfinished rest. -/
theorem decodeLoop_prefix (max : Nat) (ms : List Bytes) (hv : ∀ m ∈ ms, Valid max m) (x y : Bytes)
    (h : x ++ y = frames ms) (fuel : Nat) (hf : x.length ≤ fuel) (acc : List Bytes) :
    ∃ j x', decodeLoop max fuel x acc = .ok (acc.reverse ++ ms.take j, x') ∧
      x' ++ y = frames (ms.drop j) ∧ Stable max x' := by
  induction ms generalizing x fuel acc with
  | nil =>
    simp only [frames_nil, List.append_eq_nil_iff] at h
    obtain ⟨hx, hy⟩ := h
    subst hx hy
    exact ⟨0, [], by simpa using stable_nil max fuel acc, by simp, stable_nil max⟩
  | cons m ms ih =>
    have hvm := hv m (by simp)
    rw [frames_cons] at h
    by_cases hc : (frame m).length ≤ x.length
    · obtain ⟨x2, hx, hy⟩ := append_split x y (frame m) (frames ms) h hc
      subst hx
      have hfl := frame_length m
      have hf' : 4 + m.length + x2.length ≤ fuel := by
        simp only [List.length_append] at hf; omega
      cases fuel with
      | zero => omega
      | succ fuel =>
        rw [decodeLoop_frame max fuel m x2 acc hvm]
        obtain ⟨j, x', h1, h2, h3⟩ := ih (fun m' hm' => hv m' (by simp [hm'])) x2 hy.symm fuel
          (by omega) (m :: acc)
        exact ⟨j + 1, x', by simpa using h1, by simpa using h2, h3⟩
    · -- `x` ends inside the first frame
      have hlt : x.length < (frame m).length := by omega
      obtain ⟨z, hz1, hz2⟩ := append_split (frame m) (frames ms) x y h.symm (by omega)
      have hzne : z ≠ [] := by
        intro hz; subst hz; simp at hz1; rw [hz1] at hlt; omega
      have hs := stable_of_proper_prefix max m x z hvm hz1 hzne
      exact ⟨0, x, by simpa using hs fuel acc, by simp [hz1, hz2], hs⟩

theorem frames_not_stable (max : Nat) (m : Bytes) (ms : List Bytes) (hv : ∀ m' ∈ m :: ms, Valid max m') :
    ¬ Stable max (frames (m :: ms)) := by
  intro hs
  have h1 := hs ((frames ms).length + 1) []
  rw [frames_cons, decodeLoop_frame max _ m (frames ms) [] (hv m (by simp))] at h1
  obtain ⟨j, x', h2, _, _⟩ := decodeLoop_prefix max ms (fun m' hm' => hv m' (by simp [hm'])) (frames ms) []
    (by simp) (frames ms).length (Nat.le_refl _) [m]
  rw [h2] at h1
  simp at h1

/-- readLoop over ANY chunking of a stream of valid frames (starting from a buffer that holds no complete
frame) delivers exactly those frames, in order, and ends with an empty buffer. -/
theorem feedAll_frames (max : Nat) (ms : List Bytes) (hv : ∀ m ∈ ms, Valid max m) (buf : Bytes) (cs : List Bytes)
    (hs : Stable max buf) (h : buf ++ cs.flatten = frames ms) (acc : List Bytes) :
    feedAll max buf cs acc = .ok (acc ++ ms, []) := by
  induction cs generalizing buf ms acc with
  | nil =>
    simp only [List.flatten_nil, List.append_nil] at h
    cases ms with
    | nil => simp [feedAll, h]
    | cons m ms => rw [h] at hs; exact absurd hs (frames_not_stable max m ms hv)
  | cons c cs ih =>
    simp only [List.flatten_cons] at h
    obtain ⟨j, x', h1, h2, h3⟩ := decodeLoop_prefix max ms hv (buf ++ c) cs.flatten
      (by simpa using h) (buf ++ c).length (Nat.le_refl _) []
    simp only [feedAll, feed, decodeData, h1]
    have := ih (ms.drop j) (fun m hm => hv m (List.mem_of_mem_drop hm)) x' h3 h2 (acc ++ ms.take j)
    simpa [List.append_assoc] using this

/-- an invalid length prefix (after any number of valid frames) disconnects -/
theorem decodeLoop_bad_length (max : Nat) (ms : List Bytes) (hv : ∀ m ∈ ms, Valid max m) (bad : Bytes)
    (hb : 4 < bad.length) (hl : leVal (bad.take 4) < 4 ∨ max < leVal (bad.take 4)) (fuel : Nat)
    (hf : (frames ms ++ bad).length ≤ fuel) (acc : List Bytes) :
    decodeLoop max fuel (frames ms ++ bad) acc = .error .invalidLength := by
  induction ms generalizing fuel acc with
  | nil =>
    simp only [frames_nil, List.nil_append] at hf ⊢
    cases fuel with
    | zero => omega
    | succ fuel =>
      rw [decodeLoop]
      have c1 : ¬ bad.length ≤ 4 := by omega
      simp only [c1, if_false]
      rcases hl with h | h
      · simp [h]
      · by_cases h' : leVal (bad.take 4) < 4
        · simp [h']
        · simp [h', h]
  | cons m ms ih =>
    have hfl := frame_length m
    have hf' : 4 + m.length + (frames ms ++ bad).length ≤ fuel := by
      simp only [frames_cons, List.length_append] at hf ⊢; omega
    cases fuel with
    | zero => omega
    | succ fuel =>
      rw [frames_cons, List.append_assoc, decodeLoop_frame max fuel m _ acc (hv m (by simp))]
      exact ih (fun m' hm' => hv m' (by simp [hm'])) fuel (by omega) (m :: acc)

end Sky.C22
