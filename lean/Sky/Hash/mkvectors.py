import hashlib, hmac, random
random.seed(7)
def hx(b): return b.hex() if b else "-"
out=[]
msgs=[b"",b"abc",b"a"*55,b"a"*56,b"a"*57,b"a"*63,b"a"*64,b"a"*65,b"a"*111,b"a"*112,b"a"*113,b"a"*119,b"a"*120,b"a"*127,b"a"*128,b"a"*129,
 b"abcdbcdecdefdefgefghfghighijhijkijkljklmklmnlmnomnopnopq"]
for n in range(0,300,7): msgs.append(bytes(random.randrange(256) for _ in range(n)))
msgs.append(bytes(random.randrange(256) for _ in range(5000)))
try:
    hashlib.new("ripemd160"); rmd=True
except Exception: rmd=False
for m in msgs:
    out.append("sha256\t%s\t%s"%(hx(m),hashlib.sha256(m).hexdigest()))
    out.append("sha512\t%s\t%s"%(hx(m),hashlib.sha512(m).hexdigest()))
    if rmd: out.append("ripemd160\t%s\t%s"%(hx(m),hashlib.new("ripemd160",m).hexdigest()))
for kl in [0,1,20,63,64,65,127,128,129,131,200]:
    for ml in [0,1,8,100,128,129]:
        k=bytes(random.randrange(256) for _ in range(kl)); m=bytes(random.randrange(256) for _ in range(ml))
        out.append("hmac512\t%s\t%s\t%s"%(hx(k),hx(m),hmac.new(k,m,hashlib.sha512).hexdigest()))
        out.append("hmac256\t%s\t%s\t%s"%(hx(k),hx(m),hmac.new(k,m,hashlib.sha256).hexdigest()))
out.append("hmac512\t%s\t%s\t%s"%("0b"*20,b"Hi There".hex(),"87aa7cdea5ef619d4ff0b4241a1d6cb02379f4e2ce4ec2787ad0b30545e17cdedaa833b7d6b8a702038b274eaea3f4e4be9d914eeb61f1702e696c203a126854"))
for (p,s,it,n) in [(b"password",b"salt",1,64),(b"password",b"salt",2,64),(b"password",b"salt",4096,64),(b"passwordPASSWORDpassword",b"saltSALTsaltSALTsaltSALTsaltSALTsalt",100,25),(b"",b"",3,130),(b"x"*200,b"mnemonic",2048,64)]:
    out.append("pbkdf2\t%s\t%s\t%d\t%d\t%s"%(hx(p),hx(s),it,n,hashlib.pbkdf2_hmac("sha512",p,s,it,n).hex()))
print("ripemd via hashlib:",rmd, file=__import__("sys").stderr)
open("vectors.tsv","w").write("\n".join(out)+"\n")
