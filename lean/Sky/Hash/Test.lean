/-
  Sky.Hash.Test — runtime self-test of the hash library: reads lines `alg<TAB>args…<TAB>expected-hex`
  from stdin and reports every mismatch (run: `lake env lean --run Sky/Hash/Test.lean < vectors`).
  Vectors are produced by an independent implementation (Python hashlib / Go crypto) — see
  notes/status/Hash.md.  The same functions are compared with Go on every `./check C15|C16` run.
-/
import Sky.Hash.All
import Sky.Prim.DrvLib
open Sky.Hash Sky.Drv

def runLine (l : String) : Option (String × String) :=
  let h (s : String) := (hex? s).getD []
  match l.splitOn "\t" with
  | ["sha256", m, e] => some (hexOf (sha256 (h m)), e)
  | ["ripemd160", m, e] => some (hexOf (ripemd160 (h m)), e)
  | ["sha512", m, e] => some (hexOf (sha512 (h m)), e)
  | ["hmac512", k, m, e] => some (hexOf (hmacSha512 (h k) (h m)), e)
  | ["hmac256", k, m, e] => some (hexOf (hmacSha256 (h k) (h m)), e)
  | ["pbkdf2", p, s, it, n, e] => some (hexOf (pbkdf2HmacSha512 (h p) (h s) it.toNat! n.toNat!), e)
  | _ => none

partial def main : IO UInt32 := do
  let stdin ← IO.getStdin
  let rec go (n bad : Nat) : IO (Nat × Nat) := do
    let line ← stdin.getLine
    if line.isEmpty then return (n, bad)
    let line := (line.dropEndWhile (fun c => c == '\n' || c == '\r')).toString
    match runLine line with
    | none => IO.println s!"bad line: {line}"; go (n+1) (bad+1)
    | some (got, exp) =>
      if got == exp then go (n+1) bad
      else IO.println s!"MISMATCH {line}\n  got {got}"; go (n+1) (bad+1)
  let (n, bad) ← go 0 0
  IO.println s!"hash self-test: {n} vectors, {bad} mismatches"
  return (if bad == 0 then 0 else 1)
