/-
  Sky.Hash.Hmac — HMAC (RFC 2104) over SHA-512 and SHA-256, PBKDF2-HMAC-SHA512 (RFC 8018).
  Core Lean only, executable.
-/
import Sky.Hash.Sha256
import Sky.Hash.Sha512
namespace Sky.Hash

/-- key normalised to one block: hashed if longer than the block, then zero padded. -/
def hmacKeyBlock (H : ByteArray → ByteArray) (blk : Nat) (key : ByteArray) : ByteArray :=
  let k := if key.size > blk then H key else key
  k ++ zeros (blk - k.size)

def hmacB (H : ByteArray → ByteArray) (blk : Nat) (key msg : ByteArray) : ByteArray :=
  let k := hmacKeyBlock H blk key
  H (xorBytes k 0x5c ++ H (xorBytes k 0x36 ++ msg))

def hmacSha512B (key msg : ByteArray) : ByteArray := hmacB sha512B 128 key msg
def hmacSha256B (key msg : ByteArray) : ByteArray := hmacB sha256B 64 key msg

/-- HMAC-SHA512(key, msg); 64 bytes. -/
def hmacSha512 (key msg : List Nat) : List Nat := ofBA (hmacSha512B (toBA key) (toBA msg))
/-- HMAC-SHA256(key, msg); 32 bytes. -/
def hmacSha256 (key msg : List Nat) : List Nat := ofBA (hmacSha256B (toBA key) (toBA msg))

def xorBA (a b : ByteArray) : ByteArray := Id.run do
  let mut out := ByteArray.emptyWithCapacity a.size
  for i in [0:a.size] do
    out := out.push (a.get! i ^^^ b.get! i)
  return out

/-- HMAC-SHA512 with the two keyed states precomputed (what PBKDF2 iterates): `inner`/`outer` are
the SHA-512 states after absorbing `k ⊕ ipad` / `k ⊕ opad`; `msg` here is at most 111 bytes + … in
general any length: total length = 128 + |msg|. -/
def sha512Finish (st : Array UInt64) (prefixLen : Nat) (msg : ByteArray) : ByteArray :=
  -- pad `msg` as if it were preceded by `prefixLen` (a multiple of 128) bytes
  let len := prefixLen + msg.size
  let k := (239 - len % 128) % 128
  let m := (msg.push 0x80 ++ zeros k) ++ toBA (beBytes 16 (len * 8))
  words64BE (sha512Absorb st m)

structure HmacKey512 where
  inner : Array UInt64
  outer : Array UInt64

def HmacKey512.mk' (key : ByteArray) : HmacKey512 :=
  let k := hmacKeyBlock sha512B 128 key
  { inner := sha512Block H512 (xorBytes k 0x36) 0, outer := sha512Block H512 (xorBytes k 0x5c) 0 }

def HmacKey512.mac (k : HmacKey512) (msg : ByteArray) : ByteArray :=
  sha512Finish k.outer 128 (sha512Finish k.inner 128 msg)

/-- PBKDF2-HMAC-SHA512 (RFC 8018 §5.2): `dkLen` bytes from password, salt, iteration count ≥ 1. -/
def pbkdf2HmacSha512B (pw salt : ByteArray) (iters dkLen : Nat) : ByteArray := Id.run do
  let key := HmacKey512.mk' pw
  let nblk := (dkLen + 63) / 64
  let mut out := ByteArray.emptyWithCapacity (64 * nblk)
  for i in [1:nblk + 1] do
    let mut u := key.mac (salt ++ toBA (beBytes 4 i))
    let mut t := u
    for _ in [1:iters] do
      u := key.mac u
      t := xorBA t u
    out := out ++ t
  return out.extract 0 dkLen

def pbkdf2HmacSha512 (pw salt : List Nat) (iters dkLen : Nat) : List Nat :=
  ofBA (pbkdf2HmacSha512B (toBA pw) (toBA salt) iters dkLen)

end Sky.Hash
