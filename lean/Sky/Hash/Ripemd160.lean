/-
  Sky.Hash.Ripemd160 — RIPEMD-160, executable, core Lean only.
  `ripemd160 : List Nat → List Nat` (20 bytes out); `ripemd160B` on `ByteArray`.
  Tables as in the specification (and src/cipher/ripemd160/ripemd160block.go).
-/
import Sky.Hash.Sha256
namespace Sky.Hash

def rmdN : Array Nat := #[
  0, 1, 2, 3, 4, 5, 6, 7, 8, 9, 10, 11, 12, 13, 14, 15,
  7, 4, 13, 1, 10, 6, 15, 3, 12, 0, 9, 5, 2, 14, 11, 8,
  3, 10, 14, 4, 9, 15, 8, 1, 2, 7, 0, 6, 13, 11, 5, 12,
  1, 9, 11, 10, 0, 8, 12, 4, 13, 3, 7, 15, 14, 5, 6, 2,
  4, 0, 5, 9, 7, 12, 2, 10, 14, 1, 3, 8, 11, 6, 15, 13]

def rmdR : Array UInt32 := #[
  11, 14, 15, 12, 5, 8, 7, 9, 11, 13, 14, 15, 6, 7, 9, 8,
  7, 6, 8, 13, 11, 9, 7, 15, 7, 12, 15, 9, 11, 7, 13, 12,
  11, 13, 6, 7, 14, 9, 13, 15, 14, 8, 13, 6, 5, 12, 7, 5,
  11, 12, 14, 15, 14, 15, 9, 8, 9, 14, 5, 6, 8, 6, 5, 12,
  9, 15, 5, 11, 6, 8, 13, 12, 5, 12, 13, 14, 11, 8, 5, 6]

def rmdN' : Array Nat := #[
  5, 14, 7, 0, 9, 2, 11, 4, 13, 6, 15, 8, 1, 10, 3, 12,
  6, 11, 3, 7, 0, 13, 5, 10, 14, 15, 8, 12, 4, 9, 1, 2,
  15, 5, 1, 3, 7, 14, 6, 9, 11, 8, 12, 2, 10, 0, 4, 13,
  8, 6, 4, 1, 3, 11, 15, 0, 5, 12, 2, 13, 9, 7, 10, 14,
  12, 15, 10, 4, 1, 5, 8, 7, 6, 2, 13, 14, 0, 3, 9, 11]

def rmdR' : Array UInt32 := #[
  8, 9, 9, 11, 13, 15, 15, 5, 7, 7, 8, 11, 14, 14, 12, 6,
  9, 13, 15, 7, 12, 8, 9, 11, 7, 7, 12, 7, 6, 15, 13, 11,
  9, 7, 15, 11, 8, 6, 6, 14, 12, 13, 5, 14, 13, 13, 7, 5,
  15, 5, 8, 11, 14, 14, 6, 14, 6, 9, 12, 9, 12, 5, 15, 8,
  8, 5, 12, 9, 12, 5, 14, 6, 8, 13, 6, 5, 15, 13, 11, 11]

def rmdK : Array UInt32 := #[0x00000000, 0x5a827999, 0x6ed9eba1, 0x8f1bbcdc, 0xa953fd4e]
def rmdK' : Array UInt32 := #[0x50a28be6, 0x5c4dd124, 0x6d703ef3, 0x7a6d76e9, 0x00000000]
def rmdInit : Array UInt32 := #[0x67452301, 0xefcdab89, 0x98badcfe, 0x10325476, 0xc3d2e1f0]

/-- the five round functions f_0 … f_4 -/
@[inline] def rmdF (j : Nat) (x y z : UInt32) : UInt32 :=
  match j with
  | 0 => x ^^^ y ^^^ z
  | 1 => (x &&& y) ||| ((~~~ x) &&& z)
  | 2 => (x ||| (~~~ y)) ^^^ z
  | 3 => (x &&& z) ||| (y &&& (~~~ z))
  | _ => x ^^^ (y ||| (~~~ z))

@[inline] def le32 (b : ByteArray) (j : Nat) : UInt32 :=
  (b.get! j).toUInt32 ||| ((b.get! (j+1)).toUInt32 <<< 8) |||
  ((b.get! (j+2)).toUInt32 <<< 16) ||| ((b.get! (j+3)).toUInt32 <<< 24)

def rmdBlock (h : Array UInt32) (m : ByteArray) (off : Nat) : Array UInt32 := Id.run do
  let mut x : Array UInt32 := Array.mkEmpty 16
  for i in [0:16] do
    x := x.push (le32 m (off + 4 * i))
  let mut a := h[0]!; let mut b := h[1]!; let mut c := h[2]!; let mut d := h[3]!; let mut e := h[4]!
  let mut a' := a; let mut b' := b; let mut c' := c; let mut d' := d; let mut e' := e
  for i in [0:80] do
    let j := i / 16
    let t := rotl32 (a + rmdF j b c d + x[rmdN[i]!]! + rmdK[j]!) rmdR[i]! + e
    a := e; e := d; d := rotl32 c 10; c := b; b := t
    let t' := rotl32 (a' + rmdF (4 - j) b' c' d' + x[rmdN'[i]!]! + rmdK'[j]!) rmdR'[i]! + e'
    a' := e'; e' := d'; d' := rotl32 c' 10; c' := b'; b' := t'
  return #[h[1]! + c + d', h[2]! + d + e', h[3]! + e + a', h[4]! + a + b', h[0]! + b + c']

def words32LE (h : Array UInt32) : ByteArray := Id.run do
  let mut out := ByteArray.emptyWithCapacity (4 * h.size)
  for x in h do
    out := out.push x.toUInt8
    out := out.push (x >>> 8).toUInt8
    out := out.push (x >>> 16).toUInt8
    out := out.push (x >>> 24).toUInt8
  return out

def ripemd160B (msg : ByteArray) : ByteArray := Id.run do
  let m := pad64 msg false
  let mut h := rmdInit
  for k in [0:m.size / 64] do
    h := rmdBlock h m (64 * k)
  return words32LE h

/-- RIPEMD-160 of a byte list; result: 20 bytes. -/
def ripemd160 (bs : List Nat) : List Nat := ofBA (ripemd160B (toBA bs))

end Sky.Hash
