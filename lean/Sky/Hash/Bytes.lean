/-
  Sky.Hash.Bytes — byte-string plumbing of the shared hash library (core Lean only).
  API level: a byte string is a `List Nat` (each element < 256; larger elements are reduced mod 256
  on entry).  Internally everything runs on `ByteArray` / `UInt32` / `UInt64`.
-/
namespace Sky.Hash

def toBA (bs : List Nat) : ByteArray := ByteArray.mk (bs.map (fun b => b.toUInt8)).toArray
def ofBA (b : ByteArray) : List Nat := b.data.toList.map (fun x => x.toNat)

/-- big-endian bytes of `x`, exactly `n` of them (high bytes dropped). -/
def beBytes (n : Nat) (x : Nat) : List Nat :=
  (List.range n).map fun i => (x >>> (8 * (n - 1 - i))) % 256

/-- little-endian bytes of `x`, exactly `n` of them. -/
def leBytes (n : Nat) (x : Nat) : List Nat :=
  (List.range n).map fun i => (x >>> (8 * i)) % 256

/-- big-endian value of a byte list. -/
def ofBE (bs : List Nat) : Nat := bs.foldl (fun a b => a * 256 + b % 256) 0

def xorBytes (a : ByteArray) (c : UInt8) : ByteArray := ByteArray.mk (a.data.map (· ^^^ c))

def zeros (n : Nat) : ByteArray := ByteArray.mk (Array.replicate n (0 : UInt8))

/-- Merkle–Damgård padding for 64-byte blocks: 0x80, zeros, 8-byte length; `be` selects the byte order
of the bit length (SHA-2: big endian, RIPEMD: little endian). -/
def pad64 (msg : ByteArray) (be : Bool) : ByteArray :=
  let len := msg.size
  let k := (119 - len % 64) % 64      -- zero bytes so that len + 1 + k ≡ 56 (mod 64)
  let lenBytes := if be then beBytes 8 (len * 8) else leBytes 8 (len * 8)
  (msg.push 0x80 ++ zeros k) ++ toBA lenBytes

/-- padding for 128-byte blocks with a 16-byte big-endian bit length (SHA-512). -/
def pad128 (msg : ByteArray) : ByteArray :=
  let len := msg.size
  let k := (239 - len % 128) % 128    -- len + 1 + k ≡ 112 (mod 128)
  (msg.push 0x80 ++ zeros k) ++ toBA (beBytes 16 (len * 8))

end Sky.Hash
