/- Sky.Hash.All — umbrella import of the shared hash library. -/
import Sky.Hash.Bytes
import Sky.Hash.Sha256
import Sky.Hash.Ripemd160
import Sky.Hash.Sha512
import Sky.Hash.Hmac
