/-
  C20 — file-system model for "files survive a crash during a save".  Core Lean only.

  Ordered-write crash model (DESIGN §3 POSIX): the save issues a sequence of file-system
  operations; a crash keeps a PREFIX of that sequence and may additionally tear the next data
  write (only a prefix of its bytes reaches the file).  `rename`, `unlink` and
  `open(O_CREAT|O_TRUNC)` are atomic.

  The op list itself is NOT written here: it is regenerated from the body of `file.SaveBinary`
  into `Sky.Gen.SaveOps` by tools/extract/saveops on every run.
-/
namespace Sky.C20

abbrev Bytes := List Nat
abbrev Path := List Char
/-- a file system: path ↦ content, `none` = no such file -/
abbrev FS := Path → Option Bytes

/-- the two paths SaveBinary touches -/
inductive P | target | tmp
deriving DecidableEq, Repr

/-- primitive operations; `append p` writes the whole `data` argument of SaveBinary to `p`
(`ioutil.WriteFile` = `trunc p` then `append p`) -/
inductive FsOp
  | trunc (p : P)          -- open(p, O_WRONLY|O_CREAT|O_TRUNC)
  | touch (p : P)          -- open(p, O_WRONLY|O_CREAT) without O_TRUNC: creates an empty file if absent
  | append (p : P)         -- write(fd of p, data)    (tearable)
  | rename (p q : P)       -- rename(p, q)            (atomic)
  | remove (p : P)         -- unlink(p)
deriving DecidableEq, Repr

def FS.set (fs : FS) (p : Path) (v : Option Bytes) : FS := fun q => if q = p then v else fs q

/-- which concrete path a symbolic path denotes -/
def res (f tmp : Path) : P → Path
  | .target => f
  | .tmp => tmp

/-- write `bs` at the end of `p` (the file must exist: every write follows its open) -/
def writeTo (fs : FS) (p : Path) (bs : Bytes) : FS :=
  match fs p with
  | some c => fs.set p (some (c ++ bs))
  | none => fs

/-- complete effect of one operation -/
def applyOp (f tmp : Path) (data : Bytes) (fs : FS) : FsOp → FS
  | .trunc p => fs.set (res f tmp p) (some [])
  | .touch p => match fs (res f tmp p) with
      | some _ => fs
      | none => fs.set (res f tmp p) (some [])
  | .append p => writeTo fs (res f tmp p) data
  | .rename p q =>
      if p = q then fs else
      match fs (res f tmp p) with
      | some c => (fs.set (res f tmp q) (some c)).set (res f tmp p) none
      | none => fs
  | .remove p => fs.set (res f tmp p) none

/-- effect of an operation that the crash interrupted: only a data write can be torn (the first
`t` bytes arrive); an atomic operation interrupted has not happened -/
def applyTorn (f tmp : Path) (data : Bytes) (fs : FS) (t : Nat) : FsOp → FS
  | .append p => writeTo fs (res f tmp p) (data.take t)
  | _ => fs

/-- the state found after a crash: the first `k` operations happened, the next one is torn at
byte `t` (if it is a data write).  `k ≥ ops.length` is the completed save. -/
def crashState (f tmp : Path) (data : Bytes) : FS → List FsOp → Nat → Nat → FS
  | fs, [], _, _ => fs
  | fs, op :: _, 0, t => applyTorn f tmp data fs t op
  | fs, op :: rest, k + 1, t => crashState f tmp data (applyOp f tmp data fs op) rest k t

/-- the intended result of the save -/
def saved (fs : FS) (f : Path) (data : Bytes) : FS := fs.set f (some data)

/-! ### A decidable sufficient condition for crash safety (abstract interpretation)

Each of the two paths is tracked by an abstract value; the list is safe when at every crash
point (between operations, and inside every tearable write) the target is either untouched or
holds exactly the new data. -/

inductive AV
  | orig    -- whatever was there before the save (possibly nothing)
  | origP   -- what was there before the save, and a file WAS there
  | gone    -- no such file
  | empty   -- exists, empty
  | full    -- exists, content = data
  | junk    -- anything
deriving DecidableEq, Repr

structure AS where
  target : AV
  tmp : AV
deriving DecidableEq, Repr

def AS.get (s : AS) : P → AV | .target => s.target | .tmp => s.tmp
def AS.put (s : AS) : P → AV → AS
  | .target, v => { s with target := v }
  | .tmp, v => { s with tmp := v }

def AV.exists : AV → Bool | .empty => true | .full => true | _ => false

def astep (s : AS) : FsOp → AS
  | .trunc p => s.put p .empty
  | .touch p => s.put p (match s.get p with
      | .origP => .origP | .empty => .empty | .full => .full | .gone => .empty | _ => .junk)
  | .append p => s.put p (if s.get p = .empty then .full else .junk)
  | .rename p q =>
      if p = q then s
      else if (s.get p).exists then (s.put q (s.get p)).put p .gone
      else (s.put q .junk).put p .junk
  | .remove p => s.put p .gone

def AV.safe : AV → Bool | .orig => true | .origP => true | .full => true | _ => false

/-- a write into the target is the one operation whose torn state is visible in the target -/
def tearSafe : FsOp → Bool
  | .append .target => false
  | _ => true

def safeFrom (s : AS) : List FsOp → Bool
  | [] => s.target.safe
  | op :: rest => s.target.safe && tearSafe op && safeFrom (astep s op) rest

def safeSeq (ops : List FsOp) : Bool := safeFrom ⟨.orig, .orig⟩ ops
/-- the same when the target is known to exist before the save -/
def safeSeqP (ops : List FsOp) : Bool := safeFrom ⟨.origP, .orig⟩ ops

/-! ### helpers for the driver -/

def FsOp.render : FsOp → String
  | .trunc .target => "creat F" | .trunc .tmp => "creat T"
  | .touch .target => "touch F" | .touch .tmp => "touch T"
  | .append .target => "write F" | .append .tmp => "write T"
  | .rename .tmp .target => "rename T F" | .rename .target .tmp => "rename F T"
  | .rename .tmp .tmp => "rename T T" | .rename .target .target => "rename F F"
  | .remove .target => "unlink F" | .remove .tmp => "unlink T"

def renderOps (ops : List FsOp) : String := ";".intercalate (ops.map FsOp.render)

end Sky.C20
