/-
  C20 driver.  Per case (one real save, traced with strace by the harness):

    reset <scenario> <method> <seed>   impl: old=<0|1> tmpleft=<0|1> n=<bytes written>
    trace                              impl: the traced mutating syscalls, e.g. `creat T;write T;rename T F`
    crash <k> <t>                      impl: what the REAL loader finds on the crash directory after
                                             the first k traced operations (+ t bytes of the next write):
                                             `ok old` | `ok new` | `ok other` | `err`

  `trace` is answered from the REGENERATED op list (Sky.Gen.SaveOps): the syscall trace of the real
  call must equal what the translator read from the source.  `crash` is answered with the
  SPECIFICATION: the property demands `ok old` or `ok new`; anything else is a property failure
  (`fail`); if the property holds but the model predicted the other admissible outcome the
  difference is reported as `hold`.
-/
import Sky.Prim.DrvLib
import Sky.C20.Model
import Sky.Gen.SaveOps
namespace Sky.C20
open Sky Sky.Drv Sky.Gen.SaveOps

structure St where
  method : String := ""
  old : Bool := false
  tmpLeft : Bool := false
  n : Nat := 0

def opsFor (method : String) : Option (List FsOp) :=
  if method.startsWith "kv." then some saveOps else
  match savers.lookup method with
  | some true => some (probeOps ++ saveOps)
  | some false => some saveOps
  | none => none

def kvField (s key : String) : Option Nat :=
  (s.splitOn " ").findSome? fun w =>
    match w.splitOn "=" with
    | [k, v] => if k == key then v.toNat? else none
    | _ => none

def pF : Path := ['F']
def pT : Path := ['T']

def classify (st : St) (ops : List FsOp) (k t : Nat) : String :=
  let oldC : Option Bytes := if st.old then some [0] else none
  let fs0 : FS := fun q => if q = pF then oldC else if q = pT then (if st.tmpLeft then some [5] else none) else none
  let data : Bytes := List.replicate st.n 1
  let fs' := crashState pF pT data fs0 ops k t
  if fs' pF = some data then "ok new" else if fs' pF = oldC then "ok old" else "bad"

def step (st : St) (op impl : String) : St × String × Verdict :=
  match op.splitOn " " with
  | ["reset", _, method, _] =>
      let st' : St := { method := method, old := kvField impl "old" == some 1,
                        tmpLeft := kvField impl "tmpleft" == some 1, n := (kvField impl "n").getD 0 }
      (st', impl, .unknown)
  | ["trace"] =>
      match opsFor st.method with
      | some ops => (st, renderOps ops, .unknown)
      | none => (st, "bad-op unknown method " ++ st.method, .unknown)
  | ["crash", k, t] =>
      -- the SPECIFICATION is applied to the implementation's answer whatever the extracted list says:
      -- the crash directories are built from the TRACED syscalls of the real operation
      let bad := !(impl == "ok old" || impl == "ok new")
      match opsFor st.method, k.toNat?, t.toNat? with
      | some ops, some k, some t =>
          let m := classify st ops k t
          if !bad then
            if m == impl then (st, impl, .hold) else (st, m, .hold)
          else
            (st, if m == "bad" then "ok old|ok new (model of the current source also predicts a damaged file)"
                 else "ok old|ok new; model: " ++ m, .fail)
      | _, _, _ =>
          if bad then (st, "ok old|ok new (no extracted operation list for this method)", .fail)
          else (st, "bad-op", .unknown)
  | _ => (st, "bad-op", .unknown)

end Sky.C20

def main : IO Unit := Sky.Drv.loop Sky.C20.step {}
