/-
  C20 — soundness of the abstract crash-safety checker `safeSeq`, and the facts about the
  temporary file name.  Helper lemmas for Sky/Props/C20.lean.
-/
import Sky.C20.Model
namespace Sky.C20

/-- what an abstract value says about the concrete content `c` of a path whose content before
the save was `o` -/
def Conc (data : Bytes) (o : Option Bytes) : AV → Option Bytes → Prop
  | .orig, c => c = o
  | .origP, c => c = o ∧ o ≠ none
  | .gone, c => c = none
  | .empty, c => c = some []
  | .full, c => c = some data
  | .junk, _ => True

structure Rep (f tmp : Path) (data : Bytes) (fs0 fs : FS) (s : AS) : Prop where
  t : Conc data (fs0 f) s.target (fs f)
  m : Conc data (fs0 tmp) s.tmp (fs tmp)
  o : ∀ q, q ≠ f → q ≠ tmp → fs q = fs0 q

theorem set_same (fs : FS) (p : Path) (v) : (fs.set p v) p = v := by simp [FS.set]
theorem set_other (fs : FS) (p q : Path) (v) (h : q ≠ p) : (fs.set p v) q = fs q := by simp [FS.set, h]

theorem writeTo_other (fs : FS) (p q : Path) (bs : Bytes) (h : q ≠ p) : (writeTo fs p bs) q = fs q := by
  unfold writeTo; cases fs p <;> simp [set_other _ _ _ _ h]

theorem conc_exists {data o v c} (h : Conc data o v c) (hv : v.exists = true) : ∃ b, c = some b := by
  cases v <;> simp [AV.exists] at hv <;> simp [Conc] at h <;> exact ⟨_, h⟩

theorem astep_rep {f tmp : Path} {data : Bytes} {fs0 fs : FS} {s : AS} (hne : f ≠ tmp)
    (h : Rep f tmp data fs0 fs s) (op : FsOp) :
    Rep f tmp data fs0 (applyOp f tmp data fs op) (astep s op) := by
  have hne' : tmp ≠ f := fun e => hne e.symm
  obtain ⟨ht, hm, ho⟩ := h
  cases op with
  | trunc p =>
    cases p
    · refine ⟨?_, ?_, ?_⟩
      · simp [applyOp, astep, AS.put, res, Conc, set_same]
      · simpa [applyOp, astep, AS.put, res, set_other _ _ _ _ hne'] using hm
      · intro q h1 h2; simp [applyOp, res, set_other _ _ _ _ h1, ho q h1 h2]
    · refine ⟨?_, ?_, ?_⟩
      · simpa [applyOp, astep, AS.put, res, set_other _ _ _ _ hne] using ht
      · simp [applyOp, astep, AS.put, res, Conc, set_same]
      · intro q h1 h2; simp [applyOp, res, set_other _ _ _ _ h2, ho q h1 h2]
  | touch p =>
    cases p
    · refine ⟨?_, ?_, ?_⟩
      · revert ht
        cases hs : s.target <;> cases hf : fs f <;>
          simp [applyOp, astep, AS.put, AS.get, res, Conc, set_same, hs, hf] <;> intro h <;> simp_all
      · have : (applyOp f tmp data fs (.touch .target)) tmp = fs tmp := by
          cases hf : fs f <;> simp [applyOp, res, hf, set_other _ _ _ _ hne']
        simpa [astep, AS.put, this] using hm
      · intro q h1 h2
        have : (applyOp f tmp data fs (.touch .target)) q = fs q := by
          cases hf : fs f <;> simp [applyOp, res, hf, set_other _ _ _ _ h1]
        rw [this]; exact ho q h1 h2
    · refine ⟨?_, ?_, ?_⟩
      · have : (applyOp f tmp data fs (.touch .tmp)) f = fs f := by
          cases hf : fs tmp <;> simp [applyOp, res, hf, set_other _ _ _ _ hne]
        simpa [astep, AS.put, this] using ht
      · revert hm
        cases hs : s.tmp <;> cases hf : fs tmp <;>
          simp [applyOp, astep, AS.put, AS.get, res, Conc, set_same, hs, hf] <;> intro h <;> simp_all
      · intro q h1 h2
        have : (applyOp f tmp data fs (.touch .tmp)) q = fs q := by
          cases hf : fs tmp <;> simp [applyOp, res, hf, set_other _ _ _ _ h2]
        rw [this]; exact ho q h1 h2
  | remove p =>
    cases p
    · refine ⟨?_, ?_, ?_⟩
      · simp [applyOp, astep, AS.put, res, Conc, set_same]
      · simpa [applyOp, astep, AS.put, res, set_other _ _ _ _ hne'] using hm
      · intro q h1 h2; simp [applyOp, res, set_other _ _ _ _ h1, ho q h1 h2]
    · refine ⟨?_, ?_, ?_⟩
      · simpa [applyOp, astep, AS.put, res, set_other _ _ _ _ hne] using ht
      · simp [applyOp, astep, AS.put, res, Conc, set_same]
      · intro q h1 h2; simp [applyOp, res, set_other _ _ _ _ h2, ho q h1 h2]
  | append p =>
    cases p
    · -- target
      refine ⟨?_, ?_, ?_⟩
      · by_cases he : s.target = .empty
        · have : fs f = some [] := by simpa [he, Conc] using ht
          simp [applyOp, astep, AS.put, AS.get, res, writeTo, this, he, Conc, set_same]
        · simp [astep, AS.put, AS.get, he, Conc]
      · have : (writeTo fs f data) tmp = fs tmp := writeTo_other _ _ _ _ hne'
        simpa [applyOp, astep, AS.put, res, this] using hm
      · intro q h1 h2
        have : (writeTo fs f data) q = fs q := writeTo_other _ _ _ _ h1
        simp [applyOp, res, this, ho q h1 h2]
    · refine ⟨?_, ?_, ?_⟩
      · have : (writeTo fs tmp data) f = fs f := writeTo_other _ _ _ _ hne
        simpa [applyOp, astep, AS.put, res, this] using ht
      · by_cases he : s.tmp = .empty
        · have : fs tmp = some [] := by simpa [he, Conc] using hm
          simp [applyOp, astep, AS.put, AS.get, res, writeTo, this, he, Conc, set_same]
        · simp [astep, AS.put, AS.get, he, Conc]
      · intro q h1 h2
        have : (writeTo fs tmp data) q = fs q := writeTo_other _ _ _ _ h2
        simp [applyOp, res, this, ho q h1 h2]
  | rename p q =>
    cases p <;> cases q
    · exact ⟨by simpa [applyOp, astep] using ht, by simpa [applyOp, astep] using hm,
        by intro q h1 h2; simpa [applyOp] using ho q h1 h2⟩
    · -- rename target tmp
      by_cases hx : s.target.exists = true
      · obtain ⟨b, hb⟩ := conc_exists ht hx
        refine ⟨?_, ?_, ?_⟩
        · simp [applyOp, astep, AS.put, AS.get, res, hx, hb, Conc, set_same]
        · have : Conc data (fs0 tmp) s.target (some b) := by
            revert ht hx; cases s.target <;> simp [Conc, AV.exists, hb]
          simpa [applyOp, astep, AS.put, AS.get, res, hx, hb, set_same, set_other _ _ _ _ hne'] using this
        · intro q h1 h2
          simp [applyOp, res, hb, set_other _ _ _ _ h1, set_other _ _ _ _ h2, ho q h1 h2]
      · refine ⟨?_, ?_, ?_⟩
        · simp [astep, AS.put, AS.get, hx, Conc]
        · simp [astep, AS.put, AS.get, hx, Conc]
        · intro q h1 h2
          cases hfs : fs f <;>
            simp [applyOp, res, hfs, set_other _ _ _ _ h1, set_other _ _ _ _ h2, ho q h1 h2]
    · -- rename tmp target
      by_cases hx : s.tmp.exists = true
      · obtain ⟨b, hb⟩ := conc_exists hm hx
        refine ⟨?_, ?_, ?_⟩
        · have : Conc data (fs0 f) s.tmp (some b) := by
            revert hm hx; cases s.tmp <;> simp [Conc, AV.exists, hb]
          simpa [applyOp, astep, AS.put, AS.get, res, hx, hb, set_same, set_other _ _ _ _ hne] using this
        · simp [applyOp, astep, AS.put, AS.get, res, hx, hb, Conc, set_same]
        · intro q h1 h2
          simp [applyOp, res, hb, set_other _ _ _ _ h1, set_other _ _ _ _ h2, ho q h1 h2]
      · refine ⟨?_, ?_, ?_⟩
        · simp [astep, AS.put, AS.get, hx, Conc]
        · simp [astep, AS.put, AS.get, hx, Conc]
        · intro q h1 h2
          cases hfs : fs tmp <;>
            simp [applyOp, res, hfs, set_other _ _ _ _ h1, set_other _ _ _ _ h2, ho q h1 h2]
    · exact ⟨by simpa [applyOp, astep] using ht, by simpa [applyOp, astep] using hm,
        by intro q h1 h2; simpa [applyOp] using ho q h1 h2⟩

/-- the property of a crash state: the target holds its old or the complete new content, and no
path other than the target and the temporary file differs from before the save -/
def Good (f tmp : Path) (data : Bytes) (fs0 fs' : FS) : Prop :=
  (fs' f = fs0 f ∨ fs' f = some data) ∧ ∀ q, q ≠ f → q ≠ tmp → fs' q = fs0 q

theorem good_of_rep {f tmp data fs0 fs s} (h : Rep f tmp data fs0 fs s) (hs : s.target.safe = true) :
    Good f tmp data fs0 fs := by
  refine ⟨?_, h.o⟩
  have ht := h.t
  revert ht hs; cases s.target <;> simp [AV.safe, Conc] <;> intro h <;> simp [h]

theorem torn_good {f tmp data fs0 fs s} (hne : f ≠ tmp) (h : Rep f tmp data fs0 fs s)
    (hs : s.target.safe = true) (op : FsOp) (ht : tearSafe op = true) (t : Nat) :
    Good f tmp data fs0 (applyTorn f tmp data fs t op) := by
  have g := good_of_rep h hs
  cases op with
  | append p =>
    cases p
    · simp [tearSafe] at ht
    · have e : ∀ q, q ≠ tmp → (writeTo fs tmp (data.take t)) q = fs q :=
        fun q hq => writeTo_other _ _ _ _ hq
      refine ⟨?_, ?_⟩
      · simpa [applyTorn, res, e f hne] using g.1
      · intro q h1 h2; simpa [applyTorn, res, e q h2] using g.2 q h1 h2
  | trunc p => simpa [applyTorn] using g
  | touch p => simpa [applyTorn] using g
  | remove p => simpa [applyTorn] using g
  | rename p q => simpa [applyTorn] using g

/-- soundness of the checker: every crash state of a list accepted by `safeFrom` is good -/
theorem safeFrom_sound {f tmp : Path} {data : Bytes} {fs0 : FS} (hne : f ≠ tmp) :
    ∀ (ops : List FsOp) (s : AS) (fs : FS), Rep f tmp data fs0 fs s → safeFrom s ops = true →
      ∀ k t, Good f tmp data fs0 (crashState f tmp data fs ops k t) := by
  intro ops
  induction ops with
  | nil =>
    intro s fs h hs k t
    simp only [safeFrom] at hs
    simpa [crashState] using good_of_rep h hs
  | cons op rest ih =>
    intro s fs h hs k t
    simp only [safeFrom, Bool.and_eq_true] at hs
    obtain ⟨⟨h1, h2⟩, h3⟩ := hs
    cases k with
    | zero => simpa [crashState] using torn_good hne h h1 op h2 t
    | succ k => simpa [crashState] using ih _ _ (astep_rep hne h op) h3 k t

theorem safeSeqP_sound {f tmp : Path} {data : Bytes} {fs : FS} (hne : f ≠ tmp) (ops : List FsOp)
    (hs : safeSeqP ops = true) (hex : fs f ≠ none) (k t : Nat) :
    Good f tmp data fs (crashState f tmp data fs ops k t) :=
  safeFrom_sound hne ops ⟨.origP, .orig⟩ fs ⟨⟨rfl, hex⟩, rfl, fun _ _ _ => rfl⟩ hs k t

theorem safeSeq_sound {f tmp : Path} {data : Bytes} {fs : FS} (hne : f ≠ tmp) (ops : List FsOp)
    (hs : safeSeq ops = true) (k t : Nat) : Good f tmp data fs (crashState f tmp data fs ops k t) :=
  safeFrom_sound hne ops ⟨.orig, .orig⟩ fs ⟨rfl, rfl, fun _ _ _ => rfl⟩ hs k t

/-- a completed accepted save leaves exactly the new data in the target -/
theorem safeFrom_complete_aux {f tmp : Path} {data : Bytes} {fs0 : FS} (hne : f ≠ tmp) :
    ∀ (ops : List FsOp) (s : AS) (fs : FS), Rep f tmp data fs0 fs s →
      ∃ s', Rep f tmp data fs0 (crashState f tmp data fs ops ops.length 0) s' ∧
            s' = ops.foldl astep s := by
  intro ops
  induction ops with
  | nil => intro s fs h; exact ⟨s, by simpa [crashState] using h, rfl⟩
  | cons op rest ih =>
    intro s fs h
    obtain ⟨s', h1, h2⟩ := ih _ _ (astep_rep hne h op)
    exact ⟨s', by simpa [crashState] using h1, by simpa using h2⟩

/-! ### the temporary file name -/

def isHex (c : Char) : Bool := ('0' ≤ c && c ≤ '9') || ('a' ≤ c && c ≤ 'f')

/-- a suffix that is no longer than the hex tail and contains a non-hex character cannot be a
suffix of `f ++ lit ++ h` -/
theorem not_suffix_of_hex_tail (f lit h s : List Char) (hlen : s.length ≤ h.length)
    (hh : ∀ c ∈ h, isHex c = true) (hs : ∃ c ∈ s, isHex c = false) : ¬ s <:+ (f ++ lit ++ h) := by
  intro hsuf
  have h2 : h <:+ (f ++ lit ++ h) := List.suffix_append _ _
  have : s <:+ h := List.suffix_of_suffix_length_le hsuf h2 hlen
  obtain ⟨c, hc, hx⟩ := hs
  have := hh c (this.subset hc)
  simp [hx] at this

theorem tmp_ne (f lit h : List Char) (hl : lit ≠ []) : f ++ lit ++ h ≠ f := by
  intro e
  have := congrArg List.length e
  simp at this
  exact hl this.1

end Sky.C20
