/-
  C30 — lemmas about the model of `droplet.ToString` (`stringFixed6`, `toText`) and the by-value
  reading of a literal (`num`, `scale`, `IsDroplets`) against the library's normal form (`coef`, `cexp`).
-/
import Sky.C30.Parse
namespace Sky.C30
open Sky

theorem round_half_up_id (n : Nat) : (n * 10 + 5) / 10 = n := by omega

theorem all_take {p : Nat → Bool} (l : Bytes) (k : Nat) (h : l.all p = true) : (l.take k).all p = true := by
  rw [List.all_eq_true] at *
  intro x hx; exact h x (List.mem_of_mem_take hx)

theorem all_drop {p : Nat → Bool} (l : Bytes) (k : Nat) (h : l.all p = true) : (l.drop k).all p = true := by
  rw [List.all_eq_true] at *
  intro x hx; exact h x (List.mem_of_mem_drop hx)

/-- the text is `ip ++ "." ++ fp`: digits, a point, exactly six digits; together they spell `n`;
the integer part has no superfluous leading zero -/
theorem stringFixed6_split (n : Nat) :
    ∃ ip fp, stringFixed6 n = ip ++ [46] ++ fp ∧ ip ≠ [] ∧ ip.all isDigit = true ∧
      fp.all isDigit = true ∧ fp.length = 6 ∧ valOf (ip ++ fp) = n ∧
      (ip = [48] ∨ ∃ b r, ip = b :: r ∧ b ≠ 48) := by
  have hd := natStr_all_digit n
  have hv := valOf_natStr n
  unfold stringFixed6
  by_cases hl : (natStr n).length > 6
  · simp only [hl, if_true]
    refine ⟨(natStr n).take ((natStr n).length - 6), (natStr n).drop ((natStr n).length - 6), rfl, ?_,
      all_take _ _ hd, all_drop _ _ hd, ?_, ?_, ?_⟩
    · intro h
      have := congrArg List.length h
      simp at this; omega
    · simp; omega
    · rw [List.take_append_drop]; exact hv
    · rcases natStr_head n with h | ⟨b, r, h, hb⟩
      · rw [h] at hl; simp at hl
      · right
        have hk : ∃ k, (natStr n).length - 6 = k + 1 := ⟨(natStr n).length - 6 - 1, by omega⟩
        obtain ⟨k, hk⟩ := hk
        exact ⟨b, r.take k, by rw [hk, h, List.take_succ_cons], hb⟩
  · simp only [hl, if_false]
    refine ⟨[48], List.replicate (6 - (natStr n).length) 48 ++ natStr n, rfl, by simp, by simp [isDigit], ?_, ?_, ?_,
      Or.inl rfl⟩
    · rw [List.all_append, hd]; simp [isDigit]
    · simp; omega
    · rw [← List.append_assoc, valOf_append, hv]
      have : valOf ([48] ++ List.replicate (6 - (natStr n).length) 48) = 0 := by
        have := valOf_replicate_zero ((6 - (natStr n).length) + 1)
        rwa [List.replicate_succ] at this
      rw [this]; simp

/-! ### value of a literal: the library's normal form against the plain reading -/

theorem Lit.num_eq (l : Lit) :
    l.num = valOf l.tdigits * 10 ^ (l.fpDigits.length - (trimRight0 l.fpDigits).length) :=
  valOf_trimRight0 l.ip l.fpDigits

theorem Lit.cexp_eq (l : Lit) :
    l.cexp = l.scale + ((l.fpDigits.length - (trimRight0 l.fpDigits).length : Nat) : Int) := by
  have := trimRight0_length_le l.fpDigits
  unfold Lit.cexp Lit.scale; omega

theorem Lit.coef_nonneg_iff (l : Lit) : 0 ≤ l.coef ↔ l.nonneg = true := by
  have hz : valOf l.tdigits = 0 ↔ l.num = 0 := by
    rw [l.num_eq]
    constructor
    · intro h; rw [h]; simp
    · intro h
      rcases Nat.mul_eq_zero.1 h with h | h
      · exact h
      · exact absurd h (Nat.ne_of_gt (Nat.pow_pos (by decide)))
  unfold Lit.coef Lit.nonneg signedVal
  by_cases hn : l.neg = true
  · simp only [hn, if_true, Bool.not_true, Bool.false_or, beq_iff_eq]
    rw [← hz]; omega
  · simp [hn]

theorem pow_toNat_add (a : Int) (d : Nat) (ha : 0 ≤ a) : (10 : Int) ^ (a + d).toNat = 10 ^ a.toNat * 10 ^ d := by
  have : (a + d).toNat = a.toNat + d := by omega
  rw [this, Int.pow_add]

/-- on a non-negative literal the library's `coef · 10^(cexp+6)` is the exact number of droplets -/
theorem Lit.isDroplets_of_normal (l : Lit) (hnn : l.nonneg = true) (h6 : -6 ≤ l.cexp) :
    l.IsDroplets (l.coef * 10 ^ (l.cexp + 6).toNat).toNat := by
  have hcn := (l.coef_nonneg_iff).2 hnn
  have hcoef : l.coef = (valOf l.tdigits : Int) := by
    unfold Lit.coef signedVal at *
    by_cases hn : l.neg = true
    · simp only [hn, if_true] at hcn ⊢; omega
    · simp [hn]
  let Δ := l.fpDigits.length - (trimRight0 l.fpDigits).length
  have hce : l.cexp = l.scale + (Δ : Int) := l.cexp_eq
  have hnum : l.num = valOf l.tdigits * 10 ^ Δ := l.num_eq
  have hval : (l.coef * 10 ^ (l.cexp + 6).toNat).toNat = valOf l.tdigits * 10 ^ (l.cexp + 6).toNat := by
    rw [hcoef]
    have : ((valOf l.tdigits : Int) * 10 ^ (l.cexp + 6).toNat) = ((valOf l.tdigits * 10 ^ (l.cexp + 6).toNat : Nat) : Int) := by
      simp
    rw [this, Int.toNat_natCast]
  rw [hval]
  unfold Lit.IsDroplets
  by_cases hs : 0 ≤ l.scale + 6
  · rw [if_pos hs, hnum]
    have : (l.cexp + 6).toNat = (l.scale + 6).toNat + Δ := by omega
    rw [this, Nat.pow_add, Nat.mul_assoc, Nat.mul_comm (10 ^ Δ)]
  · rw [if_neg hs, hnum]
    have : Δ = (l.cexp + 6).toNat + (-(l.scale + 6)).toNat := by omega
    rw [this, Nat.pow_add, Nat.mul_assoc]

theorem isDroplets_unique (l : Lit) (v v' : Nat) (h : l.IsDroplets v) (h' : l.IsDroplets v') : v = v' := by
  unfold Lit.IsDroplets at h h'
  by_cases hs : 0 ≤ l.scale + 6
  · rw [if_pos hs] at h h'; rw [h, h']
  · rw [if_neg hs] at h h'
    rw [← h'] at h
    exact Nat.eq_of_mul_eq_mul_right (Nat.pow_pos (by decide)) h

/-! ### the last significant digit -/

theorem valOf_concat_mod (x : Bytes) (b : Nat) (hb : isDigit b = true) : valOf (x ++ [b]) % 10 = b - 48 := by
  rw [valOf_append]
  have : valOf [b] = b - 48 := by simp [valOf, ofDigits10]
  rw [this]
  simp [isDigit] at hb
  simp only [List.length_singleton, Nat.pow_one]
  omega

/-- when a significant fraction digit exists, the normal-form coefficient does not end in 0 -/
theorem Lit.tdigits_mod10 (l : Lit) (h : l.WF) (hne : trimRight0 l.fpDigits ≠ []) :
    valOf l.tdigits % 10 ≠ 0 := by
  obtain ⟨init, last, hl⟩ : ∃ init last, trimRight0 l.fpDigits = init ++ [last] := by
    rcases List.eq_nil_or_concat (trimRight0 l.fpDigits) with h0 | ⟨i, b, hb⟩
    · exact absurd h0 hne
    · exact ⟨i, b, by simpa using hb⟩
  have hlast : last ≠ 48 := trimRight0_getLast l.fpDigits last (by rw [hl]; simp)
  have hd : isDigit last = true := by
    have := trimRight0_all (p := isDigit) l.fpDigits h.fp
    rw [hl, List.all_append] at this
    simp only [Bool.and_eq_true, List.all_cons, List.all_nil, Bool.and_true] at this
    exact this.2
  unfold Lit.tdigits
  rw [hl, ← List.append_assoc, valOf_concat_mod _ _ hd]
  simp [isDigit] at hd; omega

/-- an amount with an exact droplet value whose normal-form coefficient does not end in 0 has a
normal-form exponent ≥ −6 -/
theorem Lit.cexp_ge_of_droplets (l : Lit) (v : Nat) (hv : l.IsDroplets v)
    (hm : valOf l.tdigits % 10 ≠ 0) : -6 ≤ l.cexp := by
  apply Decidable.byContradiction
  intro hlt
  let Δ := l.fpDigits.length - (trimRight0 l.fpDigits).length
  have hce : l.cexp = l.scale + (Δ : Int) := l.cexp_eq
  have hnum : l.num = valOf l.tdigits * 10 ^ Δ := l.num_eq
  have hs : ¬ 0 ≤ l.scale + 6 := by omega
  unfold Lit.IsDroplets at hv
  rw [if_neg hs, hnum] at hv
  obtain ⟨j, hj⟩ : ∃ j, (-(l.scale + 6)).toNat = Δ + (j + 1) := ⟨(-(l.scale + 6)).toNat - Δ - 1, by omega⟩
  rw [hj, Nat.pow_add, ← Nat.mul_assoc, Nat.mul_comm _ (10 ^ Δ), Nat.mul_comm _ (10 ^ Δ)] at hv
  rw [Nat.mul_assoc] at hv
  have := Nat.eq_of_mul_eq_mul_left (Nat.pow_pos (by decide : 0 < 10)) hv
  rw [Nat.pow_succ] at this
  apply hm
  rw [← this, ← Nat.mul_assoc]
  exact Nat.mul_mod_left _ _

end Sky.C30
