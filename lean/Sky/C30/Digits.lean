/-
  C30 — lemmas about the model's own decimal digit functions (`ofDigits10`, `digits10`, `valOf`,
  `natStr`) and about `trimRight0`.  Core Lean only.
-/
import Sky.C30.Model
namespace Sky.C30
open Sky

theorem ofDigits10_foldl (ds : List Nat) (a : Nat) :
    ds.foldl (fun a d => 10 * a + d) a = a * 10 ^ ds.length + ofDigits10 ds := by
  induction ds generalizing a with
  | nil => simp [ofDigits10]
  | cons d r ih =>
    simp only [List.foldl_cons, List.length_cons, ofDigits10]
    rw [ih (10 * a + d), ih (10 * 0 + d)]
    simp only [ofDigits10, Nat.pow_succ]
    rw [Nat.add_mul, Nat.add_mul, Nat.mul_zero, Nat.zero_mul, Nat.zero_add]
    have : 10 * a * 10 ^ r.length = a * (10 ^ r.length * 10) := by
      rw [Nat.mul_comm 10 a, Nat.mul_assoc, Nat.mul_comm 10]
    omega

theorem ofDigits10_append (a b : List Nat) :
    ofDigits10 (a ++ b) = ofDigits10 a * 10 ^ b.length + ofDigits10 b := by
  show (a ++ b).foldl _ 0 = _
  rw [List.foldl_append, ofDigits10_foldl b]; rfl

theorem ofDigits10_cons (d : Nat) (r : List Nat) :
    ofDigits10 (d :: r) = d * 10 ^ r.length + ofDigits10 r := by
  have := ofDigits10_append [d] r
  simpa [ofDigits10] using this

theorem ofDigits10_replicate_zero (k : Nat) : ofDigits10 (List.replicate k 0) = 0 := by
  induction k with
  | zero => rfl
  | succ k ih => rw [List.replicate_succ, ofDigits10_cons, ih]; simp

theorem valOf_append (a b : Bytes) : valOf (a ++ b) = valOf a * 10 ^ b.length + valOf b := by
  simp [valOf, ofDigits10_append]

theorem valOf_replicate_zero (k : Nat) : valOf (List.replicate k 48) = 0 := by
  simp [valOf, ofDigits10_replicate_zero]

theorem valOf_nil : valOf [] = 0 := rfl

/-- every digit-value list is below 10^length -/
theorem ofDigits10_lt (ds : List Nat) (h : ∀ d ∈ ds, d < 10) : ofDigits10 ds < 10 ^ ds.length := by
  induction ds with
  | nil => simp [ofDigits10]
  | cons d r ih =>
    rw [ofDigits10_cons, List.length_cons, Nat.pow_succ]
    have hd := h d (List.mem_cons_self ..)
    have hr := ih (fun x hx => h x (List.mem_cons_of_mem _ hx))
    have : d * 10 ^ r.length ≤ 9 * 10 ^ r.length := Nat.mul_le_mul_right _ (by omega)
    omega

theorem valOf_lt (bs : Bytes) (h : bs.all isDigit = true) : valOf bs < 10 ^ bs.length := by
  have := ofDigits10_lt (bs.map (· - 48)) (by
    intro d hd
    simp only [List.mem_map] at hd
    obtain ⟨b, hb, rfl⟩ := hd
    have := List.all_eq_true.1 h b hb
    simp [isDigit] at this; omega)
  simpa [valOf] using this

/-! ### digits10 -/

theorem digitsAux_spec : ∀ (f n : Nat) (acc : List Nat), n < 10 ^ f →
    ofDigits10 (digitsAux f n acc) = n * 10 ^ acc.length + ofDigits10 acc
  | 0, n, acc, h => by
    have : n = 0 := by simpa using h
    subst this; simp [digitsAux]
  | f + 1, n, acc, h => by
    unfold digitsAux
    split
    · exact ofDigits10_cons n acc
    · rename_i hn
      have hlt : n / 10 < 10 ^ f := by
        rw [Nat.pow_succ] at h
        exact Nat.div_lt_of_lt_mul (by rw [Nat.mul_comm]; exact h)
      rw [digitsAux_spec f (n / 10) (n % 10 :: acc) hlt, ofDigits10_cons, List.length_cons, Nat.pow_succ]
      have hd := Nat.div_add_mod n 10
      have e1 : n / 10 * (10 ^ acc.length * 10) = 10 * (n / 10) * 10 ^ acc.length := by
        rw [Nat.mul_comm (10 ^ acc.length) 10, ← Nat.mul_assoc, Nat.mul_comm (n / 10) 10]
      rw [e1, ← Nat.add_assoc, ← Nat.add_mul, hd]

theorem lt_ten_pow_succ (n : Nat) : n < 10 ^ (n + 1) := by
  induction n with
  | zero => decide
  | succ k ih => rw [Nat.pow_succ]; omega

theorem ofDigits10_digits10 (n : Nat) : ofDigits10 (digits10 n) = n := by
  unfold digits10
  rw [digitsAux_spec (n + 1) n [] (lt_ten_pow_succ n)]
  simp [ofDigits10]

theorem digitsAux_lt : ∀ (f n : Nat) (acc : List Nat), (∀ d ∈ acc, d < 10) → n < 10 ^ f →
    ∀ d ∈ digitsAux f n acc, d < 10
  | 0, _, acc, ha, _ => by simpa [digitsAux] using ha
  | f + 1, n, acc, ha, h => by
    unfold digitsAux
    split
    · rename_i hn
      intro d hd
      rcases List.mem_cons.1 hd with rfl | hd
      · exact hn
      · exact ha d hd
    · have hlt : n / 10 < 10 ^ f := by
        rw [Nat.pow_succ] at h
        exact Nat.div_lt_of_lt_mul (by rw [Nat.mul_comm]; exact h)
      apply digitsAux_lt f (n / 10) _ _ hlt
      intro d hd
      rcases List.mem_cons.1 hd with rfl | hd
      · exact Nat.mod_lt _ (by decide)
      · exact ha d hd

theorem digits10_lt (n : Nat) : ∀ d ∈ digits10 n, d < 10 :=
  digitsAux_lt (n + 1) n [] (by simp) (lt_ten_pow_succ n)

/-- the result starts with the leading digit of `n`, which is non-zero for `n > 0` -/
theorem digitsAux_head : ∀ (f n : Nat) (acc : List Nat), n < 10 ^ f → 0 < n →
    ∃ d r, digitsAux f n acc = d :: r ∧ d ≠ 0
  | 0, n, _, h, hp => by
    have : n = 0 := by simpa using h
    omega
  | f + 1, n, acc, h, hp => by
    unfold digitsAux
    split
    · exact ⟨n, acc, rfl, by omega⟩
    · have hlt : n / 10 < 10 ^ f := by
        rw [Nat.pow_succ] at h
        exact Nat.div_lt_of_lt_mul (by rw [Nat.mul_comm]; exact h)
      exact digitsAux_head f (n / 10) _ hlt (by omega)

theorem digitsAux_ne_nil : ∀ (f n : Nat) (acc : List Nat), 0 < f → digitsAux f n acc ≠ []
  | f + 1, n, acc, _ => by
    unfold digitsAux
    split
    · simp
    · cases f with
      | zero => simp [digitsAux]
      | succ f => exact digitsAux_ne_nil (f + 1) _ _ (by omega)

theorem digits10_ne_nil (n : Nat) : digits10 n ≠ [] := digitsAux_ne_nil (n + 1) n [] (by omega)

theorem digits10_zero : digits10 0 = [0] := rfl

theorem digits10_head (n : Nat) (hp : 0 < n) : ∃ d r, digits10 n = d :: r ∧ d ≠ 0 :=
  digitsAux_head (n + 1) n [] (lt_ten_pow_succ n) hp

/-! ### natStr -/

theorem natStr_all_digit (n : Nat) : (natStr n).all isDigit = true := by
  rw [List.all_eq_true]
  intro b hb
  simp only [natStr, List.mem_map] at hb
  obtain ⟨d, hd, rfl⟩ := hb
  have := digits10_lt n d hd
  simp [isDigit]; omega

theorem valOf_natStr (n : Nat) : valOf (natStr n) = n := by
  unfold valOf natStr
  rw [List.map_map]
  have : ((fun x => x - 48) ∘ fun x => x + 48) = id := by funext x; simp
  rw [this, List.map_id, ofDigits10_digits10]

theorem natStr_ne_nil (n : Nat) : natStr n ≠ [] := by
  simp [natStr, digits10_ne_nil]

/-- `natStr` has no superfluous leading zero: it is "0" or starts with a non-zero digit -/
theorem natStr_head (n : Nat) : natStr n = [48] ∨ ∃ b r, natStr n = b :: r ∧ b ≠ 48 := by
  by_cases hn : n = 0
  · subst hn; left; rfl
  · right
    obtain ⟨d, r, h, hd⟩ := digits10_head n (Nat.pos_of_ne_zero hn)
    exact ⟨d + 48, r.map (· + 48), by simp [natStr, h], by omega⟩

/-! ### trimRight0 -/

theorem dropWhile_zero_append (l : Bytes) :
    ∃ k, l = List.replicate k 48 ++ l.dropWhile (· == 48) := by
  induction l with
  | nil => exact ⟨0, rfl⟩
  | cons b r ih =>
    by_cases hb : b = 48
    · subst hb
      obtain ⟨k, hk⟩ := ih
      refine ⟨k + 1, ?_⟩
      simp only [List.dropWhile_cons, beq_self_eq_true, if_true, List.replicate_succ, List.cons_append]
      rw [← hk]
    · exact ⟨0, by simp [hb]⟩

/-- a string is its trimmed form followed by zeros -/
theorem trimRight0_append (s : Bytes) : ∃ k, s = trimRight0 s ++ List.replicate k 48 := by
  obtain ⟨k, hk⟩ := dropWhile_zero_append s.reverse
  refine ⟨k, ?_⟩
  have := congrArg List.reverse hk
  simpa [trimRight0] using this

theorem trimRight0_length_le (s : Bytes) : (trimRight0 s).length ≤ s.length := by
  obtain ⟨k, hk⟩ := trimRight0_append s
  have := congrArg List.length hk
  simp at this; omega

theorem trimRight0_all {p : Nat → Bool} (s : Bytes) (h : s.all p = true) : (trimRight0 s).all p = true := by
  obtain ⟨k, hk⟩ := trimRight0_append s
  rw [hk, List.all_append] at h
  simp only [Bool.and_eq_true] at h
  exact h.1

/-- trimming trailing zeros divides the value by the corresponding power of ten -/
theorem valOf_trimRight0 (a s : Bytes) :
    valOf (a ++ s) = valOf (a ++ trimRight0 s) * 10 ^ (s.length - (trimRight0 s).length) := by
  obtain ⟨k, hk⟩ := trimRight0_append s
  have hl : s.length - (trimRight0 s).length = k := by
    have := congrArg List.length hk
    simp at this; omega
  rw [hl]
  conv => lhs; rw [hk, ← List.append_assoc, valOf_append, valOf_replicate_zero]
  simp

/-- the trimmed string does not end in '0' -/
theorem trimRight0_getLast (s : Bytes) : ∀ b, (trimRight0 s).getLast? = some b → b ≠ 48 := by
  intro b hb
  unfold trimRight0 at hb
  rw [List.getLast?_reverse] at hb
  intro h48
  subst h48
  have : ∀ (l : Bytes), (l.dropWhile (· == 48)).head? ≠ some 48 := by
    intro l
    induction l with
    | nil => simp
    | cons x r ih =>
      by_cases hx : x = 48
      · subst hx; simpa [List.dropWhile_cons] using ih
      · simp [hx]
  exact this _ hb

end Sky.C30
