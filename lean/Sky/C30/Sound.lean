/-
  C30 — soundness of the model of `decimal.NewFromString` (preceded by the sign-after-point check of
  `FromString`): whatever it accepts is a literal of the grammar G, parsed to that literal's
  coefficient and exponent.
-/
import Sky.C30.Parse
namespace Sky.C30
open Sky

/-! ### inversion of the string helpers -/

theorem indexAnyE_none_inv {s : Bytes} (h : indexAnyE s = none) : NoE s := by
  induction s with
  | nil => intro b hb; simp at hb
  | cons x t ih =>
    unfold indexAnyE at h
    split at h
    · cases h
    · rename_i hx
      have ht : indexAnyE t = none := by
        cases hi : indexAnyE t with
        | none => rfl
        | some j => rw [hi] at h; simp at h
      intro b hb
      rcases List.mem_cons.1 hb with rfl | hb
      · simp only [Bool.or_eq_true, beq_iff_eq, not_or] at hx; exact hx
      · exact ih ht b hb

theorem indexAnyE_some_inv {s : Bytes} {i : Nat} (h : indexAnyE s = some i) :
    ∃ m, (m = 69 ∨ m = 101) ∧ s = s.take i ++ m :: s.drop (i + 1) ∧ NoE (s.take i) := by
  induction s generalizing i with
  | nil => cases h
  | cons x t ih =>
    unfold indexAnyE at h
    split at h
    · rename_i hx
      cases h
      simp only [Bool.or_eq_true, beq_iff_eq] at hx
      exact ⟨x, hx, by simp, by intro b hb; simp at hb⟩
    · rename_i hx
      cases hi : indexAnyE t with
      | none => rw [hi] at h; simp at h
      | some j =>
        rw [hi] at h
        simp only [Option.map_some, Option.some.injEq] at h
        subst h
        obtain ⟨m, hm, hs, hn⟩ := ih hi
        refine ⟨m, hm, ?_, ?_⟩
        · simp only [List.take_succ_cons, List.drop_succ_cons, List.cons_append]
          rw [← hs]
        · simp only [List.take_succ_cons]
          intro b hb
          rcases List.mem_cons.1 hb with rfl | hb
          · simp only [Bool.or_eq_true, beq_iff_eq, not_or] at hx; exact hx
          · exact hn b hb

theorem splitSign_inv (t : Bytes) :
    ∃ sg, okSign sg = true ∧ t = sg ++ (splitSign t).2 ∧ (splitSign t).1 = (sg == [45]) ∧
      (sg = [] → ∀ b r, t = b :: r → b ≠ 43 ∧ b ≠ 45) := by
  unfold splitSign
  split
  · exact ⟨[43], rfl, rfl, rfl, by intro h; cases h⟩
  · exact ⟨[45], rfl, rfl, rfl, by intro h; cases h⟩
  · rename_i h1 h2
    refine ⟨[], rfl, rfl, rfl, ?_⟩
    intro _ b r hbr
    subst hbr
    exact ⟨fun e => h1 r (by rw [e]), fun e => h2 r (by rw [e])⟩

theorem parseSigned_inv {t : Bytes} {neg : Bool} {v : Nat} (h : parseSigned t = some (neg, v)) :
    ∃ sg d, okSign sg = true ∧ t = sg ++ d ∧ d ≠ [] ∧ d.all isDigit = true ∧ v = valOf d ∧ neg = (sg == [45]) := by
  obtain ⟨sg, hs, ht, hn, _⟩ := splitSign_inv t
  unfold parseSigned at h
  simp only at h
  split at h
  · cases h
  · rename_i hc
    simp only [Bool.or_eq_true, Bool.not_eq_true', not_or, Bool.not_eq_false] at hc
    simp only [Option.some.injEq, Prod.mk.injEq] at h
    refine ⟨sg, (splitSign t).2, hs, ht, ?_, hc.2, h.2.symm, by rw [← h.1, hn]⟩
    intro he; rw [he] at hc; simp at hc

/-- the parts of `strings.Split(s, ".")` contain no '.', and joined by '.' give `s` back -/
theorem splitDot_inv : ∀ (s : Bytes),
    (∀ p, splitDot s = [p] → s = p ∧ NoDot p) ∧
    (∀ p0 p1, splitDot s = [p0, p1] → s = p0 ++ 46 :: p1 ∧ NoDot p0 ∧ NoDot p1)
  | [] => by
    constructor
    · intro p h; simp only [splitDot, List.cons.injEq, and_true] at h; subst h
      exact ⟨rfl, by intro b hb; simp at hb⟩
    · intro p0 p1 h; simp [splitDot] at h
  | b :: r => by
    have ih := splitDot_inv r
    cases hr : splitDot r with
    | nil =>
      constructor
      · intro p h; simp only [splitDot, hr] at h
        -- unreachable shape of the recursion; the recursive result is never empty
        exfalso
        have : splitDot r ≠ [] := by
          cases r with
          | nil => simp [splitDot]
          | cons x t => simp only [splitDot]; split <;> (try split) <;> simp
        exact this hr
      · intro p0 p1 h; simp [splitDot, hr] at h
    | cons q qs =>
      by_cases hb : b = 46
      · subst hb
        constructor
        · intro p h; simp [splitDot, hr] at h
        · intro p0 p1 h
          simp only [splitDot, hr, beq_self_eq_true, if_true, List.cons.injEq] at h
          obtain ⟨h0, h1, h2⟩ := h
          subst h0 h1 h2
          have := ih.1 q hr
          exact ⟨by rw [this.1]; rfl, by intro b hb; simp at hb, this.2⟩
      · have hb' : (b == 46) = false := by simp [hb]
        constructor
        · intro p h
          simp only [splitDot, hr, hb', Bool.false_eq_true, if_false, List.cons.injEq] at h
          obtain ⟨h0, h1⟩ := h
          subst h0 h1
          have := ih.1 q hr
          refine ⟨by rw [this.1], ?_⟩
          intro x hx
          rcases List.mem_cons.1 hx with rfl | hx
          · exact hb
          · exact this.2 x hx
        · intro p0 p1 h
          simp only [splitDot, hr, hb', Bool.false_eq_true, if_false, List.cons.injEq] at h
          obtain ⟨h0, h1⟩ := h
          subst h0 h1
          have := ih.2 q p1 hr
          refine ⟨by rw [this.1]; rfl, ?_, this.2.2⟩
          intro x hx
          rcases List.mem_cons.1 hx with rfl | hx
          · exact hb
          · exact this.2.1 x hx

/-! ### inversion of the two splitting stages -/

def expBytes : Option (Nat × Bytes × Bytes) → Bytes
  | none => []
  | some (m, s, d) => m :: (s ++ d)

def expValOf : Option (Nat × Bytes × Bytes) → Int
  | none => 0
  | some (_, s, d) => if s == [45] then -(valOf d : Int) else (valOf d : Int)

theorem splitExp_inv {s mant : Bytes} {e0 : Int} (h : splitExp s = some (mant, e0)) :
    ∃ ex, s = mant ++ expBytes ex ∧
      (∀ m sg dd, ex = some (m, sg, dd) → (m = 69 ∨ m = 101) ∧ okSign sg = true ∧ dd ≠ [] ∧ dd.all isDigit = true) ∧
      e0 = expValOf ex ∧ -2147483648 ≤ e0 ∧ e0 ≤ 2147483647 := by
  unfold splitExp at h
  split at h
  · simp only [Option.some.injEq, Prod.mk.injEq] at h
    obtain ⟨rfl, rfl⟩ := h
    refine ⟨none, ?_, ?_, rfl, by decide, by decide⟩
    · simp [expBytes]
    · intro m sg dd he; cases he
  · rename_i i hi
    obtain ⟨m, hm, hs, _⟩ := indexAnyE_some_inv hi
    split at h
    · cases h
    · rename_i e he
      simp only [Option.some.injEq, Prod.mk.injEq] at h
      obtain ⟨rfl, rfl⟩ := h
      unfold parseInt32 at he
      split at he
      · cases he
      · rename_i p hp
        obtain ⟨neg, v⟩ := p
        obtain ⟨sg, dd, hsg, ht, hne, hd, hv, hn⟩ := parseSigned_inv hp
        simp only at he
        split at he
        · rename_i hrange
          simp only [Option.some.injEq] at he
          refine ⟨some (m, sg, dd), ?_, ?_, ?_, ?_, ?_⟩
          · rw [expBytes, ← ht]; exact hs
          · intro m' sg' dd' hx
            simp only [Option.some.injEq, Prod.mk.injEq] at hx
            obtain ⟨rfl, rfl, rfl⟩ := hx
            exact ⟨hm, hsg, hne, hd⟩
          · rw [← he]; simp only [expValOf, signedVal, hn, hv]
          · rw [← he]; exact hrange.1
          · rw [← he]; exact hrange.2
        · cases he

/-- first byte after the point is not a sign -/
theorem cds_point {p0 rest : Bytes} (hp0 : NoDot p0) (h : containsDotSign (p0 ++ 46 :: rest) = false) :
    ∀ b r, rest = b :: r → isSign b = false := by
  intro b r hr
  rw [cds_append _ hp0, hr] at h
  simp only [containsDotSign, Bool.or_eq_false_iff, Bool.and_eq_false_iff] at h
  rcases h.1 with h1 | h1
  · simp at h1
  · exact h1

theorem append_sign_split {p0 t sg ds : Bytes} (hsg : okSign sg = true) (hp0 : p0 ≠ [])
    (h : p0 ++ t = sg ++ ds) : ∃ a, p0 = sg ++ a ∧ ds = a ++ t := by
  rcases List.append_eq_append_iff.1 h with ⟨a', h1, h2⟩ | ⟨c', h1, h2⟩
  · -- sg = p0 ++ a'
    rcases okSign_cases hsg with rfl | rfl | rfl
    · simp at h1; exact absurd h1.1 hp0
    · cases p0 with
      | nil => exact absurd rfl hp0
      | cons x r =>
        simp only [List.cons_append, List.cons.injEq] at h1
        have hr : r = [] ∧ a' = [] := by simpa using h1.2.symm
        obtain ⟨rfl, rfl⟩ := hr
        exact ⟨[], by simp [h1.1], by simpa using h2.symm⟩
    · cases p0 with
      | nil => exact absurd rfl hp0
      | cons x r =>
        simp only [List.cons_append, List.cons.injEq] at h1
        have hr : r = [] ∧ a' = [] := by simpa using h1.2.symm
        obtain ⟨rfl, rfl⟩ := hr
        exact ⟨[], by simp [h1.1], by simpa using h2.symm⟩
  · exact ⟨c', h1, h2⟩

/-- **soundness of the library's parser** (after the sign-after-point check): an accepted string is a
literal of G with at least one significant or integer digit, parsed to its coefficient and exponent. -/
theorem newFromString_sound (s : Bytes) (d : Dec) (hcds : containsDotSign s = false)
    (h : newFromString s = some d) :
    ∃ l : Lit, l.WF ∧ l.render = s ∧ l.tdigits ≠ [] ∧
      (-2147483648 ≤ l.expVal ∧ l.expVal ≤ 2147483647) ∧
      (-2147483648 ≤ l.cexp ∧ l.cexp ≤ 2147483647) ∧ d = ⟨l.coef, l.cexp⟩ := by
  unfold newFromString at h
  split at h; · cases h
  rename_i mant e0 hse
  split at h; · cases h
  rename_i istr e hsm
  split at h; · cases h
  rename_i v hpb
  split at h; · cases h
  rename_i hrange
  simp only [Option.some.injEq] at h
  obtain ⟨ex, hs, hexwf, he0, he0lo, he0hi⟩ := splitExp_inv hse
  -- the coefficient string
  unfold parseBigInt at hpb
  cases hps : parseSigned istr with
  | none => rw [hps] at hpb; cases hpb
  | some p =>
    obtain ⟨neg, mag⟩ := p
    rw [hps] at hpb
    simp only [Option.map_some, Option.some.injEq] at hpb
    obtain ⟨sg, ds, hsg, histr, hdsne, hdsd, hmag, hneg⟩ := parseSigned_inv hps
    have hexp : ∀ (l : Lit), l.ex = ex → l.expVal = e0 := by
      intro l hl; rw [he0, ← hl]; unfold Lit.expVal expValOf
      cases l.ex with
      | none => rfl
      | some t => obtain ⟨m, s', d'⟩ := t; rfl
    have hexpart : ∀ (l : Lit), l.ex = ex → l.expPart = expBytes ex := by
      intro l hl; rw [← hl]; unfold Lit.expPart expBytes
      cases l.ex with
      | none => rfl
      | some t => obtain ⟨m, s', d'⟩ := t; rfl
    unfold splitMant at hsm
    split at hsm
    · -- no decimal point
      rename_i p hp
      simp only [Option.some.injEq, Prod.mk.injEq] at hsm
      obtain ⟨rfl, rfl⟩ := hsm
      obtain ⟨hmp, _⟩ := (splitDot_inv mant).1 p hp
      let l : Lit := ⟨sg, ds, none, ex⟩
      have hfp : l.fpDigits = [] := rfl
      have htd : l.tdigits = ds := by simp [Lit.tdigits, hfp, trimRight0, l]
      have hce : l.cexp = e0 := by simp [Lit.cexp, hfp, trimRight0, hexp l rfl]
      refine ⟨l, ⟨hsg, hdsd, by rw [hfp]; rfl, by simpa [hfp, l] using hdsne, fun m s' d' hx => hexwf m s' d' hx⟩,
        ?_, by rw [htd]; exact hdsne, by rw [hexp l rfl]; exact ⟨he0lo, he0hi⟩, by rw [hce]; omega, ?_⟩
      · rw [Lit.render_eq, hexpart l rfl, hs, hmp, histr]; simp [Lit.mant, l]
      · rw [← h, ← hpb, hce]; simp [Lit.coef, htd, Lit.neg, hneg, hmag, l]
    · -- one decimal point
      rename_i p0 p1 hp
      simp only [Option.some.injEq, Prod.mk.injEq] at hsm
      obtain ⟨rfl, rfl⟩ := hsm
      obtain ⟨hmp, hn0, hn1⟩ := (splitDot_inv mant).2 p0 p1 hp
      obtain ⟨k, hk⟩ := trimRight0_append p1
      have hzeros : (List.replicate k 48).all isDigit = true := by simp [isDigit]
      -- the byte after the point is not a sign
      have hafter : ∀ b r, p1 ++ expBytes ex = b :: r → isSign b = false := by
        have : containsDotSign (p0 ++ 46 :: (p1 ++ expBytes ex)) = false := by
          rw [← hcds, hs, hmp]; simp
        exact cds_point hn0 this
      -- split p0 into sign and integer digits; the trimmed fraction is all digits
      have key : ∃ a, p0 = sg ++ a ∧ ds = a ++ trimRight0 p1 := by
        by_cases hp0 : p0 = []
        · subst hp0
          simp only [List.nil_append] at histr
          rcases okSign_cases hsg with rfl | rfl | rfl
          · exact ⟨[], rfl, by simpa using histr.symm⟩
          · exfalso
            have h1 : p1 = 43 :: (ds ++ List.replicate k 48) := by rw [hk, histr]; simp
            have := hafter 43 _ (by rw [h1]; rfl)
            simp [isSign] at this
          · exfalso
            have h1 : p1 = 45 :: (ds ++ List.replicate k 48) := by rw [hk, histr]; simp
            have := hafter 45 _ (by rw [h1]; rfl)
            simp [isSign] at this
        · exact append_sign_split hsg hp0 histr
      obtain ⟨a, hp0a, hdsa⟩ := key
      have had : a.all isDigit = true := by
        rw [hdsa, List.all_append, Bool.and_eq_true] at hdsd; exact hdsd.1
      have htd' : (trimRight0 p1).all isDigit = true := by
        rw [hdsa, List.all_append, Bool.and_eq_true] at hdsd; exact hdsd.2
      have hp1d : p1.all isDigit = true := by
        rw [hk, List.all_append, htd', hzeros]; rfl
      let l : Lit := ⟨sg, a, some p1, ex⟩
      have hfp : l.fpDigits = p1 := rfl
      have htd : l.tdigits = ds := by simp [Lit.tdigits, hfp, hdsa, l]
      have hce : l.cexp = e0 - (trimRight0 p1).length := by simp [Lit.cexp, hfp, hexp l rfl]
      refine ⟨l, ⟨hsg, had, by rw [hfp]; exact hp1d, ?_, fun m s' d' hx => hexwf m s' d' hx⟩,
        ?_, by rw [htd]; exact hdsne, by rw [hexp l rfl]; exact ⟨he0lo, he0hi⟩, by rw [hce]; omega, ?_⟩
      · rw [hfp]
        intro hnil
        have ha : a = [] := (List.append_eq_nil_iff.1 hnil).1
        have hp : p1 = [] := (List.append_eq_nil_iff.1 hnil).2
        rw [ha, hp] at hdsa
        exact hdsne (by simpa [trimRight0] using hdsa)
      · rw [Lit.render_eq, hexpart l rfl, hs, hmp, hp0a]; simp [Lit.mant, l, cDot]
      · rw [← h, ← hpb, hce]; simp [Lit.coef, htd, Lit.neg, hneg, hmag, l]
    · cases hsm

end Sky.C30
