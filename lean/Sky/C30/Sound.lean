/-
  C30 — soundness of the model of `decimal.NewFromString` (preceded by the sign-after-point check of
  `FromString`): whatever it accepts is a literal of the grammar G, parsed to that literal's
  coefficient and exponent.
-/
import Sky.C30.Parse
namespace Sky.C30
open Sky

/-! ### inversion of the string helpers -/

theorem indexAnyE_none_inv {s : Bytes} (h : indexAnyE s = none) : NoE s := by
  induction s with
  | nil => intro b hb; simp at hb
  | cons x t ih =>
    unfold indexAnyE at h
    split at h
    · cases h
    · rename_i hx
      have ht : indexAnyE t = none := by
        cases hi : indexAnyE t with
        | none => rfl
        | some j => rw [hi] at h; simp at h
      intro b hb
      rcases List.mem_cons.1 hb with rfl | hb
      · simp only [Bool.or_eq_true, beq_iff_eq, not_or] at hx; exact hx
      · exact ih ht b hb

theorem indexAnyE_some_inv {s : Bytes} {i : Nat} (h : indexAnyE s = some i) :
    ∃ m, (m = 69 ∨ m = 101) ∧ s = s.take i ++ m :: s.drop (i + 1) ∧ NoE (s.take i) := by
  induction s generalizing i with
  | nil => cases h
  | cons x t ih =>
    unfold indexAnyE at h
    split at h
    · rename_i hx
      cases h
      simp only [Bool.or_eq_true, beq_iff_eq] at hx
      exact ⟨x, hx, by simp, by intro b hb; simp at hb⟩
    · rename_i hx
      cases hi : indexAnyE t with
      | none => rw [hi] at h; simp at h
      | some j =>
        rw [hi] at h
        simp only [Option.map_some, Option.some.injEq] at h
        subst h
        obtain ⟨m, hm, hs, hn⟩ := ih hi
        refine ⟨m, hm, ?_, ?_⟩
        · simp only [List.take_succ_cons, List.drop_succ_cons, List.cons_append]
          rw [← hs]
        · simp only [List.take_succ_cons]
          intro b hb
          rcases List.mem_cons.1 hb with rfl | hb
          · simp only [Bool.or_eq_true, beq_iff_eq, not_or] at hx; exact hx
          · exact hn b hb

theorem splitSign_inv (t : Bytes) :
    ∃ sg, okSign sg = true ∧ t = sg ++ (splitSign t).2 ∧ (splitSign t).1 = (sg == [45]) ∧
      (sg = [] → ∀ b r, t = b :: r → b ≠ 43 ∧ b ≠ 45) := by
  unfold splitSign
  split
  · exact ⟨[43], rfl, rfl, rfl, by intro h; cases h⟩
  · exact ⟨[45], rfl, rfl, rfl, by intro h; cases h⟩
  · rename_i h1 h2
    refine ⟨[], rfl, rfl, rfl, ?_⟩
    intro _ b r hbr
    subst hbr
    exact ⟨fun e => h1 r (by rw [e]), fun e => h2 r (by rw [e])⟩

theorem parseSigned_inv {t : Bytes} {neg : Bool} {v : Nat} (h : parseSigned t = some (neg, v)) :
    ∃ sg d, okSign sg = true ∧ t = sg ++ d ∧ d ≠ [] ∧ d.all isDigit = true ∧ v = valOf d ∧ neg = (sg == [45]) := by
  obtain ⟨sg, hs, ht, hn, _⟩ := splitSign_inv t
  unfold parseSigned at h
  simp only at h
  split at h
  · cases h
  · rename_i hc
    simp only [Bool.or_eq_true, Bool.not_eq_true', not_or, Bool.not_eq_false] at hc
    simp only [Option.some.injEq, Prod.mk.injEq] at h
    refine ⟨sg, (splitSign t).2, hs, ht, ?_, hc.2, h.2.symm, by rw [← h.1, hn]⟩
    intro he; rw [he] at hc; simp at hc

/-- the parts of `strings.Split(s, ".")` contain no '.', and joined by '.' give `s` back -/
theorem splitDot_inv : ∀ (s : Bytes),
    (∀ p, splitDot s = [p] → s = p ∧ NoDot p) ∧
    (∀ p0 p1, splitDot s = [p0, p1] → s = p0 ++ 46 :: p1 ∧ NoDot p0 ∧ NoDot p1)
  | [] => by
    constructor
    · intro p h; simp only [splitDot, List.cons.injEq, and_true] at h; subst h
      exact ⟨rfl, by intro b hb; simp at hb⟩
    · intro p0 p1 h; simp [splitDot] at h
  | b :: r => by
    have ih := splitDot_inv r
    cases hr : splitDot r with
    | nil =>
      constructor
      · intro p h; simp only [splitDot, hr] at h
        -- unreachable shape of the recursion; the recursive result is never empty
        exfalso
        have : splitDot r ≠ [] := by
          cases r with
          | nil => simp [splitDot]
          | cons x t => simp only [splitDot]; split <;> (try split) <;> simp
        exact this hr
      · intro p0 p1 h; simp [splitDot, hr] at h
    | cons q qs =>
      by_cases hb : b = 46
      · subst hb
        constructor
        · intro p h; simp [splitDot, hr] at h
        · intro p0 p1 h
          simp only [splitDot, hr, beq_self_eq_true, if_true, List.cons.injEq] at h
          obtain ⟨h0, h1, h2⟩ := h
          subst h0 h1 h2
          have := ih.1 q hr
          exact ⟨by rw [this.1]; rfl, by intro b hb; simp at hb, this.2⟩
      · have hb' : (b == 46) = false := by simp [hb]
        constructor
        · intro p h
          simp only [splitDot, hr, hb', Bool.false_eq_true, if_false, List.cons.injEq] at h
          obtain ⟨h0, h1⟩ := h
          subst h0 h1
          have := ih.1 q hr
          refine ⟨by rw [this.1], ?_⟩
          intro x hx
          rcases List.mem_cons.1 hx with rfl | hx
          · exact hb
          · exact this.2 x hx
        · intro p0 p1 h
          simp only [splitDot, hr, hb', Bool.false_eq_true, if_false, List.cons.injEq] at h
          obtain ⟨h0, h1⟩ := h
          subst h0 h1
          have := ih.2 q p1 hr
          refine ⟨by rw [this.1]; rfl, ?_, this.2.2⟩
          intro x hx
          rcases List.mem_cons.1 hx with rfl | hx
          · exact hb
          · exact this.2.1 x hx

end Sky.C30
