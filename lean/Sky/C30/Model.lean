/-
  C30 — hand model of `droplet.FromString` / `droplet.ToString` (src/util/droplet/droplet.go) and of
  the part of the vendored `shopspring/decimal` they use (`NewFromString`, `Sign`, `Exponent`,
  `Shift`, `Cmp/GreaterThan`, `IntPart`, `New`, `StringFixed` = `Round` + `string`).
  Core Lean only.  Strings are byte lists (Go strings are byte strings; every function used here
  works byte-wise and accepts only ASCII).

  Not modelled: running time (`rescale` computes 10^|exp| — the unbounded-exponent hang F16 belongs to
  C28); the text of the library's error messages (all library errors are the outcome `err other`).
-/
import Sky.Prim.Res
namespace Sky.C30
open Sky

abbrev Bytes := List Nat

def cPlus : Nat := 43
def cMinus : Nat := 45
def cDot : Nat := 46
def cZero : Nat := 48
def cE : Nat := 69
def ce : Nat := 101

def isDigit (b : Nat) : Bool := 48 ≤ b && b ≤ 57
def isSign (b : Nat) : Bool := b == 43 || b == 45

/-! ### decimal digits (own definitions, by structural recursion) -/

/-- value of a list of digit VALUES, most significant first -/
def ofDigits10 (ds : List Nat) : Nat := ds.foldl (fun a d => 10 * a + d) 0

/-- value of a list of digit BYTES ('0'..'9') -/
def valOf (bs : Bytes) : Nat := ofDigits10 (bs.map (· - 48))

def digitsAux : Nat → Nat → List Nat → List Nat
  | 0, _, acc => acc
  | f + 1, n, acc => if n < 10 then n :: acc else digitsAux f (n / 10) (n % 10 :: acc)

/-- decimal digit values of `n`, most significant first, `[0]` for 0 (fuel `n+1` always suffices) -/
def digits10 (n : Nat) : List Nat := digitsAux (n + 1) n []

/-- `big.Int.String()` of a non-negative value -/
def natStr (n : Nat) : Bytes := (digits10 n).map (· + 48)

/-! ### strconv.ParseInt(s, 10, 32) and big.Int.SetString(s, 10) -/

/-- an optional leading sign: (negative?, rest) -/
def splitSign : Bytes → Bool × Bytes
  | 43 :: r => (false, r)
  | 45 :: r => (true, r)
  | r => (false, r)

/-- optional sign then one or more ASCII digits, nothing else: (negative?, magnitude) -/
def parseSigned (s : Bytes) : Option (Bool × Nat) :=
  let p := splitSign s
  if p.2.isEmpty || !p.2.all isDigit then none else some (p.1, valOf p.2)

def signedVal (p : Bool × Nat) : Int := if p.1 then -(p.2 : Int) else (p.2 : Int)

/-- `strconv.ParseInt(s, 10, 32)`: `none` for a syntax error and for a value outside int32 -/
def parseInt32 (s : Bytes) : Option Int :=
  match parseSigned s with
  | none => none
  | some p => let v := signedVal p
              if -2147483648 ≤ v ∧ v ≤ 2147483647 then some v else none

/-- `new(big.Int).SetString(s, 10)` -/
def parseBigInt (s : Bytes) : Option Int := (parseSigned s).map signedVal

/-! ### strings.IndexAny(s, "Ee"), strings.Split(s, "."), strings.TrimRight(s, "0") -/

def indexAnyE : Bytes → Option Nat
  | [] => none
  | b :: r => if b == 69 || b == 101 then some 0 else (indexAnyE r).map (· + 1)

/-- split at every '.', like `strings.Split(s, ".")` (always at least one part) -/
def splitDot : Bytes → List Bytes
  | [] => [[]]
  | b :: r =>
    match splitDot r with
    | [] => [[]]     -- unreachable
    | p :: ps => if b == 46 then [] :: p :: ps else (b :: p) :: ps

def trimRight0 (s : Bytes) : Bytes := (s.reverse.dropWhile (· == 48)).reverse

/-! ### decimal.Decimal -/

/-- value · 10^exp ; `exp` is an int32 -/
structure Dec where
  value : Int
  exp : Int
deriving DecidableEq, Repr

/-- the scientific-notation split: (mantissa text, exponent) -/
def splitExp (s : Bytes) : Option (Bytes × Int) :=
  match indexAnyE s with
  | none => some (s, 0)
  | some i =>
    match parseInt32 (s.drop (i + 1)) with
    | none => none
    | some e => some (s.take i, e)

/-- the decimal-point split: (digits to parse as one integer, exponent) -/
def splitMant (mant : Bytes) (exp0 : Int) : Option (Bytes × Int) :=
  match splitDot mant with
  | [p] => some (p, exp0)
  | [p0, p1] => some (p0 ++ trimRight0 p1, exp0 - (trimRight0 p1).length)
  | _ => none

/-- `decimal.NewFromString`; `none` = any of its errors -/
def newFromString (s : Bytes) : Option Dec :=
  match splitExp s with
  | none => none
  | some (mant, exp0) =>
    match splitMant mant exp0 with
    | none => none
    | some (intString, exp) =>
      match parseBigInt intString with
      | none => none
      | some v => if exp < -2147483648 ∨ exp > 2147483647 then none else some ⟨v, exp⟩

/-- a sign directly after a decimal point (the check added to `FromString` by the repair of F24) -/
def containsDotSign : Bytes → Bool
  | a :: b :: r => (a == 46 && isSign b) || containsDotSign (b :: r)
  | _ => false

def maxInt64 : Nat := 9223372036854775807

/-- `droplet.FromString` -/
def fromString (s : Bytes) : Res Nat :=
  if containsDotSign s then .err (.other "syntax") else
  match newFromString s with
  | none => .err (.other "decimal")
  | some d =>
    if d.value < 0 then .err (.named "ErrNegativeValue")             -- d.Sign() == -1
    else if d.exp < -6 then .err (.named "ErrTooManyDecimals")       -- d.Exponent() < -Exponent
    else
      let e := wrapI32 (d.exp + 6)                                   -- d.Shift(6): int32 addition
      if e < 0 then .err (.named "ErrTooManyDecimals")
      else
        -- e.GreaterThan(maxDecimal): both rescaled to exponent min(e,0) = 0; then IntPart
        let v := d.value * 10 ^ e.toNat
        if v > (maxInt64 : Int) then .err (.named "ErrTooLarge")
        else .ok (toU64 (wrapI64 v))                                 -- uint64(e.IntPart())

/-- `Decimal.string(false)` for exponent −6 and a non-negative coefficient -/
def stringFixed6 (coef : Nat) : Bytes :=
  let str := natStr coef
  if str.length > 6 then
    str.take (str.length - 6) ++ [cDot] ++ str.drop (str.length - 6)
  else
    [cZero] ++ [cDot] ++ (List.replicate (6 - str.length) cZero ++ str)

/-- `droplet.ToString`: `decimal.New(int64(n), -6).StringFixed(6)`; `Round(6)` rescales to exponent −7
(coefficient·10), adds 5 and floor-divides by 10. -/
def toText (n : Nat) : Res Bytes :=
  if n > maxInt64 then .err (.named "ErrTooLarge")
  else .ok (stringFixed6 ((n * 10 + 5) / 10))

end Sky.C30
