/- C30 driver: answers each op line from the hand model of droplet.FromString/ToString and judges the
implementation's answer against the by-value specification over the grammar G (core Lean only). -/
import Sky.Prim.DrvLib
import Sky.C30.Spec
namespace Sky.C30
open Sky Sky.Drv

def printable (bs : Bytes) : Bool := !bs.isEmpty && bs.all (fun b => 0x21 ≤ b && b ≤ 0x7e)

def encText (bs : Bytes) : String :=
  if printable bs then "s:" ++ String.ofList (bs.map Char.ofNat) else "x:" ++ hexOf bs

def decText (s : String) : Option Bytes :=
  if s.startsWith "s:" then some ((s.drop 2).toString.toList.map Char.toNat)
  else if s.startsWith "x:" then hex? (s.drop 2).toString
  else none

def showResN : Res Nat → String := showRes toString
def showResT : Res Bytes → String := showRes encText

/-- the exponent part is short enough to evaluate powers of ten -/
def evaluable (s : Bytes) : Bool :=
  match indexAnyE s with
  | none => true
  | some i => (s.length - i) ≤ 7

/-- does the implementation's answer satisfy the property on input `s`?  `none` = yes;
`some demand` = no, with what the property demands. -/
def judgeFrom (s : Bytes) (impl : String) : Option String :=
  let implOk : Option Nat := if impl.startsWith "ok " then nat? (impl.drop 3).toString else none
  let implErr := impl.startsWith "err"
  match parseLit s with
  | none => if implErr then none else some "err (not a decimal amount)"
  | some l =>
    match l.specValue with
    | none => none
    | some (.ok v) => if implOk == some v then none else some ("ok " ++ toString v)
    | some (.err e) => if implErr then none else some ("err " ++ e.toString)
    | some (.panic _) => none

def step (op impl : String) : String × Verdict :=
  match op.splitOn " " with
  | ["ToString", n] =>
      match nat? n with
      | some n => (showResT (toText n), .fail)
      | none => ("bad-op", .unknown)
  | ["RoundTrip", n] =>
      match nat? n with
      | some n => (if n > maxInt64 then "err ErrTooLarge" else "ok " ++ toString n, .fail)
      | none => ("bad-op", .unknown)
  | ["FromString", t] =>
      match decText t with
      | none => ("bad-op", .unknown)
      | some s =>
        if !evaluable s then (normImpl impl, .unknown) else
        match judgeFrom s impl with
        | some demand => (demand, .fail)
        | none => (showResN (fromString s), .hold)
  | _ => ("bad-op", .unknown)

end Sky.C30

def main : IO Unit := Sky.Drv.loopPure Sky.C30.step
