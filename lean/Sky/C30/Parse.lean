/-
  C30 — the model of `decimal.NewFromString` / `droplet.FromString` evaluated on a literal of the
  grammar G (`Lit.render`): completeness of the parser and the exact outcome of `fromString`.
-/
import Sky.C30.Spec
import Sky.C30.Digits
namespace Sky.C30
open Sky

def NoE (s : Bytes) : Prop := ∀ b ∈ s, b ≠ 69 ∧ b ≠ 101
def NoDot (s : Bytes) : Prop := ∀ b ∈ s, b ≠ 46

theorem digits_noE {s : Bytes} (h : s.all isDigit = true) : NoE s := by
  intro b hb
  have := List.all_eq_true.1 h b hb
  simp [isDigit] at this; omega

theorem digits_noDot {s : Bytes} (h : s.all isDigit = true) : NoDot s := by
  intro b hb
  have := List.all_eq_true.1 h b hb
  simp [isDigit] at this; omega

theorem okSign_cases {s : Bytes} (h : okSign s = true) : s = [] ∨ s = [43] ∨ s = [45] := by
  simp only [okSign, Bool.or_eq_true, beq_iff_eq] at h
  rcases h with (h | h) | h <;> simp [h]

theorem sign_noE {s : Bytes} (h : okSign s = true) : NoE s := by
  rcases okSign_cases h with rfl | rfl | rfl <;> intro b hb <;> simp at hb <;> omega

theorem sign_noDot {s : Bytes} (h : okSign s = true) : NoDot s := by
  rcases okSign_cases h with rfl | rfl | rfl <;> intro b hb <;> simp at hb <;> omega

theorem NoE.append {a b : Bytes} (ha : NoE a) (hb : NoE b) : NoE (a ++ b) := by
  intro x hx; rcases List.mem_append.1 hx with h | h
  · exact ha x h
  · exact hb x h

theorem NoDot.append {a b : Bytes} (ha : NoDot a) (hb : NoDot b) : NoDot (a ++ b) := by
  intro x hx; rcases List.mem_append.1 hx with h | h
  · exact ha x h
  · exact hb x h

theorem indexAnyE_none {s : Bytes} (h : NoE s) : indexAnyE s = none := by
  induction s with
  | nil => rfl
  | cons b r ih =>
    have hb := h b (List.mem_cons_self ..)
    have : (b == 69 || b == 101) = false := by simp [hb.1, hb.2]
    simp only [indexAnyE, this]
    rw [ih (fun x hx => h x (List.mem_cons_of_mem _ hx))]; rfl

theorem indexAnyE_append {a : Bytes} (m : Nat) (r : Bytes) (h : NoE a) (hm : m = 69 ∨ m = 101) :
    indexAnyE (a ++ m :: r) = some a.length := by
  induction a with
  | nil => rcases hm with rfl | rfl <;> simp [indexAnyE]
  | cons b t ih =>
    have hb := h b (List.mem_cons_self ..)
    have : (b == 69 || b == 101) = false := by simp [hb.1, hb.2]
    simp only [List.cons_append, indexAnyE, this]
    rw [ih (fun x hx => h x (List.mem_cons_of_mem _ hx))]; rfl

theorem splitDot_noDot {s : Bytes} (h : NoDot s) : splitDot s = [s] := by
  induction s with
  | nil => rfl
  | cons b r ih =>
    have hb : b ≠ 46 := h b (List.mem_cons_self ..)
    simp only [splitDot, ih (fun x hx => h x (List.mem_cons_of_mem _ hx))]
    simp [hb]

theorem splitDot_one {a b : Bytes} (ha : NoDot a) (hb : NoDot b) : splitDot (a ++ 46 :: b) = [a, b] := by
  induction a with
  | nil => simp [splitDot, splitDot_noDot hb]
  | cons x t ih =>
    have hx : x ≠ 46 := ha x (List.mem_cons_self ..)
    simp only [List.cons_append, splitDot, ih (fun y hy => ha y (List.mem_cons_of_mem _ hy))]
    simp [hx]

theorem splitSign_digit {b : Nat} (r : Bytes) (hb : isDigit b = true) : splitSign (b :: r) = (false, b :: r) := by
  have h43 : b ≠ 43 := by simp [isDigit] at hb; omega
  have h45 : b ≠ 45 := by simp [isDigit] at hb; omega
  unfold splitSign
  split
  · rename_i heq; cases heq; exact absurd rfl h43
  · rename_i heq; cases heq; exact absurd rfl h45
  · rfl

theorem parseSigned_digits {d : Bytes} (hne : d ≠ []) (hd : d.all isDigit = true) :
    parseSigned d = some (false, valOf d) := by
  cases d with
  | nil => exact absurd rfl hne
  | cons b r =>
    have hb : isDigit b = true := by simp only [List.all_cons, Bool.and_eq_true] at hd; exact hd.1
    simp only [parseSigned, splitSign_digit r hb, hd]
    simp

theorem parseSigned_sign {sg d : Bytes} (hs : okSign sg = true) (hne : d ≠ []) (hd : d.all isDigit = true) :
    parseSigned (sg ++ d) = some (sg == [45], valOf d) := by
  rcases okSign_cases hs with rfl | rfl | rfl
  · simpa using parseSigned_digits hne hd
  · have : d.isEmpty = false := by cases d <;> simp_all
    simp [parseSigned, splitSign, hd, this]
  · have : d.isEmpty = false := by cases d <;> simp_all
    simp [parseSigned, splitSign, hd, this]

/-! ### the literal, decomposed -/

def Lit.mant (l : Lit) : Bytes :=
  l.sign ++ l.ip ++ (match l.fp with | none => [] | some f => cDot :: f)

def Lit.expPart (l : Lit) : Bytes :=
  match l.ex with | none => [] | some (m, s, d) => m :: (s ++ d)

theorem Lit.render_eq (l : Lit) : l.render = l.mant ++ l.expPart := rfl

/-- trimmed significant digits, coefficient and exponent as the decimal library represents them -/
def Lit.tdigits (l : Lit) : Bytes := l.ip ++ trimRight0 l.fpDigits
def Lit.coef (l : Lit) : Int := signedVal (l.neg, valOf l.tdigits)
def Lit.cexp (l : Lit) : Int := l.expVal - (trimRight0 l.fpDigits).length

structure Lit.WF (l : Lit) : Prop where
  sign : okSign l.sign = true
  ip : l.ip.all isDigit = true
  fp : l.fpDigits.all isDigit = true
  some_digit : l.ip ++ l.fpDigits ≠ []
  ex : ∀ m s d, l.ex = some (m, s, d) → (m = 69 ∨ m = 101) ∧ okSign s = true ∧ d ≠ [] ∧ d.all isDigit = true

theorem Lit.wf_iff (l : Lit) : l.wf = true ↔ l.WF := by
  constructor
  · intro h
    simp only [Lit.wf, Bool.and_eq_true, Bool.not_eq_true', List.isEmpty_eq_false_iff] at h
    obtain ⟨⟨⟨⟨h1, h2⟩, h3⟩, h4⟩, h5⟩ := h
    refine ⟨h1, h2, h3, h4, ?_⟩
    intro m s d he
    rw [he] at h5
    simp only [Bool.and_eq_true, Bool.or_eq_true, beq_iff_eq, Bool.not_eq_true',
      List.isEmpty_eq_false_iff] at h5
    exact ⟨h5.1.1.1, h5.1.1.2, h5.1.2, h5.2⟩
  · intro h
    simp only [Lit.wf, Bool.and_eq_true, Bool.not_eq_true', List.isEmpty_eq_false_iff]
    refine ⟨⟨⟨⟨h.sign, h.ip⟩, h.fp⟩, h.some_digit⟩, ?_⟩
    cases he : l.ex with
    | none => rfl
    | some t =>
      obtain ⟨m, s, d⟩ := t
      have := h.ex m s d he
      simp only [Bool.and_eq_true, Bool.or_eq_true, beq_iff_eq, Bool.not_eq_true',
        List.isEmpty_eq_false_iff]
      exact ⟨⟨⟨this.1, this.2.1⟩, this.2.2.1⟩, this.2.2.2⟩

theorem Lit.mant_noE (l : Lit) (h : l.WF) : NoE l.mant := by
  unfold Lit.mant
  refine ((sign_noE h.sign).append (digits_noE h.ip)).append ?_
  cases hf : l.fp with
  | none => intro b hb; simp at hb
  | some f =>
    have hfd : f.all isDigit = true := by have := h.fp; simpa [Lit.fpDigits, hf] using this
    intro b hb
    rcases List.mem_cons.1 hb with rfl | hb
    · simp [cDot]
    · exact digits_noE hfd b hb

/-- the exponent the library parses -/
theorem parseInt32_exp (l : Lit) (h : l.WF) (m : Nat) (s d : Bytes) (he : l.ex = some (m, s, d))
    (hr : -2147483648 ≤ l.expVal ∧ l.expVal ≤ 2147483647) : parseInt32 (s ++ d) = some l.expVal := by
  obtain ⟨_, hs, hne, hd⟩ := h.ex m s d he
  have hv : signedVal (s == [45], valOf d) = l.expVal := by
    simp only [Lit.expVal, he, signedVal]
  unfold parseInt32
  rw [parseSigned_sign hs hne hd]
  simp only [hv]
  rw [if_pos hr]

/-- **completeness of the library's parser on G**: a literal with at least one significant or
integer digit and exponents within int32 parses to its coefficient and exponent. -/
theorem newFromString_render (l : Lit) (h : l.WF) (hne : l.tdigits ≠ [])
    (hr : -2147483648 ≤ l.expVal ∧ l.expVal ≤ 2147483647) :
    newFromString l.render =
      if l.cexp < -2147483648 ∨ l.cexp > 2147483647 then none else some ⟨l.coef, l.cexp⟩ := by
  have hmE := l.mant_noE h
  -- step 1: the exponent split
  have step1 : splitExp l.render = some (l.mant, l.expVal) := by
    unfold splitExp
    rw [Lit.render_eq]
    cases he : l.ex with
    | none =>
      have : l.expPart = [] := by simp [Lit.expPart, he]
      rw [this, List.append_nil, indexAnyE_none hmE]
      simp [Lit.expVal, he]
    | some t =>
      obtain ⟨m, s, d⟩ := t
      have hx : l.expPart = m :: (s ++ d) := by simp [Lit.expPart, he]
      obtain ⟨hm, _, _, _⟩ := h.ex m s d he
      rw [hx, indexAnyE_append m (s ++ d) hmE hm]
      have hd : (l.mant ++ m :: (s ++ d)).drop (l.mant.length + 1) = s ++ d := by
        rw [show l.mant ++ m :: (s ++ d) = (l.mant ++ [m]) ++ (s ++ d) by simp]
        rw [List.drop_left' (by simp)]
      have ht : (l.mant ++ m :: (s ++ d)).take l.mant.length = l.mant := by
        rw [List.take_left' rfl]
      simp only [hd, ht, parseInt32_exp l h m s d he hr]
  -- step 2: the point split
  have step2 : splitMant l.mant l.expVal = some (l.sign ++ l.tdigits, l.cexp) := by
    have hsi : NoDot (l.sign ++ l.ip) := (sign_noDot h.sign).append (digits_noDot h.ip)
    unfold splitMant Lit.mant
    cases hf : l.fp with
    | none =>
      simp only [List.append_nil, splitDot_noDot hsi]
      simp [Lit.tdigits, Lit.cexp, Lit.fpDigits, hf, trimRight0]
    | some f =>
      have hfd : f.all isDigit = true := by have := h.fp; simpa [Lit.fpDigits, hf] using this
      simp only [cDot, splitDot_one hsi (digits_noDot hfd)]
      simp [Lit.tdigits, Lit.cexp, Lit.fpDigits, hf, List.append_assoc]
  -- step 3: the coefficient
  have step3 : parseBigInt (l.sign ++ l.tdigits) = some l.coef := by
    have hd : l.tdigits.all isDigit = true := by
      simp only [Lit.tdigits, List.all_append, Bool.and_eq_true]
      exact ⟨h.ip, trimRight0_all _ h.fp⟩
    unfold parseBigInt
    rw [parseSigned_sign h.sign hne hd]
    simp [Lit.coef, Lit.neg]
  unfold newFromString
  simp only [step1, step2, step3]

/-! ### the syntax check added by the repair, on literals of G -/

theorem cds_noDot {s : Bytes} (h : NoDot s) : containsDotSign s = false := by
  induction s with
  | nil => rfl
  | cons x t ih =>
    have hx : x ≠ 46 := h x (List.mem_cons_self ..)
    have ht := ih (fun y hy => h y (List.mem_cons_of_mem _ hy))
    cases t with
    | nil => rfl
    | cons y r => simp only [containsDotSign, ht]; simp [hx]

theorem cds_append {a : Bytes} (b : Bytes) (h : NoDot a) : containsDotSign (a ++ b) = containsDotSign b := by
  induction a with
  | nil => rfl
  | cons x t ih =>
    have hx : x ≠ 46 := h x (List.mem_cons_self ..)
    have ht := ih (fun y hy => h y (List.mem_cons_of_mem _ hy))
    rw [List.cons_append]
    cases hc : t ++ b with
    | nil =>
      have : b = [] := (List.append_eq_nil_iff.1 hc).2
      subst this; rfl
    | cons y r => rw [hc] at ht; simp only [containsDotSign, ht]; simp [hx]

theorem Lit.expPart_noDot (l : Lit) (h : l.WF) : NoDot l.expPart := by
  unfold Lit.expPart
  cases he : l.ex with
  | none => intro b hb; simp at hb
  | some t =>
    obtain ⟨m, s, d⟩ := t
    obtain ⟨hm, hs, _, hd⟩ := h.ex m s d he
    intro b hb
    rcases List.mem_cons.1 hb with rfl | hb
    · omega
    · exact ((sign_noDot hs).append (digits_noDot hd)) b hb

/-- a literal of G never has a sign directly after its decimal point -/
theorem Lit.render_no_dotSign (l : Lit) (h : l.WF) : containsDotSign l.render = false := by
  have hsi : NoDot (l.sign ++ l.ip) := (sign_noDot h.sign).append (digits_noDot h.ip)
  have hx := l.expPart_noDot h
  rw [Lit.render_eq]; unfold Lit.mant
  cases hf : l.fp with
  | none =>
    simp only [List.append_nil]
    exact cds_noDot (hsi.append hx)
  | some f =>
    have hfd : f.all isDigit = true := by have := h.fp; simpa [Lit.fpDigits, hf] using this
    have hrest : NoDot (f ++ l.expPart) := (digits_noDot hfd).append hx
    simp only [List.append_assoc, List.cons_append]
    rw [← List.append_assoc, cds_append _ hsi]
    cases hc : f ++ l.expPart with
    | nil => rfl
    | cons y r =>
      rw [hc] at hrest
      have hy : isSign y = false := by
        cases f with
        | cons y' f' =>
          simp only [List.cons_append, List.cons.injEq] at hc
          have : isDigit y = true := by
            rw [← hc.1]; simp only [List.all_cons, Bool.and_eq_true] at hfd; exact hfd.1
          simp [isDigit] at this; simp [isSign]; omega
        | nil =>
          simp only [List.nil_append] at hc
          unfold Lit.expPart at hc
          cases he : l.ex with
          | none => rw [he] at hc; cases hc
          | some t =>
            obtain ⟨m, s, d⟩ := t
            rw [he] at hc
            simp only [List.cons.injEq] at hc
            obtain ⟨hm, _, _, _⟩ := h.ex m s d he
            rw [← hc.1]; rcases hm with rfl | rfl <;> rfl
      simp only [containsDotSign, cDot, hy, cds_noDot hrest]; rfl

/-- **the exact outcome of `FromString` on every literal of G** (with exponents the library can
represent): negative → ErrNegativeValue; more than six places in the library's normal form, or an
exponent beyond int32 after the shift → ErrTooManyDecimals; above MaxInt64 → ErrTooLarge; else the
droplets `coef · 10^(cexp+6)`. -/
theorem fromString_render (l : Lit) (h : l.WF) (hne : l.tdigits ≠ [])
    (hr : -2147483648 ≤ l.expVal ∧ l.expVal ≤ 2147483647) :
    fromString l.render =
      if l.cexp < -2147483648 ∨ l.cexp > 2147483647 then .err (.other "decimal")
      else if l.coef < 0 then .err (.named "ErrNegativeValue")
      else if l.cexp < -6 then .err (.named "ErrTooManyDecimals")
      else if l.cexp > 2147483641 then .err (.named "ErrTooManyDecimals")
      else if l.coef * 10 ^ (l.cexp + 6).toNat > (maxInt64 : Int) then .err (.named "ErrTooLarge")
      else .ok (l.coef * 10 ^ (l.cexp + 6).toNat).toNat := by
  unfold fromString
  rw [l.render_no_dotSign h, newFromString_render l h hne hr]
  simp only [Bool.false_eq_true, if_false]
  by_cases hc : l.cexp < -2147483648 ∨ l.cexp > 2147483647
  · simp [hc]
  simp only [hc, if_false]
  by_cases h1 : l.coef < 0
  · simp [h1]
  by_cases h2 : l.cexp < -6
  · simp [h1, h2]
  simp only [h1, h2, if_false]
  by_cases h3 : l.cexp > 2147483641
  · have : wrapI32 (l.cexp + 6) < 0 := by unfold wrapI32; omega
    simp [h3, this]
  have hw : wrapI32 (l.cexp + 6) = l.cexp + 6 := by unfold wrapI32; omega
  have hnn : ¬ l.cexp + 6 < 0 := by omega
  simp only [h3, hw, hnn, if_false]
  by_cases h4 : l.coef * 10 ^ (l.cexp + 6).toNat > (maxInt64 : Int)
  · simp [h4]
  · simp only [h4, if_false]
    have hv0 : 0 ≤ l.coef * 10 ^ (l.cexp + 6).toNat :=
      Int.mul_nonneg (by omega) (Int.pow_nonneg (by decide))
    have hmax : (maxInt64 : Int) = 9223372036854775807 := rfl
    have hwi : wrapI64 (l.coef * 10 ^ (l.cexp + 6).toNat) = l.coef * 10 ^ (l.cexp + 6).toNat := by
      unfold wrapI64; omega
    rw [hwi]
    unfold toU64
    congr 2
    omega

end Sky.C30
