/-
  C30 — specification: the grammar of decimal amount strings and their exact value in droplets.
  Core Lean only.  Independent of the model of the decimal library in `Sky.C30.Model`
  (only the byte helpers and digit functions are shared).

  G  ::=  sign? ( digit+ ('.' digit*)? | '.' digit+ ) ( ('e'|'E') sign? digit+ )?
-/
import Sky.C30.Model
namespace Sky.C30
open Sky

/-- a parsed literal of the grammar G -/
structure Lit where
  sign : Bytes                        -- [], "+" or "-"
  ip : Bytes                          -- digits before the point
  fp : Option Bytes                   -- digits after the point; `none` = no point
  ex : Option (Nat × Bytes × Bytes)   -- exponent: marker byte ('e'/'E'), sign, digits
deriving DecidableEq, Repr

def Lit.fpDigits (l : Lit) : Bytes := l.fp.getD []

def Lit.render (l : Lit) : Bytes :=
  l.sign ++ l.ip ++ (match l.fp with | none => [] | some f => cDot :: f) ++
    (match l.ex with | none => [] | some (m, s, d) => m :: (s ++ d))

def okSign (s : Bytes) : Bool := s == [] || s == [43] || s == [45]

/-- membership in G -/
def Lit.wf (l : Lit) : Bool :=
  okSign l.sign && l.ip.all isDigit && l.fpDigits.all isDigit &&
  !(l.ip ++ l.fpDigits).isEmpty &&
  (match l.ex with
   | none => true
   | some (m, s, d) => (m == 69 || m == 101) && okSign s && !d.isEmpty && d.all isDigit)

def Lit.neg (l : Lit) : Bool := l.sign == [45]

/-- all digits as one natural number: the amount is `± num · 10^scale` -/
def Lit.num (l : Lit) : Nat := valOf (l.ip ++ l.fpDigits)

def Lit.expVal (l : Lit) : Int :=
  match l.ex with
  | none => 0
  | some (_, s, d) => if s == [45] then -(valOf d : Int) else (valOf d : Int)

def Lit.scale (l : Lit) : Int := l.expVal - l.fpDigits.length

/-- `v` is the exact number of droplets (10^-6) of the amount `num · 10^scale` -/
def Lit.IsDroplets (l : Lit) (v : Nat) : Prop :=
  if 0 ≤ l.scale + 6 then v = l.num * 10 ^ (l.scale + 6).toNat
  else v * 10 ^ (-(l.scale + 6)).toNat = l.num

/-- the amount is non-negative (−0 is zero) -/
def Lit.nonneg (l : Lit) : Bool := !l.neg || l.num == 0

/-! ### executable recogniser of G and executable value (used by the driver only) -/

def spanDigits (s : Bytes) : Bytes × Bytes := (s.takeWhile isDigit, s.dropWhile isDigit)

def takeSign : Bytes → Bytes × Bytes
  | 43 :: r => ([43], r)
  | 45 :: r => ([45], r)
  | r => ([], r)

def parseLit (s : Bytes) : Option Lit :=
  let (sg, r) := takeSign s
  let (ip, r) := spanDigits r
  let (fp, r) : Option Bytes × Bytes :=
    match r with
    | 46 :: r' => let (f, r'') := spanDigits r'; (some f, r'')
    | _ => (none, r)
  let exr : Option (Option (Nat × Bytes × Bytes)) :=
    match r with
    | [] => some none
    | m :: r' =>
      if m == 69 || m == 101 then
        let (es, r'') := takeSign r'
        let (ed, rest) := spanDigits r''
        if rest.isEmpty then some (some (m, es, ed)) else none
      else none
  match exr with
  | none => none
  | some ex => let l : Lit := ⟨sg, ip, fp, ex⟩; if l.wf then some l else none

/-- what the property demands of `FromString` on a literal, by value.  `none` when the exponent is
too extreme to evaluate here (never generated). -/
def Lit.specValue (l : Lit) : Option (Res Nat) :=
  let k := l.scale + 6
  if k > 100000 ∨ k < -100000 then none else
  if !l.nonneg then some (.err (.named "ErrNegativeValue"))
  else if 0 ≤ k then
    let v := l.num * 10 ^ k.toNat
    some (if v > maxInt64 then .err (.named "ErrTooLarge") else .ok v)
  else
    let p := 10 ^ (-k).toNat
    some (if l.num % p != 0 then .err (.named "ErrTooManyDecimals")
          else if l.num / p > maxInt64 then .err (.named "ErrTooLarge") else .ok (l.num / p))

end Sky.C30
