/-
  C29 — specification and hand model, executable, core Lean only.

  * `specCal`        : what `PageIndex.Cal` must return (the right-hand side of `cal_spec`);
  * `newPageIndex`   : hand model of `visor.NewPageIndex`;
  * `Item`, `addItem`, `add`, `append`, `sortItems`, `paginationWith` : hand model of
    `txnHashesContainer` (`Add/AddItem/Append/Sort/Pagination`) in src/visor/transaction_model.go.
    The Go container keeps a slice `items` and a map `m` of the hashes in `items`; only `Add` and
    `AddItem` write either, always both, so the model keeps `items` and answers "hash present?"
    from it.
-/
import Sky.Prim.Res
namespace Sky.C29
open Sky

/-- ⌈n / size⌉ -/
def ceilDiv (n size : Nat) : Nat := (n + size - 1) / size

/-- `PageIndex{size,page}.Cal(n)`: (start, end, totalPages).  Pages are numbered from 1; page `k ≤ N`
is `[size·(k−1), min(size·k, n))`, every page beyond `N = ⌈n/size⌉` is the empty slice `[0,0)`. -/
def specCal (size page n : Nat) : Res (Nat × Nat × Nat) :=
  if size = 0 then .err (.named "ErrZeroPageSize")
  else if page = 0 then .err (.named "ErrZeroPageNum")
  else
    let N := ceilDiv n size
    if page > N then .ok (0, 0, N)
    else .ok (size * (page - 1), min (size * page) n, N)

def maxTxnPageSize : Nat := 100

/-- `visor.NewPageIndex(size, pageN)`: the (size, page) pair or the sentinel error, in the code's order. -/
def newPageIndex (size page : Nat) : Res (Nat × Nat) :=
  if size = 0 then .err (.named "ErrZeroPageSize")
  else if page = 0 then .err (.named "ErrZeroPageNum")
  else if size > maxTxnPageSize then .err (.named "ErrMaxTxnPageSize")
  else .ok (size, page)

/-- Go `s[start:end]` on a slice whose capacity equals its length: panics unless `start ≤ end ≤ len`. -/
def goSlice {α} (l : List α) (s e : Nat) : Res (List α) :=
  if s ≤ e ∧ e ≤ l.length then .ok ((l.drop s).take (e - s)) else .panic "slice bounds"

/-- `txnHashConfirm` -/
structure Item where
  hash : List Nat      -- the 32 bytes of cipher.SHA256
  seq : Nat
  confirmed : Bool
deriving DecidableEq, Repr

def has (c : List Item) (h : List Nat) : Bool := c.any (fun i => i.hash == h)

/-- `(*txnHashesContainer).AddItem` -/
def addItem (c : List Item) (it : Item) : List Item := if has c it.hash then c else c ++ [it]

/-- `(*txnHashesContainer).Add` -/
def add (c : List Item) (h : List Nat) (confirmed : Bool) (seq : Nat) : List Item :=
  addItem c ⟨h, seq, confirmed⟩

/-- `(*txnHashesContainer).Append` -/
def append (c d : List Item) : List Item := d.foldl addItem c

/-- order of the lower-case hex strings of two equally long byte strings = lexicographic byte order -/
def lexLt : List Nat → List Nat → Bool
  | [], [] => false
  | [], _ :: _ => true
  | _ :: _, [] => false
  | a :: as, b :: bs => a < b || (a == b && lexLt as bs)

/-- `lessFunc` of `Sort`: by seq, then by hash hex. -/
def itemLt (a b : Item) : Bool := a.seq < b.seq || (a.seq == b.seq && lexLt a.hash b.hash)

def insertBy (lt : Item → Item → Bool) (x : Item) : List Item → List Item
  | [] => [x]
  | y :: ys => if lt x y then x :: y :: ys else y :: insertBy lt x ys

/-- insertion sort; `sort.Slice` is not stable, but on items with pairwise different hashes the
order is total and strict, so every sorting algorithm returns the same list (`sorted_perm_unique`). -/
def isort (lt : Item → Item → Bool) (l : List Item) : List Item := l.foldr (insertBy lt) []

inductive Order | asc | desc | unknown
deriving DecidableEq, Repr

/-- `(*txnHashesContainer).Sort` -/
def sortItems (o : Order) (c : List Item) : Res (List Item) :=
  match o with
  | .asc => .ok (isort itemLt c)
  | .desc => .ok (isort (fun a b => itemLt b a) c)
  | .unknown => .err (.other "Sort")

/-- `txnHashesContainer.Pagination` over a given `Cal`: (items of the page, totalPages).
`page = none` is the nil `*PageIndex`. -/
def paginationWith (cal : Nat → Nat → Nat → Res (Nat × Nat × Nat)) (c : List Item)
    (page : Option (Nat × Nat)) : Res (List Item × Nat) :=
  match page with
  | none => .ok (c, 1)
  | some (size, k) =>
    match cal size k c.length with
    | .panic p => .panic p
    | .err e => .err e
    | .ok (s, e, total) =>
      match goSlice c s e with
      | .panic p => .panic p
      | .err e => .err e
      | .ok sl => .ok (sl.foldl addItem [], total)

/-- the specification-level pagination -/
def pagination := paginationWith specCal

/-- the whole query pipeline after the hashes were collected: de-duplicating adds, sort, page. -/
def query (adds : List Item) (o : Order) (page : Option (Nat × Nat)) : Res (List Item × Nat) :=
  match sortItems o (append [] adds) with
  | .panic p => .panic p
  | .err e => .err e
  | .ok sorted => pagination sorted page

end Sky.C29
