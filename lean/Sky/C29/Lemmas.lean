/-
  C29 — helper lemmas (core Lean only): ceiling division, chunking a list, insertion sort,
  uniqueness of a strictly sorted permutation, de-duplicating adds.
-/
import Sky.C29.Spec
namespace Sky.C29
open Sky

/-! ### ceiling division -/

theorem div_add_rem_eq_ceil (n size : Nat) (hpos : 0 < size) :
    (n / size + if n % size ≠ 0 then 1 else 0) = ceilDiv n size := by
  unfold ceilDiv
  have hd := Nat.div_add_mod n size
  have hm := Nat.mod_lt n hpos
  by_cases hr : n % size ≠ 0
  · rw [if_pos hr]
    have e : n + size - 1 = size * (n / size + 1) + (n % size - 1) := by
      rw [Nat.mul_add]; omega
    rw [e, Nat.mul_add_div hpos]
    have : (n % size - 1) / size = 0 := Nat.div_eq_of_lt (by omega)
    omega
  · rw [if_neg hr]
    have e : n + size - 1 = size * (n / size) + (size - 1) := by omega
    rw [e, Nat.mul_add_div hpos]
    have : (size - 1) / size = 0 := Nat.div_eq_of_lt (by omega)
    omega

/-- `N = ⌈n/size⌉` is the least `N` with `size·N ≥ n`. -/
theorem ceilDiv_mul_ge (n size : Nat) (hpos : 0 < size) : n ≤ size * ceilDiv n size := by
  have key := div_add_rem_eq_ceil n size hpos
  have hd := Nat.div_add_mod n size
  have hm := Nat.mod_lt n hpos
  rw [← key, Nat.mul_add]
  by_cases hr : n % size ≠ 0
  · rw [if_pos hr]; omega
  · rw [if_neg hr]; omega

theorem ceilDiv_pred_mul_lt (n size : Nat) (hpos : 0 < size) (hN : 0 < ceilDiv n size) :
    size * (ceilDiv n size - 1) < n := by
  have key := div_add_rem_eq_ceil n size hpos
  have hd := Nat.div_add_mod n size
  have hm := Nat.mod_lt n hpos
  by_cases hr : n % size ≠ 0
  · rw [if_pos hr] at key
    have : ceilDiv n size - 1 = n / size := by omega
    rw [this]; omega
  · rw [if_neg hr] at key
    have e : ceilDiv n size = n / size := by omega
    have h1 : 0 < n / size := by omega
    have : size * (n / size - 1) = size * (n / size) - size := by
      rw [Nat.mul_sub, Nat.mul_one]
    have h2 : size ≤ size * (n / size) := Nat.le_mul_of_pos_right _ h1
    rw [e, this]; omega

/-- a page number within `1..N` starts inside the list -/
theorem start_lt (n size page : Nat) (hpos : 0 < size) (h1 : 1 ≤ page) (hN : page ≤ ceilDiv n size) :
    size * (page - 1) < n := by
  have h := ceilDiv_pred_mul_lt n size hpos (by omega)
  have : size * (page - 1) ≤ size * (ceilDiv n size - 1) := Nat.mul_le_mul_left _ (by omega)
  omega

theorem ceilDiv_le_self (n size : Nat) (hpos : 0 < size) : ceilDiv n size ≤ n := by
  have key := div_add_rem_eq_ceil n size hpos
  have hd := Nat.div_add_mod n size
  have hm := Nat.mod_lt n hpos
  have hge : size * (n / size) ≥ 1 * (n / size) := Nat.mul_le_mul_right _ hpos
  by_cases hr : n % size ≠ 0
  · rw [if_pos hr] at key; omega
  · rw [if_neg hr] at key; omega

/-! ### chunks of a list -/

/-- the `i`-th chunk (from 0) of `l` in chunks of `size` -/
def chunk {α} (l : List α) (size i : Nat) : List α := (l.drop (size * i)).take size

theorem flatMap_chunks_range {α} (l : List α) (size m : Nat) :
    (List.range m).flatMap (chunk l size) = l.take (size * m) := by
  induction m with
  | zero => simp
  | succ m ih =>
    rw [List.range_succ, List.flatMap_append, ih, Nat.mul_succ, List.take_add]
    simp [chunk]

theorem flatMap_chunks_all {α} (l : List α) (size : Nat) (hpos : 0 < size) :
    (List.range (ceilDiv l.length size)).flatMap (chunk l size) = l := by
  rw [flatMap_chunks_range]
  exact List.take_of_length_le (ceilDiv_mul_ge _ _ hpos)

/-- pages numbered from 1 -/
theorem flatMap_chunks_range' {α} (l : List α) (size : Nat) (hpos : 0 < size) :
    (List.range' 1 (ceilDiv l.length size)).flatMap (fun k => chunk l size (k - 1)) = l := by
  rw [List.range'_eq_map_range, List.flatMap_map]
  have : (fun x => chunk l size (1 + x - 1)) = chunk l size := by
    funext x; congr 1; omega
  simp only [this]
  exact flatMap_chunks_all l size hpos

/-- the slice `[size·i, min(size·(i+1), n))` is the `i`-th chunk -/
theorem take_min_eq_chunk {α} (l : List α) (size i : Nat) :
    (l.drop (size * i)).take (min (size * (i + 1)) l.length - size * i) = chunk l size i := by
  unfold chunk
  rw [Nat.mul_succ]
  by_cases h : size * i + size ≤ l.length
  · rw [Nat.min_eq_left h]; congr 1; omega
  · rw [Nat.min_eq_right (by omega)]
    rw [List.take_of_length_le (by simp), List.take_of_length_le (by simp; omega)]

theorem goSlice_chunk {α} (l : List α) (size k : Nat) (h0 : 0 < size) (h1 : 1 ≤ k)
    (hN : k ≤ ceilDiv l.length size) :
    goSlice l (size * (k - 1)) (min (size * k) l.length) = .ok (chunk l size (k - 1)) := by
  have hst := start_lt l.length size k h0 h1 hN
  have hk' : k = (k - 1) + 1 := by omega
  unfold goSlice
  have hmul : size * k = size * (k - 1) + size := by
    conv => lhs; rw [hk', Nat.mul_succ]
  rw [if_pos (by constructor <;> (rw [hmul]; omega))]
  have := take_min_eq_chunk l size (k - 1)
  rw [← hk'] at this
  rw [this]

theorem chunk_sublist {α} (l : List α) (size i : Nat) : (chunk l size i).Sublist l :=
  (List.take_sublist _ _).trans (List.drop_sublist _ _)

/-! ### byte-string order -/

theorem lexLt_irrefl : ∀ a, lexLt a a = false
  | [] => rfl
  | x :: xs => by simp [lexLt, lexLt_irrefl xs]

theorem lexLt_trans : ∀ a b c, lexLt a b = true → lexLt b c = true → lexLt a c = true
  | [], [], _, h, _ => by simp [lexLt] at h
  | [], _ :: _, [], _, h => by simp [lexLt] at h
  | [], _ :: _, _ :: _, _, _ => by simp [lexLt]
  | _ :: _, [], _, h, _ => by simp [lexLt] at h
  | _ :: _, _ :: _, [], _, h => by simp [lexLt] at h
  | x :: xs, y :: ys, z :: zs, h1, h2 => by
    simp only [lexLt, Bool.or_eq_true, Bool.and_eq_true, decide_eq_true_eq, beq_iff_eq] at h1 h2 ⊢
    rcases h1 with h1 | ⟨e1, h1⟩ <;> rcases h2 with h2 | ⟨e2, h2⟩
    · left; omega
    · left; omega
    · left; omega
    · right; exact ⟨by omega, lexLt_trans xs ys zs h1 h2⟩

theorem lexLt_total : ∀ a b, a ≠ b → lexLt a b = true ∨ lexLt b a = true
  | [], [], h => absurd rfl h
  | [], _ :: _, _ => by simp [lexLt]
  | _ :: _, [], _ => by simp [lexLt]
  | x :: xs, y :: ys, h => by
    simp only [lexLt, Bool.or_eq_true, Bool.and_eq_true, decide_eq_true_eq, beq_iff_eq]
    rcases Nat.lt_trichotomy x y with hlt | heq | hgt
    · left; left; exact hlt
    · subst heq
      have : xs ≠ ys := fun e => h (by rw [e])
      rcases lexLt_total xs ys this with h' | h'
      · left; right; exact ⟨rfl, h'⟩
      · right; right; exact ⟨rfl, h'⟩
    · right; left; exact hgt

/-! ### the item order -/

theorem itemLt_irrefl (a : Item) : itemLt a a = false := by
  simp [itemLt, lexLt_irrefl]

theorem itemLt_trans (a b c : Item) (h1 : itemLt a b = true) (h2 : itemLt b c = true) :
    itemLt a c = true := by
  simp only [itemLt, Bool.or_eq_true, Bool.and_eq_true, decide_eq_true_eq, beq_iff_eq] at h1 h2 ⊢
  rcases h1 with h1 | ⟨e1, h1⟩ <;> rcases h2 with h2 | ⟨e2, h2⟩
  · left; omega
  · left; omega
  · left; omega
  · right; exact ⟨by omega, lexLt_trans _ _ _ h1 h2⟩

/-- two items with different hashes are strictly ordered one way or the other -/
theorem itemLt_total (a b : Item) (h : a.hash ≠ b.hash) : itemLt a b = true ∨ itemLt b a = true := by
  simp only [itemLt, Bool.or_eq_true, Bool.and_eq_true, decide_eq_true_eq, beq_iff_eq]
  rcases Nat.lt_trichotomy a.seq b.seq with hlt | heq | hgt
  · left; left; exact hlt
  · rcases lexLt_total _ _ h with h' | h'
    · left; right; exact ⟨heq, h'⟩
    · right; right; exact ⟨heq.symm, h'⟩
  · right; left; exact hgt

/-- a strict order on the items of a list: irreflexive, transitive, total on different hashes -/
structure StrictOn (lt : Item → Item → Bool) : Prop where
  irrefl : ∀ a, lt a a = false
  trans : ∀ a b c, lt a b = true → lt b c = true → lt a c = true
  total : ∀ a b, a.hash ≠ b.hash → lt a b = true ∨ lt b a = true

theorem strictOn_asc : StrictOn itemLt := ⟨itemLt_irrefl, itemLt_trans, itemLt_total⟩
theorem strictOn_desc : StrictOn (fun a b => itemLt b a) :=
  ⟨itemLt_irrefl, fun a b c h1 h2 => itemLt_trans c b a h2 h1,
   fun a b h => (itemLt_total a b h).symm⟩

/-! ### insertion sort -/

def hashes (c : List Item) : List (List Nat) := c.map (·.hash)

theorem insertBy_perm (lt) (x : Item) : ∀ l, (insertBy lt x l).Perm (x :: l)
  | [] => List.Perm.refl _
  | y :: ys => by
    unfold insertBy
    split
    · exact List.Perm.refl _
    · exact ((insertBy_perm lt x ys).cons y).trans (List.Perm.swap x y ys)

theorem isort_perm (lt) : ∀ l, (isort lt l).Perm l
  | [] => List.Perm.refl _
  | x :: xs => by
    show (insertBy lt x (isort lt xs)).Perm (x :: xs)
    exact (insertBy_perm lt x _).trans ((isort_perm lt xs).cons x)

theorem insertBy_sorted {lt} (S : StrictOn lt) (x : Item) :
    ∀ l, (∀ y ∈ l, y.hash ≠ x.hash) → l.Pairwise (fun a b => lt a b = true) →
      (insertBy lt x l).Pairwise (fun a b => lt a b = true)
  | [], _, _ => by simp [insertBy]
  | y :: ys, hne, hs => by
    unfold insertBy
    rw [List.pairwise_cons] at hs
    split
    · rename_i hxy
      rw [List.pairwise_cons]
      refine ⟨?_, List.pairwise_cons.2 hs⟩
      intro z hz
      rcases List.mem_cons.1 hz with rfl | hz
      · exact hxy
      · exact S.trans _ _ _ hxy (hs.1 z hz)
    · rename_i hxy
      have hyx : lt y x = true := by
        rcases S.total y x (hne y (List.mem_cons_self ..)) with h | h
        · exact h
        · exact absurd h hxy
      rw [List.pairwise_cons]
      refine ⟨?_, insertBy_sorted S x ys (fun z hz => hne z (List.mem_cons_of_mem _ hz)) hs.2⟩
      intro z hz
      rcases List.mem_cons.1 ((insertBy_perm lt x ys).mem_iff.1 hz) with rfl | hz
      · exact hyx
      · exact hs.1 z hz

theorem isort_sorted {lt} (S : StrictOn lt) :
    ∀ l, (hashes l).Nodup → (isort lt l).Pairwise (fun a b => lt a b = true)
  | [], _ => List.Pairwise.nil
  | x :: xs, hnd => by
    show (insertBy lt x (isort lt xs)).Pairwise _
    simp only [hashes, List.map_cons, List.nodup_cons, List.mem_map, not_exists, not_and] at hnd
    apply insertBy_sorted S
    · intro y hy
      exact hnd.1 y ((isort_perm lt xs).mem_iff.1 hy)
    · exact isort_sorted S xs hnd.2

/-- a strictly sorted list is determined by its elements: every correct sorting algorithm
(in particular Go's unstable `sort.Slice`) returns the list `isort` returns. -/
theorem sorted_perm_unique {lt : Item → Item → Bool} (S : StrictOn lt) :
    ∀ l₁ l₂ : List Item, l₁.Perm l₂ → l₁.Pairwise (fun a b => lt a b = true) →
      l₂.Pairwise (fun a b => lt a b = true) → l₁ = l₂
  | [], l₂, hp, _, _ => (List.Perm.nil_eq hp)
  | x :: xs, [], hp, _, _ => absurd hp.symm (by simp)
  | x :: xs, y :: ys, hp, h1, h2 => by
    rw [List.pairwise_cons] at h1 h2
    have hxy : x = y := by
      have hx : x ∈ y :: ys := hp.mem_iff.1 (List.mem_cons_self ..)
      have hy : y ∈ x :: xs := hp.mem_iff.2 (List.mem_cons_self ..)
      rcases List.mem_cons.1 hx with e | hx
      · exact e
      · rcases List.mem_cons.1 hy with e | hy
        · exact e.symm
        · have a := h2.1 x hx
          have b := h1.1 y hy
          have := S.trans _ _ _ a b
          rw [S.irrefl] at this; cases this
    subst hxy
    rw [sorted_perm_unique S xs ys (List.Perm.cons_inv hp) h1.2 h2.2]

/-! ### de-duplicating adds -/

theorem has_iff (c : List Item) (h : List Nat) : has c h = true ↔ h ∈ hashes c := by
  simp only [has, hashes, List.any_eq_true, beq_iff_eq, List.mem_map]

theorem addItem_nodup (c : List Item) (it : Item) (hc : (hashes c).Nodup) :
    (hashes (addItem c it)).Nodup := by
  unfold addItem
  split
  · exact hc
  · rename_i hn
    have hn' : it.hash ∉ hashes c := fun h => hn ((has_iff c it.hash).2 h)
    simp only [hashes, List.map_append, List.map_cons, List.map_nil]
    rw [List.nodup_append]
    refine ⟨hc, by simp, ?_⟩
    intro a ha b hb
    simp only [List.mem_singleton] at hb
    subst hb
    intro e; subst e; exact hn' ha

theorem append_nodup (c d : List Item) (hc : (hashes c).Nodup) : (hashes (append c d)).Nodup := by
  unfold append
  induction d generalizing c with
  | nil => exact hc
  | cons x xs ih => exact ih _ (addItem_nodup c x hc)

/-- adding a list without duplicate hashes, none of which is present, appends it unchanged -/
theorem foldl_addItem_fresh (c l : List Item) (hl : (hashes (c ++ l)).Nodup) :
    l.foldl addItem c = c ++ l := by
  induction l generalizing c with
  | nil => simp
  | cons x xs ih =>
    have hx : has c x.hash = false := by
      cases hh : has c x.hash with
      | false => rfl
      | true =>
        have hm := (has_iff c x.hash).1 hh
        simp only [hashes, List.map_append, List.map_cons] at hl
        rw [List.nodup_append] at hl
        exact absurd rfl (hl.2.2 _ hm _ (List.mem_cons_self ..))
    have e : addItem c x = c ++ [x] := by simp [addItem, hx]
    rw [List.foldl_cons, e, ih (c ++ [x]) (by simpa using hl)]
    simp

theorem foldl_addItem_nil (l : List Item) (hl : (hashes l).Nodup) : l.foldl addItem [] = l := by
  have h := foldl_addItem_fresh [] l (by rw [List.nil_append]; exact hl)
  rw [List.nil_append] at h; exact h

theorem mem_addItem_of_mem {c : List Item} {it x : Item} (h : x ∈ c) : x ∈ addItem c it := by
  unfold addItem; split
  · exact h
  · exact List.mem_append_left _ h

/-- every hash offered to `Add`/`AddItem`/`Append` ends up in the container -/
theorem hash_mem_addItem (c : List Item) (it : Item) : it.hash ∈ hashes (addItem c it) := by
  unfold addItem; split
  · rename_i h; exact (has_iff _ _).1 h
  · simp [hashes]

end Sky.C29
