/- C29 driver: answers each op line from the specification / hand model (core Lean only). -/
import Sky.Prim.DrvLib
import Sky.C29.Spec
namespace Sky.C29
open Sky Sky.Drv

/-- ground truth about one transaction of the live node, read back from the transactions and
blocks the harness built (hashes depend on random signature nonces) -/
structure LTxn where
  hash : List Nat
  ins : List Nat          -- indexes of the addresses owning the inputs
  outs : List Nat         -- indexes of the addresses receiving outputs
  seq : Option Nat        -- block seq once confirmed
  pos : Nat               -- position inside the block

structure St where
  a : List Item := []
  b : List Item := []
  sortedA : Option Order := none   -- order the slot was last sorted in (none = insertion order)
  sortedB : Option Order := none
  live : List LTxn := []
  lastKey : String := ""           -- "filter addrs order" of the last accepted live_list
  lastList : List (List Nat) := []

def St.get (s : St) (slot : String) : List Item := if slot == "1" then s.b else s.a
def St.set (s : St) (slot : String) (c : List Item) (o : Option Order) : St :=
  if slot == "1" then { s with b := c, sortedB := o } else { s with a := c, sortedA := o }
def St.order (s : St) (slot : String) : Option Order := if slot == "1" then s.sortedB else s.sortedA

def showItem (i : Item) : String :=
  hexOf i.hash ++ ":" ++ toString i.seq ++ ":" ++ (if i.confirmed then "1" else "0")

def showItems (l : List Item) : String :=
  if l.isEmpty then "-" else ",".intercalate (l.map showItem)

def parseItem (s : String) : Option Item :=
  match s.splitOn ":" with
  | [h, q, c] => do
      let h ← hex? h; let q ← nat? q
      pure ⟨h, q, c == "1"⟩
  | _ => none

def parseItems (s : String) : Option (List Item) :=
  if s == "-" then some [] else (s.splitOn ",").mapM parseItem

def showErr (e : Err) : String := "err " ++ e.toString

def showCal : Res (Nat × Nat × Nat) → String
  | .ok (s, e, t) => s!"ok {s} {e} {t}"
  | .err e => showErr e
  | .panic _ => "panic"

def showPage : Res (List Item × Nat) → String
  | .ok (l, t) => s!"ok {t} {showItems l}"
  | .err e => showErr e
  | .panic _ => "panic"

def order? : String → Order
  | "asc" => .asc | "desc" => .desc | _ => .unknown

/-- strictly sorted in the given order (which implies: no duplicate hash among equal seqs) -/
def sortedBy (o : Order) : List Item → Bool
  | [] => true
  | [_] => true
  | x :: y :: r => (match o with | .asc => itemLt x y | .desc => itemLt y x | .unknown => true) && sortedBy o (y :: r)

def nodupHashes : List Item → Bool
  | [] => true
  | x :: r => !(has r x.hash) && nodupHashes r

/-- the property's predicate on an implementation's sorted listing: duplicate-free, sorted, and
holding exactly the model's hashes -/
def listingOK (o : Order) (model impl : List Item) : Bool :=
  nodupHashes impl && sortedBy o impl && impl.length == model.length && model.all (fun i => has impl i.hash)

/-! ### live node -/

def parseIdx (s : String) : List Nat :=
  if s == "-" then [] else (s.splitOn ",").filterMap nat?

def parseHashes (s : String) : Option (List (List Nat)) :=
  if s == "-" then some [] else (s.splitOn ",").mapM hex?

def showHashes (l : List (List Nat)) : String :=
  if l.isEmpty then "-" else ",".intercalate (l.map hexOf)

/-- "ok <hash> in=<idx,..> out=<idx,..>" -/
def parseLTxn (impl : String) : Option LTxn :=
  match impl.splitOn " " with
  | ["ok", h, i, o] => do
      let h ← hex? h
      pure ⟨h, parseIdx (i.drop 3).toString, parseIdx (o.drop 4).toString, none, 0⟩
  | _ => none

def confirmBlock (txns : List LTxn) (seq : Nat) (hs : List (List Nat)) : List LTxn :=
  txns.map fun t =>
    match hs.idxOf? t.hash with
    | some i => { t with seq := some seq, pos := i }
    | none => t

def touches (addrs : List Nat) (l : List Nat) : Bool := l.any (fun a => addrs.contains a)

/-- the transactions a query must return (as a set), from the ground truth -/
def expectedSet (txns : List LTxn) (filter : String) (addrs : List Nat) : List LTxn :=
  let conf := txns.filter fun t => t.seq.isSome && (addrs.isEmpty || touches addrs t.ins || touches addrs t.outs)
  -- the unconfirmed side looks transactions up by the outputs they create for the address
  let unconf := txns.filter fun t => t.seq.isNone && (addrs.isEmpty || touches addrs t.outs)
  if filter == "conf" then conf else if filter == "unconf" then unconf else conf ++ unconf

def lexLe (a b : List Nat) : Bool := !(lexLt b a)

/-- is the listing ordered as the property's "ordered result list" demands?  Confirmed
transactions by (block seq, then position in the block for a single-address query — the address
index order — or hash otherwise); in an unconfirmed-only query by hash.  (In a mixed query the
sequence numbers given to unconfirmed transactions depend on bucket iteration order; only the
confirmed subsequence is checked there.) -/
def orderedOK (txns : List LTxn) (filter : String) (nAddrs : Nat) (o : Order) (l : List (List Nat)) : Bool :=
  let l := if o == .desc then l.reverse else l
  let find (h : List Nat) := txns.find? (fun t => t.hash == h)
  let confs := l.filterMap fun h => match find h with
    | some t => (match t.seq with | some q => some (q, t.pos, h) | none => none)
    | none => none
  let keyLe (x y : Nat × Nat × List Nat) : Bool :=
    x.1 < y.1 || (x.1 == y.1 && (if nAddrs == 1 then x.2.1 ≤ y.2.1 else lexLe x.2.2 y.2.2))
  let rec chain {α} (le : α → α → Bool) : List α → Bool
    | [] => true
    | [_] => true
    | x :: y :: r => le x y && chain le (y :: r)
  chain keyLe confs && (filter != "unconf" || chain lexLe l)

def nodupL (l : List (List Nat)) : Bool :=
  match l with
  | [] => true
  | x :: r => !(r.contains x) && nodupL r

def itemsOfHashes (l : List (List Nat)) : List Item :=
  (List.range l.length).zip l |>.map fun (i, h) => ⟨h, i, true⟩

def showLivePage : Res (List Item × Nat) → String
  | .ok (l, t) => s!"ok {t} {showHashes (l.map (·.hash))}"
  | .err e => showErr e
  | .panic _ => "panic"

def liveStep (s : St) (f : List String) (impl : String) : St × String × Verdict :=
  match f with
  | ["live_new", _] =>
      match parseLTxn impl with
      | some t => ({ s with live := [{ t with seq := some 0 }], lastKey := "" }, impl, .unknown)
      | none => (s, "ok <genesis-txn> in=- out=0", .unknown)
  | ["live_txn", _, _] =>
      if impl == "skip" then (s, impl, .unknown) else
      match parseLTxn impl with
      | some t => ({ s with live := s.live ++ [t] }, impl, .unknown)
      | none => (s, "ok <txn> in=.. out=..", .unknown)
  | ["live_block"] =>
      if impl == "skip" then (s, impl, .unknown) else
      match impl.splitOn " " with
      | ["ok", q, hs] =>
          match nat? q, parseHashes hs with
          | some q, some hs => ({ s with live := confirmBlock s.live q hs }, impl, .unknown)
          | _, _ => (s, "ok <seq> <hashes>", .unknown)
      | _ => (s, "ok <seq> <hashes>", .unknown)
  | ["live_list", filter, addrs, o] | ["live_list_h0", filter, addrs, o] =>
      let as := (parseIdx addrs).eraseDups
      let exp := expectedSet s.live filter as
      let expStr := "ok 1 set{" ++ showHashes (exp.map (·.hash)) ++ "} duplicate-free, ordered " ++ o
      match impl.splitOn " " with
      | ["ok", "1", hs] =>
          match parseHashes hs with
          | some l =>
              if nodupL l && l.length == exp.length && exp.all (fun t => l.contains t.hash)
                  && orderedOK s.live filter as.length (order? o) l then
                ({ s with lastKey := filter ++ " " ++ addrs ++ " " ++ o, lastList := l }, impl, .unknown)
              else ({ s with lastKey := "" }, expStr, .fail)
          | none => ({ s with lastKey := "" }, expStr, .fail)
      | _ => ({ s with lastKey := "" }, expStr, .fail)
  | ["live_page", filter, addrs, o, size, k] | ["live_pagev", filter, addrs, o, size, k] =>
      if s.lastKey != filter ++ " " ++ addrs ++ " " ++ o then (s, "bad-op: no accepted live_list for this query", .unknown) else
      match nat? size, nat? k with
      | some size, some k =>
          let r := match newPageIndex size k with
            | .ok p => showLivePage (pagination (itemsOfHashes s.lastList) (some p))
            | .err e => showErr e
            | .panic _ => "panic"
          (s, r, .fail)
      | _, _ => (s, "bad-op", .unknown)
  | _ => (s, "bad-op", .unknown)

def step (s : St) (op impl : String) : St × String × Verdict :=
  if op.startsWith "live_" then liveStep s (op.splitOn " ") impl else
  match op.splitOn " " with
  | ["reset"] => ({}, "ok", .unknown)
  | ["add", slot, h, q, c] | ["additem", slot, h, q, c] =>
      match hex? h, nat? q with
      | some h, some q =>
          let c' := add (s.get slot) h (c == "1") q
          (s.set slot c' none, s!"ok {c'.length} {c'.length}", .fail)
      | _, _ => (s, "bad-op", .unknown)
  | ["append", slot, slot2] =>
      let c' := append (s.get slot) (s.get slot2)
      (s.set slot c' none, s!"ok {c'.length} {c'.length}", .fail)
  | ["sort", slot, o] =>
      match sortItems (order? o) (s.get slot) with
      | .ok c' => (s.set slot c' (some (order? o)), "ok", .fail)
      | .err e => (s, showErr e, .unknown)
      | .panic _ => (s, "panic", .unknown)
  | ["items", slot] =>
      let m := s.get slot
      let v : Verdict :=
        match s.order slot with
        | none => .unknown       -- insertion order is not part of the property
        | some o =>
          match (if impl.startsWith "ok " then parseItems (impl.drop 3).toString else none) with
          | some l => if listingOK o m l then .hold else .fail
          | none => .fail
      (s, "ok " ++ showItems m, v)
  | ["page", slot, size, k] =>
      match nat? size, nat? k with
      | some size, some k =>
          let r := match newPageIndex size k with
            | .ok p => showPage (pagination (s.get slot) (some p))
            | .err e => showErr e
            | .panic _ => "panic"
          (s, r, .fail)
      | _, _ => (s, "bad-op", .unknown)
  | ["pagenil", slot] => (s, showPage (pagination (s.get slot) none), .fail)
  | ["Cal", size, k, n] =>
      match nat? size, nat? k, nat? n with
      | some size, some k, some n =>
          -- the property quantifies over sizes the constructor admits and real slice lengths
          (s, showCal (specCal size k n), if size ≤ 100 ∧ n < 2^63 then .fail else .unknown)
      | _, _, _ => (s, "bad-op", .unknown)
  | ["NewPageIndex", size, k] =>
      match nat? size, nat? k with
      | some size, some k =>
          let r := match newPageIndex size k with
            | .ok (a, b) => s!"ok {a} {b}"
            | .err e => showErr e
            | .panic _ => "panic"
          (s, r, .fail)
      | _, _ => (s, "bad-op", .unknown)
  | _ => (s, "bad-op", .unknown)

end Sky.C29

def main : IO Unit := Sky.Drv.loop Sky.C29.step {}
