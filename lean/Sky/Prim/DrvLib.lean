/-
  Sky.Prim.DrvLib — line-protocol plumbing shared by the per-property drivers (core Lean only, so
  each driver links as a `lean_exe`).

  stdin : one line per operation, `op<TAB>impl-output`  (what the Go harness printed)
  stdout: one line per operation,
            `=`                               model/spec output equals the implementation's
            `!<TAB>model-output<TAB>verdict`  they differ; verdict ∈ {fail, hold, unknown} says whether
                                              the implementation's output violates the PROPERTY
                                              (fail), provably still satisfies it (hold), or the
                                              driver cannot tell (unknown).
-/
import Sky.Prim.Res
namespace Sky.Drv
open Sky

inductive Verdict | fail | hold | unknown
def Verdict.str : Verdict → String | .fail => "fail" | .hold => "hold" | .unknown => "unknown"

/-- canonical text of a panic: only the fact, never the message -/
def normImpl (s : String) : String := if s.startsWith "panic" then "panic" else s

def showRes {α} (f : α → String) : Res α → String
  | .ok a => let s := f a; if s.isEmpty then "ok" else "ok " ++ s
  | .err e => "err " ++ e.toString
  | .panic _ => "panic"

def nat? (s : String) : Option Nat := s.toNat?
def int? (s : String) : Option Int := s.toInt?

def hexDigit? (c : Char) : Option Nat :=
  if '0' ≤ c ∧ c ≤ '9' then some (c.toNat - '0'.toNat)
  else if 'a' ≤ c ∧ c ≤ 'f' then some (c.toNat - 'a'.toNat + 10)
  else if 'A' ≤ c ∧ c ≤ 'F' then some (c.toNat - 'A'.toNat + 10) else none

/-- "-" is the empty byte string -/
def hex? (s : String) : Option (List Nat) :=
  if s == "-" then some [] else
  let rec go : List Char → List Nat → Option (List Nat)
    | [], acc => some acc.reverse
    | [_], _ => none
    | a :: b :: r, acc => do
        let x ← hexDigit? a; let y ← hexDigit? b
        go r ((x * 16 + y) :: acc)
  go s.toList []

def hexOf (bs : List Nat) : String :=
  if bs.isEmpty then "-" else
  let d (n : Nat) : Char := if n < 10 then Char.ofNat (48 + n) else Char.ofNat (87 + n)
  String.ofList (bs.flatMap fun b => [d (b / 16 % 16), d (b % 16)])

/-- generic stateful loop. `step st op impl = (st', modelOut, verdictIfDifferent)` -/
partial def loop {σ : Type} (step : σ → String → String → σ × String × Verdict) (st : σ) : IO Unit := do
  let stdin ← IO.getStdin
  let stdout ← IO.getStdout
  let rec go (st : σ) (n : Nat) : IO Unit := do
    let line ← stdin.getLine
    if line.isEmpty then
      stdout.flush
      return ()
    let line := (line.dropEndWhile (fun c => c == '\n' || c == '\r')).toString
    let (op, impl) := match line.splitOn "\t" with
      | [a] => (a, "")
      | a :: b :: _ => (a, b)
      | [] => ("", "")
    let (st', model, v) := step st op impl
    if model == normImpl impl then
      stdout.putStrLn "="
    else
      stdout.putStrLn ("!\t" ++ model ++ "\t" ++ v.str)
    if n % 4096 == 0 then stdout.flush
    go st' (n + 1)
  go st 0

/-- stateless convenience wrapper -/
def loopPure (f : String → String → String × Verdict) : IO Unit :=
  loop (σ := Unit) (fun _ op impl => let (m, v) := f op impl; ((), m, v)) ()

end Sky.Drv
