/-
  Sky.Prim.Res — the outcome type and fixed-width arithmetic used by every regenerated
  (translator-emitted) definition.  Core Lean only.

  Go `uintN` values are modelled as `Nat` (range as an explicit hypothesis of the theorems),
  with an explicit `wrapN` wherever Go arithmetic wraps.  Go signed values are `Int` with
  `wrapI64`.  A Go function that can return an error or panic returns `Res α`.
-/
namespace Sky

/-- A Go `error` value as the translator sees it: a package-level sentinel (kept by name, because
callers branch on it), a locally built `errors.New`/`fmt.Errorf` (only its site is recorded), or a
wrapper call `NewXError(e)`. -/
inductive Err where
  | named (n : String)
  | other (site : String)
  | wrapped (w : String) (e : Err)
deriving Repr, DecidableEq

/-- erase the site of locally built errors: what a caller can observe is only "some other error". -/
def Err.canon : Err → Err
  | .named n => .named n
  | .other _ => .other ""
  | .wrapped w e => .wrapped w e.canon

def Err.toString : Err → String
  | .named n => n
  | .other _ => "other"
  | .wrapped w e => w ++ "(" ++ e.toString ++ ")"

/-- Outcome of a modelled Go function: normal return, returned `error`, or run-time panic. -/
inductive Res (α : Type) where
  | ok (a : α)
  | err (e : Err)
  | panic (p : String)
deriving Repr, DecidableEq

namespace Res
def isOk {α} : Res α → Bool | .ok _ => true | _ => false
def isPanic {α} : Res α → Bool | .panic _ => true | _ => false
/-- canonical form for comparison with a specification: sites of ad-hoc errors are erased. -/
def canon {α} : Res α → Res α
  | .ok a => .ok a | .err e => .err e.canon | .panic p => .panic p
def map {α β} (f : α → β) : Res α → Res β
  | .ok a => .ok (f a) | .err e => .err e | .panic p => .panic p
def bind {α β} (r : Res α) (f : α → Res β) : Res β :=
  match r with | .ok a => f a | .err e => .err e | .panic p => .panic p
instance : Monad Res where
  pure := .ok
  bind := bind
end Res

abbrev U8MAX : Nat := 2^8
abbrev U16MAX : Nat := 2^16
abbrev U32MAX : Nat := 2^32
abbrev U64MAX : Nat := 2^64

def wrap8 (x : Nat) : Nat := x % 2^8
def wrap16 (x : Nat) : Nat := x % 2^16
def wrap32 (x : Nat) : Nat := x % 2^32
def wrap64 (x : Nat) : Nat := x % 2^64

/-- Go `a - b` on `uintN` (operands already in range). -/
def sub8 (a b : Nat) : Nat := (a + 2^8 - b) % 2^8
def sub16 (a b : Nat) : Nat := (a + 2^16 - b) % 2^16
def sub32 (a b : Nat) : Nat := (a + 2^32 - b) % 2^32
def sub64 (a b : Nat) : Nat := (a + 2^64 - b) % 2^64

/-- two's-complement reinterpretation of an integer as `int64` / `int32`. -/
def wrapI64 (x : Int) : Int := (x + 2^63) % 2^64 - 2^63
def wrapI32 (x : Int) : Int := (x + 2^31) % 2^32 - 2^31

/-- Go `uintN(x)` for a signed `x`. -/
def toU64 (x : Int) : Nat := (x % 2^64).toNat
def toU32 (x : Int) : Nat := (x % 2^32).toNat
def toU16 (x : Int) : Nat := (x % 2^16).toNat
def toU8 (x : Int) : Nat := (x % 2^8).toNat

/-- Go's truncated signed division / remainder (`Int.tdiv`, `Int.tmod`), wrapped. -/
def divI64 (a b : Int) : Int := wrapI64 (Int.tdiv a b)
def modI64 (a b : Int) : Int := Int.tmod a b

end Sky
