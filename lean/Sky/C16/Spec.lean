/-
  Sky.C16.Spec — BIP39 / BIP32 / BIP44 as the standards define them, executable (core Lean only).

  * BIP39 at the level of word INDICES (a mnemonic is a list of numbers < 2048) is pure positional
    notation: entropy ‖ checksum bits, cut into 11-bit groups. The word list (regenerated from the Go
    source) only enters through `wordOf` / `indexOf?`.
  * BIP32 on top of the textbook curve (Sky.Crypto.Secp256k1) with the hashes as parameters.
  * The error kinds and the order of checks follow src/cipher/bip39, bip32, bip44.
-/
import Sky.Prim.Res
import Sky.Crypto.Secp256k1
import Sky.C15.Spec
import Sky.Gen.Bip39Words
namespace Sky.C16
open Sky Sky.Crypto.Secp256k1

def E (n : String) : Err := .named n

/-! ### fixed-width positional notation -/

/-- exactly `w` base-`b` digits of `n`, most significant first (value taken mod b^w) -/
def fixedDigits (b : Nat) : Nat → Nat → List Nat
  | 0, _ => []
  | w+1, n => (n / b ^ w % b) :: fixedDigits b w (n % b ^ w)

abbrev ofDigits := Sky.C15.ofDigits

/-! ### BIP39 on indices -/

/-- the first `cs` bits of the first hash byte, as a number -/
def checksumBits (H : Bytes → Bytes) (ent : Bytes) (cs : Nat) : Nat := ((H ent).headD 0 % 256) / 2 ^ (8 - cs)

/-- entropy (4m bytes) → 3m word indices: (entropy ‖ first m bits of H(entropy)) in 11-bit groups -/
def entropyToIndices (H : Bytes → Bytes) (ent : Bytes) : List Nat :=
  let cs := ent.length / 4
  fixedDigits 2048 (ent.length / 4 * 3) (ofDigits 256 ent * 2 ^ cs + checksumBits H ent cs)

/-- 3m word indices → entropy, if the trailing m bits are the checksum of the leading 32m bits -/
def indicesToEntropy (H : Bytes → Bytes) (idx : List Nat) : Option Bytes :=
  let m := idx.length / 3
  let v := ofDigits 2048 idx
  let ent := fixedDigits 256 (4 * m) (v / 2 ^ m)
  if v % 2 ^ m = checksumBits H ent m then some ent else none

def validCount (n : Nat) : Bool := n % 3 == 0 && 12 ≤ n && n ≤ 24

/-! ### BIP39 on strings (bytes) -/

def wordBytes (i : Nat) : Bytes := ((Sky.Gen.Bip39Words.words.getD i "").toUTF8.toList).map (·.toNat)

def indexOfGo (w : Bytes) : (i fuel : Nat) → Option Nat
  | _, 0 => none
  | i, f+1 => if wordBytes i == w then some i else indexOfGo w (i + 1) f

/-- `wordMap[word]` -/
def indexOf? (w : Bytes) : Option Nat := indexOfGo w 0 Sky.Gen.Bip39Words.words.size

def joinSp : List Bytes → Bytes
  | [] => []
  | [w] => w
  | w :: r => w ++ 32 :: joinSp r

/-- `strings.Split(s, " ")` -/
def splitSp (s : Bytes) : List Bytes :=
  let rec go : Bytes → Bytes → List Bytes
    | [], cur => [cur.reverse]
    | c :: r, cur => if c = 32 then cur.reverse :: go r [] else go r (c :: cur)
  go s []

/-- Unicode white space as UTF-8 byte patterns (what `strings.TrimSpace` removes) -/
def spacePatterns : List Bytes :=
  [[9], [10], [11], [12], [13], [32], [0xC2, 0x85], [0xC2, 0xA0], [0xE1, 0x9A, 0x80],
   [0xE2, 0x80, 0x80], [0xE2, 0x80, 0x81], [0xE2, 0x80, 0x82], [0xE2, 0x80, 0x83], [0xE2, 0x80, 0x84],
   [0xE2, 0x80, 0x85], [0xE2, 0x80, 0x86], [0xE2, 0x80, 0x87], [0xE2, 0x80, 0x88], [0xE2, 0x80, 0x89],
   [0xE2, 0x80, 0x8A], [0xE2, 0x80, 0xA8], [0xE2, 0x80, 0xA9], [0xE2, 0x80, 0xAF], [0xE2, 0x81, 0x9F],
   [0xE3, 0x80, 0x80]]

/-- `mnemonic != strings.TrimSpace(mnemonic)` -/
def hasSurroundingSpace (s : Bytes) : Bool :=
  spacePatterns.any (fun p => p.isPrefixOf s) || spacePatterns.any (fun p => p.reverse.isPrefixOf s.reverse)

/-- `splitMnemonicWords`: the code's order of checks -/
def splitMnemonicWords (s : Bytes) : Res (List Nat) :=
  if hasSurroundingSpace s then .err (E "ErrSurroundingWhitespace")
  else
    let ws := splitSp s
    if ws.any (· == []) then .err (E "ErrInvalidSeparator")
    else if !validCount ws.length then .err (E "ErrInvalidNumberOfWords")
    else match ws.mapM indexOf? with
      | none => .err (E "ErrUnknownWord")
      | some idx => .ok idx

/-- `NewMnemonic` -/
def newMnemonic (H : Bytes → Bytes) (ent : Bytes) : Res Bytes :=
  let bits := ent.length * 8
  if bits % 32 ≠ 0 ∨ bits < 128 ∨ bits > 256 then .err (E "ErrInvalidEntropyLength")
  else .ok (joinSp ((entropyToIndices H ent).map wordBytes))

/-- `EntropyFromMnemonic` -/
def entropyFromMnemonic (H : Bytes → Bytes) (s : Bytes) : Res Bytes :=
  match splitMnemonicWords s with
  | .ok idx => match indicesToEntropy H idx with
    | some e => .ok e
    | none => .err (E "ErrChecksumIncorrect")
  | .err e => .err e
  | .panic p => .panic p

/-- `ValidateMnemonic` -/
def validateMnemonic (H : Bytes → Bytes) (s : Bytes) : Res Unit :=
  match entropyFromMnemonic H s with
  | .ok _ => .ok ()
  | .err e => .err e
  | .panic p => .panic p

/-- `NewSeed` as the STANDARD defines it: PBKDF2-HMAC-SHA512(password = mnemonic, salt = "mnemonic" ‖ passphrase,
2048 iterations, 64 bytes) where mnemonic and passphrase are in UTF-8 NFKD. `passNFKD` is the
NFKD-normalised passphrase (an English mnemonic is ASCII, hence already normalised). -/
def newSeed (H : Bytes → Bytes) (kdf : Bytes → Bytes → Nat → Nat → Bytes) (mnemonic passNFKD : Bytes) : Res Bytes :=
  match validateMnemonic H mnemonic with
  | .ok _ => .ok (kdf mnemonic ([109, 110, 101, 109, 111, 110, 105, 99] ++ passNFKD) 2048 64)
  | .err e => .err e
  | .panic p => .panic p

/-! ### BIP32 -/

structure XKey where
  priv : Bool
  depth : Nat
  parentFP : Bytes
  childNum : Nat
  chainCode : Bytes
  key : Bytes            -- 32 bytes (private) / 33 bytes (public)
deriving DecidableEq, Repr

def privVersion : Bytes := [0x04, 0x88, 0xAD, 0xE4]
def pubVersion : Bytes := [0x04, 0x88, 0xB2, 0x1E]
def hardened : Nat := 2 ^ 31

def be32 (i : Nat) : Bytes := fixedDigits 256 4 i

/-- hash parameters of BIP32: HMAC-SHA512, hash160 = RIPEMD160∘SHA256, double SHA-256 -/
structure Hashes where
  hmac : Bytes → Bytes → Bytes
  h160 : Bytes → Bytes
  dsha : Bytes → Bytes

def pubBytesOf (k : Bytes) : Bytes := compress (pubOf (ofBE k))

def fingerprint (hs : Hashes) (pub : Bytes) : Bytes := (hs.h160 pub).take 4

/-- `NewMasterKey` -/
def newMasterKey (hs : Hashes) (seed : Bytes) : Res XKey :=
  if seed.length < 16 ∨ seed.length > 64 then .err (E "ErrInvalidSeedLength")
  else
    let I := hs.hmac [66, 105, 116, 99, 111, 105, 110, 32, 115, 101, 101, 100] seed   -- "Bitcoin seed"
    let il := I.take 32
    if !secValid il then .err (E "ErrDerivedInvalidPrivateKey")
    else .ok { priv := true, depth := 0, parentFP := [0, 0, 0, 0], childNum := 0, chainCode := I.drop 32, key := il }

/-- the public key of an extended private key (`PrivateKey.PublicKey`) -/
def neuter (k : XKey) : XKey := { k with priv := false, key := pubBytesOf k.key }

/-- CKDpriv (`NewPrivateChildKey`) -/
def ckdPriv (hs : Hashes) (k : XKey) (i : Nat) : Res XKey :=
  if k.depth = 255 then .err (E "ErrMaxDepthReached")
  else
    let data := if i ≥ hardened then 0 :: k.key else pubBytesOf k.key
    let I := hs.hmac k.chainCode (data ++ be32 i)
    let il := I.take 32
    if !secValid il then .err (E "ImpossibleChild")
    else
      let child := (ofBE il + ofBE k.key) % N
      if child = 0 then .err (E "ImpossibleChild")
      else .ok { priv := true, depth := k.depth + 1, parentFP := fingerprint hs (pubBytesOf k.key), childNum := i,
                 chainCode := I.drop 32, key := toBE32 child }

/-- CKDpub (`PublicKey.NewPublicChildKey`) -/
def ckdPub (hs : Hashes) (k : XKey) (i : Nat) : Res XKey :=
  if k.depth = 255 then .err (E "ErrMaxDepthReached")
  else if i ≥ hardened then .err (E "ErrHardenedChildPublicKey")
  else
    let I := hs.hmac k.chainCode (k.key ++ be32 i)
    let il := I.take 32
    if !secValid il then .err (E "ImpossibleChild")
    else match parsePub k.key with
      | none => .err (.other "addPublicKeys: keyPar is invalid")
      | some K =>
        match add (pubOf (ofBE il)) K with
        | .inf => .err (.other "addPublicKeys: newKey is invalid")
        | q => .ok { priv := false, depth := k.depth + 1, parentFP := fingerprint hs k.key, childNum := i,
                     chainCode := I.drop 32, key := compress q }

/-- derive along a list of child numbers -/
def derivePriv (hs : Hashes) : XKey → List Nat → Res XKey
  | k, [] => .ok k
  | k, i :: r => match ckdPriv hs k i with
    | .ok c => derivePriv hs c r
    | .err e => .err e
    | .panic p => .panic p

def derivePub (hs : Hashes) : XKey → List Nat → Res XKey
  | k, [] => .ok k
  | k, i :: r => match ckdPub hs k i with
    | .ok c => derivePub hs c r
    | .err e => .err e
    | .panic p => .panic p

/-- the 78-byte payload -/
def payload (k : XKey) : Bytes :=
  (if k.priv then privVersion else pubVersion) ++ [k.depth] ++ k.parentFP ++ be32 k.childNum ++ k.chainCode ++
    (if k.priv then 0 :: k.key else k.key)

/-- `Serialize`: payload ‖ first 4 bytes of double SHA-256 -/
def serialize (hs : Hashes) (k : XKey) : Bytes := payload k ++ (hs.dsha (payload k)).take 4

/-- `deserialize(data, wantPrivate)` in the code's order of checks; `okPriv`/`okPub` stand for
`validatePrivateKey` / `validatePublicKey`. -/
def deserialize (hs : Hashes) (okPriv okPub : Bytes → Bool) (wantPrivate : Bool) (data : Bytes) : Res XKey :=
  if data.length ≠ 82 then .err (E "ErrSerializedKeyWrongSize")
  else if (hs.dsha (data.take 78)).take 4 ≠ data.drop 78 then .err (E "ErrInvalidChecksum")
  else
    let version := data.take 4
    let depth := data.getD 4 0
    let fp := (data.drop 5).take 4
    let cn := ofBE ((data.drop 9).take 4)
    let cc := (data.drop 13).take 32
    let isPriv := version == privVersion
    let isPub := version == pubVersion
    if !isPriv && !isPub then .err (E "ErrInvalidKeyVersion")
    else if wantPrivate && !isPriv then .err (E "ErrInvalidPrivateKeyVersion")
    else if !wantPrivate && !isPub then .err (E "ErrInvalidPublicKeyVersion")
    else if depth = 0 ∧ fp ≠ [0, 0, 0, 0] then .err (E "ErrInvalidFingerprint")
    else if depth = 0 ∧ cn ≠ 0 then .err (E "ErrInvalidChildNumber")
    else if isPriv then
      if data.getD 45 0 ≠ 0 then .err (E "ErrInvalidPrivateKey")
      else
        let key := (data.drop 46).take 32
        if !okPriv key then .err (E "ErrInvalidPrivateKey")
        else .ok { priv := true, depth := depth, parentFP := fp, childNum := cn, chainCode := cc, key := key }
    else
      let key := (data.drop 45).take 33
      if !okPub key then .err (E "ErrInvalidPublicKey")
      else .ok { priv := false, depth := depth, parentFP := fp, childNum := cn, chainCode := cc, key := key }

def okPrivKey (b : Bytes) : Bool := secValid b
def okPubKey (b : Bytes) : Bool := b.length == 33 && (parsePub b).isSome

/-! ### BIP44 -/

/-- `bip44.NewCoin(seed, coinType)` = m/44'/coinType' -/
def bip44Coin (hs : Hashes) (seed : Bytes) (coinType : Nat) : Res XKey :=
  if coinType ≥ hardened then .err (E "ErrInvalidCoinType")
  else match newMasterKey hs seed with
    | .ok m => derivePriv hs m [44 + hardened, coinType + hardened]
    | .err e => .err e
    | .panic p => .panic p

/-- `Coin.Account(a)` -/
def bip44Account (hs : Hashes) (coin : XKey) (a : Nat) : Res XKey :=
  if a ≥ hardened then .err (E "ErrInvalidAccount") else ckdPriv hs coin (a + hardened)

/-- account a, chain c (0 external / 1 change), address index i -/
def bip44Key (hs : Hashes) (seed : Bytes) (coinType a c i : Nat) : Res XKey :=
  match bip44Coin hs seed coinType with
  | .ok coin => match bip44Account hs coin a with
    | .ok acc => match ckdPriv hs acc c with
      | .ok ch => ckdPriv hs ch i
      | .err e => .err e
      | .panic p => .panic p
    | .err e => .err e
    | .panic p => .panic p
  | .err e => .err e
  | .panic p => .panic p

end Sky.C16
