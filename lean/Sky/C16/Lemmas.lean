/-
  Sky.C16.Lemmas — fixed-width positional notation and the BIP39 bit-packing lemmas (core Lean only).
-/
import Sky.C16.Spec
import Sky.C15.Lemmas
namespace Sky.C16
open Sky Sky.Crypto.Secp256k1
open Sky.C15 (ofDigits_cons ofDigits_nil)

theorem fixedDigits_length (b : Nat) : ∀ (w n : Nat), (fixedDigits b w n).length = w
  | 0, _ => rfl
  | w+1, n => by simp [fixedDigits, fixedDigits_length b w]

theorem fixedDigits_lt {b : Nat} (hb : 0 < b) : ∀ (w n : Nat), ∀ d ∈ fixedDigits b w n, d < b
  | 0, _ => by intro d hd; cases hd
  | w+1, n => by
    intro d hd
    simp only [fixedDigits, List.mem_cons] at hd
    rcases hd with h | h
    · subst h; exact Nat.mod_lt _ hb
    · exact fixedDigits_lt hb w _ d h

theorem ofDigits_lt {b : Nat} (hb : 0 < b) : ∀ (ds : List Nat), (∀ d ∈ ds, d < b) → ofDigits b ds < b ^ ds.length
  | [], _ => by simp [ofDigits, Sky.C15.ofDigits]
  | d :: r, h => by
    show Sky.C15.ofDigits b (d :: r) < _
    rw [ofDigits_cons, List.length_cons, Nat.pow_succ]
    have hd : d < b := h d (by simp)
    have ih := ofDigits_lt hb r (fun x hx => h x (by simp [hx]))
    have h1 : d * b ^ r.length ≤ (b - 1) * b ^ r.length := Nat.mul_le_mul_right _ (by omega)
    have h2 : (b - 1) * b ^ r.length + b ^ r.length = b ^ r.length * b := by
      rw [Nat.mul_comm (b ^ r.length) b]
      have : (b - 1) * b ^ r.length + 1 * b ^ r.length = (b - 1 + 1) * b ^ r.length := (Nat.add_mul _ _ _).symm
      rw [Nat.one_mul] at this
      rw [this]; congr 1; omega
    have ih' : Sky.C15.ofDigits b r < b ^ r.length := ih
    omega

theorem ofDigits_fixedDigits {b : Nat} (hb : 0 < b) : ∀ (w n : Nat), n < b ^ w → ofDigits b (fixedDigits b w n) = n
  | 0, n, h => by
    have : n = 0 := by simpa using h
    subst this; rfl
  | w+1, n, h => by
    show Sky.C15.ofDigits b (fixedDigits b (w+1) n) = n
    simp only [fixedDigits]
    rw [ofDigits_cons, fixedDigits_length]
    have hpos : 0 < b ^ w := Nat.pow_pos hb
    have ih : Sky.C15.ofDigits b (fixedDigits b w (n % b ^ w)) = n % b ^ w :=
      ofDigits_fixedDigits hb w _ (Nat.mod_lt _ hpos)
    rw [ih]
    have hq : n / b ^ w < b := by
      rw [Nat.div_lt_iff_lt_mul hpos]; rw [Nat.pow_succ, Nat.mul_comm] at h; exact h
    rw [Nat.mod_eq_of_lt hq]
    rw [Nat.mul_comm]; exact Nat.div_add_mod n (b ^ w)

theorem fixedDigits_ofDigits {b : Nat} (hb : 0 < b) : ∀ (ds : List Nat), (∀ d ∈ ds, d < b) →
    fixedDigits b ds.length (ofDigits b ds) = ds
  | [], _ => rfl
  | d :: r, h => by
    show fixedDigits b (d :: r).length (Sky.C15.ofDigits b (d :: r)) = d :: r
    have hd : d < b := h d (by simp)
    have hr : ∀ x ∈ r, x < b := fun x hx => h x (by simp [hx])
    have hlt : Sky.C15.ofDigits b r < b ^ r.length := ofDigits_lt hb r hr
    have hpos : 0 < b ^ r.length := Nat.pow_pos hb
    rw [ofDigits_cons, List.length_cons]
    simp only [fixedDigits]
    have h1 : (d * b ^ r.length + Sky.C15.ofDigits b r) / b ^ r.length = d := by
      rw [Nat.mul_comm, Nat.mul_add_div hpos, Nat.div_eq_of_lt hlt, Nat.add_zero]
    have h2 : (d * b ^ r.length + Sky.C15.ofDigits b r) % b ^ r.length = Sky.C15.ofDigits b r := by
      rw [Nat.mul_comm, Nat.mul_add_mod, Nat.mod_eq_of_lt hlt]
    rw [h1, h2, Nat.mod_eq_of_lt hd]
    congr 1
    exact fixedDigits_ofDigits hb r hr

theorem checksumBits_lt (H : Bytes → Bytes) (ent : Bytes) (cs : Nat) (hcs : cs ≤ 8) : checksumBits H ent cs < 2 ^ cs := by
  unfold checksumBits
  have h1 : (H ent).headD 0 % 256 < 256 := Nat.mod_lt _ (by decide)
  rw [Nat.div_lt_iff_lt_mul (Nat.pow_pos (by decide))]
  have : 2 ^ cs * 2 ^ (8 - cs) = 256 := by
    rw [← Nat.pow_add]; have : cs + (8 - cs) = 8 := by omega
    rw [this]
  omega

theorem pow2048 (m : Nat) : 2048 ^ (m * 3) = 2 ^ (32 * m) * 2 ^ m := by
  have : (2048 : Nat) = 2 ^ 11 := by decide
  rw [this, ← Nat.pow_mul, ← Nat.pow_add]; congr 1; omega

theorem pow256 (m : Nat) : 256 ^ (4 * m) = 2 ^ (32 * m) := by
  have : (256 : Nat) = 2 ^ 8 := by decide
  rw [this, ← Nat.pow_mul]; congr 1; omega

end Sky.C16

namespace Sky.C16
open Sky Sky.Crypto.Secp256k1

theorem take_app {α} {a b : List α} {n : Nat} (h : a.length = n) : (a ++ b).take n = a := by
  subst h; simp

theorem drop_app {α} {a b : List α} {n : Nat} (h : a.length = n) : (a ++ b).drop n = b := by
  subst h; simp

theorem drop_take_app {α} {a b c : List α} {n m : Nat} (h : a.length = n) (h2 : b.length = m) :
    ((a ++ (b ++ c)).drop n).take m = b := by
  rw [drop_app h, take_app h2]

theorem getD_app {a c : List Nat} {x n : Nat} (h : a.length = n) : (a ++ x :: c).getD n 0 = x := by
  subst h; simp [List.getD_eq_getElem?_getD]

theorem ofBE_eq_ofDigits (bs : Bytes) (hb : ∀ b ∈ bs, b < 256) : ofBE bs = ofDigits 256 bs := by
  unfold ofBE ofDigits Sky.C15.ofDigits
  suffices ∀ a, bs.foldl (fun a b => a * 256 + b % 256) a = bs.foldl (fun a d => a * 256 + d) a from this 0
  induction bs with
  | nil => intro a; rfl
  | cons x r ih =>
    intro a
    simp only [List.foldl_cons]
    rw [Nat.mod_eq_of_lt (hb x (by simp))]
    exact ih (fun b hb' => hb b (by simp [hb'])) _

theorem ofBE_be32 (i : Nat) (hi : i < 2 ^ 32) : ofBE (be32 i) = i := by
  unfold be32
  rw [ofBE_eq_ofDigits _ (fixedDigits_lt (by decide) 4 i)]
  exact ofDigits_fixedDigits (by decide) 4 i (by simpa using hi)

theorem be32_length (i : Nat) : (be32 i).length = 4 := fixedDigits_length 256 4 i

end Sky.C16
