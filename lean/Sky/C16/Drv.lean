/-
  C16 driver: answers from the Lean specification of BIP39/BIP32/BIP44 (Sky.C16.Spec) instantiated with the
  Lean hash library (SHA-256, SHA-512, HMAC-SHA512, PBKDF2, RIPEMD-160) and the textbook curve.
  `vec39` / `vec32` lines carry PUBLISHED expected values: the specification itself must reproduce them
  (this anchors the specification to the standards), and so must the implementation.
-/
import Sky.Prim.DrvLib
import Sky.C16.Spec
import Sky.Hash.All
namespace Sky.C16
open Sky Sky.Drv Sky.Crypto.Secp256k1
open Sky.Hash (sha256 sha512 ripemd160 hmacSha512 pbkdf2HmacSha512)

def hs : Hashes := { hmac := hmacSha512, h160 := fun b => ripemd160 (sha256 b), dsha := fun b => sha256 (sha256 b) }

def showB : Res Bytes → String := showRes hexOf
def showU : Res Unit → String := showRes (fun _ => "")
def showK : Res XKey → String := showRes (fun k => hexOf (serialize hs k))

def strBytes (s : String) : Bytes := (s.toUTF8.toList).map (·.toNat)

def parseIdx (s : String) : List Nat := if s == "-" then [] else (s.splitOn ",").map (·.toNat!)

def bindR {α β} (r : Res α) (f : α → Res β) : Res β :=
  match r with | .ok a => f a | .err e => .err e | .panic p => .panic p

/-- `strings.Split(p, "/")` on bytes -/
def splitSlash (s : Bytes) : List Bytes :=
  let rec go : Bytes → Bytes → List Bytes
    | [], cur => [cur.reverse]
    | c :: r, cur => if c = 47 then cur.reverse :: go r [] else go r (c :: cur)
  go s []

/-- `strconv.ParseUint(x, 10, 32)`: non-empty, decimal digits only, value < 2^32 -/
def parseUint32 (x : Bytes) : Option Nat :=
  if x.isEmpty || !(x.all fun c => 48 ≤ c && c ≤ 57) then none
  else
    let v := x.foldl (fun a c => a * 10 + (c - 48)) 0
    if v < 2 ^ 32 then some v else none

/-- `bip32.ParsePath` → child numbers -/
def parsePath (p : Bytes) : Res (List Nat) :=
  match splitSlash p with
  | [] => .err (E "ErrPathNoMaster")
  | first :: rest =>
    if first ≠ [109] then .err (E "ErrPathNoMaster")
    else
      let rec go : List Bytes → List Nat → Res (List Nat)
        | [], acc => .ok acc.reverse
        | x :: r, acc =>
          if x = [109] then .err (E "ErrPathChildMaster")
          else
            let hard := x.getLast? == some 39
            let x' := if hard then x.dropLast else x
            match parseUint32 x' with
            | none => .err (E "ErrPathNodeNotNumber")
            | some n =>
              if n ≥ hardened then .err (E "ErrPathNodeNumberTooLarge")
              else go r ((if hard then n + hardened else n) :: acc)
      go rest []

def privFromPath (seed p : Bytes) : Res XKey :=
  bindR (parsePath p) fun idx => bindR (newMasterKey hs seed) fun m => derivePriv hs m idx

def xkeyString (k : XKey) : String := String.ofList ((Sky.C15.enc58 (serialize hs k)).map Char.ofNat)

def deser58 (wantPriv : Bool) (s : Bytes) : Res XKey :=
  match Sky.C15.dec58 s with
  | .ok b => deserialize hs okPrivKey okPubKey wantPriv b
  | .err e => .err e
  | .panic p => .panic p

def spec (op : String) : String :=
  let h (s : String) := (hex? s).getD []
  match op.splitOn " " with
  | ["sha512", m] => "ok " ++ hexOf (sha512 (h m))
  | ["hmac512", k, m] => "ok " ++ hexOf (hmacSha512 (h k) (h m))
  | ["pbkdf2", p, s, it, n] => "ok " ++ hexOf (pbkdf2HmacSha512 (h p) (h s) it.toNat! n.toNat!)
  | ["wordlist"] =>
    let text := String.join (Sky.Gen.Bip39Words.words.toList.map (· ++ "\n"))
    "ok " ++ toString Sky.Gen.Bip39Words.words.size ++ " " ++ hexOf (sha256 (strBytes text))
  | ["mnemonic", e] => showB (newMnemonic sha256 (h e))
  | ["entropy", m] => showB (entropyFromMnemonic sha256 (h m))
  | ["validate", m] => showU (validateMnemonic sha256 (h m))
  | ["seed", m, _, pn] => showB (newSeed sha256 pbkdf2HmacSha512 (h m) (h pn))
  | ["seednfkd", m, _, pn] => showB (newSeed sha256 pbkdf2HmacSha512 (h m) (h pn))
  | ["vec39", e, m, sd] =>
    if showB (newMnemonic sha256 (h e)) != "ok " ++ m then "specification: mnemonic differs from the published vector"
    else if showB (entropyFromMnemonic sha256 (h m)) != "ok " ++ e then "specification: entropy differs from the published vector"
    else if showB (newSeed sha256 pbkdf2HmacSha512 (h m) (strBytes "TREZOR")) != "ok " ++ sd then "specification: seed differs from the published vector"
    else "ok"
  | ["vec32", sd, p, xprv, xpub] =>
    match privFromPath (h sd) (strBytes p) with
    | .ok k => if xkeyString k != xprv then "specification: xprv differs from the published vector"
               else if xkeyString (neuter k) != xpub then "specification: xpub differs from the published vector"
               else "ok"
    | _ => "specification: derivation failed"
  | ["master", s] => showK (newMasterKey hs (h s))
  | ["derive", s, p] =>
    match bindR (newMasterKey hs (h s)) fun m => derivePriv hs m (parseIdx p) with
    | .ok k => "ok " ++ hexOf (serialize hs k) ++ " " ++ hexOf (serialize hs (neuter k)) ++ " " ++ hexOf (Sky.C15.enc58 (serialize hs k))
    | .err e => "err " ++ e.toString
    | .panic _ => "panic"
  | ["derivepub", s, p, q] =>
    showK (bindR (newMasterKey hs (h s)) fun m => bindR (derivePriv hs m (parseIdx p)) fun k => derivePub hs (neuter k) (parseIdx q))
  | ["pathstr", s, p] => showK (privFromPath (h s) (h p))
  | ["deserpriv", b] => showK (deserialize hs okPrivKey okPubKey true (h b))
  | ["deserpub", b] => showK (deserialize hs okPrivKey okPubKey false (h b))
  | ["deserencpriv", s] => showK (deser58 true (h s))
  | ["deserencpub", s] => showK (deser58 false (h s))
  | ["depth255", b, i] =>
    match deserialize hs okPrivKey okPubKey true (h b) with
    | .ok k =>
      (match ckdPriv hs k i.toNat! with
       | .ok _ => "ok"
       | .err e => "err " ++ e.toString ++ " / " ++
          (match ckdPub hs (neuter k) (i.toNat! % hardened) with | .ok _ => "ok" | .err e => "err " ++ e.toString | .panic _ => "panic")
       | .panic _ => "panic")
    | .err e => "err " ++ e.toString
    | .panic _ => "panic"
  | ["bip44", s, c, a, ch, i] =>
    match bip44Key hs (h s) c.toNat! a.toNat! ch.toNat! i.toNat! with
    | .ok k => "ok " ++ hexOf (serialize hs k) ++ " " ++ hexOf (serialize hs (neuter k))
    | .err e => "err " ++ e.toString
    | .panic _ => "panic"
  | _ => "bad-op"

/-- the private/public commutation evaluated on the specification's own outputs (a sanity check of the
specification against theorem `ckd_commutes`): N(CKDpriv(k, i)) = CKDpub(N(k), i) -/
def commutes (op : String) : Bool :=
  match op.splitOn " " with
  | ["derivepub", s, p, q] =>
    let h (s : String) := (hex? s).getD []
    let a := bindR (newMasterKey hs (h s)) fun m => bindR (derivePriv hs m (parseIdx p)) fun k => derivePub hs (neuter k) (parseIdx q)
    let b := bindR (newMasterKey hs (h s)) fun m => derivePriv hs m (parseIdx p ++ parseIdx q)
    match a, b with
    | .ok x, .ok y => x == neuter y
    | .err _, _ => true
    | _, _ => false
  | _ => true

def step (op impl : String) : String × Verdict :=
  let m := spec op
  if m != normImpl impl then (m, .fail)
  else if !commutes op then ("specification: CKDpub does not commute with CKDpriv", .unknown)
  else (m, .hold)

end Sky.C16

def main : IO Unit := Sky.Drv.loopPure Sky.C16.step
