/-
  Sky.C14.Spec — the cipher-level API (src/cipher/crypto.go, secp256k1-go/secp256k1.go) expressed over the
  textbook curve of Sky.Crypto.Secp256k1 and the Lean hashes: which inputs are rejected with which
  error, in the code's order of checks, and the exact bytes returned otherwise.  Core Lean only.
-/
import Sky.Prim.Res
import Sky.Crypto.Secp256k1
import Sky.Hash.Sha256
namespace Sky.C14
open Sky Sky.Crypto.Secp256k1

def E (n : String) : Err := .named n

/-- `cipher.NewPubKey` -/
def newPubKey (b : Bytes) : Res Unit :=
  if b.length ≠ 33 then .err (E "ErrInvalidLengthPubKey")
  else match parsePub b with
    | none => .err (E "ErrInvalidPubKey")
    | some _ => .ok ()

/-- `cipher.NewSecKey` -/
def newSecKey (b : Bytes) : Res Unit :=
  if b.length ≠ 32 then .err (E "ErrInvalidLengthSecKey")
  else if secValid b then .ok () else .err (E "ErrInvalidSecKey")

/-- `cipher.PubKeyFromSecKey` on a 32-byte array: null key is an error; an out-of-range key violates the
documented precondition and `log.Panic`s ("always ensure seckey is valid"). -/
def pubKeyFromSecKey (b : Bytes) : Res Bytes :=
  if b.all (· == 0) then .err (E "ErrPubKeyFromNullSecKey")
  else if !secValid b then .panic "always ensure seckey is valid"
  else .ok (compress (pubOf (ofBE b)))

structure Sig65 where
  r : Nat
  s : Nat
  recid : Nat

def parseSig (sig : Bytes) : Sig65 :=
  { r := ofBE (sig.take 32), s := ofBE ((sig.drop 32).take 32), recid := sig.getD 64 0 }

/-- `secp256k1.RecoverPubkey` (nil = none) on a 65-byte signature and a 32-byte message -/
def recoverPubkey (sig hash : Bytes) : Option Bytes :=
  let g := parseSig sig
  (recover (ofBE hash) g.r g.s g.recid).map compress

/-- `cipher.PubKeyFromSig` -/
def pubKeyFromSig (sig hash : Bytes) : Res Bytes :=
  match recoverPubkey sig hash with
  | none => .err (E "ErrInvalidSigPubKeyRecovery")
  | some p => .ok p

/-- the signature-shape rule of `VerifySignatureValidity` / `VerifySignature` as the PROPERTY (C10) states
it: low s and recovery id below 4. -/
def sigWellFormed (g : Sig65) : Bool := g.s ≤ halfN && g.recid < 4

/-- `cipher.VerifyPubKeySignedHash`, in the code's order of checks (`rec` = `RecoverPubkey(hash, sig)`) -/
def verifyPubKeySignedHashWith (rec : Option Bytes) (pub sig : Bytes) : Res Unit :=
  match rec with
  | none => .err (E "ErrInvalidSigPubKeyRecovery")
  | some p =>
    if p ≠ pub then .err (E "ErrPubKeyRecoverMismatch")
    else if !sigWellFormed (parseSig sig) then .err (E "ErrInvalidSigValidity")
    else .ok ()

def verifyPubKeySignedHash (pub sig hash : Bytes) : Res Unit :=
  verifyPubKeySignedHashWith (recoverPubkey sig hash) pub sig

/-- `cipher.VerifySignatureRecoverPubKey` -/
def verifySignatureRecoverPubKey (sig hash : Bytes) : Res Unit :=
  match recoverPubkey sig hash with
  | none => .err (E "ErrInvalidSigPubKeyRecovery")
  | some _ => if !sigWellFormed (parseSig sig) then .err (E "ErrInvalidHashForSig") else .ok ()

/-- `secp256k1.ECDH` (raw): compressed k•Q -/
def ecdhRaw (pub sec : Bytes) : Option Bytes :=
  if !secValid sec then none
  else match parsePub pub with
    | none => none
    | some Q => some (compress (ecdhPoint Q (ofBE sec)))

/-- `cipher.ECDH`: pubkey is validated first, then the secret key; SHA-256 of the compressed shared point -/
def ecdh (H : Bytes → Bytes) (pub sec : Bytes) : Res Bytes :=
  if pub.length ≠ 33 ∨ (parsePub pub).isNone then .err (E "ErrECHDInvalidPubKey")
  else if !secValid sec then .err (E "ErrECHDInvalidSecKey")
  else match ecdhRaw pub sec with
    | some b => .ok (H b)
    | none => .panic "unreachable"

/-! ### deterministic key sequence -/

/-- `deterministicKeyPairIteratorStep`: hash until the digest is a valid secret key (fuel bounds the
`goto new_seckey` loop; a retry needs a digest ≥ n or = 0, probability < 2^-127 each). -/
def detStep (H : Bytes → Bytes) : (fuel : Nat) → Bytes → Bytes × Bytes
  | 0, seed => ([], seed)
  | f+1, seed =>
    let seed' := H seed
    if secValid seed' then (compress (pubOf (ofBE seed')), seed') else detStep H f seed'

def stepFuel : Nat := 64

/-- `Secp256k1Hash` -/
def secp256k1Hash (H : Bytes → Bytes) (seed : Bytes) : Bytes :=
  let hash := H seed
  let (_, seckey) := detStep H stepFuel hash
  let pubkeySeed := H hash
  let (pubkey, _) := detStep H stepFuel pubkeySeed
  let ecdh := (ecdhRaw pubkey seckey).getD []
  H (hash ++ ecdh)

/-- `DeterministicKeyPairIterator`: (next seed, pubkey, seckey) -/
def detIter (H : Bytes → Bytes) (seedIn : Bytes) : Bytes × Bytes × Bytes :=
  let seed1 := secp256k1Hash H seedIn
  let seed2 := H (seedIn ++ seed1)
  let (pub, sec) := detStep H stepFuel seed2
  (seed1, pub, sec)

/-- the key sequence as a pure unfold: `n` keys from `seed`, with the final seed -/
def genKeys (H : Bytes → Bytes) : Nat → Bytes → Bytes × List (Bytes × Bytes)
  | 0, seed => (seed, [])
  | n+1, seed =>
    let (seed1, pub, sec) := detIter H seed
    let (last, ks) := genKeys H n seed1
    (last, (pub, sec) :: ks)

/-- `cipher.GenerateDeterministicKeyPairsSeed(seed, n)` -/
def genDetKeyPairsSeed (H : Bytes → Bytes) (seed : Bytes) (n : Nat) : Res (Bytes × List Bytes) :=
  if n = 0 then .ok (seed, [])
  else if seed.length = 0 then .err (E "ErrEmptySeed")
  else let (last, ks) := genKeys H n seed; .ok (last, ks.map (·.2))

end Sky.C14
