/-
  Sky.C14.Lemmas — compression / decompression of curve points (Mathlib: ZMod P as a field).

  `compress_decompress` needs that the field prime is prime. A kernel-checked primality certificate
  for the 256-bit p is outside this development; the primality of `P` is therefore an explicit
  HYPOTHESIS of the theorem (`hp : Nat.Prime P`), never an axiom.
-/
import Sky.C14.Spec
import Mathlib.FieldTheory.Finite.Basic
import Mathlib.Tactic.Ring
namespace Sky.C14
open Sky Sky.Crypto.Secp256k1

/-! ### square-and-multiply is exponentiation -/

theorem powModF_spec (m : ℕ) : ∀ (fuel b e r : ℕ), e < 2 ^ fuel →
    powModF fuel b e m r % m = (r * b ^ e) % m := by
  intro fuel
  induction fuel with
  | zero =>
    intro b e r he
    have : e = 0 := by simpa using he
    subst this; simp [powModF]
  | succ f ih =>
    intro b e r he
    simp only [powModF]
    have he2 : e / 2 < 2 ^ f := by
      rw [Nat.div_lt_iff_lt_mul (by decide)]; rw [Nat.pow_succ] at he; exact he
    rw [ih _ _ _ he2]
    have hsq : (b * b % m) ^ (e / 2) % m = (b ^ (2 * (e / 2))) % m := by
      rw [Nat.pow_mod, Nat.mod_mod, ← Nat.pow_mod, ← Nat.pow_two, ← Nat.pow_mul]
    have hsplit : b ^ e = b ^ (2 * (e / 2)) * b ^ (e % 2) := by
      rw [← Nat.pow_add]; congr 1; omega
    by_cases hodd : e % 2 = 1
    · simp only [hodd, beq_self_eq_true, if_true]
      rw [Nat.mul_mod, Nat.mod_mod, hsq, hsplit, hodd, Nat.pow_one, ← Nat.mul_mod]
      congr 1; ring
    · have h0 : e % 2 = 0 := by omega
      simp only [h0, show (0 == 1) = false from rfl, Bool.false_eq_true, if_false]
      rw [Nat.mul_mod, hsq, ← Nat.mul_mod, hsplit, h0, Nat.pow_zero, Nat.mul_one]

theorem powModF_lt' (m : ℕ) : ∀ (fuel b e r : ℕ), r < m → powModF fuel b e m r < m := by
  intro fuel
  induction fuel with
  | zero => intro b e r hr; exact hr
  | succ f ih =>
    intro b e r hr
    simp only [powModF]
    apply ih
    split
    · exact Nat.mod_lt _ (by omega)
    · exact hr

theorem powMod_spec (b e m : ℕ) (hm : 1 < m) (he : e < 2 ^ 256) : powMod b e m = b ^ e % m := by
  unfold powMod
  have hlt := powModF_lt' m 256 (b % m) e (1 % m) (Nat.mod_lt _ (by omega))
  have h := powModF_spec m 256 (b % m) e (1 % m) he
  rw [Nat.mod_eq_of_lt hlt] at h
  rw [h, Nat.mod_eq_of_lt hm, Nat.one_mul, ← Nat.pow_mod]

/-! ### big-endian 32 bytes -/

theorem ofBE_foldl' (bs : Bytes) (a : ℕ) :
    bs.foldl (fun a b => a * 256 + b % 256) a = a * 256 ^ bs.length + ofBE bs := by
  induction bs generalizing a with
  | nil => simp [ofBE]
  | cons d r ih =>
    simp only [List.foldl_cons, List.length_cons, ofBE]
    rw [ih (a * 256 + d % 256), ih (0 * 256 + d % 256)]
    ring

theorem ofBE_toBE32 (x : ℕ) (hx : x < 2 ^ 256) : ofBE (toBE32 x) = x := by
  -- value of the 32 base-256 digits of x
  have key : ∀ n : ℕ, n ≤ 32 →
      ofBE ((List.range n).map fun i => (x / 256 ^ (31 - i)) % 256) = x / 256 ^ (32 - n) % 256 ^ n := by
    intro n
    induction n with
    | zero => intro _; simp [ofBE, Nat.mod_one]
    | succ k ih =>
      intro hk
      rw [List.range_succ, List.map_append, List.map_cons, List.map_nil]
      have : ofBE (((List.range k).map fun i => (x / 256 ^ (31 - i)) % 256) ++ [x / 256 ^ (31 - k) % 256])
          = ofBE ((List.range k).map fun i => (x / 256 ^ (31 - i)) % 256) * 256 + x / 256 ^ (31 - k) % 256 := by
        unfold ofBE
        rw [List.foldl_append]
        simp only [List.foldl_cons, List.foldl_nil]
        rw [Nat.mod_mod]
      rw [this, ih (by omega)]
      have e1 : 32 - k = (31 - k) + 1 := by omega
      have e2 : 32 - (k + 1) = 31 - k := by omega
      rw [e1, e2, Nat.pow_succ, ← Nat.div_div_eq_div_mul]
      generalize x / 256 ^ (31 - k) = q
      rw [Nat.pow_succ, Nat.mul_comm (256 ^ k) 256, Nat.mod_mul]; ring
  have := key 32 (by omega)
  unfold toBE32
  rw [this]
  simp only [Nat.sub_self, Nat.pow_zero, Nat.div_one]
  exact Nat.mod_eq_of_lt (by rw [show (256 : ℕ) ^ 32 = 2 ^ 256 from by norm_num]; exact hx)

theorem toBE32_length (x : ℕ) : (toBE32 x).length = 32 := by simp [toBE32]

/-! ### the square root recovers ±y -/

theorem sqrt_of_square (hp : Nat.Prime P) (y : ℕ) (hy : y < P) :
    let r := sqrtP (y * y % P)
    r * r % P = y * y % P ∧ (r = y ∨ r = (P - y) % P) := by
  have : Fact (Nat.Prime P) := ⟨hp⟩
  intro r
  have hP1 : 1 < P := hp.one_lt
  have hr : r = (y * y % P) ^ ((P + 1) / 4) % P := by
    show sqrtP (y * y % P) = _
    unfold sqrtP
    exact powMod_spec _ _ _ hP1 (by decide)
  have hrlt : r < P := by rw [hr]; exact Nat.mod_lt _ (by omega)
  -- in ZMod P
  have hz : (r : ZMod P) = (y : ZMod P) ^ (2 * ((P + 1) / 4)) := by
    rw [hr]; push_cast [ZMod.natCast_mod]
    rw [← pow_two, ← pow_mul]
  have h4 : 2 * ((P + 1) / 4) = (P - 1) / 2 + 1 := by decide
  have hsq : (r : ZMod P) ^ 2 = (y : ZMod P) ^ 2 := by
    rw [hz, ← pow_mul]
    have : 2 * ((P + 1) / 4) * 2 = (P - 1) + 2 := by decide
    rw [this, pow_add]
    by_cases hy0 : (y : ZMod P) = 0
    · rw [hy0]; simp
    · rw [ZMod.pow_card_sub_one_eq_one hy0, one_mul]
  have hcases : (r : ZMod P) = (y : ZMod P) ∨ (r : ZMod P) = -(y : ZMod P) := sq_eq_sq_iff_eq_or_eq_neg.mp hsq
  constructor
  · -- back to ℕ
    have : ((r * r : ℕ) : ZMod P) = ((y * y : ℕ) : ZMod P) := by
      push_cast; rw [← pow_two, ← pow_two]; exact hsq
    exact (ZMod.natCast_eq_natCast_iff' _ _ _).mp this
  · rcases hcases with h | h
    · left
      have := (ZMod.natCast_eq_natCast_iff' _ _ _).mp h
      rwa [Nat.mod_eq_of_lt hrlt, Nat.mod_eq_of_lt hy] at this
    · right
      have h' : (r : ZMod P) = (((P - y) % P : ℕ) : ZMod P) := by
        rw [h, ZMod.natCast_mod, Nat.cast_sub (le_of_lt hy), ZMod.natCast_self, zero_sub]
      have := (ZMod.natCast_eq_natCast_iff' _ _ _).mp h'
      rwa [Nat.mod_eq_of_lt hrlt, Nat.mod_mod] at this

theorem parsePub_cons (pre : ℕ) (xs : Bytes) (hx : xs.length = 32) (hp : pre = 2 ∨ pre = 3) :
    parsePub (pre :: xs) = liftX (ofBE xs) (pre == 3) := by
  unfold parsePub
  simp only
  rw [if_neg (by omega), if_neg (by omega)]

theorem liftX_eq (x : ℕ) (odd : Bool) (hx : x < P)
    (hsq : sqrtP ((x * x % P * x + 7) % P) * sqrtP ((x * x % P * x + 7) % P) % P = (x * x % P * x + 7) % P) :
    liftX x odd = some (.aff x (if (sqrtP ((x * x % P * x + 7) % P) % 2 == 1) == odd then sqrtP ((x * x % P * x + 7) % P)
      else (P - sqrtP ((x * x % P * x + 7) % P)) % P)) := by
  unfold liftX
  rw [if_neg (by omega)]
  show (if (sqrtP ((x * x % P * x + 7) % P) * sqrtP ((x * x % P * x + 7) % P) % P != (x * x % P * x + 7) % P) = true then none
    else some _) = _
  rw [if_neg (by rw [hsq]; simp)]

/-- **compress then decompress is the identity on curve points** (given that `P` is prime) -/
theorem compress_decompress (hp : Nat.Prime P) (x y : ℕ) (h : onCurve (.aff x y) = true) :
    parsePub (compress (.aff x y)) = some (.aff x y) := by
  simp only [onCurve, Bool.and_eq_true, decide_eq_true_eq, beq_iff_eq] at h
  obtain ⟨⟨hx, hy⟩, hc⟩ := h
  have hP256 : P < 2 ^ 256 := by decide
  have hodd : P % 2 = 1 := by decide
  obtain ⟨hsq, hroot⟩ := sqrt_of_square hp y hy
  have hpre : 2 + y % 2 = 2 ∨ 2 + y % 2 = 3 := by omega
  show parsePub ((2 + y % 2) :: toBE32 x) = _
  rw [parsePub_cons _ _ (toBE32_length x) hpre, ofBE_toBE32 x (by omega)]
  rw [liftX_eq x _ hx (by rw [← hc]; exact hsq), ← hc]
  have hb : (2 + y % 2 == 3) = (y % 2 == 1) := by
    rcases Nat.mod_two_eq_zero_or_one y with h0 | h1
    · rw [h0]; rfl
    · rw [h1]; rfl
  rw [hb]
  have key : (if ((sqrtP (y * y % P) % 2 == 1) == (y % 2 == 1)) = true then sqrtP (y * y % P) else (P - sqrtP (y * y % P)) % P) = y := by
    rcases hroot with hr | hr
    · rw [hr]; simp
    · by_cases hy0 : y = 0
      · subst hy0
        simp only [Nat.sub_zero, Nat.mod_self] at hr
        rw [hr]; simp
      · have hr' : sqrtP (y * y % P) = P - y := by rw [hr]; exact Nat.mod_eq_of_lt (by omega)
        rw [hr']
        have hpar : ¬ (((P - y) % 2 == 1) == (y % 2 == 1)) = true := by
          rcases Nat.mod_two_eq_zero_or_one y with h0 | h1
          · have : (P - y) % 2 = 1 := by omega
            rw [this, h0]; decide
          · have : (P - y) % 2 = 0 := by omega
            rw [this, h1]; decide
        rw [if_neg hpar]
        have : P - (P - y) = y := by omega
        rw [this, Nat.mod_eq_of_lt hy]
  rw [key]

end Sky.C14
