/-
  C14 driver: answers every op line from the TEXTBOOK specification (Sky.Crypto.Secp256k1 + Sky.C14.Spec
  + Lean SHA-256). Any difference is a failure of the property ("same answers as an independent
  textbook implementation"). For `signhash` (random nonce inside the implementation) the nonce is
  read back from the signature: k = s⁻¹(z + r·d) or its negation; the signature must be exactly what
  textbook ECDSA produces with that nonce.
-/
import Sky.Prim.DrvLib
import Sky.C14.Spec
import Sky.Hash.All
namespace Sky.C14
open Sky Sky.Drv Sky.Crypto.Secp256k1
open Sky.Hash (sha256)

def showB : Res Bytes → String := showRes hexOf
def showU : Res Unit → String := showRes (fun _ => "")

def sigBytes (g : Sig) : Bytes := toBE32 g.r ++ toBE32 g.s

def uncompressed (b : Bytes) : String :=
  match parsePub b with
  | some (.aff x y) => "ok " ++ hexOf (4 :: (toBE32 x ++ toBE32 y))
  | _ => "panic"

/-- does textbook ECDSA with the read-back nonce reproduce exactly this 65-byte signature? -/
def reproduces (d z : Nat) (sig : Bytes) : Bool :=
  let g := parseSig sig
  if g.r == 0 || g.s == 0 || g.r ≥ N || g.s ≥ N then false
  else
    let k1 := invMod g.s N * ((g.r * d + z) % N) % N
    let tryK (k : Nat) : Bool :=
      if k == 0 then false else
      match sign d z k with
      | some sg => sigBytes sg ++ [sg.recid] == sig
      | none => false
    tryK k1 || tryK (N - k1)

/-- `rcv` = `recoverPubkey sig hash` for the three ops that recover (computed once per distinct (sig, hash) by `step`) -/
def spec (rcv : Option Bytes) (op impl : String) : String :=
  let h (s : String) := (hex? s).getD []
  match op.splitOn " " with
  | ["newpub", b] => showU (newPubKey (h b))
  | ["newsec", b] => showU (newSecKey (h b))
  | ["pubfromsec", b] => showB (pubKeyFromSecKey (h b))
  | ["basemul", k] => "ok " ++ hexOf (compress (pubOf (ofBE (h k))))
  | ["mul", p, k] => match ecdhRaw (h p) (h k) with
    | some b => "ok " ++ hexOf b
    | none => "nil"
  | ["fnorm", a, _, b] => "ok " ++ hexOf (toBE32 ((ofBE (h b) % P + (P - ofBE (h a) % P)) % P))
  | ["fmul", a, b, k] => "ok " ++ hexOf (toBE32 (ofBE (h a) % P * (ofBE (h b) % P) % P * k.toNat! % P))
  | ["fsqr", a, k] => "ok " ++ hexOf (toBE32 ((ofBE (h a) % P * k.toNat! % P) * (ofBE (h a) % P * k.toNat! % P) % P))
  | ["finv", a] => "ok " ++ hexOf (toBE32 (invMod (ofBE (h a) % P) P))
  | ["ptadd", p1, p2] => match parsePub (h p1), parsePub (h p2) with
    | some A, some B => (match add A B with | .inf => "inf" | q => "ok " ++ hexOf (compress q))
    | _, _ => "badpub"
  | ["ecmrow", _, na, ng0, cnt, pa] => match parsePub (h pa) with
    | some A =>
      let naA := smul na.toNat! A
      "ok" ++ String.join ((List.range cnt.toNat!).map fun j =>
        match add naA (smul (ng0.toNat! + j) G) with
        | .inf => " inf"
        | q => " " ++ hexOf (compress q))
    | none => "badpub"
  | ["ecmult", pa, na, ng] => match parsePub (h pa) with
    | some A => (match add (smul (ofBE (h na)) A) (smul (ofBE (h ng)) G) with | .inf => "inf" | q => "ok " ++ hexOf (compress q))
    | none => "badpub"
  | ["jadd", pa, pb, _, _] => match parsePub (h pa), parsePub (h pb) with
    | some A, some B => (match add A B with | .inf => "inf" | q => "ok " ++ hexOf (compress q))
    | _, _ => "badpub"
  | ["rawsign", d, z, k] => match sign (ofBE (h d)) (ofBE (h z)) (ofBE (h k)) with
    | some sg => "ok " ++ hexOf (sigBytes sg) ++ " " ++ toString sg.recid
    | none => "fail"
  | ["signhash", d, z] =>
    if !secValid (h d) then "err ErrInvalidSecKey"
    else if (h z).all (· == 0) then "err ErrNullSignHash"
    else match impl.splitOn " " with
      | ["ok", s] => if (h s).length == 65 && reproduces (ofBE (h d)) (ofBE (h z)) (h s) then impl
                     else "ok <a signature that textbook ECDSA produces for some nonce>"
      | _ => "ok <signature>"
  | ["verify", p, s, _] => showU (verifyPubKeySignedHashWith rcv (h p) (h s))
  | ["verifyrec", s, _] => showU (match rcv with
      | none => .err (E "ErrInvalidSigPubKeyRecovery")
      | some _ => if !sigWellFormed (parseSig (h s)) then .err (E "ErrInvalidHashForSig") else .ok ())
  | ["pubfromsig", _, _] => showB (match rcv with
      | none => .err (E "ErrInvalidSigPubKeyRecovery")
      | some p => .ok p)
  | ["rawverify", p, s, z] => match parsePubLoose (h p) with
    | none => "badpub"
    | some Q => if verify Q (ofBE (h z)) (ofBE ((h s).take 32)) (ofBE ((h s).drop 32)) then "true" else "false"
  | ["ecdh", p, k] => showB (ecdh sha256 (h p) (h k))
  | ["uncompress", p] => uncompressed (h p)
  | ["s256k1hash", s] => "ok " ++ hexOf (secp256k1Hash sha256 (h s))
  | ["detiter", s] =>
    if (h s).length == 0 then "err ErrEmptySeed"
    else let (s1, p, k) := detIter sha256 (h s); "ok " ++ hexOf s1 ++ " " ++ hexOf p ++ " " ++ hexOf k
  | ["detkeys", s, n] => match genDetKeyPairsSeed sha256 (h s) (n.toNat!) with
    | .ok (last, ks) => "ok " ++ hexOf last ++ String.join (ks.map fun k => " " ++ hexOf k)
    | .err e => "err " ++ e.toString
    | .panic _ => "panic"
  | _ => "bad-op"
where
  /-- `XY.ParsePubkey` only looks at the prefix; `rawverify` lines are generated with on-curve keys -/
  parsePubLoose (b : Bytes) : Option Pt :=
    match b with
    | pre :: _ => if pre == 2 || pre == 3 then parsePub b else none
    | [] => none

/-- small cache of public-key recoveries: the generator asks `pubfromsig`, `verify`, `verifyrec` about the same (sig, hash) -/
abbrev Cache := List (String × Option Bytes)

def sigHashOf (op : String) : Option (String × String) :=
  match op.splitOn " " with
  | ["verify", _, s, z] => some (s, z)
  | ["verifyrec", s, z] => some (s, z)
  | ["pubfromsig", s, z] => some (s, z)
  | _ => none

def step (c : Cache) (op impl : String) : Cache × String × Verdict :=
  match sigHashOf op with
  | none => (c, spec none op impl, .fail)
  | some (s, z) =>
    let key := s ++ "/" ++ z
    match c.lookup key with
    | some r => (c, spec r op impl, .fail)
    | none =>
      let r := recoverPubkey ((hex? s).getD []) ((hex? z).getD [])
      (((key, r) :: c).take 6, spec r op impl, .fail)

end Sky.C14

def main : IO Unit := Sky.Drv.loop (σ := Sky.C14.Cache) Sky.C14.step []
