/-
  C23 driver.  Inside the property's quantifier (max ≥ wire overhead + empty-message size) it prints
  the SPECIFICATION: the longest prefix of the capped candidate items whose encoded message fits `max`
  as gnet measures it (`specKeep`, proved to be THE longest fitting prefix in Sky.Props.C23), the
  resulting wire length, prefix flag and send verdict.  Outside the quantifier it mirrors the code
  (model with the regenerated `frameX`).  Item sizes, empty-message size and element size are read
  from the implementation's line (they are parameters of the theorems).  On a difference the
  implementation's own numbers are tested against `IsLongestFit`: violated ⇒ `fail`.
-/
import Sky.Prim.DrvLib
import Sky.C23.Model
namespace Sky.C23
open Sky Sky.Drv Sky.Gen.C23Facts

def field (parts : List String) (key : String) : Option String :=
  (parts.find? (·.startsWith (key ++ "="))).map (fun s => (s.drop (key.length + 1)).toString)

/-- run-length encoded list: `v*n` = n copies of v -/
def natList (s : String) : Option (List Nat) :=
  if s == "-" || s == "" then some [] else do
    let parts ← (s.splitOn ",").mapM (fun t => match t.splitOn "*" with
      | [v] => v.toNat?.map (fun v => [v])
      | [v, n] => do let v ← v.toNat?; let n ← n.toNat?; pure (List.replicate n v)
      | _ => none)
    pure parts.flatten

structure Kind where
  frame : Nat
  cap : Nat
  hash : Bool

def kindOf : String → Option Kind
  | "blocks" => some ⟨frameGiveBlocks, capGiveBlocks, false⟩
  | "txns" => some ⟨frameGiveTxns, capGiveTxns, false⟩
  | "peers" => some ⟨frameGivePeers, capGivePeers, false⟩
  | "announce" => some ⟨frameAnnounceTxns, capAnnounceTxns, true⟩
  | "gettxns" => some ⟨frameGetTxns, capGetTxns, true⟩
  | _ => none

def showLine (k wire : Nat) (max : Nat) : String :=
  "k=" ++ toString k ++ "|wire=" ++ toString wire ++ "|prefix=1|send=" ++
    (if wireOverhead + (wire - (lengthPrefixSize + msgIDSize)) ≤ max then "ok" else "toolong")

/-- candidate items (before the cap) as the model sees them -/
def candidates (kind : String) (opArgs : List String) (parts : List String) : Option (List Nat) :=
  match kind, opArgs with
  | "peers", [n, inv] => do
      -- n raw peers, peer i is invalid iff inv > 0 ∧ i % inv = inv - 1; the cap applies to the RAW list
      let n ← n.toNat?; let inv ← inv.toNat?; let e ← (field parts "elem") >>= (·.toNat?)
      let raw := (List.range n).take capGivePeers
      pure ((raw.filter (fun i => !(inv > 0 && i % inv == inv - 1))).map (fun _ => e))
  | _, _ => (field parts "sizes") >>= natList

def isHead (p : String) : Bool := p.startsWith "sizes=" || p.startsWith "hdr=" || p.startsWith "elem="

def stepLine (_ : Unit) (op impl : String) : Unit × String × Verdict :=
  let parts := impl.splitOn "|"
  let head := parts.filter isHead
  let withTail (t : String) : String := "|".intercalate (head ++ [t])
  match op.splitOn " " with
  | ["slice", len, elem, maxLength] =>
    match len.toNat?, elem.toNat?, maxLength.toNat? with
    | some len, some elem, some ml =>
      ((), showRes toString (truncateSHA256SliceLen len elem ml), .unknown)
    | _, _, _ => ((), "bad-op", .unknown)
  | kind :: maxS :: args =>
    match kindOf kind, maxS.toNat? with
    | some K, some max =>
      match (field parts "hdr") >>= (·.toNat?), candidates kind args parts with
      | some hdr, some cands =>
        let items := if kind == "peers" then cands else cands.take K.cap   -- peers: cap already applied to the raw list
        let ovh := wireOverhead
        if max ≥ ovh + hdr then
          -- inside the property's quantifier: print the specification
          let k := specKeep ovh hdr items max
          let spec := withTail (showLine k (wireLen (hdr + (items.take k).sum)) max)
          if spec == impl then ((), spec, .unknown)
          else
            -- decide the property on the implementation's own numbers
            let v : Verdict := match (field parts "k") >>= (·.toNat?), (field parts "wire") >>= (·.toNat?) with
              | some ik, some iw =>
                if decide (IsLongestFit ovh hdr items max ik) && field parts "prefix" == some "1"
                   && iw == wireLen (hdr + (items.take ik).sum) && field parts "send" == some "ok" then .unknown else .fail
              | _, _ => .fail   -- e.g. a panic inside the quantifier
            ((), spec, v)
        else
          -- outside the quantifier: mirror the code (regenerated frame constant)
          let r := if K.hash then truncHash K.frame hdr sha256Size items.length max else truncLoop K.frame hdr items max
          let m := match r with
            | .ok k => withTail (showLine k (wireLen (hdr + (items.take k).sum)) max)
            | _ => withTail "panic"
          ((), m, .hold)
      | _, _ => ((), "no-sizes", .unknown)
    | _, _ => ((), "bad-op", .unknown)
  | _ => ((), "bad-op", .unknown)

end Sky.C23

def main : IO Unit := Sky.Drv.loop Sky.C23.stepLine ()
