/-
  Sky.C23.Model — model of the outgoing-message truncation of src/daemon/messages.go.  Core Lean only.

  Item sizes are PARAMETERS: `sizes : List Nat` are the encoded sizes of the candidate items (what
  `encodeSizeSignedBlock` / `encodeSizeTransaction` / `encodeSizeIPAddr` return), `hdr` the encoded size
  of the empty message, `frame` the number of framing bytes the truncate function reserves (the K of
  `if maxMsgLength < K {panic}; maxMsgLength -= K` — regenerated from the source as
  `Sky.Gen.C23Facts.frameX`), `cap` the item cap of the constructor.  A result is the NUMBER of items
  kept (the functions only ever re-slice `items[:k]`), or the panic outcome.
  Arithmetic is over Nat: the sizes are encoded sizes of in-memory values, their sum is far below
  2^64 (assumption listed in the check config).
-/
import Sky.Prim.Res
import Sky.Gen.C23Facts
namespace Sky.C23
open Sky Sky.Gen.C23Facts

/-- the `for i, x := range items { if size+x > max {break}; size += x; index = i }` loop: number of items kept -/
def loopKeep (maxBody : Nat) : Nat → List Nat → Nat
  | _, [] => 0
  | size, x :: xs => if size + x > maxBody then 0 else 1 + loopKeep maxBody (size + x) xs

/-- `truncateGive{Blocks,Txns,Peers}Message` (loop template) -/
def truncLoop (frame hdr : Nat) (sizes : List Nat) (max : Nat) : Res Nat :=
  if max < frame then .panic "maxMsgLength" else
  let maxBody := max - frame
  if hdr + sizes.sum ≤ maxBody then .ok sizes.length
  else .ok (loopKeep maxBody hdr sizes)

/-- `truncate{AnnounceTxns,GetTxns}Hashes` (hash template) on `len` hashes of `elem` bytes each;
`truncateSHA256SliceLen` is the regenerated translation of `truncateSHA256Slice` -/
def truncHash (frame hdr elem len max : Nat) : Res Nat :=
  if max < frame then .panic "maxMsgLength" else
  let maxBody := max - frame
  if hdr + elem * len ≤ maxBody then .ok len else
  if maxBody < hdr then .panic "maxMsgLength<size" else
  truncateSHA256SliceLen len elem (maxBody - hdr)

/-- `New{GiveBlocks,GiveTxns}Message`, and `NewGivePeersMessage` after the address conversion: cap, then truncate -/
def mkLoop (frame hdr cap : Nat) (sizes : List Nat) (max : Nat) : Res Nat :=
  truncLoop frame hdr (sizes.take cap) max

/-- `New{AnnounceTxns,GetTxns}Message` -/
def mkHash (frame hdr elem cap len max : Nat) : Res Nat :=
  truncHash frame hdr elem (min len cap) max

/-- bytes gnet puts in front of the body and counts against the outgoing limit in `sendMessage` -/
def wireOverhead : Nat := (if sendCountsLengthPrefix then lengthPrefixSize else 0) + msgIDSize

/-- length of `gnet.EncodeMessage(msg)`: length prefix ++ message id ++ body -/
def wireLen (body : Nat) : Nat := lengthPrefixSize + msgIDSize + body

/-! ### specification: the longest prefix whose message fits -/

/-- `k` items of `items` (already capped) make the longest prefix whose message — `ovh` framing bytes,
`hdr` bytes of empty message, the items — fits in `max` -/
def IsLongestFit (ovh hdr : Nat) (items : List Nat) (max k : Nat) : Prop :=
  k ≤ items.length ∧ ovh + hdr + (items.take k).sum ≤ max ∧
  (k = items.length ∨ ovh + hdr + (items.take (k + 1)).sum > max)

instance (ovh hdr : Nat) (items : List Nat) (max k : Nat) : Decidable (IsLongestFit ovh hdr items max k) := by
  unfold IsLongestFit; infer_instance

/-- executable specification used by the driver: greedy count with the true overhead -/
def specKeep (ovh hdr : Nat) (items : List Nat) (max : Nat) : Nat :=
  loopKeep (max - ovh) hdr items

end Sky.C23
