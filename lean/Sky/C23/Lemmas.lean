/-
  Sky.C23.Lemmas — facts about the truncation loop and the closed form for fixed-size items.  Core Lean only.
-/
import Sky.C23.Model
set_option linter.unusedSimpArgs false
set_option linter.unusedVariables false
namespace Sky.C23
open Sky Sky.Gen.C23Facts

theorem sum_take_le (l : List Nat) (k : Nat) : (l.take k).sum ≤ l.sum := by
  induction l generalizing k with
  | nil => simp
  | cons x xs ih =>
    cases k with
    | zero => simp
    | succ k => simp only [List.take_succ_cons, List.sum_cons]; have := ih k; omega

theorem sum_take_mono (l : List Nat) {a b : Nat} (h : a ≤ b) : (l.take a).sum ≤ (l.take b).sum := by
  induction l generalizing a b with
  | nil => simp
  | cons x xs ih =>
    cases a with
    | zero => simp
    | succ a =>
      cases b with
      | zero => omega
      | succ b =>
        simp only [List.take_succ_cons, List.sum_cons]
        have := ih (a := a) (b := b) (by omega); omega

/-- the loop: keeps a prefix, what it keeps fits, and the next item would not -/
theorem loopKeep_spec (B : Nat) : ∀ (items : List Nat) (size : Nat), size ≤ B →
    loopKeep B size items ≤ items.length ∧
    size + (items.take (loopKeep B size items)).sum ≤ B ∧
    (loopKeep B size items = items.length ∨ size + (items.take (loopKeep B size items + 1)).sum > B)
  | [], size, h => by simp [loopKeep, h]
  | x :: xs, size, h => by
    unfold loopKeep
    by_cases hx : size + x > B
    · simp only [hx, if_true]
      refine ⟨by simp, by simpa using h, Or.inr ?_⟩
      simp; omega
    · simp only [hx, if_false]
      have ⟨h1, h2, h3⟩ := loopKeep_spec B xs (size + x) (by omega)
      refine ⟨by simp; omega, ?_, ?_⟩
      · rw [Nat.add_comm 1, List.take_succ_cons, List.sum_cons]; omega
      · rcases h3 with h3 | h3
        · left; simp; omega
        · right
          rw [Nat.add_comm 1, List.take_succ_cons, List.sum_cons]; omega

/-- if everything fits the loop keeps everything (so the early `n <= maxMsgLength` return is the same function) -/
theorem loopKeep_all (B : Nat) : ∀ (items : List Nat) (size : Nat), size + items.sum ≤ B →
    loopKeep B size items = items.length
  | [], _, _ => rfl
  | x :: xs, size, h => by
    unfold loopKeep
    simp only [List.sum_cons] at h
    have hx : ¬ size + x > B := by omega
    simp only [hx, if_false]
    rw [loopKeep_all B xs (size + x) (by omega)]; simp; omega

/-- the longest fitting prefix is unique -/
theorem longestFit_unique {ovh hdr : Nat} {items : List Nat} {max k k' : Nat}
    (h : IsLongestFit ovh hdr items max k) (h' : IsLongestFit ovh hdr items max k') : k = k' := by
  obtain ⟨h1, h2, h3⟩ := h
  obtain ⟨h1', h2', h3'⟩ := h'
  by_cases hlt : k < k'
  · exfalso
    rcases h3 with h3 | h3
    · omega
    · have := sum_take_mono items (show k + 1 ≤ k' by omega); omega
  · by_cases hgt : k' < k
    · exfalso
      rcases h3' with h3' | h3'
      · omega
      · have := sum_take_mono items (show k' + 1 ≤ k by omega); omega
    · omega

theorem specKeep_longest {ovh hdr : Nat} (items : List Nat) {max : Nat} (h : ovh + hdr ≤ max) :
    IsLongestFit ovh hdr items max (specKeep ovh hdr items max) := by
  unfold specKeep IsLongestFit
  have ⟨h1, h2, h3⟩ := loopKeep_spec (max - ovh) items hdr (by omega)
  refine ⟨h1, by omega, ?_⟩
  rcases h3 with h3 | h3
  · exact Or.inl h3
  · exact Or.inr (by omega)

/-- the loop-template functions compute `specKeep` with their own frame constant -/
theorem truncLoop_eq {frame hdr : Nat} (items : List Nat) {max : Nat} (h : frame ≤ max) :
    truncLoop frame hdr items max = .ok (specKeep frame hdr items max) := by
  unfold truncLoop specKeep
  have : ¬ max < frame := by omega
  simp only [this, if_false]
  split
  · rename_i hfit
    rw [loopKeep_all _ _ _ hfit]
  · rfl

theorem truncLoop_panic_iff {frame hdr : Nat} (items : List Nat) {max : Nat} :
    (∃ p, truncLoop frame hdr items max = .panic p) ↔ max < frame := by
  unfold truncLoop
  by_cases h : max < frame
  · simp [h]
  · simp only [h, if_false]
    constructor
    · rintro ⟨p, hp⟩; split at hp <;> cases hp
    · intro hh; exact absurd hh (by simp)

/-! ### fixed-size items (hashes) -/

theorem sum_replicate (n e : Nat) : (List.replicate n e).sum = e * n := by
  induction n with
  | zero => simp
  | succ n ih => rw [List.replicate_succ, List.sum_cons, ih, Nat.mul_succ]; omega

theorem take_replicate_sum (n e k : Nat) : ((List.replicate n e).take k).sum = e * min k n := by
  rw [List.take_replicate, sum_replicate]

/-- closed form: `min len ((max − frame − hdr) / elem)` hashes is the longest fitting prefix -/
theorem hash_longest {ovh hdr elem : Nat} (len : Nat) {max : Nat} (he : 0 < elem) (h : ovh + hdr ≤ max) :
    IsLongestFit ovh hdr (List.replicate len elem) max (min len ((max - ovh - hdr) / elem)) := by
  unfold IsLongestFit
  have hq := Nat.div_mul_le_self (max - ovh - hdr) elem
  have hlt := Nat.lt_div_mul_add (a := max - ovh - hdr) he
  refine ⟨by simp; omega, ?_, ?_⟩
  · rw [take_replicate_sum]
    have : min (min len ((max - ovh - hdr) / elem)) len ≤ (max - ovh - hdr) / elem := by omega
    have := Nat.mul_le_mul_left elem this
    rw [Nat.mul_comm elem ((max - ovh - hdr) / elem)] at this
    omega
  · by_cases hc : len ≤ (max - ovh - hdr) / elem
    · left; simp; omega
    · right
      rw [take_replicate_sum]
      have e1 : min (min len ((max - ovh - hdr) / elem) + 1) len = (max - ovh - hdr) / elem + 1 := by omega
      rw [e1, Nat.mul_succ, Nat.mul_comm elem]
      omega

/-- the hash-template functions return that closed form (and never panic) when the limit leaves room for the
empty message -/
theorem truncHash_eq {frame hdr elem : Nat} (len : Nat) {max : Nat} (he : 0 < elem) (h : frame + hdr ≤ max) :
    truncHash frame hdr elem len max = .ok (min len ((max - frame - hdr) / elem)) := by
  unfold truncHash
  have h1 : ¬ max < frame := by omega
  simp only [h1, if_false]
  by_cases hfit : hdr + elem * len ≤ max - frame
  · simp only [hfit, if_true]
    congr 1
    have : len ≤ (max - frame - hdr) / elem := by
      rw [Nat.le_div_iff_mul_le he, Nat.mul_comm]; omega
    omega
  · simp only [hfit, if_false]
    have h2 : ¬ max - frame < hdr := by omega
    simp only [h2, if_false]
    unfold truncateSHA256SliceLen
    have hlen : len ≠ 0 := by
      intro e; subst e; simp at hfit; omega
    have hpos : 0 < len := Nat.pos_of_ne_zero hlen
    have he0 : elem ≠ 0 := by omega
    simp only [hlen, if_false, hpos, not_true_eq_false, he0]
    have hq : (max - frame - hdr) / elem < len := by
      rw [Nat.div_lt_iff_lt_mul he, Nat.mul_comm]; omega
    have h3 : ¬ (max - frame - hdr) / elem > len := by omega
    have h4 : (max - frame - hdr) / elem ≤ len := by omega
    simp only [h3, if_false, h4, if_true]
    congr 1; omega

end Sky.C23
