/-
  C27 driver.  For every op line `req <config fields> <request fields>` prints the outcome the
  SPECIFICATION (`specDecide` with the DOCUMENTED token rule `verifyDoc`) prescribes, after checking
  that the regenerated chain model (`decide` over Sky.Gen.Routes) says the same.

  Hand models of library behaviour used only here, for exactly the shapes the harness generates:
  `iputil.SplitAddr/IsLocalhost` of the configured host, `url.Parse(..).Host` of Origin/Referer,
  `isContentTypeJSON`, net/http ServeMux pattern choice (exact path, GUI file/dir pattern, else "/").
-/
import Sky.Prim.DrvLib
import Sky.C27.Model
import Sky.Gen.Routes
import Sky.Hash.Hmac
namespace Sky.C27.Drv
open Sky Sky.Drv Sky.C27 Sky.Gen.Routes

def kv (toks : List String) (k : String) : Option String :=
  toks.findSome? fun t =>
    let pre := k ++ "="
    if t.startsWith pre then some (t.drop pre.length).toString else none

def commaList (s : String) : List String := if s.isEmpty then [] else s.splitOn ","

def method? : String → Method
  | "GET" => .GET | "POST" => .POST | "PUT" => .PUT | "DELETE" => .DELETE
  | "HEAD" => .HEAD | "OPTIONS" => .OPTIONS | "PATCH" => .PATCH | _ => .other

def apiSet? : String → Option ApiSet
  | "READ" => some .READ | "STATUS" => some .STATUS | "TXN" => some .TXN | "WALLET" => some .WALLET
  | "INSECURE_WALLET_SEED" => some .INSECURE_WALLET_SEED | "NET_CTRL" => some .NET_CTRL
  | "STORAGE" => some .STORAGE | _ => none

/-- index of the last occurrence of `c` -/
def lastIdx (cs : List Char) (c : Char) : Option Nat :=
  (cs.zipIdx.filter (fun p => p.1 == c)).getLast?.map (·.2)

/-- hostCheck's start-up analysis of the configured host: (IsLocalhost addr, port) -/
def hostInfo (host : String) : Bool × Nat :=
  let cs := host.toList
  match lastIdx cs ':' with
  | none => (host == "localhost" || host.startsWith "127." || host == "::1", 0)
  | some i =>
    let addr := String.ofList (cs.take i)
    let addr := if addr.startsWith "[" && addr.endsWith "]" then ((addr.drop 1).dropEnd 1).toString else addr
    let port := (String.ofList (cs.drop (i + 1))).toNat?.getD 0
    (addr == "localhost" || addr.startsWith "127." || addr == "::1", port)

def isHex (c : Char) : Bool := c.isDigit || ('a' ≤ c && c ≤ 'f') || ('A' ≤ c && c ≤ 'F')

def badEscape : List Char → Bool
  | '%' :: a :: b :: r => !(isHex a && isHex b) || badEscape r
  | '%' :: _ => true
  | _ :: r => badEscape r
  | [] => false

def schemeChar (c : Char) : Bool := c.isAlphanum || c == '+' || c == '-' || c == '.'

/-- split `scheme:` off: (hasScheme, rest) or none for "missing protocol scheme" -/
def cutScheme (cs : List Char) : Option (Bool × List Char) :=
  let rec go : List Char → Nat → Option (Bool × List Char)
    | [], _ => some (false, cs)
    | c :: r, i =>
      if c.isAlpha then go r (i + 1)
      else if schemeChar c then (if i == 0 then some (false, cs) else go r (i + 1))
      else if c == ':' then (if i == 0 then none else some (true, r))
      else some (false, cs)
  go cs 0

def takeUntil (p : Char → Bool) : List Char → List Char
  | [] => []
  | c :: r => if p c then [] else c :: takeUntil p r

/-- `url.Parse(v)` → Host, for the header shapes the harness sends -/
def parseHdrURL (v : String) : HdrURL :=
  if v == "-" then .absent else
  let cs := takeUntil (· == '#') v.toList
  if badEscape cs then .bad else
  match cutScheme cs with
  | none => .bad
  | some (hasScheme, rest) =>
    let rest := takeUntil (· == '?') rest
    if rest.take 2 == ['/', '/'] then
      let auth := takeUntil (· == '/') (rest.drop 2)
      let hostp := match lastIdx auth '@' with
        | some i => auth.drop (i + 1)
        | none => auth
      if hostp.head? == some '[' then
        (if hostp.contains ']' then .host (String.ofList hostp) else .bad)
      else
        match lastIdx hostp ':' with
        | some i => if (hostp.drop (i + 1)).all Char.isDigit then .host (String.ofList hostp) else .bad
        | none => .host (String.ofList hostp)
    else if hasScheme then .host ""
    else
      -- no scheme, no authority: a relative path; a colon in its first segment is an error
      if rest.head? != some '/' && (takeUntil (· == '/') rest).contains ':' then .bad else .host ""

def tok? : String → Option Tok
  | "none" | "garbage" | "three" => some ⟨false, false, false, false, false, false⟩
  | "badb64" => some ⟨true, false, false, false, false, false⟩
  | "forged" | "tampered" | "splice" | "splicelive" | "swapsig" | "truncsig" | "extsig" | "emptysig" | "sigpayload"
  | "sigprefix" => some ⟨true, true, false, true, true, false⟩
  | "expired" | "agedexpired" => some ⟨true, true, true, true, false, true⟩
  | "olderexpired" => some ⟨true, true, true, true, false, false⟩
  | "valid" => some ⟨true, true, true, true, true, true⟩
  | "older" => some ⟨true, true, true, true, true, false⟩
  | _ => none

def creds? (s : String) : Option (Option (String × String)) :=
  if s == "-" || s == "M" then some none
  else if s.startsWith "B" then
    let cs := (s.drop 1).toString.toList
    match cs.idxOf? ':' with
    | some i => some (some (String.ofList (cs.take i), String.ofList (cs.drop (i + 1))))
    | none => none
  else none

def ctJSON (ct : String) : Bool := ct == "application/json" || ct.startsWith "application/json;"

/-- ServeMux: exact pattern, else longest GUI pattern (file: exact, directory `…/`: prefix), else "/" -/
def routeFor (path : String) (gui : List String) : Option Route :=
  match routes.find? (fun r => r.path == path) with
  | some r => some r
  | none =>
    match gui.find? (fun g => g == path || (g.endsWith "/" && path.startsWith g)) with
    | some g => (guiRoutes g).head?
    | none => routes.find? (fun r => r.path == "/")

def answer (op : String) : Option (Outcome × Outcome × Outcome) := do
  let toks := op.splitOn " "
  guard (toks.head? == some "req")
  let h ← kv toks "h"
  let (loc, port) := hostInfo h
  let sets ← (commaList (← kv toks "sets")).mapM apiSet?
  let wl ← kv toks "wl"
  let nocsrf ← kv toks "nocsrf"
  let nohdr ← kv toks "nohdr"
  let u ← kv toks "u"
  let p ← kv toks "p"
  let cfg : Cfg := {
    host := h
    isLocalhost := loc
    port := port
    whitelist := commaList wl
    disableCSRF := nocsrf == "1"
    disableHeaderCheck := nohdr == "1"
    enabled := sets
    username := u
    password := p
    corsPassthrough := corsOptionsPassthrough }
  let hostv ← kv toks "host"
  let m ← kv toks "m"
  let orv ← kv toks "or"
  let rfv ← kv toks "rf"
  let creds ← creds? (← kv toks "auth")
  let tok ← tok? (← kv toks "tok")
  let ct ← kv toks "ct"
  let acrm ← kv toks "acrm"
  let req : Req := {
    method := method? m
    host := if hostv == "-" then "" else hostv
    origin := parseHdrURL orv
    referer := parseHdrURL rfv
    creds := creds
    tok := tok
    ctJSON := ctJSON ct
    acrm := acrm != "-" }
  let r ← routeFor (← kv toks "path") (commaList ((kv toks "gui").getD ""))
  -- the specification protects every route except the token endpoint (not: whatever the chain has)
  let spec := specDecide verifyDoc cfg r.ver (r.path != "/api/v1/csrf") r.gate? req
  let model := Sky.C27.decide verifyDoc cfg r req
  let code := Sky.C27.decide verifyCode cfg r req
  pure (spec, model, code)

/-- `token k=…` lines: the harness reports the node's key, the payload and signature bytes of a token and
what the real `verifyCSRFToken` said; the expected verdict is recomputed here from the specification
`rawVerify` with the executable HMAC-SHA256 of Sky.Hash. -/
def tokenStep (impl : String) : String × Verdict :=
  let toks := impl.splitOn " "
  match (do
    let key ← hex? (← kv toks "key")
    let payload ← hex? (← kv toks "payload")
    let sigS ← kv toks "sig"
    let sig ← hex? sigS
    let exp ← kv toks "exp"
    let got ← kv toks "verdict"
    let want := match rawVerify Sky.Hash.hmacSha256 key (exp == "1") ⟨payload, sig⟩ with
      | none => "ok"
      | some w => w.detail
    pure (toks, want, got)) with
  | none => ("bad-token-line", .unknown)
  | some (toks, want, got) =>
    let model := " ".intercalate ((toks.filter fun t => !t.startsWith "verdict=") ++ ["verdict=" ++ want])
    -- the property is violated when the real code ACCEPTS a token the specification refuses
    (model, if got == "ok" && want != "ok" then .fail else .hold)

/-- Expected answer and verdict.
* the expected answer is the SPECIFICATION's (documented token rule); it is only reported as such if
  the regenerated chain model agrees with it.
* the PROPERTY is violated (`fail`) iff the handler was reached although the specification refuses.
* F10b context rule: when the only difference between the documented and the coded token rule is
  that a superseded token is not refused by the token check, and the request is then refused by a
  LATER check anyway (impl = coded rule ≠ reach), the line is accepted: the request did not reach the
  handler; the finding itself is exhibited by the lines where it does (verdict `fail`). -/
def step (op impl : String) : String × Verdict :=
  if op.startsWith "token " then tokenStep impl else
  match answer op with
  | none => ("bad-op", .unknown)
  | some (spec, model, code) =>
    if model != spec then
      (spec.str ++ " [chain model says: " ++ model.str ++ "]", if impl == "reach" && spec != .reach then .fail else .hold)
    else if impl == spec.str then (spec.str, .hold)
    else if spec == .refuse .csrfSuperseded && impl == code.str && code != .reach then (impl, .hold)
    else (spec.str, if impl == "reach" && spec != .reach then .fail else .hold)

end Sky.C27.Drv

def main : IO Unit := Sky.Drv.loopPure Sky.C27.Drv.step
