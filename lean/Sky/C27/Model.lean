/-
  Sky.C27.Model — access-control decision of the HTTP API (core Lean only).

  What is modelled (src/api/http.go, middleware.go, csrf.go):
    * a route = path, API version and the CHAIN of middlewares `newServerMux` wraps around the
      endpoint's handler, outermost first.  The chains are not written here: they are REGENERATED
      from the source by tools/extract/routes into Sky.Gen.Routes on every run.
    * each middleware as a step `mwStep` that either refuses (status as the code writes it) or
      lets the request through: basicAuth, ContentTypeJSONRequired, hostCheck, originRefererCheck,
      CSRFCheck/verifyCSRFToken, rs/cors preflight short-circuit, the forMethodAPISets gate.
      gzip and the elapsed-time logger never refuse.
    * `decide` = run the chain; `.reach` means the endpoint's own handler is invoked.

  Parameters, not modelled: HMAC-SHA256 (a token's signature check is the field `sigOK`),
  base64/JSON decoding of the token (fields), `url.Parse` of Origin/Referer (type `HdrURL`),
  `r.BasicAuth()` (field `creds`), `iputil.IsLocalhost/SplitAddr` of the configured host
  (fields `isLocalhost`, `port`), net/http's ServeMux path matching (the route is an argument).
-/
namespace Sky.C27

inductive Method | GET | POST | PUT | DELETE | HEAD | OPTIONS | PATCH | other
deriving DecidableEq, Repr

inductive ApiSet | READ | STATUS | TXN | WALLET | INSECURE_WALLET_SEED | NET_CTRL | STORAGE
deriving DecidableEq, Repr

inductive Ver | v1 | v2
deriving DecidableEq, Repr

/-- a wrapping is applied always, or only `if checkHeaders` with `checkHeaders = !c.disableHeaderCheck` -/
inductive Cond | always | unlessHeaderCheckDisabled
deriving DecidableEq, Repr

inductive Mw
  | gzip | basicAuth | contentTypeJSON | hostCheck | originRefererCheck | csrf | cors | elapsed
  | gate (sets : List (Method × List ApiSet))
deriving DecidableEq, Repr

structure MwUse where
  mw : Mw
  cond : Cond
deriving DecidableEq, Repr

structure Route where
  path : String
  ver : Ver
  /-- outermost middleware first -/
  chain : List MwUse
deriving DecidableEq, Repr

/-- muxConfig, with the two values `hostCheck`/`originRefererCheck` derive from `host` at start-up -/
structure Cfg where
  host : String
  isLocalhost : Bool
  port : Nat
  whitelist : List String
  disableCSRF : Bool
  disableHeaderCheck : Bool
  enabled : List ApiSet
  username : String
  password : String
  /-- cors.Options.OptionsPassthrough -/
  corsPassthrough : Bool
deriving Repr

/-- `url.Parse` of a header value: empty header, parse error, or the URL's Host -/
inductive HdrURL | absent | bad | host (h : String)
deriving DecidableEq, Repr

/-- the X-CSRF-Token header value, analysed along the steps of `verifyCSRFToken` -/
structure Tok where
  /-- `strings.Split(token, ".")` has exactly two parts -/
  twoParts : Bool
  /-- the first part is RawURL-base64 -/
  b64ok : Bool
  /-- HMAC(secret of this node, payload) equals the second part: the token was issued by this node -/
  sigOK : Bool
  /-- payload unmarshals into CSRFToken -/
  jsonOK : Bool
  /-- ¬ time.Now().After(ExpiresAt) -/
  unexpired : Bool
  /-- no token has been issued by this node after this one (used by the DOCUMENTED rule only) -/
  latest : Bool
deriving DecidableEq, Repr

structure Req where
  method : Method
  /-- r.Host -/
  host : String
  origin : HdrURL
  referer : HdrURL
  /-- r.BasicAuth(): none when the header is missing or malformed -/
  creds : Option (String × String)
  tok : Tok
  /-- isContentTypeJSON(Content-Type) -/
  ctJSON : Bool
  /-- Access-Control-Request-Method header is non-empty -/
  acrm : Bool
deriving Repr

/-- why a request was refused; fixes the stage and the HTTP status -/
inductive Why
  | unauthorized        -- basicAuth 401
  | unsupportedMedia    -- ContentTypeJSONRequired 415
  | badHost             -- hostCheck 403 "Invalid Host"
  | badURL              -- originRefererCheck 403 "Invalid URL in Origin or Referer header"
  | badOrigin           -- originRefererCheck 403 "Invalid Origin or Referer"
  | csrfInvalid | csrfB64 | csrfSig | csrfJSON | csrfExpired   -- CSRFCheck 403 + verifyCSRFToken's error
  | csrfSuperseded      -- only in the documented rule: an earlier token after a newer one was issued
  | methodNotAllowed    -- forMethodAPISets 405
  | disabled            -- forMethodAPISets 403 "Endpoint is disabled"
deriving DecidableEq, Repr

def Why.status : Why → Nat
  | .unauthorized => 401
  | .unsupportedMedia => 415
  | .methodNotAllowed => 405
  | _ => 403

def Why.stage : Why → String
  | .unauthorized => "basicAuth"
  | .unsupportedMedia => "contentType"
  | .badHost => "host"
  | .badURL | .badOrigin => "origin"
  | .csrfInvalid | .csrfB64 | .csrfSig | .csrfJSON | .csrfExpired | .csrfSuperseded => "csrf"
  | .methodNotAllowed | .disabled => "gate"

def Why.detail : Why → String
  | .unauthorized => "-" | .unsupportedMedia => "-"
  | .badHost => "invalid-host" | .badURL => "invalid-url" | .badOrigin => "invalid-origin"
  | .csrfInvalid => "invalid" | .csrfB64 => "b64" | .csrfSig => "signature" | .csrfJSON => "json"
  | .csrfExpired => "expired" | .csrfSuperseded => "superseded"
  | .methodNotAllowed => "-" | .disabled => "disabled"

inductive Outcome
  | reach                 -- the endpoint's handler runs
  | refuse (w : Why)
  | preflight             -- rs/cors answers the CORS preflight itself (200), handler not run
deriving DecidableEq, Repr

def Outcome.str : Outcome → String
  | .reach => "reach"
  | .preflight => "refuse cors 200 preflight"
  | .refuse w => "refuse " ++ w.stage ++ " " ++ toString w.status ++ " " ++ w.detail

/-! ### the individual checks -/

/-- `verifyCSRFToken` in the code's order: format, base64, signature, JSON, expiry -/
def verifyCode (t : Tok) : Option Why :=
  if !t.twoParts then some .csrfInvalid
  else if !t.b64ok then some .csrfB64
  else if !t.sigOK then some .csrfSig
  else if !t.jsonOK then some .csrfJSON
  else if !t.unexpired then some .csrfExpired
  else none

/-- the DOCUMENTED rule ("Requesting a CSRF token invalidates any previous CSRF token"):
the code's checks and additionally the token must be the latest one issued -/
def verifyDoc (t : Tok) : Option Why :=
  match verifyCode t with
  | some w => some w
  | none => if t.latest then none else some .csrfSuperseded

def stateChanging : Method → Bool
  | .POST | .PUT | .DELETE => true
  | _ => false

/-- basicAuth as it should be: PAIRWISE comparison of username and password -/
def credsOK (cfg : Cfg) (req : Req) : Bool :=
  if cfg.username ≠ "" ∨ cfg.password ≠ "" then
    match req.creds with
    | none => false
    | some (u, p) => u == cfg.username && p == cfg.password
  else
    match req.creds with
    | none => true
    | some (u, p) => u == "" && p == ""

def loopbackNames (cfg : Cfg) : List String :=
  ["127.0.0.1:" ++ toString cfg.port, "localhost:" ++ toString cfg.port]

/-- hostCheck: only when the configured interface is a localhost address; empty Host passes -/
def hostOK (cfg : Cfg) (req : Req) : Bool :=
  !cfg.isLocalhost || req.host == "" || (cfg.whitelist ++ loopbackNames cfg).contains req.host

def originAllow (cfg : Cfg) : List String :=
  cfg.whitelist ++ (if cfg.isLocalhost then loopbackNames cfg else [cfg.host])

/-- Origin if non-empty, else Referer -/
def effectiveOrigin (req : Req) : HdrURL :=
  match req.origin with
  | .absent => req.referer
  | o => o

def originCheck (cfg : Cfg) (req : Req) : Option Why :=
  match effectiveOrigin req with
  | .absent => none
  | .bad => some .badURL
  | .host h => if (originAllow cfg).contains h then none else some .badOrigin

def isPreflight (req : Req) : Bool := req.method == .OPTIONS && req.acrm

def lookupSets (sets : List (Method × List ApiSet)) (m : Method) : List ApiSet :=
  match sets.lookup m with
  | some l => l
  | none => []

def gateCheck (cfg : Cfg) (sets : List (Method × List ApiSet)) (m : Method) : Option Why :=
  let l := lookupSets sets m
  if l.isEmpty then some .methodNotAllowed
  else if l.any (fun s => cfg.enabled.contains s) then none
  else some .disabled

/-- one middleware: `none` = calls the next handler -/
def mwStep (tokErr : Tok → Option Why) (cfg : Cfg) (_ver : Ver) (m : Mw) (req : Req) : Option Outcome :=
  match m with
  | .gzip => none
  | .elapsed => none
  | .basicAuth => if credsOK cfg req then none else some (.refuse .unauthorized)
  | .contentTypeJSON => if req.method == .POST && !req.ctJSON then some (.refuse .unsupportedMedia) else none
  | .hostCheck => if hostOK cfg req then none else some (.refuse .badHost)
  | .originRefererCheck => (originCheck cfg req).map .refuse
  | .csrf =>
      if cfg.disableCSRF then none
      else if stateChanging req.method then (tokErr req.tok).map .refuse else none
  | .cors => if isPreflight req && !cfg.corsPassthrough then some .preflight else none
  | .gate sets => (gateCheck cfg sets req.method).map .refuse
-- `_ver` only selects the error body format (text for v1, JSON for v2), not the status.

def active (cfg : Cfg) : Cond → Bool
  | .always => true
  | .unlessHeaderCheckDisabled => !cfg.disableHeaderCheck

def runChain (tokErr : Tok → Option Why) (cfg : Cfg) (ver : Ver) : List MwUse → Req → Outcome
  | [], _ => .reach
  | u :: rest, req =>
      if active cfg u.cond then
        match mwStep tokErr cfg ver u.mw req with
        | some o => o
        | none => runChain tokErr cfg ver rest req
      else runChain tokErr cfg ver rest req

/-- the decision of the server for a request routed to `r` -/
def decide (tokErr : Tok → Option Why) (cfg : Cfg) (r : Route) (req : Req) : Outcome :=
  runChain tokErr cfg r.ver r.chain req

/-! ### what a route's chain amounts to (read off the regenerated chain) -/

def Route.hasMw (r : Route) (m : Mw) (c : Cond) : Bool := r.chain.contains ⟨m, c⟩

def Route.gate? (r : Route) : Option (List (Method × List ApiSet)) :=
  r.chain.findSome? fun u => match u.mw with | .gate s => some s | _ => none

def Route.csrfChecked (r : Route) : Bool := r.hasMw .csrf .always

/-- the chain `webHandlerWithOptionals` is expected to build: gzip → basicAuth → [v2: JSON content type]
→ [host → origin/referer unless header check disabled] → [CSRF] → CORS → elapsed → [API-set gate] -/
def canonicalChain (ver : Ver) (csrf : Bool) (gate : Option (List (Method × List ApiSet))) : List MwUse :=
  [⟨.gzip, .always⟩, ⟨.basicAuth, .always⟩]
  ++ (if ver = .v2 then [⟨.contentTypeJSON, .always⟩] else [])
  ++ [⟨.hostCheck, .unlessHeaderCheckDisabled⟩, ⟨.originRefererCheck, .unlessHeaderCheckDisabled⟩]
  ++ (if csrf then [⟨.csrf, .always⟩] else [])
  ++ [⟨.cors, .always⟩, ⟨.elapsed, .always⟩]
  ++ (match gate with | some s => [⟨.gate s, .always⟩] | none => [])

/-- SPECIFICATION: the status-code precedence written out by hand, independent of the chain order.
`csrf` = the route is CSRF-protected, `gate` = its method → API-set table (none: always enabled). -/
def specDecide (tokErr : Tok → Option Why) (cfg : Cfg) (ver : Ver) (csrf : Bool)
    (gate : Option (List (Method × List ApiSet))) (req : Req) : Outcome :=
  if !credsOK cfg req then .refuse .unauthorized
  else if ver == .v2 && req.method == .POST && !req.ctJSON then .refuse .unsupportedMedia
  else if !cfg.disableHeaderCheck && !hostOK cfg req then .refuse .badHost
  else match (if cfg.disableHeaderCheck then none else originCheck cfg req) with
  | some w => .refuse w
  | none =>
    match (if csrf && !cfg.disableCSRF && stateChanging req.method then tokErr req.tok else none) with
    | some w => .refuse w
    | none =>
      if isPreflight req && !cfg.corsPassthrough then .preflight
      else match gate with
      | none => .reach
      | some s => match gateCheck cfg s req.method with
        | some w => .refuse w
        | none => .reach

/-! ### token life cycle (for the "a new token invalidates earlier ones" clause) -/

/-- a token payload: random nonce and expiry time -/
structure Payload where
  nonce : Nat
  expiresAt : Nat
deriving DecidableEq, Repr

/-- a presented token: payload and signature (`σ` = signature values) -/
structure Token (σ : Type) where
  payload : Payload
  sig : σ

/-- the node's token state as the CODE keeps it: nothing but the secret key (inside `mac`).
`issued` is the ghost history of payloads handed out, most recent first. -/
structure TokState where
  issued : List Payload
deriving Repr

def TokState.issue (s : TokState) (p : Payload) : TokState := ⟨p :: s.issued⟩

/-- `verifyCSRFToken` on a well-formed token: signature then expiry.  It does not read the state. -/
def verifyToken {σ} [DecidableEq σ] (mac : Payload → σ) (_s : TokState) (now : Nat) (t : Token σ) : Bool :=
  t.sig == mac t.payload && !(now > t.payload.expiresAt)

/-- FULL documented statement: once a new token has been issued, every earlier token is refused. -/
def TokenFresh {σ} (verify : TokState → Nat → Token σ → Bool) (mac : Payload → σ) : Prop :=
  ∀ (s : TokState) (old new : Payload) (now : Nat), old ∈ s.issued → new ≠ old →
    verify (s.issue new) now ⟨old, mac old⟩ = false

/-! ### tokens as byte strings (what an attacker can actually send)

`base64url(payload) "." base64url(sig)`.  SPECIFICATION of the issuing side: `sig = mac key payload`
(`mac` = HMAC-SHA256, a parameter here, the executable `Sky.Hash.hmacSha256` in the driver); of the
verifying side: accept iff `sig = mac key payload` and the payload's expiry has not passed. -/

structure RawToken where
  payload : List Nat
  sig : List Nat
deriving DecidableEq, Repr

/-- the token the node must hand out for a payload -/
def issueSpec (mac : List Nat → List Nat → List Nat) (key payload : List Nat) : RawToken :=
  ⟨payload, mac key payload⟩

/-- verdict on a presented two-part, base64-clean token whose payload is valid JSON -/
def rawVerify (mac : List Nat → List Nat → List Nat) (key : List Nat) (expired : Bool) (t : RawToken) : Option Why :=
  if t.sig ≠ mac key t.payload then some .csrfSig
  else if expired then some .csrfExpired
  else none

end Sky.C27
