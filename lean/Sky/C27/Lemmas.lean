/- helper lemmas for Sky.Props.C27 (core Lean only) -/
import Sky.C27.Model
import Sky.Gen.Routes
namespace Sky.C27

theorem verifyCode_none_iff {t : Tok} :
    verifyCode t = none ↔ t.twoParts = true ∧ t.b64ok = true ∧ t.sigOK = true ∧ t.jsonOK = true ∧ t.unexpired = true := by
  unfold verifyCode
  cases t.twoParts <;> cases t.b64ok <;> cases t.sigOK <;> cases t.jsonOK <;> cases t.unexpired <;> simp

theorem credsOK_pairwise (cfg : Cfg) (req : Req) (hcfg : cfg.username ≠ "" ∨ cfg.password ≠ "")
    (h : credsOK cfg req = true) : req.creds = some (cfg.username, cfg.password) := by
  unfold credsOK at h
  rw [if_pos hcfg] at h
  cases hc : req.creds with
  | none => rw [hc] at h; cases h
  | some up =>
    obtain ⟨u, p⟩ := up
    rw [hc] at h
    simp only [Bool.and_eq_true, beq_iff_eq] at h
    rw [h.1, h.2]

theorem run_canonical_eq_spec (tokErr : Tok → Option Why) (cfg : Cfg) (ver : Ver) (csrf : Bool)
    (gate : Option (List (Method × List ApiSet))) (req : Req) :
    runChain tokErr cfg ver (canonicalChain ver csrf gate) req = specDecide tokErr cfg ver csrf gate req := by
  cases ver <;> cases csrf <;> cases gate <;>
    cases hH : cfg.disableHeaderCheck <;>
    cases hC : credsOK cfg req <;>
    simp [canonicalChain, runChain, mwStep, active, specDecide, hH, hC] <;>
    (try cases hHo : hostOK cfg req <;> simp) <;>
    (try cases hO : originCheck cfg req <;> simp) <;>
    (try cases hD : cfg.disableCSRF <;> simp) <;>
    (try cases hS : stateChanging req.method <;> simp) <;>
    (try cases hT : tokErr req.tok <;> simp) <;>
    (try cases hP : isPreflight req <;> simp) <;>
    (try cases hX : cfg.corsPassthrough <;> simp) <;>
    (try (cases hG : gateCheck cfg _ req.method <;> simp)) <;>
    (try (split <;> simp_all))

theorem gateCheck_none_iff (cfg : Cfg) (s : List (Method × List ApiSet)) (m : Method) :
    gateCheck cfg s m = none ↔ lookupSets s m ≠ [] ∧ ∃ a ∈ lookupSets s m, a ∈ cfg.enabled := by
  unfold gateCheck
  simp only []
  cases h : lookupSets s m with
  | nil => simp
  | cons x xs =>
    simp only [List.isEmpty_cons, Bool.false_eq_true, if_false]
    by_cases hany : (x :: xs).any (fun s => cfg.enabled.contains s) = true
    · simp only [hany, if_true, true_iff]
      refine ⟨by simp, ?_⟩
      rw [List.any_eq_true] at hany
      obtain ⟨a, ha, hc⟩ := hany
      exact ⟨a, ha, by simpa using hc⟩
    · simp only [hany]
      simp only [Bool.false_eq_true, if_false]
      constructor
      · intro h; cases h
      rintro ⟨_, a, ha, hc⟩
      exfalso
      apply hany
      rw [List.any_eq_true]
      exact ⟨a, ha, by simpa using hc⟩

theorem spec_reach_iff (tokErr : Tok → Option Why) (cfg : Cfg) (ver : Ver) (csrf : Bool)
    (gate : Option (List (Method × List ApiSet))) (req : Req) :
    specDecide tokErr cfg ver csrf gate req = .reach ↔
      (match gate with | none => True | some s => lookupSets s req.method ≠ []) ∧
      (match gate with | none => True | some s => ∃ a ∈ lookupSets s req.method, a ∈ cfg.enabled) ∧
      (csrf = true → cfg.disableCSRF = false → stateChanging req.method = true → tokErr req.tok = none) ∧
      (cfg.disableHeaderCheck = false → hostOK cfg req = true ∧ originCheck cfg req = none) ∧
      credsOK cfg req = true ∧
      (ver = .v2 → req.method = .POST → req.ctJSON = true) ∧
      ¬ (isPreflight req = true ∧ cfg.corsPassthrough = false) := by
  cases gate with
  | none =>
    cases ver <;> cases csrf <;>
    cases hH : cfg.disableHeaderCheck <;>
    cases hC : credsOK cfg req <;>
    simp [specDecide, hH, hC] <;>
    (try cases hHo : hostOK cfg req <;> simp) <;>
    (try cases hO : originCheck cfg req <;> simp) <;>
    (try cases hD : cfg.disableCSRF <;> simp) <;>
    (try cases hS : stateChanging req.method <;> simp) <;>
    (try cases hT : tokErr req.tok <;> simp) <;>
    (try cases hP : isPreflight req <;> simp) <;>
    (try cases hX : cfg.corsPassthrough <;> simp) <;>
    (try (split <;> simp_all))
  | some s =>
    have hg := gateCheck_none_iff cfg s req.method
    cases hG : gateCheck cfg s req.method with
    | none =>
      have ⟨h1, h2⟩ := hg.1 hG
      cases ver <;> cases csrf <;>
      cases hH : cfg.disableHeaderCheck <;>
      cases hC : credsOK cfg req <;>
      simp [specDecide, hH, hC, hG, h1, h2] <;>
      (try cases hHo : hostOK cfg req <;> simp) <;>
      (try cases hO : originCheck cfg req <;> simp) <;>
      (try cases hD : cfg.disableCSRF <;> simp) <;>
      (try cases hS : stateChanging req.method <;> simp) <;>
      (try cases hT : tokErr req.tok <;> simp) <;>
      (try cases hP : isPreflight req <;> simp) <;>
      (try cases hX : cfg.corsPassthrough <;> simp) <;>
      (try (split <;> simp_all))
    | some w =>
      have hn : ¬ (lookupSets s req.method ≠ [] ∧ ∃ a ∈ lookupSets s req.method, a ∈ cfg.enabled) := by
        intro h; rw [hg.2 h] at hG; cases hG
      constructor
      · intro h
        exfalso
        unfold specDecide at h
        simp only [hG] at h
        repeat' split at h
        all_goals first | cases h | skip
      · rintro ⟨h1, h2, _⟩; exact absurd ⟨h1, h2⟩ hn

theorem spec_gate (tokErr : Tok → Option Why) (cfg : Cfg) (ver : Ver) (csrf : Bool)
    (s : List (Method × List ApiSet)) (req : Req)
    (hpass : specDecide tokErr cfg ver csrf none req = .reach) :
    specDecide tokErr cfg ver csrf (some s) req =
      (if (lookupSets s req.method).isEmpty then .refuse .methodNotAllowed
       else if (lookupSets s req.method).any (fun a => cfg.enabled.contains a) then .reach
       else .refuse .disabled) := by
  unfold specDecide at hpass ⊢
  split at hpass; · cases hpass
  split at hpass; · cases hpass
  split at hpass; · cases hpass
  split at hpass; · cases hpass
  split at hpass; · cases hpass
  split at hpass; · cases hpass
  simp only [*]
  simp only [Bool.false_eq_true, if_false]
  unfold gateCheck
  simp only []
  split <;> rename_i hg <;> repeat' split at hg
  all_goals simp_all

end Sky.C27
