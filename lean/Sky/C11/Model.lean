/-
  C11 — hand model of the soft-constraint path (core Lean only):
    transaction.VerifySingleTxnSoftConstraints / verifyTxnSoftConstraints   (src/transaction/verify.go)
    fee.TransactionFee / fee.VerifyTransactionFee                           (src/util/fee/fee.go)
    coin.UxArray.CoinHours / coin.Transaction.OutputHours / Transaction.Size
    transaction.TransactionIsLocked + params.Distribution.LockedAddresses
    the soft / hard error wrappers and their combination in Blockchain.VerifySingleTxnSoftHardConstraints
  The integer primitives (UxOut.CoinHours, mathutil.AddUint64, fee.VerifyTransactionFeeForHours,
  params.DropletPrecisionCheck) are PARAMETERS (`Prims`): the theorems instantiate them with the
  definitions regenerated from the Go source, the driver with their specifications.
-/
import Sky.Prim.Res
import Sky.C31.Spec
namespace Sky.C11
open Sky

/-- an unspent output being spent: what the soft rules look at -/
structure In where
  coins : Nat
  hours : Nat
  time : Nat
  addr : Option Nat     -- index of its address in the distribution list; none = any other address
deriving DecidableEq, Repr

structure Out where
  coins : Nat
  hours : Nat
deriving DecidableEq, Repr

/-- params.VerifyTxn -/
structure Params where
  maxSize : Nat
  burn : Nat
  prec : Nat

/-- params.Distribution, as far as TransactionIsLocked reads it -/
structure Dist where
  n : Nat           -- number of distribution addresses
  unlocked : Nat    -- InitialUnlockedCount

structure Prims where
  coinHours : Nat → Nat → Nat → Nat → Res Nat     -- coins hours time headTime
  addU64 : Nat → Nat → Res Nat
  verifyFee : Nat → Nat → Nat → Res Unit          -- hours fee burnFactor
  precisionCheck : Nat → Nat → Res Unit           -- precision amount

def ovfErr : Err := .other ""

/-- `coin.UxArray.CoinHours(headTime)` continued from the running total `acc` -/
def inputHours (P : Prims) (t : Nat) : List In → Nat → Res Nat
  | [], acc => .ok acc
  | i :: r, acc =>
    match P.coinHours i.coins i.hours i.time t with
    | .panic p => .panic p
    | .err e => .err e                       -- returned as is
    | .ok h =>
      match P.addU64 acc h with
      | .panic p => .panic p
      | .err _ => .err ovfErr                -- errors.New("UxArray.CoinHours addition overflow")
      | .ok s => inputHours P t r s

/-- `coin.Transaction.OutputHours()` continued from `acc` -/
def outputHours (P : Prims) : List Out → Nat → Res Nat
  | [], acc => .ok acc
  | o :: r, acc =>
    match P.addU64 acc o.hours with
    | .panic p => .panic p
    | .err _ => .err ovfErr                  -- errors.New("Transaction output hours overflow")
    | .ok s => outputHours P r s

/-- `fee.TransactionFee` -/
def transactionFee (P : Prims) (t : Nat) (ins : List In) (outs : List Out) : Res Nat :=
  match inputHours P t ins 0 with
  | .panic p => .panic p
  | .err e => .err e
  | .ok hin =>
    match outputHours P outs 0 with
    | .panic p => .panic p
    | .err e => .err e
    | .ok hout =>
      if hin < hout then .err (.named "ErrTxnInsufficientCoinHours") else .ok (sub64 hin hout)

/-- `fee.VerifyTransactionFee` -/
def verifyTransactionFee (P : Prims) (outs : List Out) (fee burn : Nat) : Res Unit :=
  match outputHours P outs 0 with
  | .panic p => .panic p
  | .err e => .err e
  | .ok hours => P.verifyFee hours fee burn

/-- whether any input is owned by a still-locked distribution address (`Addresses[InitialUnlockedCount:]`) -/
def spendsLocked (d : Dist) (ins : List In) : Bool :=
  ins.any fun i => match i.addr with
    | some k => d.unlocked ≤ k && k < d.n
    | none => false

/-- `TransactionIsLocked`: `LockedAddresses()` panics when InitialUnlockedCount exceeds the number
of addresses -/
def isLocked (d : Dist) (ins : List In) : Res Bool :=
  if d.n < d.unlocked then .panic "numLocked" else .ok (spendsLocked d ins)

def precisionAll (P : Prims) (prec : Nat) : List Out → Res Unit
  | [] => .ok ()
  | o :: r =>
    match P.precisionCheck prec o.coins with
    | .panic p => .panic p
    | .err e => .err e
    | .ok () => precisionAll P prec r

/-- `Transaction.Size()`: the encoder refuses more than 65535 signatures / inputs / outputs;
otherwise 4+1+32 header bytes, a 4-byte length per list, 65 bytes per signature, 32 per input,
21+8+8 per output (always < 2^32 here). -/
def txnSize (nsigs nins nouts : Nat) : Res Nat :=
  if nsigs > 65535 ∨ nins > 65535 ∨ nouts > 65535 then .err (.other "maxlen")
  else .ok (49 + 65 * nsigs + 32 * nins + 37 * nouts)

/-- `verifyTxnSoftConstraints`, in the code's order of checks -/
def verifySoft (P : Prims) (size : Res Nat) (pr : Params) (d : Dist) (t : Nat)
    (ins : List In) (outs : List Out) : Res Unit :=
  match size with
  | .panic p => .panic p
  | .err _ => .err (.named "ErrTxnExceedsMaxBlockSize")
  | .ok sz =>
    if sz > pr.maxSize then .err (.named "ErrTxnExceedsMaxBlockSize") else
    match transactionFee P t ins outs with
    | .panic p => .panic p
    | .err e => .err e
    | .ok f =>
      match verifyTransactionFee P outs f pr.burn with
      | .panic p => .panic p
      | .err e => .err e
      | .ok () =>
        match isLocked d ins with
        | .panic p => .panic p
        | .err e => .err e
        | .ok true => .err (.named "ErrTxnIsLocked")
        | .ok false => precisionAll P pr.prec outs

/-- how a verification outcome is reported -/
inductive Report where
  | ok
  | soft (e : Err)     -- ErrTxnViolatesSoftConstraint{e}
  | hard (e : Err)     -- ErrTxnViolatesHardConstraint{e}
  | panic
deriving DecidableEq, Repr

/-- `VerifySingleTxnSoftConstraints`: every error of the soft rules is wrapped as soft -/
def wrapSoft : Res Unit → Report
  | .ok () => .ok
  | .err e => .soft e
  | .panic _ => .panic

/-- `VerifySingleTxnHardConstraints` / `NewErrTxnViolatesHardConstraint` -/
def wrapHard : Res Unit → Report
  | .ok () => .ok
  | .err e => .hard e
  | .panic _ => .panic

/-- `Blockchain.VerifySingleTxnSoftHardConstraints`: hard rules first; the soft rules are only
consulted when the hard rules pass.  `hard` is the outcome of the (unwrapped) hard rules. -/
def verifySoftHard (hard : Res Unit) (soft : Res Unit) : Report :=
  match wrapHard hard with
  | .ok => wrapSoft soft
  | v => v

/-! ### specification-level primitives (what the C31 theorems prove the regenerated code equal to) -/

def specPrecisionCheck (prec amount : Nat) : Res Unit :=
  if prec > 6 then .panic "explicit"
  else if amount % 10 ^ (6 - prec) ≠ 0 then .err (.named "ErrInvalidDecimals") else .ok ()

def specPrims : Prims where
  coinHours := Sky.C31.specCoinHours
  addU64 := Sky.C31.specAddU64
  verifyFee := Sky.C31.specVerifyFee
  precisionCheck := specPrecisionCheck

end Sky.C11
