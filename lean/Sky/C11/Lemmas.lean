/-
  C11 — lemmas: closed forms of the model's hour sums over the specification primitives, the
  regenerated precision functions against their specification, and agreement of the regenerated
  primitives with the specification primitives (from the C31 theorems).
-/
import Sky.C11.Model
import Sky.Props.C31
import Sky.Gen.Droplet
namespace Sky.C11
open Sky Sky.C31 Sky.Props.C31 Sky.Gen.Mathutil Sky.Gen.Fee Sky.Gen.CoinHours Sky.Gen.Droplet

/-! ### the regenerated precision rule -/

theorem iterate_mul10 : ∀ n, n ≤ 6 → Nat.repeat (fun i => wrap64 (i * 10)) n 1 = 10 ^ n := by
  intro n hn
  have : n = 0 ∨ n = 1 ∨ n = 2 ∨ n = 3 ∨ n = 4 ∨ n = 5 ∨ n = 6 := by omega
  rcases this with h | h | h | h | h | h | h <;> subst h <;> decide

/-- `DropletPrecisionToDivisor p = 10^(6−p)`; it panics for a precision above 6 -/
theorem divisor_spec (p : Nat) (hp : p < 256) :
    DropletPrecisionToDivisor p = if p > 6 then .panic "explicit" else .ok (10 ^ (6 - p)) := by
  unfold DropletPrecisionToDivisor
  by_cases h : p > 6
  · simp [h]
  · simp only [h, if_false]
    have hs : sub8 6 p = 6 - p := by unfold sub8; omega
    rw [hs, iterate_mul10 (6 - p) (by omega)]

theorem precision_spec (p a : Nat) (hp : p < 256) :
    DropletPrecisionCheck p a = specPrecisionCheck p a := by
  unfold DropletPrecisionCheck specPrecisionCheck
  rw [divisor_spec p hp]
  by_cases h : p > 6
  · simp [h]
  · simp only [h, if_false]
    have hpos : 10 ^ (6 - p) ≠ 0 := Nat.ne_of_gt (Nat.pow_pos (by decide))
    simp only [hpos, if_false]

/-! ### the regenerated primitives -/

def genPrims : Prims where
  coinHours c h tm t := (UxOut_CoinHours c h tm t).canon
  addU64 := AddUint64
  verifyFee h f b := (VerifyTransactionFeeForHours h f b).canon
  precisionCheck := DropletPrecisionCheck

def InsInRange (ins : List In) : Prop := ∀ i ∈ ins, i.coins < 2^64 ∧ i.hours < 2^64 ∧ i.time < 2^64
def OutsInRange (outs : List Out) : Prop := ∀ o ∈ outs, o.coins < 2^64 ∧ o.hours < 2^64

theorem specAddU64_lt {a b s : Nat} (h : specAddU64 a b = .ok s) : s < 2^64 := by
  unfold specAddU64 at h; split at h
  · cases h; assumption
  · cases h

theorem specCoinHours_lt {c h tm t s : Nat} (hh : h < 2^64) (hs : specCoinHours c h tm t = .ok s) : s < 2^64 := by
  unfold specCoinHours at hs
  split at hs
  · cases hs; exact hh
  · simp only at hs
    repeat (split at hs <;> try cases hs)
    omega

theorem inputHours_gen_eq (t : Nat) (ht : t < 2^64) :
    ∀ (ins : List In) (acc : Nat), InsInRange ins → acc < 2^64 →
      inputHours genPrims t ins acc = inputHours specPrims t ins acc
  | [], _, _, _ => rfl
  | i :: r, acc, hr, hacc => by
    obtain ⟨hc, hh, htm⟩ := hr i (List.mem_cons_self ..)
    have hch : genPrims.coinHours i.coins i.hours i.time t = specPrims.coinHours i.coins i.hours i.time t :=
      coinHours_spec i.coins i.hours i.time t hc hh htm ht
    unfold inputHours
    rw [hch]
    cases hs : specPrims.coinHours i.coins i.hours i.time t with
    | panic p => rfl
    | err e => rfl
    | ok h =>
      have hh' : h < 2^64 := specCoinHours_lt hh hs
      have hadd : genPrims.addU64 acc h = specPrims.addU64 acc h := addU64_spec acc h hacc hh'
      simp only [hadd]
      cases ha : specPrims.addU64 acc h with
      | panic p => rfl
      | err e => rfl
      | ok s =>
        exact inputHours_gen_eq t ht r s (fun x hx => hr x (List.mem_cons_of_mem _ hx)) (specAddU64_lt ha)

theorem outputHours_gen_eq :
    ∀ (outs : List Out) (acc : Nat), OutsInRange outs → acc < 2^64 →
      outputHours genPrims outs acc = outputHours specPrims outs acc
  | [], _, _, _ => rfl
  | o :: r, acc, hr, hacc => by
    obtain ⟨_, hh⟩ := hr o (List.mem_cons_self ..)
    have hadd : genPrims.addU64 acc o.hours = specPrims.addU64 acc o.hours := addU64_spec acc o.hours hacc hh
    unfold outputHours
    rw [hadd]
    cases ha : specPrims.addU64 acc o.hours with
    | panic p => rfl
    | err e => rfl
    | ok s =>
      exact outputHours_gen_eq r s (fun x hx => hr x (List.mem_cons_of_mem _ hx)) (specAddU64_lt ha)

theorem precisionAll_gen_eq (prec : Nat) (hp : prec < 256) :
    ∀ outs : List Out, precisionAll genPrims prec outs = precisionAll specPrims prec outs
  | [] => rfl
  | o :: r => by
    unfold precisionAll
    have : genPrims.precisionCheck prec o.coins = specPrims.precisionCheck prec o.coins := precision_spec prec o.coins hp
    rw [this, precisionAll_gen_eq prec hp r]

/-! ### closed forms over the specification primitives -/

def sumOut (outs : List Out) : Nat := (outs.map (·.hours)).sum

theorem sumOut_cons (o : Out) (r : List Out) : sumOut (o :: r) = o.hours + sumOut r := by
  simp [sumOut]

/-- `OutputHours` succeeds exactly when the plain sum fits in 64 bits, and then returns it -/
theorem outputHours_spec : ∀ (outs : List Out) (acc : Nat), acc < 2^64 →
    outputHours specPrims outs acc =
      if acc + sumOut outs < 2^64 then .ok (acc + sumOut outs) else .err ovfErr
  | [], acc, hacc => by
    simp only [outputHours, sumOut, List.map_nil, List.sum_nil, Nat.add_zero]
    rw [if_pos hacc]
  | o :: r, acc, hacc => by
    simp only [outputHours, specPrims, specAddU64]
    rw [sumOut_cons]
    by_cases h : acc + o.hours < 2^64
    · simp only [h, if_true]
      have := outputHours_spec r (acc + o.hours) h
      simp only [specPrims] at this
      rw [this, Nat.add_assoc]
    · simp only [h, if_false]
      rw [if_neg (by omega)]

/-- the accrued hours of every input are defined, and are `hs` -/
def HoursAre (t : Nat) (ins : List In) (hs : List Nat) : Prop :=
  ins.map (fun i => specCoinHours i.coins i.hours i.time t) = hs.map Res.ok

/-- `UxArray.CoinHours` succeeds exactly when every input's accrued hours are defined and their plain
sum fits in 64 bits, and then returns that sum -/
theorem inputHours_ok_iff (t : Nat) : ∀ (ins : List In) (acc s : Nat), acc < 2^64 →
    (inputHours specPrims t ins acc = .ok s ↔
      ∃ hs, HoursAre t ins hs ∧ s = acc + hs.sum ∧ s < 2^64)
  | [], acc, s, hacc => by
    simp only [inputHours, HoursAre, List.map_nil]
    constructor
    · intro h; cases h; exact ⟨[], rfl, by simp, hacc⟩
    · rintro ⟨hs, hf, hs2, _⟩
      have : hs = [] := by cases hs with | nil => rfl | cons x r => simp at hf
      subst this; simp at hs2; rw [hs2]
  | i :: r, acc, s, hacc => by
    simp only [inputHours, specPrims]
    cases hc : specCoinHours i.coins i.hours i.time t with
    | panic p =>
      simp only []
      constructor
      · intro h; cases h
      · rintro ⟨hs, hf, _⟩
        cases hs with
        | nil => simp [HoursAre] at hf
        | cons x xs => simp [HoursAre, hc] at hf
    | err e =>
      simp only []
      constructor
      · intro h; cases h
      · rintro ⟨hs, hf, _⟩
        cases hs with
        | nil => simp [HoursAre] at hf
        | cons x xs => simp [HoursAre, hc] at hf
    | ok h =>
      simp only [specAddU64]
      by_cases hlt : acc + h < 2^64
      · simp only [hlt, if_true]
        have ih := inputHours_ok_iff t r (acc + h) s hlt
        simp only [specPrims] at ih
        rw [ih]
        constructor
        · rintro ⟨hs, hf, hs2, hs3⟩
          refine ⟨h :: hs, ?_, by simp [hs2, Nat.add_assoc], hs3⟩
          simp only [HoursAre, List.map_cons, hc] at hf ⊢
          rw [hf]
        · rintro ⟨hs, hf, hs2, hs3⟩
          cases hs with
          | nil => simp [HoursAre] at hf
          | cons x xs =>
            simp only [HoursAre, List.map_cons, hc, List.cons.injEq, Res.ok.injEq] at hf
            obtain ⟨rfl, hf'⟩ := hf
            exact ⟨xs, hf', by simp [hs2, Nat.add_assoc], hs3⟩
      · simp only [hlt, if_false]
        constructor
        · intro h'; cases h'
        · rintro ⟨hs, hf, hs2, hs3⟩
          cases hs with
          | nil => simp [HoursAre] at hf
          | cons x xs =>
            simp only [HoursAre, List.map_cons, hc, List.cons.injEq, Res.ok.injEq] at hf
            obtain ⟨rfl, _⟩ := hf
            simp at hs2; omega

/-! ### closed forms of the fee path -/

theorem transactionFee_closed (t : Nat) (ins : List In) (outs : List Out) (hs : List Nat)
    (hh : HoursAre t ins hs) (hfit : hs.sum < 2^64) :
    transactionFee specPrims t ins outs =
      if ¬ sumOut outs < 2^64 then .err ovfErr
      else if hs.sum < sumOut outs then .err (.named "ErrTxnInsufficientCoinHours")
      else .ok (hs.sum - sumOut outs) := by
  have h0 : (0 : Nat) < 2^64 := Nat.two_pow_pos 64
  have hI : inputHours specPrims t ins 0 = .ok hs.sum :=
    (inputHours_ok_iff t ins 0 hs.sum h0).2 ⟨hs, hh, by simp, hfit⟩
  unfold transactionFee
  rw [hI, outputHours_spec outs 0 h0, Nat.zero_add]
  by_cases h2 : sumOut outs < 2^64
  · rw [if_pos h2, if_neg (fun hn => hn h2)]
    dsimp only
    by_cases h3 : hs.sum < sumOut outs
    · rw [if_pos h3, if_pos h3]
    · rw [if_neg h3, if_neg h3]
      congr 1; unfold sub64; omega
  · rw [if_neg h2, if_pos h2]

theorem verifyTransactionFee_closed (outs : List Out) (f burn : Nat) :
    verifyTransactionFee specPrims outs f burn =
      if ¬ sumOut outs < 2^64 then .err ovfErr else specVerifyFee (sumOut outs) f burn := by
  unfold verifyTransactionFee
  rw [outputHours_spec outs 0 (Nat.two_pow_pos 64), Nat.zero_add]
  by_cases h2 : sumOut outs < 2^64
  · rw [if_pos h2, if_neg (fun hn => hn h2)]; rfl
  · rw [if_neg h2, if_pos h2]

theorem specVerifyFee_closed (hin hout burn : Nat) (hle : hout ≤ hin) (hfit : hin < 2^64) (hb : 2 ≤ burn) :
    specVerifyFee hout (hin - hout) burn =
      if hin - hout = 0 then .err (.named "ErrTxnNoFee")
      else if hin - hout < ceilDiv hin burn then .err (.named "ErrTxnInsufficientFee")
      else .ok () := by
  unfold specVerifyFee
  have htot : hout + (hin - hout) = hin := by omega
  by_cases h4 : hin - hout = 0
  · rw [if_pos h4, if_pos h4]
  · rw [if_neg h4, if_neg h4, htot, if_neg (by omega), if_neg (by omega)]

theorem isLocked_closed (d : Dist) (ins : List In) (hd : d.unlocked ≤ d.n) :
    isLocked d ins = .ok (spendsLocked d ins) := by
  unfold isLocked; rw [if_neg (by omega)]

theorem precisionAll_ok_iff (prec : Nat) (hp : prec ≤ 6) : ∀ outs : List Out,
    precisionAll specPrims prec outs = .ok () ↔ ∀ o ∈ outs, o.coins % 10 ^ (6 - prec) = 0
  | [] => by simp [precisionAll]
  | o :: r => by
    simp only [precisionAll, specPrims, specPrecisionCheck, show ¬ prec > 6 by omega, if_false]
    by_cases h : o.coins % 10 ^ (6 - prec) = 0
    · simp only [h, ne_eq, not_true, if_false]
      have ih := precisionAll_ok_iff prec hp r
      simp only [specPrims] at ih
      rw [ih]
      simp [h]
    · simp only [h, ne_eq, not_false_eq_true, if_true]
      constructor
      · intro hc; cases hc
      · intro hall; exact absurd (hall o (List.mem_cons_self ..)) h

/-- a precision failure is reported as ErrInvalidDecimals (never anything else, never a panic) -/
theorem precisionAll_cases (prec : Nat) (hp : prec ≤ 6) : ∀ outs : List Out,
    precisionAll specPrims prec outs = .ok () ∨
    precisionAll specPrims prec outs = .err (.named "ErrInvalidDecimals")
  | [] => Or.inl rfl
  | o :: r => by
    simp only [precisionAll, specPrims, specPrecisionCheck, show ¬ prec > 6 by omega, if_false]
    by_cases h : o.coins % 10 ^ (6 - prec) = 0
    · simp only [h, ne_eq, not_true, if_false]
      have ih := precisionAll_cases prec hp r
      simp only [specPrims] at ih
      exact ih
    · simp [h]

end Sky.C11
