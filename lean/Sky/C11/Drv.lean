/- C11 driver: answers each op line from the hand model over the SPECIFICATION primitives (core only). -/
import Sky.Prim.DrvLib
import Sky.C11.Model
namespace Sky.C11
open Sky Sky.Drv

def parseIn (s : String) : Option In :=
  match s.splitOn ":" with
  | [c, h, t, a] => do
      let c ← nat? c; let h ← nat? h; let t ← nat? t
      pure ⟨c, h, t, if a == "x" then none else nat? a⟩
  | _ => none

def parseOut (s : String) : Option Out :=
  match s.splitOn ":" with
  | [c, h] => do let c ← nat? c; let h ← nat? h; pure ⟨c, h⟩
  | _ => none

def parseList {α} (f : String → Option α) (s : String) : Option (List α) :=
  if s == "-" then some [] else (s.splitOn ";").mapM f

def showVerdict : Report → String
  | .ok => "ok"
  | .soft e => "soft " ++ e.toString
  | .hard e => "hard " ++ e.toString
  | .panic => "panic"

structure Case where
  pr : Params
  d : Dist
  t : Nat
  nsigs : Nat
  ins : List In
  outs : List Out

/-- "<maxSize> <burn> <prec> <headTime> <n>:<unlocked> <nsigs> <ins> <outs>" -/
def parseCase (f : List String) : Option Case :=
  match f with
  | [ms, b, p, t, dist, ns, ins, outs] => do
      let ms ← nat? ms; let b ← nat? b; let p ← nat? p; let t ← nat? t; let ns ← nat? ns
      let (dn, du) ← (match dist.splitOn ":" with
        | [a, c] => do let a ← nat? a; let c ← nat? c; pure (a, c)
        | _ => none)
      let ins ← parseList parseIn ins
      let outs ← parseList parseOut outs
      pure ⟨⟨ms, b, p⟩, ⟨dn, du⟩, t, ns, ins, outs⟩
  | _ => none

def Case.soft (c : Case) : Res Unit :=
  verifySoft specPrims (txnSize c.nsigs c.ins.length c.outs.length) c.pr c.d c.t c.ins c.outs

def step (op impl : String) : String × Verdict :=
  match op.splitOn " " with
  | "Soft" :: rest =>
      match parseCase rest with
      | some c =>
          let m := showVerdict (wrapSoft c.soft)
          -- the property fixes accept/reject and the class (soft); which soft rule is named first is the
          -- model's business: a different soft error is a model/code difference, not a property failure
          let v : Verdict := if m.startsWith "soft " && impl.startsWith "soft " then .hold else .fail
          (m, v)
      | none => ("bad-op", .unknown)
  | ["Size", ns, ni, no] =>
      match nat? ns, nat? ni, nat? no with
      | some ns, some ni, some no => (showRes toString (txnSize ns ni no), .unknown)
      | _, _, _ => ("bad-op", .unknown)
  | ["Precision", p, a] =>
      match nat? p, nat? a with
      | some p, some a => (showRes (fun _ => "") (specPrecisionCheck p a), .fail)
      | _, _ => ("bad-op", .unknown)
  | ["live_new", _] | ["reset"] | ["live_block"] => (normImpl impl, .unknown)
  | ["live_inject", _kind, user, hard, _from, _to] =>
      -- impl: "<verdict> | <case fields>" — the case data is read back from the implementation
      match impl.splitOn " | " with
      | [_, data] =>
          match parseCase (data.splitOn " ") with
          | some c =>
              let v := if user == "1" then "user"
                       else if hard == "1" then "hard"
                       else match verifySoftHard (.ok ()) c.soft with
                         | .ok => "ok" | .soft e => "soft " ++ e.toString
                         | .hard _ => "hard" | .panic => "panic"
              let verdict : Verdict := if v.startsWith "soft " && impl.startsWith "soft " then .hold else .fail
              (v ++ " | " ++ data, verdict)
          | none => ("bad-data", .unknown)
      | _ => (normImpl impl, .unknown)
  | _ => ("bad-op", .unknown)

end Sky.C11

def main : IO Unit := Sky.Drv.loopPure Sky.C11.step
