/-
  Sky.C26.Check — the C26 predicates (decidable; evaluated by the driver on the implementation's
  dumped peer list, and the statements of the theorems in Sky.Props.C26).  Core Lean only.
-/
import Sky.C26.Model
namespace Sky.C26

/-- the address passes `validateAddress` unchanged -/
def validB (allow : Bool) (a : Bytes) : Bool :=
  match validate allow a with
  | .ok b => b == a
  | .error _ => false

/-- every stored address is valid under the list's own configuration -/
def AllValid (cfg : Cfg) (ps : List Peer) : Prop := ∀ p ∈ ps, validB cfg.allowLocalhost p.addr = true

/-- the configured maximum (when there is one) is respected -/
def Bounded (cfg : Cfg) (ps : List Peer) : Prop := cfg.max > 0 → (ps.length : Int) ≤ cfg.max

/-- every trusted peer of `ps` is still present, and still trusted, in `ps'` -/
def TrustedKept (ps ps' : List Peer) : Prop :=
  ∀ p ∈ ps, p.trusted = true → ∃ q ∈ ps', q.addr = p.addr ∧ q.trusted = true

instance (cfg : Cfg) (ps : List Peer) : Decidable (AllValid cfg ps) := by unfold AllValid; infer_instance
instance (cfg : Cfg) (ps : List Peer) : Decidable (Bounded cfg ps) := by unfold Bounded; infer_instance
instance (ps ps' : List Peer) : Decidable (TrustedKept ps ps') := by unfold TrustedKept; infer_instance

end Sky.C26
