/-
  Sky.C26.Lemmas — list-level facts about the peer-list operations of Sky.C26.Model.  Core Lean only.
-/
import Sky.C26.Addr
set_option linter.unusedSimpArgs false
set_option linter.unusedVariables false
namespace Sky.C26

/-! ### lookup / update / delete -/

theorem getPeer_some {ps : List Peer} {a : Bytes} {p : Peer} (h : getPeer ps a = some p) :
    p ∈ ps ∧ p.addr = a := by
  unfold getPeer at h
  exact ⟨List.mem_of_find?_eq_some h, by simpa using List.find?_some h⟩

theorem getPeer_none {ps : List Peer} {a : Bytes} (h : getPeer ps a = none) : ∀ p ∈ ps, p.addr ≠ a := by
  unfold getPeer at h
  intro p hp
  simpa using List.find?_eq_none.1 h p hp

theorem mem_delPeer {ps : List Peer} {a : Bytes} {x : Peer} : x ∈ delPeer ps a ↔ x ∈ ps ∧ x.addr ≠ a := by
  simp [delPeer]

theorem length_delPeer_le (ps : List Peer) (a : Bytes) : (delPeer ps a).length ≤ ps.length :=
  List.length_filter_le _ _

theorem length_delPeer_lt {ps : List Peer} {o : Peer} (h : o ∈ ps) : (delPeer ps o.addr).length < ps.length := by
  unfold delPeer
  induction ps with
  | nil => cases h
  | cons q ps ih =>
    rw [List.filter_cons]
    have hle := List.length_filter_le (fun p : Peer => decide (p.addr ≠ o.addr)) ps
    by_cases hq : q.addr = o.addr
    · have : decide (q.addr ≠ o.addr) = false := by simp [hq]
      rw [this]
      simp only [Bool.false_eq_true, if_false, List.length_cons]
      omega
    · have : decide (q.addr ≠ o.addr) = true := by simp [hq]
      rw [this]
      rcases List.mem_cons.1 h with rfl | h'
      · exact absurd rfl hq
      · have := ih h'
        simp only [if_true, List.length_cons]
        omega

theorem length_modPeer (ps : List Peer) (a : Bytes) (f : Peer → Peer) : (modPeer ps a f).length = ps.length := by
  simp [modPeer]

theorem addrs_modPeer (ps : List Peer) (a : Bytes) (f : Peer → Peer) (hf : ∀ p, (f p).addr = p.addr) :
    (modPeer ps a f).map (·.addr) = ps.map (·.addr) := by
  unfold modPeer
  rw [List.map_map]
  apply List.map_congr_left
  intro p _
  simp only [Function.comp]
  split <;> simp [hf]

theorem mem_modPeer {ps : List Peer} {a : Bytes} {f : Peer → Peer} {q : Peer} :
    q ∈ modPeer ps a f ↔ ∃ p ∈ ps, q = if p.addr = a then f p else p := by
  unfold modPeer
  simp only [List.mem_map]
  constructor
  · rintro ⟨p, hp, rfl⟩; exact ⟨p, hp, rfl⟩
  · rintro ⟨p, hp, rfl⟩; exact ⟨p, hp, rfl⟩

/-- a property of peers that `f` preserves survives `modPeer` -/
theorem forall_modPeer {ps : List Peer} {a : Bytes} {f : Peer → Peer} (P : Peer → Prop)
    (h : ∀ p ∈ ps, P p) (hf : ∀ p ∈ ps, P p → P (f p)) : ∀ q ∈ modPeer ps a f, P q := by
  intro q hq
  obtain ⟨p, hp, rfl⟩ := mem_modPeer.1 hq
  split
  · exact hf p hp (h p hp)
  · exact h p hp

/-- every peer keeps its address (and, when `f` keeps it, its trusted flag) under `modPeer` -/
theorem kept_modPeer {ps : List Peer} {a : Bytes} {f : Peer → Peer} (hf : ∀ p, (f p).addr = p.addr)
    (ht : ∀ p, p.trusted = true → (f p).trusted = true) {p : Peer} (hp : p ∈ ps) (hpt : p.trusted = true) :
    ∃ q ∈ modPeer ps a f, q.addr = p.addr ∧ q.trusted = true := by
  refine ⟨if p.addr = a then f p else p, mem_modPeer.2 ⟨p, hp, rfl⟩, ?_, ?_⟩
  · split <;> simp [hf]
  · split
    · exact ht p hpt
    · exact hpt

/-! ### plAdd / plAddAll -/

theorem length_plAdd_le (ps : List Peer) (now : Int) (a : Bytes) : (plAdd ps now a).length ≤ ps.length + 1 := by
  unfold plAdd
  split
  · rw [length_modPeer]; omega
  · simp

theorem length_plAddAll_le (now : Int) : ∀ (as : List Bytes) (ps : List Peer),
    (plAddAll ps now as).length ≤ ps.length + as.length
  | [], ps => by simp [plAddAll]
  | a :: as, ps => by
    unfold plAddAll
    have h1 := length_plAddAll_le now as (plAdd ps now a)
    have h2 := length_plAdd_le ps now a
    simp only [List.length_cons]
    omega

theorem addrs_plAdd (ps : List Peer) (now : Int) (a : Bytes) :
    (plAdd ps now a).map (·.addr) = if (getPeer ps a).isSome then ps.map (·.addr) else ps.map (·.addr) ++ [a] := by
  unfold plAdd
  cases h : getPeer ps a with
  | some p => simp only [Option.isSome_some, if_true]; exact addrs_modPeer _ _ _ (fun _ => rfl)
  | none => simp

theorem nodup_plAdd {ps : List Peer} (nd : (ps.map (·.addr)).Nodup) (now : Int) (a : Bytes) :
    ((plAdd ps now a).map (·.addr)).Nodup := by
  rw [addrs_plAdd]
  cases h : getPeer ps a with
  | some p => simpa using nd
  | none =>
    simp only [Option.isSome_none, Bool.false_eq_true, if_false]
    rw [List.nodup_append]
    refine ⟨nd, by simp, ?_⟩
    intro x hx y hy
    simp only [List.mem_singleton] at hy
    subst hy
    intro e; subst e
    obtain ⟨p, hp, hpa⟩ := List.mem_map.1 hx
    exact getPeer_none h p hp hpa

theorem nodup_plAddAll (now : Int) : ∀ (as : List Bytes) {ps : List Peer}, (ps.map (·.addr)).Nodup →
    ((plAddAll ps now as).map (·.addr)).Nodup
  | [], _, nd => nd
  | a :: as, _, nd => by unfold plAddAll; exact nodup_plAddAll now as (nodup_plAdd nd now a)

/-- peers of `plAdd`: old ones (possibly refreshed) or the fresh untrusted one -/
theorem mem_plAdd {ps : List Peer} {now : Int} {a : Bytes} {q : Peer} (h : q ∈ plAdd ps now a) :
    (∃ p ∈ ps, q.addr = p.addr ∧ q.trusted = p.trusted ∧ (q.lastSeen = p.lastSeen ∨ q.lastSeen = now)) ∨
    (q.addr = a ∧ q.trusted = false ∧ q.lastSeen = now) := by
  unfold plAdd at h
  split at h
  · obtain ⟨p, hp, rfl⟩ := mem_modPeer.1 h
    refine Or.inl ⟨p, hp, ?_⟩
    split <;> simp
  · rcases List.mem_append.1 h with h | h
    · exact Or.inl ⟨q, h, rfl, rfl, Or.inl rfl⟩
    · simp only [List.mem_singleton] at h
      subst h; exact Or.inr ⟨rfl, rfl, rfl⟩

theorem kept_plAdd {ps : List Peer} {now : Int} {a : Bytes} {p : Peer} (hp : p ∈ ps) (hpt : p.trusted = true) :
    ∃ q ∈ plAdd ps now a, q.addr = p.addr ∧ q.trusted = true := by
  unfold plAdd
  split
  · exact kept_modPeer (f := fun p => { p with lastSeen := now }) (fun _ => rfl) (fun _ h => h) hp hpt
  · exact ⟨p, List.mem_append_left _ hp, rfl, hpt⟩

theorem kept_plAddAll (now : Int) : ∀ (as : List Bytes) {ps : List Peer} {p : Peer}, p ∈ ps → p.trusted = true →
    ∃ q ∈ plAddAll ps now as, q.addr = p.addr ∧ q.trusted = true
  | [], _, p, hp, hpt => ⟨p, hp, rfl, hpt⟩
  | a :: as, _, p, hp, hpt => by
    unfold plAddAll
    obtain ⟨q, hq, hqa, hqt⟩ := kept_plAdd (now := now) (a := a) hp hpt
    obtain ⟨r, hr, hra, hrt⟩ := kept_plAddAll now as hq hqt
    exact ⟨r, hr, hra.trans hqa, hrt⟩

/-- peers after `plAddAll`: an old one (possibly refreshed) or a fresh one from the added list -/
theorem mem_plAddAll (now : Int) : ∀ (as : List Bytes) {ps : List Peer} {q : Peer}, q ∈ plAddAll ps now as →
    (∃ p ∈ ps, q.addr = p.addr ∧ (q.lastSeen = p.lastSeen ∨ q.lastSeen = now)) ∨ (q.addr ∈ as ∧ q.lastSeen = now)
  | [], _, q, h => Or.inl ⟨q, h, rfl, Or.inl rfl⟩
  | a :: as, ps, q, h => by
    unfold plAddAll at h
    rcases mem_plAddAll now as h with ⟨p, hp, hqp, hls⟩ | ⟨h', hl⟩
    · rcases mem_plAdd hp with ⟨p', hp', hpa, _, hls'⟩ | ⟨hpa, _, hls'⟩
      · refine Or.inl ⟨p', hp', hqp.trans hpa, ?_⟩
        rcases hls with hls | hls
        · rcases hls' with hls' | hls'
          · exact Or.inl (hls.trans hls')
          · exact Or.inr (hls.trans hls')
        · exact Or.inr hls
      · refine Or.inr ⟨by rw [hqp, hpa]; exact List.mem_cons_self, ?_⟩
        rcases hls with hls | hls
        · exact hls.trans hls'
        · exact hls
    · exact Or.inr ⟨List.mem_cons_of_mem _ h', hl⟩

theorem peer_addr_uniq {ps : List Peer} (nd : (ps.map (·.addr)).Nodup) {x y : Peer}
    (hx : x ∈ ps) (hy : y ∈ ps) (h : x.addr = y.addr) : x = y := by
  induction ps with
  | nil => cases hx
  | cons c cs ih =>
    simp only [List.map_cons, List.nodup_cons, List.mem_map, not_exists, not_and] at nd
    simp only [List.mem_cons] at hx hy
    rcases hx with rfl | hx <;> rcases hy with rfl | hy
    · rfl
    · exact absurd h.symm (nd.1 y hy)
    · exact absurd h (nd.1 x hx)
    · exact ih nd.2 hx hy

/-- `plAdd` never drops an address -/
theorem addrKept_plAdd {ps : List Peer} {now : Int} {a : Bytes} {p : Peer} (hp : p ∈ ps) :
    ∃ q ∈ plAdd ps now a, q.addr = p.addr := by
  unfold plAdd
  split
  · refine ⟨if p.addr = a then { p with lastSeen := now } else p, mem_modPeer.2 ⟨p, hp, rfl⟩, ?_⟩
    split <;> rfl
  · exact ⟨p, List.mem_append_left _ hp, rfl⟩

/-! ### findOldestUntrustedPeer -/

theorem foldMin_spec (l : List Peer) : ∀ (acc : Option Int),
    (l.foldl (fun acc p => match acc with | none => some p.lastSeen | some m => some (min m p.lastSeen)) acc
      = none ↔ (acc = none ∧ l = [])) ∧
    (∀ m, l.foldl (fun acc p => match acc with | none => some p.lastSeen | some m => some (min m p.lastSeen)) acc
      = some m → ((acc = some m ∨ ∃ p ∈ l, p.lastSeen = m) ∧ (∀ p ∈ l, m ≤ p.lastSeen) ∧ (∀ a, acc = some a → m ≤ a))) := by
  induction l with
  | nil =>
    intro acc
    simp only [List.foldl_nil, and_true, List.not_mem_nil, false_and, exists_false, or_false, false_implies, implies_true, true_and]
    intro m hm
    refine ⟨hm, ?_⟩
    intro a ha
    rw [hm] at ha; injection ha with ha; omega
  | cons q l ih =>
    intro acc
    simp only [List.foldl_cons]
    cases acc with
    | none =>
      have := ih (some q.lastSeen)
      refine ⟨by simp [this.1], ?_⟩
      intro m hm
      have ⟨h1, h2, h3⟩ := this.2 m hm
      refine ⟨Or.inr ?_, ?_, by simp⟩
      · rcases h1 with h1 | ⟨p, hp, hpm⟩
        · exact ⟨q, List.mem_cons_self, (Option.some.inj h1)⟩
        · exact ⟨p, List.mem_cons_of_mem _ hp, hpm⟩
      · intro p hp
        rcases List.mem_cons.1 hp with rfl | hp
        · exact h3 _ rfl
        · exact h2 p hp
    | some a =>
      have := ih (some (min a q.lastSeen))
      refine ⟨by simp [this.1], ?_⟩
      intro m hm
      have ⟨h1, h2, h3⟩ := this.2 m hm
      have h3' := h3 _ rfl
      refine ⟨?_, ?_, ?_⟩
      · rcases h1 with h1 | ⟨p, hp, hpm⟩
        · have h1 := Option.some.inj h1
          by_cases hle : a ≤ q.lastSeen
          · left; rw [← h1]; congr 1; omega
          · right; exact ⟨q, List.mem_cons_self, by omega⟩
        · exact Or.inr ⟨p, List.mem_cons_of_mem _ hp, hpm⟩
      · intro p hp
        rcases List.mem_cons.1 hp with rfl | hp
        · omega
        · exact h2 p hp
      · intro a' ha'
        have := Option.some.inj ha'
        omega

theorem minUntrusted_spec {ps : List Peer} {m : Int} (h : minUntrusted ps = some m) :
    (∃ p ∈ ps, p.trusted = false ∧ p.lastSeen = m) ∧ (∀ p ∈ ps, p.trusted = false → m ≤ p.lastSeen) := by
  unfold minUntrusted at h
  have ⟨h1, h2, _⟩ := (foldMin_spec _ none).2 m h
  constructor
  · rcases h1 with h1 | ⟨p, hp, hpm⟩
    · cases h1
    · have := List.mem_filter.1 hp
      exact ⟨p, this.1, by simpa using this.2, hpm⟩
  · intro p hp hpt
    exact h2 p (List.mem_filter.2 ⟨hp, by simp [hpt]⟩)

theorem minUntrusted_none {ps : List Peer} (h : minUntrusted ps = none) : ∀ p ∈ ps, p.trusted = true := by
  unfold minUntrusted at h
  have := ((foldMin_spec _ none).1.1 h).2
  intro p hp
  cases hpt : p.trusted with
  | true => rfl
  | false =>
    have : p ∈ ps.filter (fun p => !p.trusted) := List.mem_filter.2 ⟨hp, by simp [hpt]⟩
    simp_all

/-- `findOldestUntrustedPeer` returns an untrusted member with the smallest LastSeen among the untrusted -/
theorem findOldest_spec {ps : List Peer} {v : Bytes} {o : Peer} (h : findOldest ps v = some o) :
    o ∈ ps ∧ o.trusted = false ∧ ∀ p ∈ ps, p.trusted = false → o.lastSeen ≤ p.lastSeen := by
  unfold findOldest at h
  split at h
  · cases h
  · rename_i m hm
    have ⟨_, hmin⟩ := minUntrusted_spec hm
    split at h
    · rename_i p hp
      injection h with h; subst h
      have hm1 := List.mem_of_find?_eq_some hp
      have hm2 := List.find?_some hp
      simp only [Bool.and_eq_true, Bool.not_eq_true', decide_eq_true_eq] at hm2
      exact ⟨hm1, hm2.1.1, fun q hq hqt => by rw [hm2.1.2]; exact hmin q hq hqt⟩
    · have hm1 := List.mem_of_find?_eq_some h
      have hm2 := List.find?_some h
      simp only [Bool.and_eq_true, Bool.not_eq_true', decide_eq_true_eq] at hm2
      exact ⟨hm1, hm2.1, fun q hq hqt => by rw [hm2.2]; exact hmin q hq hqt⟩

/-- … and returns nothing only when every peer is trusted -/
theorem findOldest_none {ps : List Peer} {v : Bytes} (h : findOldest ps v = none) : ∀ p ∈ ps, p.trusted = true := by
  unfold findOldest at h
  split at h
  · rename_i hm; exact minUntrusted_none hm
  · rename_i m hm
    have ⟨⟨p, hp, hpt, hpm⟩, _⟩ := minUntrusted_spec hm
    split at h
    · cases h
    · have := List.find?_eq_none.1 h p hp
      simp [hpt, hpm] at this

end Sky.C26
