/-
  Sky.C26.Model — model of the peer list (src/daemon/pex/pex.go, peerlist.go).  Core Lean only.

  Addresses are byte strings (`List Nat`, each element a byte): Go strings are bytes, and
  `validateAddress` only ever looks at ASCII bytes.

  * `validate`  = `validateAddress`: strip `\s` (RE2: \t \n \f \r space — NOT \v), split on ':' into
    exactly two parts, `net.ParseIP` of a colon-free string (= strict dotted quad: four fields of
    decimal digits, no leading zero except "0", each ≤ 255), loopback / global-unicast test,
    `strconv.ParseUint(port, 10, 16)`, port ≥ 1024 — in the code's order, with its error kinds.
  * `State`     = the peer map (list keyed by cleaned address) + the clock.
  * events      = AddPeer / AddPeers / RemovePeer / setTrusted / IncreaseRetryTimes / ResetRetryTimes /
    ResetAllRetryTimes / SetHasIncomingPort / the ClearOld tick / clock advance.
  Two choices the code leaves to chance are event ARGUMENTS (read back from the implementation by
  the harness; the theorems hold for every value): the eviction victim among equally old untrusted
  peers (Go map iteration order) and the permutation `rand.Shuffle` applies in AddPeers.
-/
namespace Sky.C26

abbrev Bytes := List Nat

/-! ### validateAddress -/

def isWS (b : Nat) : Bool := b == 9 || b == 10 || b == 12 || b == 13 || b == 32
def stripWS (s : Bytes) : Bytes := s.filter (fun b => !isWS b)

def isDigit (b : Nat) : Bool := 48 ≤ b && b ≤ 57

/-- `strings.Split(s, sep)` for a one-byte separator: always at least one part -/
def splitOn (sep : Nat) : Bytes → List Bytes
  | [] => [[]]
  | b :: rest =>
    if b = sep then [] :: splitOn sep rest
    else match splitOn sep rest with
      | p :: ps => (b :: p) :: ps
      | [] => [[b]]   -- unreachable: splitOn never returns []

def digitsVal (ds : Bytes) : Nat := ds.foldl (fun a d => a * 10 + (d - 48)) 0

/-- one field of a dotted quad: non-empty, digits only, no leading zero unless it is "0", ≤ 255 -/
def octet? (ds : Bytes) : Option Nat :=
  if ds.isEmpty then none
  else if !ds.all isDigit then none
  else if ds.length > 1 && ds.head? == some 48 then none
  else if digitsVal ds > 255 then none
  else some (digitsVal ds)

/-- `net.ParseIP` restricted to colon-free input (the only input `validateAddress` gives it that can
succeed): strict dotted quad -/
def parseIPv4 (h : Bytes) : Option (Nat × Nat × Nat × Nat) :=
  match splitOn 46 h with
  | [a, b, c, d] =>
    match octet? a, octet? b, octet? c, octet? d with
    | some a, some b, some c, some d => some (a, b, c, d)
    | _, _, _, _ => none
  | _ => none

/-- `ip.IsGlobalUnicast()` for a non-loopback IPv4 address -/
def globalUnicast (a b c d : Nat) : Bool :=
  !(a == 255 && b == 255 && c == 255 && d == 255) &&   -- broadcast
  !(a == 0 && b == 0 && c == 0 && d == 0) &&           -- unspecified
  !(224 ≤ a && a ≤ 239) &&                             -- multicast
  !(a == 169 && b == 254)                              -- link-local unicast

/-- `strconv.ParseUint(s, 10, 16)` -/
def port? (ds : Bytes) : Option Nat :=
  if ds.isEmpty then none
  else if !ds.all isDigit then none
  else if digitsVal ds > 65535 then none
  else some (digitsVal ds)

inductive VErr | invalid | noLocalhost | notExternal | portTooLow
deriving DecidableEq, Repr

def VErr.name : VErr → String
  | .invalid => "ErrInvalidAddress" | .noLocalhost => "ErrNoLocalhost"
  | .notExternal => "ErrNotExternalIP" | .portTooLow => "ErrPortTooLow"

def validate (allowLocalhost : Bool) (s : Bytes) : Except VErr Bytes :=
  let s := stripWS s
  match splitOn 58 s with
  | [h, p] =>
    match parseIPv4 h with
    | none => .error .invalid
    | some (a, b, c, d) =>
      if a = 127 ∧ ¬ allowLocalhost then .error .noLocalhost
      else if a ≠ 127 ∧ ¬ globalUnicast a b c d then .error .notExternal
      else match port? p with
        | none => .error .invalid
        | some n => if n < 1024 then .error .portTooLow else .ok s
  | _ => .error .invalid

/-! ### the peer list -/

structure Peer where
  addr : Bytes
  lastSeen : Int
  trusted : Bool
  hasIncomingPort : Bool
  retry : Nat
deriving DecidableEq, Repr

structure Cfg where
  /-- `Config.Max` (Go int; ≤ 0 = unbounded) -/
  max : Int
  allowLocalhost : Bool
  /-- `Config.Expiration` in whole seconds -/
  expiration : Int
  /-- `Disabled || NetworkDisabled`: the ClearOld tick does nothing -/
  clearDisabled : Bool
deriving Repr

structure State where
  peers : List Peer
  now : Int
deriving Repr

def State.init : State := ⟨[], 0⟩

inductive Ev
  /-- `AddPeer(addr)`; `victim` = which peer the implementation evicted (only consulted to break
  ties between equally old untrusted peers) -/
  | addPeer (addr : Bytes) (victim : Bytes)
  /-- `AddPeers(addrs)`; `perm` = the permutation applied by `rand.Shuffle` (position i of the
  shuffled list holds element `perm[i]` of the validated list) -/
  | addPeers (addrs : List Bytes) (perm : List Nat)
  | removePeer (addr : Bytes)
  | setTrusted (addr : Bytes)
  | increaseRetry (addr : Bytes)
  | resetRetry (addr : Bytes)
  | resetAllRetry
  | setHasIncomingPort (addr : Bytes) (b : Bool)
  /-- the ClearOld tick; `fracPos` = the wall clock's sub-second part is non-zero (`time.Now()` is
  compared with whole-second `LastSeen` values in nanoseconds, so a peer exactly `Expiration` old is
  dropped iff the clock has a non-zero fraction) -/
  | clearOld (fracPos : Bool)
  | advance (d : Nat)
deriving Repr

inductive Out
  | ok
  | okN (n : Nat)
  | err (e : String)
deriving DecidableEq, Repr

def getPeer (ps : List Peer) (a : Bytes) : Option Peer := ps.find? (fun p => p.addr = a)
def delPeer (ps : List Peer) (a : Bytes) : List Peer := ps.filter (fun p => p.addr ≠ a)
/-- update in place (`*Peer` is mutated through the map) -/
def modPeer (ps : List Peer) (a : Bytes) (f : Peer → Peer) : List Peer :=
  ps.map (fun p => if p.addr = a then f p else p)

/-- `peerlist.addPeer`: refresh LastSeen of a known peer, else insert a fresh untrusted one -/
def plAdd (ps : List Peer) (now : Int) (a : Bytes) : List Peer :=
  match getPeer ps a with
  | some _ => modPeer ps a (fun p => { p with lastSeen := now })
  | none => ps ++ [⟨a, now, false, false, 0⟩]

def plAddAll (ps : List Peer) (now : Int) : List Bytes → List Peer
  | [] => ps
  | a :: as => plAddAll (plAdd ps now a) now as

def isFull (cfg : Cfg) (ps : List Peer) : Bool := cfg.max > 0 && (ps.length : Int) ≥ cfg.max

/-- smallest LastSeen among untrusted peers -/
def minUntrusted (ps : List Peer) : Option Int :=
  (ps.filter (fun p => !p.trusted)).foldl
    (fun acc p => match acc with | none => some p.lastSeen | some m => some (min m p.lastSeen)) none

/-- `findOldestUntrustedPeer`: an untrusted peer with minimal LastSeen.  Go iterates the map in
random order, so among ties any may be returned: the `victim` hint is honoured when it names such a
peer, otherwise the first one in list order is taken. -/
def findOldest (ps : List Peer) (victim : Bytes) : Option Peer :=
  match minUntrusted ps with
  | none => none
  | some m =>
    match ps.find? (fun p => !p.trusted && p.lastSeen = m && p.addr = victim) with
    | some p => some p
    | none => ps.find? (fun p => !p.trusted && p.lastSeen = m)

def stepAddPeer (cfg : Cfg) (s : State) (addr victim : Bytes) : State × Out :=
  match validate cfg.allowLocalhost addr with
  | .error _ => (s, .err "ErrInvalidAddress")
  | .ok a =>
    match getPeer s.peers a with
    | some _ => ({ s with peers := modPeer s.peers a (fun p => { p with lastSeen := s.now }) }, .ok)
    | none =>
      if isFull cfg s.peers then
        match findOldest s.peers victim with
        | none => (s, .err "ErrPeerlistFull")
        | some o =>
          if s.now - o.lastSeen < 60 * 60 * 24 then (s, .err "ErrPeerlistFull")
          else ({ s with peers := plAdd (delPeer s.peers o.addr) s.now a }, .ok)
      else ({ s with peers := plAdd s.peers s.now a }, .ok)

def applyPerm (l : List Bytes) (perm : List Nat) : List Bytes := perm.filterMap (fun i => l[i]?)

def stepAddPeers (cfg : Cfg) (s : State) (addrs : List Bytes) (perm : List Nat) : State × Out :=
  if isFull cfg s.peers then (s, .okN 0) else
  let valid := addrs.filterMap (fun a => match validate cfg.allowLocalhost a with | .ok a => some a | .error _ => none)
  let shuffled := applyPerm valid perm
  let capped := if cfg.max > 0 then shuffled.take (cfg.max - s.peers.length).toNat else shuffled
  ({ s with peers := plAddAll s.peers s.now capped }, .okN capped.length)

def stepSetTrusted (cfg : Cfg) (s : State) (addr : Bytes) : State × Out :=
  match validate cfg.allowLocalhost addr with
  | .error _ => (s, .err "ErrInvalidAddress")
  | .ok a =>
    match getPeer s.peers a with
    | none => (s, .err "other")
    | some _ => ({ s with peers := modPeer s.peers a (fun p => { p with trusted := true }) }, .ok)

def stepSetHasIncomingPort (cfg : Cfg) (s : State) (addr : Bytes) (b : Bool) : State × Out :=
  match validate cfg.allowLocalhost addr with
  | .error _ => (s, .err "ErrInvalidAddress")
  | .ok a =>
    match getPeer s.peers a with
    | none => (s, .err "other")
    | some _ => ({ s with peers := modPeer s.peers a (fun p => { p with hasIncomingPort := b, lastSeen := s.now }) }, .ok)

/-- `peerlist.clearOld(Expiration)` at clock `now + fraction` -/
def clearOld (cfg : Cfg) (now : Int) (fracPos : Bool) (ps : List Peer) : List Peer :=
  ps.filter (fun p => !(!p.trusted && (now - p.lastSeen > cfg.expiration ||
                                      (fracPos && now - p.lastSeen = cfg.expiration))))

def step (cfg : Cfg) (s : State) : Ev → State × Out
  | .addPeer a v => stepAddPeer cfg s a v
  | .addPeers as perm => stepAddPeers cfg s as perm
  | .removePeer a => ({ s with peers := delPeer s.peers a }, .ok)
  | .setTrusted a => stepSetTrusted cfg s a
  | .increaseRetry a =>
      ({ s with peers := modPeer s.peers a (fun p => { p with retry := p.retry + 1, lastSeen := s.now }) }, .ok)
  | .resetRetry a =>
      ({ s with peers := modPeer s.peers a (fun p => { p with retry := 0, lastSeen := s.now }) }, .ok)
  | .resetAllRetry => ({ s with peers := s.peers.map (fun p => { p with retry := 0 }) }, .ok)
  | .setHasIncomingPort a b => stepSetHasIncomingPort cfg s a b
  | .clearOld f =>
      if cfg.clearDisabled then (s, .ok) else ({ s with peers := clearOld cfg s.now f s.peers }, .ok)
  | .advance d => ({ s with now := s.now + d }, .ok)

def run (cfg : Cfg) (s : State) : List Ev → State
  | [] => s
  | e :: es => run cfg (step cfg s e).1 es

end Sky.C26
