/-
  Sky.C26.Addr — the address rule of C26 as a declarative specification (`ValidAddr`) and the proof
  that the procedural model of `validateAddress` (`Sky.C26.validate`) accepts exactly it.
  Core Lean only.
-/
import Sky.C26.Check
set_option linter.unusedSimpArgs false
set_option linter.unusedVariables false
namespace Sky.C26

/-- a dotted-quad field: decimal digits, canonical (no leading zero unless "0"), value ≤ 255 -/
def IsOctet (ds : Bytes) : Prop :=
  ds ≠ [] ∧ (∀ b ∈ ds, isDigit b = true) ∧ (ds.length > 1 → ds.head? ≠ some 48) ∧ digitsVal ds ≤ 255

/-- a decimal port string (leading zeros allowed, as `strconv.ParseUint` allows them) in 1024..65535 -/
def IsPortStr (ds : Bytes) : Prop :=
  ds ≠ [] ∧ (∀ b ∈ ds, isDigit b = true) ∧ 1024 ≤ digitsVal ds ∧ digitsVal ds ≤ 65535

/-- loopback (127/8) only when allowed; otherwise global unicast: not broadcast, not unspecified, not
multicast (224/4), not link-local (169.254/16) -/
def IpClassOK (allow : Bool) (a b c d : Nat) : Prop :=
  if a = 127 then allow = true
  else ¬ (a = 255 ∧ b = 255 ∧ c = 255 ∧ d = 255) ∧ ¬ (a = 0 ∧ b = 0 ∧ c = 0 ∧ d = 0) ∧
       ¬ (224 ≤ a ∧ a ≤ 239) ∧ ¬ (a = 169 ∧ b = 254)

/-- **the address rule**: `a.b.c.d:port` -/
def ValidAddr (allow : Bool) (s : Bytes) : Prop :=
  ∃ a b c d p, s = a ++ [46] ++ b ++ [46] ++ c ++ [46] ++ d ++ [58] ++ p ∧
    IsOctet a ∧ IsOctet b ∧ IsOctet c ∧ IsOctet d ∧ IsPortStr p ∧
    IpClassOK allow (digitsVal a) (digitsVal b) (digitsVal c) (digitsVal d)

/-! ### splitOn -/

def joinSep (sep : Nat) : List Bytes → Bytes
  | [] => []
  | [p] => p
  | p :: q :: r => p ++ sep :: joinSep sep (q :: r)

theorem splitOn_ne_nil (sep : Nat) (s : Bytes) : splitOn sep s ≠ [] := by
  induction s with
  | nil => simp [splitOn]
  | cons b rest ih =>
    unfold splitOn
    split
    · simp
    · split <;> simp

theorem splitOn_join (sep : Nat) (s : Bytes) :
    joinSep sep (splitOn sep s) = s ∧ ∀ p ∈ splitOn sep s, sep ∉ p := by
  induction s with
  | nil => simp [splitOn, joinSep]
  | cons b rest ih =>
    unfold splitOn
    by_cases hb : b = sep
    · simp only [hb, if_true]
      cases hs : splitOn sep rest with
      | nil => exact absurd hs (splitOn_ne_nil sep rest)
      | cons q r =>
        rw [hs] at ih
        refine ⟨?_, ?_⟩
        · simp only [joinSep, List.nil_append]
          rw [ih.1]
        · intro p hp
          rcases List.mem_cons.1 hp with rfl | hp
          · simp
          · exact ih.2 p hp
    · simp only [hb, if_false]
      cases hs : splitOn sep rest with
      | nil => exact absurd hs (splitOn_ne_nil sep rest)
      | cons q r =>
        rw [hs] at ih
        simp only
        refine ⟨?_, ?_⟩
        · cases r with
          | nil => simp only [joinSep] at ih ⊢; rw [ih.1]
          | cons q' r' => simp only [joinSep, List.cons_append] at ih ⊢; rw [ih.1]
        · intro p hp
          rcases List.mem_cons.1 hp with rfl | hp
          · have := ih.2 q (List.mem_cons_self)
            intro hm
            rcases List.mem_cons.1 hm with h | h
            · exact hb h.symm
            · exact this h
          · exact ih.2 p (List.mem_cons_of_mem _ hp)

theorem splitOn_of_notMem (sep : Nat) (p : Bytes) (h : sep ∉ p) : splitOn sep p = [p] := by
  induction p with
  | nil => simp [splitOn]
  | cons b rest ih =>
    have hb : b ≠ sep := fun e => h (e ▸ List.mem_cons_self)
    have hr : sep ∉ rest := fun e => h (List.mem_cons_of_mem _ e)
    unfold splitOn
    simp only [hb, if_false, ih hr]

theorem splitOn_append (sep : Nat) (p : Bytes) (h : sep ∉ p) (rest : Bytes) :
    splitOn sep (p ++ sep :: rest) = p :: splitOn sep rest := by
  induction p with
  | nil => simp [splitOn]
  | cons b p ih =>
    have hb : b ≠ sep := fun e => h (e ▸ List.mem_cons_self)
    have hr : sep ∉ p := fun e => h (List.mem_cons_of_mem _ e)
    simp only [List.cons_append]
    rw [splitOn]
    simp only [hb, if_false, ih hr]

/-! ### fields -/

theorem all_isDigit_iff (ds : Bytes) : ds.all isDigit = true ↔ ∀ b ∈ ds, isDigit b = true := by
  simp [List.all_eq_true]

theorem octet_some_iff (ds : Bytes) (n : Nat) :
    octet? ds = some n ↔ IsOctet ds ∧ n = digitsVal ds := by
  unfold octet? IsOctet
  by_cases h1 : ds = []
  · subst h1; simp
  · have h1' : ds.isEmpty = false := by cases ds <;> simp_all
    simp only [h1', Bool.false_eq_true, if_false]
    by_cases h2 : ds.all isDigit = true
    · have h2' := (all_isDigit_iff ds).1 h2
      simp only [h2, Bool.not_true, Bool.false_eq_true, if_false]
      by_cases h3 : (decide (ds.length > 1) && ds.head? == some 48) = true
      · simp only [h3, if_true]
        simp only [Bool.and_eq_true, decide_eq_true_eq, beq_iff_eq] at h3
        constructor
        · intro h; cases h
        · rintro ⟨⟨_, _, h, _⟩, _⟩; exact absurd h3.2 (h h3.1)
      · simp only [h3, Bool.false_eq_true, if_false]
        have h3' : ds.length > 1 → ds.head? ≠ some 48 := by
          intro hl he
          apply h3
          simp [hl, he]
        by_cases h4 : digitsVal ds > 255
        · simp only [h4, if_true]
          constructor
          · intro h; cases h
          · rintro ⟨⟨_, _, _, h⟩, _⟩; omega
        · simp only [h4, if_false]
          constructor
          · intro h
            exact ⟨⟨h1, h2', h3', by omega⟩, (Option.some.inj h).symm⟩
          · rintro ⟨_, rfl⟩; rfl
    · simp only [h2, Bool.not_false, if_true]
      constructor
      · intro h; cases h
      · rintro ⟨⟨_, h, _⟩, _⟩
        exact absurd ((all_isDigit_iff ds).2 h) h2

theorem port_some_iff (ds : Bytes) (n : Nat) :
    port? ds = some n ↔ (ds ≠ [] ∧ (∀ b ∈ ds, isDigit b = true) ∧ digitsVal ds ≤ 65535) ∧ n = digitsVal ds := by
  unfold port?
  by_cases h1 : ds = []
  · subst h1; simp
  · have h1' : ds.isEmpty = false := by cases ds <;> simp_all
    simp only [h1', Bool.false_eq_true, if_false]
    by_cases h2 : ds.all isDigit = true
    · have h2' := (all_isDigit_iff ds).1 h2
      simp only [h2, Bool.not_true, Bool.false_eq_true, if_false]
      by_cases h4 : digitsVal ds > 65535
      · simp only [h4, if_true]
        constructor
        · intro h; cases h
        · rintro ⟨⟨_, _, h⟩, _⟩; omega
      · simp only [h4, if_false]
        constructor
        · intro h
          exact ⟨⟨h1, h2', by omega⟩, (Option.some.inj h).symm⟩
        · rintro ⟨_, rfl⟩; rfl
    · simp only [h2, Bool.not_false, if_true]
      constructor
      · intro h; cases h
      · rintro ⟨⟨_, h, _⟩, _⟩
        exact absurd ((all_isDigit_iff ds).2 h) h2

theorem digit_ne_sep {ds : Bytes} (h : ∀ b ∈ ds, isDigit b = true) : 46 ∉ ds ∧ 58 ∉ ds := by
  constructor <;> intro hm <;> have := h _ hm <;> simp [isDigit] at this

theorem digit_not_ws {ds : Bytes} (h : ∀ b ∈ ds, isDigit b = true) : ∀ b ∈ ds, isWS b = false := by
  intro b hb
  have := h b hb
  simp only [isDigit, Bool.and_eq_true, decide_eq_true_eq] at this
  simp only [isWS, Bool.or_eq_false_iff, beq_eq_false_iff_ne]
  omega

theorem parseIPv4_some_iff (h : Bytes) (a b c d : Nat) :
    parseIPv4 h = some (a, b, c, d) ↔
      ∃ x1 x2 x3 x4, h = x1 ++ [46] ++ x2 ++ [46] ++ x3 ++ [46] ++ x4 ∧
        IsOctet x1 ∧ IsOctet x2 ∧ IsOctet x3 ∧ IsOctet x4 ∧
        a = digitsVal x1 ∧ b = digitsVal x2 ∧ c = digitsVal x3 ∧ d = digitsVal x4 := by
  constructor
  · intro hp
    unfold parseIPv4 at hp
    have hj := splitOn_join 46 h
    split at hp
    · rename_i x1 x2 x3 x4 hs
      rw [hs] at hj
      split at hp
      · rename_i a' b' c' d' h1 h2 h3 h4
        simp only [Option.some.injEq, Prod.mk.injEq] at hp
        obtain ⟨rfl, rfl, rfl, rfl⟩ := hp
        have o1 := (octet_some_iff _ _).1 h1
        have o2 := (octet_some_iff _ _).1 h2
        have o3 := (octet_some_iff _ _).1 h3
        have o4 := (octet_some_iff _ _).1 h4
        refine ⟨x1, x2, x3, x4, ?_, o1.1, o2.1, o3.1, o4.1, o1.2, o2.2, o3.2, o4.2⟩
        have := hj.1
        simp only [joinSep] at this
        rw [← this]; simp
      · cases hp
    · cases hp
  · rintro ⟨x1, x2, x3, x4, rfl, o1, o2, o3, o4, rfl, rfl, rfl, rfl⟩
    unfold parseIPv4
    have n1 := (digit_ne_sep o1.2.1).1
    have n2 := (digit_ne_sep o2.2.1).1
    have n3 := (digit_ne_sep o3.2.1).1
    have n4 := (digit_ne_sep o4.2.1).1
    have hs : splitOn 46 (x1 ++ [46] ++ x2 ++ [46] ++ x3 ++ [46] ++ x4) = [x1, x2, x3, x4] := by
      have e : x1 ++ [46] ++ x2 ++ [46] ++ x3 ++ [46] ++ x4 = x1 ++ 46 :: (x2 ++ 46 :: (x3 ++ 46 :: x4)) := by simp
      rw [e, splitOn_append 46 x1 n1, splitOn_append 46 x2 n2, splitOn_append 46 x3 n3, splitOn_of_notMem 46 x4 n4]
    rw [hs]
    simp only
    rw [(octet_some_iff x1 _).2 ⟨o1, rfl⟩, (octet_some_iff x2 _).2 ⟨o2, rfl⟩,
        (octet_some_iff x3 _).2 ⟨o3, rfl⟩, (octet_some_iff x4 _).2 ⟨o4, rfl⟩]

theorem globalUnicast_iff (a b c d : Nat) (h : a ≠ 127) (allow : Bool) :
    globalUnicast a b c d = true ↔ IpClassOK allow a b c d := by
  unfold globalUnicast IpClassOK
  simp only [h, if_false, Bool.and_eq_true, Bool.not_eq_true', Bool.and_eq_false_iff, beq_eq_false_iff_ne,
    decide_eq_false_iff_not, Nat.not_le, beq_iff_eq, decide_eq_true_eq]
  constructor
  · rintro ⟨⟨⟨h1, h2⟩, h3⟩, h4⟩
    refine ⟨?_, ?_, ?_, ?_⟩ <;> omega
  · rintro ⟨h1, h2, h3, h4⟩
    refine ⟨⟨⟨?_, ?_⟩, ?_⟩, ?_⟩ <;> omega

/-- **`validateAddress` accepts exactly the address rule** (and returns the whitespace-stripped input) -/
theorem validate_ok_iff (allow : Bool) (s s' : Bytes) :
    validate allow s = .ok s' ↔ s' = stripWS s ∧ ValidAddr allow s' := by
  unfold validate
  simp only
  constructor
  · intro hv
    have hj := splitOn_join 58 (stripWS s)
    split at hv
    · rename_i h p hs
      rw [hs] at hj
      have hcat : stripWS s = h ++ [58] ++ p := by
        have := hj.1; simp only [joinSep] at this; rw [← this]; simp
      split at hv
      · cases hv
      · rename_i a b c d hp
        obtain ⟨x1, x2, x3, x4, rfl, o1, o2, o3, o4, rfl, rfl, rfl, rfl⟩ := (parseIPv4_some_iff _ _ _ _ _).1 hp
        split at hv
        · cases hv
        · rename_i hloc
          split at hv
          · cases hv
          · rename_i hext
            split at hv
            · cases hv
            · rename_i n hport
              split at hv
              · cases hv
              · rename_i hlow
                injection hv with hv
                subst hv
                have pp := (port_some_iff _ _).1 hport
                refine ⟨rfl, x1, x2, x3, x4, p, hcat, o1, o2, o3, o4, ⟨pp.1.1, pp.1.2.1, by omega, pp.1.2.2⟩, ?_⟩
                by_cases h127 : digitsVal x1 = 127
                · unfold IpClassOK
                  simp only [h127, if_true]
                  simp only [h127, true_and, Bool.not_eq_true, Decidable.not_not] at hloc
                  cases allow <;> simp_all
                · rw [← globalUnicast_iff _ _ _ _ h127]
                  simp only [ne_eq, h127, not_false_eq_true, true_and, Bool.not_eq_true, Decidable.not_not] at hext
                  cases hg : globalUnicast (digitsVal x1) (digitsVal x2) (digitsVal x3) (digitsVal x4) <;> simp_all
    · cases hv
  · rintro ⟨rfl, a, b, c, d, p, hcat, o1, o2, o3, o4, pp, hclass⟩
    have hh : 58 ∉ a ++ [46] ++ b ++ [46] ++ c ++ [46] ++ d := by
      simp only [List.mem_append, List.mem_singleton, not_or]
      have n1 := (digit_ne_sep o1.2.1).2
      have n2 := (digit_ne_sep o2.2.1).2
      have n3 := (digit_ne_sep o3.2.1).2
      have n4 := (digit_ne_sep o4.2.1).2
      refine ⟨⟨⟨⟨⟨⟨n1, by decide⟩, n2⟩, by decide⟩, n3⟩, by decide⟩, n4⟩
    have hs : splitOn 58 (stripWS s) = [a ++ [46] ++ b ++ [46] ++ c ++ [46] ++ d, p] := by
      rw [hcat]
      have e : a ++ [46] ++ b ++ [46] ++ c ++ [46] ++ d ++ [58] ++ p
             = (a ++ [46] ++ b ++ [46] ++ c ++ [46] ++ d) ++ 58 :: p := by simp
      rw [e, splitOn_append 58 _ hh, splitOn_of_notMem 58 p (digit_ne_sep pp.2.1).2]
    rw [hs]
    simp only
    have hp : parseIPv4 (a ++ [46] ++ b ++ [46] ++ c ++ [46] ++ d)
        = some (digitsVal a, digitsVal b, digitsVal c, digitsVal d) :=
      (parseIPv4_some_iff _ _ _ _ _).2 ⟨a, b, c, d, rfl, o1, o2, o3, o4, rfl, rfl, rfl, rfl⟩
    rw [hp]
    simp only
    have hport : port? p = some (digitsVal p) := (port_some_iff _ _).2 ⟨⟨pp.1, pp.2.1, pp.2.2.2⟩, rfl⟩
    by_cases h127 : digitsVal a = 127
    · unfold IpClassOK at hclass
      simp only [h127, if_true] at hclass
      have hlow : ¬ digitsVal p < 1024 := by have := pp.2.2.1; omega
      simp [h127, hclass, hport, hlow]
    · have hg := (globalUnicast_iff _ _ _ _ h127 allow).2 hclass
      have hlow : ¬ digitsVal p < 1024 := by have := pp.2.2.1; omega
      simp [h127, hg, hport, hlow]

/-- a valid address contains no whitespace, so cleaning it again changes nothing -/
theorem stripWS_valid {allow : Bool} {s : Bytes} (h : ValidAddr allow s) : stripWS s = s := by
  obtain ⟨a, b, c, d, p, rfl, o1, o2, o3, o4, pp, _⟩ := h
  unfold stripWS
  apply List.filter_eq_self.2
  intro x hx
  simp only [List.mem_append, List.mem_singleton] at hx
  have w1 := digit_not_ws o1.2.1
  have w2 := digit_not_ws o2.2.1
  have w3 := digit_not_ws o3.2.1
  have w4 := digit_not_ws o4.2.1
  have w5 := digit_not_ws pp.2.1
  rcases hx with ((((((((hx | hx) | hx) | hx) | hx) | hx) | hx) | hx) | hx)
  · simp [w1 x hx]
  · subst hx; decide
  · simp [w2 x hx]
  · subst hx; decide
  · simp [w3 x hx]
  · subst hx; decide
  · simp [w4 x hx]
  · subst hx; decide
  · simp [w5 x hx]

/-- the driver's check `validB` decides the address rule -/
theorem validB_iff (allow : Bool) (a : Bytes) : validB allow a = true ↔ ValidAddr allow a := by
  unfold validB
  constructor
  · intro h
    split at h
    · rename_i b hb
      have hb' : b = a := by simpa using h
      subst hb'
      exact ((validate_ok_iff allow _ _).1 hb).2
    · cases h
  · intro h
    have : validate allow a = .ok a := (validate_ok_iff allow a a).2 ⟨(stripWS_valid h).symm, h⟩
    rw [this]; simp

/-- what `AddPeer`/`AddPeers`/`setTrusted` store is always a valid address -/
theorem validate_ok_valid {allow : Bool} {s s' : Bytes} (h : validate allow s = .ok s') : ValidAddr allow s' :=
  ((validate_ok_iff allow s s').1 h).2

end Sky.C26
