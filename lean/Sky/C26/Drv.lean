/-
  C26 driver.  Steps the model (Sky.C26.Model) and prints result | read-back hint | dump.  The two
  chance-dependent choices of the code (eviction victim among ties; AddPeers shuffle) and the
  sub-second clock fraction of the ClearOld tick are read from the implementation's line and given
  to the model as event arguments.  When the lines differ, the property's own predicates
  (`AllValid`, `Bounded`, `TrustedKept` — the statements of the theorems in Sky.Props.C26) are
  decided on the implementation's dumped peer list: false ⇒ `fail`, else `hold`.
-/
import Sky.Prim.DrvLib
import Sky.C26.Check
namespace Sky.C26
open Sky Sky.Drv

def bytesLt : Bytes → Bytes → Bool
  | [], [] => false
  | [], _ :: _ => true
  | _ :: _, [] => false
  | a :: as, b :: bs => a < b || (a == b && bytesLt as bs)

def plainAddr (a : Bytes) : Bool := a.all (fun b => isDigit b || b == 46 || b == 58) && !a.isEmpty

def showAddr (a : Bytes) : String :=
  if plainAddr a then String.ofList (a.map Char.ofNat) else "x" ++ hexOf a

def showPeer (now : Int) (p : Peer) : String :=
  ",".intercalate [showAddr p.addr, toString (now - p.lastSeen), (if p.trusted then "1" else "0"),
    (if p.hasIncomingPort then "1" else "0"), toString p.retry]

def dump (s : State) : String :=
  ";".intercalate ((s.peers.mergeSort (fun a b => !(bytesLt b.addr a.addr))).map (showPeer s.now))

def showOut : Out → String
  | .ok => "ok"
  | .okN n => "ok " ++ toString n
  | .err e => "err " ++ e

def parseAddrTxt (s : String) : Option Bytes :=
  if s.startsWith "x" then hex? (s.drop 1).toString else some (s.toList.map Char.toNat)

def parsePeer (now : Int) (s : String) : Option Peer :=
  match s.splitOn "," with
  | [a, age, t, i, r] => do
    let a ← parseAddrTxt a; let age ← age.toInt?; let r ← r.toNat?
    pure ⟨a, now - age, t == "1", i == "1", r⟩
  | _ => none

def parsePeers (now : Int) (s : String) : Option (List Peer) :=
  ((s.splitOn ";").filter (· ≠ "")).mapM (parsePeer now)

structure DState where
  cfg : Cfg := ⟨0, false, 0, false⟩
  s : State := State.init

def parseHexList (s : String) : Option (List Bytes) :=
  if s == "-" then some [] else (s.splitOn ",").mapM hex?

def parseNatList (s : String) : Option (List Nat) :=
  if s == "-" then some [] else (s.splitOn ",").mapM (·.toNat?)

/-- fields of the implementation's line: result | hint | dump  (hint only for addpeer / addpeers) -/
def implParts (impl : String) : List String := impl.splitOn "|"

def verdictOn (cfg : Cfg) (before : State) (ev : Ev) (implDump : String) : DState × Verdict :=
  match parsePeers (step cfg before ev).1.now implDump with
  | none => ({ cfg := cfg, s := (step cfg before ev).1 }, .unknown)
  | some ps =>
    let ok := decide (AllValid cfg ps) && decide (Bounded cfg before.peers → Bounded cfg ps)
              && (match ev with | .removePeer _ => true | _ => decide (TrustedKept before.peers ps))
    ({ cfg := cfg, s := { peers := ps, now := (step cfg before ev).1.now } }, if ok then .hold else .fail)

def isPerm (n : Nat) (perm : List Nat) : Bool :=
  perm.length == n && (List.range n).all (fun i => perm.contains i)

def stepLine (d : DState) (op impl : String) : DState × String × Verdict :=
  let parts := implParts (normImpl impl)
  let lastPart := parts.getLast?.getD ""
  match op.splitOn " " with
  | ["validate", allow, h] =>
    match hex? h with
    | none => (d, "bad-op", .unknown)
    | some a =>
      let m := match validate (allow == "1") a with
        | .ok b => "ok " ++ hexOf b
        | .error e => "err " ++ e.name
      -- the model of validateAddress IS the specification (`validate_ok_iff`): a difference means the
      -- real function accepts/rejects other strings than the documented rule
      -- (accepting a string the rule rejects, or returning a different string, is a failure; rejecting more is not)
      (d, m, if (normImpl impl).startsWith "ok" then .fail else .hold)
  | ["reset", mx, allow, exp, dis] =>
    match mx.toInt?, exp.toInt? with
    | some mx, some exp =>
      ({ cfg := ⟨mx, allow == "1", exp, dis == "1"⟩, s := State.init }, "ok|", .unknown)
    | _, _ => (d, "bad-op", .unknown)
  | ["addpeer", h] =>
    match hex? h with
    | none => (d, "bad-op", .unknown)
    | some a =>
      let hint : Bytes := match parts with
        | [_, v, _] => (if v.startsWith "v=" then (parseAddrTxt (v.drop 2).toString).getD [] else [])
        | _ => []
      let ev := Ev.addPeer a hint
      let (s', out) := step d.cfg d.s ev
      -- which peer did the model evict?
      let gone := d.s.peers.filter (fun p => (getPeer s'.peers p.addr).isNone)
      let v := match gone with | [p] => showAddr p.addr | [] => "-" | _ => "many"
      let m := showOut out ++ "|v=" ++ v ++ "|" ++ dump s'
      if m == normImpl impl then ({ d with s := s' }, m, .unknown)
      else let (d', vd) := verdictOn d.cfg d.s ev lastPart; (d', m, vd)
  | ["addpeers", _seed, hs] =>
    match parseHexList hs with
    | none => (d, "bad-op", .unknown)
    | some as =>
      let permTxt := match parts with | [_, p, _] => (if p.startsWith "p=" then (p.drop 2).toString else "-") | _ => "-"
      let perm := (parseNatList permTxt).getD []
      let nvalid := (as.filterMap (fun a => match validate d.cfg.allowLocalhost a with | .ok a => some a | .error _ => none)).length
      let ev := Ev.addPeers as perm
      let (s', out) := step d.cfg d.s ev
      let m := if isFull d.cfg d.s.peers || isPerm nvalid perm
               then showOut out ++ "|p=" ++ permTxt ++ "|" ++ dump s' else "bad-perm"
      if m == normImpl impl then ({ d with s := s' }, m, .unknown)
      else let (d', vd) := verdictOn d.cfg d.s ev lastPart; (d', m, vd)
  | ["clearold"] =>
    let (s1, o1) := step d.cfg d.s (.clearOld true)
    let (s2, o2) := step d.cfg d.s (.clearOld false)
    let m1 := showOut o1 ++ "|" ++ dump s1
    let m2 := showOut o2 ++ "|" ++ dump s2
    if m1 == normImpl impl then ({ d with s := s1 }, m1, .unknown)
    else if m2 == normImpl impl then ({ d with s := s2 }, m2, .unknown)
    else let (d', vd) := verdictOn d.cfg d.s (.clearOld true) lastPart; (d', m1, vd)
  | _ =>
    let ev? : Option Ev := match op.splitOn " " with
      | ["remove", h] => (hex? h).map Ev.removePeer
      | ["trust", h] => (hex? h).map Ev.setTrusted
      | ["incretry", h] => (hex? h).map Ev.increaseRetry
      | ["resetretry", h] => (hex? h).map Ev.resetRetry
      | ["resetall"] => some Ev.resetAllRetry
      | ["incoming", h, b] => (hex? h).map (fun a => Ev.setHasIncomingPort a (b == "1"))
      | ["advance", n] => n.toNat?.map Ev.advance
      | _ => none
    match ev? with
    | none => (d, "bad-op", .unknown)
    | some ev =>
      let (s', out) := step d.cfg d.s ev
      let m := showOut out ++ "|" ++ dump s'
      if m == normImpl impl then ({ d with s := s' }, m, .unknown)
      else let (d', vd) := verdictOn d.cfg d.s ev lastPart; (d', m, vd)

end Sky.C26

def main : IO Unit := Sky.Drv.loop Sky.C26.stepLine {}
