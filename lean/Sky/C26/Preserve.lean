/-
  Sky.C26.Preserve — every event of the peer-list model preserves the invariant, the bound and the
  trusted peers.  Core Lean only.
-/
import Sky.C26.Lemmas
set_option linter.unusedSimpArgs false
set_option linter.unusedVariables false
namespace Sky.C26

/-- the peer-list invariant -/
structure Inv (cfg : Cfg) (s : State) : Prop where
  /-- every stored address satisfies the address rule under the list's own configuration -/
  valid : ∀ p ∈ s.peers, ValidAddr cfg.allowLocalhost p.addr
  /-- one record per address -/
  nodup : (s.peers.map (·.addr)).Nodup
  /-- nobody was seen in the future -/
  seen : ∀ p ∈ s.peers, p.lastSeen ≤ s.now

theorem inv_init (cfg : Cfg) : Inv cfg State.init :=
  ⟨by intro p hp; simp [State.init] at hp, by simp [State.init], by intro p hp; simp [State.init] at hp⟩

theorem nodup_delPeer {ps : List Peer} (nd : (ps.map (·.addr)).Nodup) (a : Bytes) :
    ((delPeer ps a).map (·.addr)).Nodup :=
  List.Nodup.sublist (List.Sublist.map _ List.filter_sublist) nd

/-- `modPeer` with a function that keeps the address and sets LastSeen to now or leaves it -/
theorem inv_modPeer {cfg : Cfg} {s : State} (h : Inv cfg s) (a : Bytes) (f : Peer → Peer)
    (hf : ∀ p, (f p).addr = p.addr) (hs : ∀ p, (f p).lastSeen = p.lastSeen ∨ (f p).lastSeen = s.now) :
    Inv cfg { s with peers := modPeer s.peers a f } := by
  refine ⟨?_, ?_, ?_⟩
  · exact forall_modPeer (fun p => ValidAddr cfg.allowLocalhost p.addr) h.valid (fun p _ hp => by rw [hf]; exact hp)
  · show ((modPeer s.peers a f).map (·.addr)).Nodup
    rw [addrs_modPeer _ _ _ hf]; exact h.nodup
  · exact forall_modPeer (fun p => p.lastSeen ≤ s.now) h.seen (fun p _ hp => by
      rcases hs p with e | e <;> rw [e]
      · exact hp
      · exact Int.le_refl _)

theorem inv_plAdd {cfg : Cfg} {ps : List Peer} {now : Int} (h : Inv cfg ⟨ps, now⟩) {a : Bytes}
    (ha : ValidAddr cfg.allowLocalhost a) : Inv cfg ⟨plAdd ps now a, now⟩ := by
  refine ⟨?_, nodup_plAdd h.nodup now a, ?_⟩
  · intro q hq
    rcases mem_plAdd hq with ⟨p, hp, hqa, _⟩ | ⟨hqa, _⟩
    · rw [hqa]; exact h.valid p hp
    · rw [hqa]; exact ha
  · intro q hq
    rcases mem_plAdd hq with ⟨p, hp, _, _, hls⟩ | ⟨_, _, hls⟩
    · rcases hls with e | e <;> rw [e]
      · exact h.seen p hp
      · exact Int.le_refl _
    · rw [hls]; exact Int.le_refl _

theorem inv_plAddAll {cfg : Cfg} {now : Int} : ∀ (as : List Bytes) {ps : List Peer}, Inv cfg ⟨ps, now⟩ →
    (∀ a ∈ as, ValidAddr cfg.allowLocalhost a) → Inv cfg ⟨plAddAll ps now as, now⟩
  | [], _, h, _ => h
  | a :: as, _, h, ha => by
    unfold plAddAll
    exact inv_plAddAll as (inv_plAdd h (ha a List.mem_cons_self)) (fun x hx => ha x (List.mem_cons_of_mem _ hx))

theorem inv_sub {cfg : Cfg} {s : State} (h : Inv cfg s) {ps : List Peer} (hsub : ps.Sublist s.peers) :
    Inv cfg { s with peers := ps } :=
  ⟨fun p hp => h.valid p (hsub.subset hp), List.Nodup.sublist (List.Sublist.map _ hsub) h.nodup,
   fun p hp => h.seen p (hsub.subset hp)⟩

/-- the validated sub-list that AddPeers works on -/
def validList (cfg : Cfg) (addrs : List Bytes) : List Bytes :=
  addrs.filterMap (fun a => match validate cfg.allowLocalhost a with | .ok a => some a | .error _ => none)

theorem validList_valid {cfg : Cfg} {addrs : List Bytes} : ∀ a ∈ validList cfg addrs, ValidAddr cfg.allowLocalhost a := by
  intro a ha
  obtain ⟨x, _, hx⟩ := List.mem_filterMap.1 ha
  split at hx
  · rename_i b hb
    injection hx with hx; subst hx
    exact validate_ok_valid hb
  · cases hx

theorem applyPerm_subset (l : List Bytes) (perm : List Nat) : ∀ a ∈ applyPerm l perm, a ∈ l := by
  intro a ha
  obtain ⟨i, _, hi⟩ := List.mem_filterMap.1 ha
  exact List.mem_of_getElem? hi

theorem inv_step {cfg : Cfg} {s : State} (h : Inv cfg s) (ev : Ev) : Inv cfg (step cfg s ev).1 := by
  cases ev with
  | addPeer addr victim =>
    simp only [step]; unfold stepAddPeer
    split
    · exact h
    · rename_i a hv
      have hva := validate_ok_valid hv
      split
      · exact inv_modPeer h a _ (fun _ => rfl) (fun _ => Or.inr rfl)
      · split
        · split
          · exact h
          · rename_i o ho
            split
            · exact h
            · have hd : Inv cfg ⟨delPeer s.peers o.addr, s.now⟩ := inv_sub h List.filter_sublist
              exact inv_plAdd hd hva
        · exact inv_plAdd (cfg := cfg) (ps := s.peers) (now := s.now) h hva
  | addPeers addrs perm =>
    simp only [step]; unfold stepAddPeers
    split
    · exact h
    · simp only
      apply inv_plAddAll (cfg := cfg) (ps := s.peers) (now := s.now) _ h
      intro a ha
      have ha' : a ∈ applyPerm (validList cfg addrs) perm := by
        split at ha
        · exact List.mem_of_mem_take ha
        · exact ha
      exact validList_valid a (applyPerm_subset _ _ a ha')
  | removePeer a => exact inv_sub h List.filter_sublist
  | setTrusted addr =>
    simp only [step]; unfold stepSetTrusted
    split
    · exact h
    · split
      · exact h
      · exact inv_modPeer h _ _ (fun _ => rfl) (fun _ => Or.inl rfl)
  | increaseRetry a => exact inv_modPeer h _ _ (fun _ => rfl) (fun _ => Or.inr rfl)
  | resetRetry a => exact inv_modPeer h _ _ (fun _ => rfl) (fun _ => Or.inr rfl)
  | resetAllRetry =>
    simp only [step]
    refine ⟨?_, ?_, ?_⟩
    · intro q hq
      obtain ⟨p, hp, rfl⟩ := List.mem_map.1 hq
      exact h.valid p hp
    · simp only [List.map_map]
      exact h.nodup
    · intro q hq
      obtain ⟨p, hp, rfl⟩ := List.mem_map.1 hq
      exact h.seen p hp
  | setHasIncomingPort addr b =>
    simp only [step]; unfold stepSetHasIncomingPort
    split
    · exact h
    · split
      · exact h
      · exact inv_modPeer h _ _ (fun _ => rfl) (fun _ => Or.inr rfl)
  | clearOld f =>
    simp only [step]
    split
    · exact h
    · exact inv_sub h List.filter_sublist
  | advance d =>
    simp only [step]
    exact ⟨h.valid, h.nodup, fun p hp => by have := h.seen p hp; simp only; omega⟩

theorem inv_run {cfg : Cfg} : ∀ (evs : List Ev) {s : State}, Inv cfg s → Inv cfg (run cfg s evs)
  | [], _, h => h
  | e :: es, _, h => inv_run es (inv_step h e)

/-! ### the bound -/

theorem bounded_addPeers {cfg : Cfg} {s : State} (hb : Bounded cfg s.peers) (addrs : List Bytes) (perm : List Nat) :
    Bounded cfg (stepAddPeers cfg s addrs perm).1.peers := by
  unfold stepAddPeers
  split
  · exact hb
  · rename_i hfull
    intro hmax
    simp only [hmax, if_true]
    have hlt : (s.peers.length : Int) < cfg.max := by
      simp only [isFull, Bool.and_eq_true, decide_eq_true_eq, not_and, Int.not_le] at hfull
      have := hfull hmax; omega
    generalize hc : List.take _ (applyPerm _ perm) = capped
    have h2 : capped.length ≤ (cfg.max - s.peers.length).toNat := by
      rw [← hc]; exact List.length_take_le _ _
    have h1 := length_plAddAll_le s.now capped s.peers
    omega

theorem bounded_addPeer {cfg : Cfg} {s : State} (hb : Bounded cfg s.peers) (addr victim : Bytes) :
    Bounded cfg (stepAddPeer cfg s addr victim).1.peers := by
  unfold stepAddPeer
  split
  · exact hb
  · split
    · intro hmax; simp only; rw [length_modPeer]; exact hb hmax
    · split
      · split
        · exact hb
        · rename_i o ho
          split
          · exact hb
          · intro hmax
            have hm := (findOldest_spec ho).1
            have h1 := length_delPeer_lt hm
            have h2 := length_plAdd_le (delPeer s.peers o.addr) s.now ‹Bytes›
            have h3 := hb hmax
            show ((plAdd (delPeer s.peers o.addr) s.now _).length : Int) ≤ cfg.max
            omega
      · rename_i hfull
        intro hmax
        simp only [isFull, Bool.and_eq_true, decide_eq_true_eq, not_and, Int.not_le] at hfull
        have := hfull hmax
        have h2 := length_plAdd_le s.peers s.now ‹Bytes›
        show ((plAdd s.peers s.now _).length : Int) ≤ cfg.max
        omega

theorem bounded_step {cfg : Cfg} {s : State} (hb : Bounded cfg s.peers) (ev : Ev) :
    Bounded cfg (step cfg s ev).1.peers := by
  cases ev with
  | addPeer a v => exact bounded_addPeer hb a v
  | addPeers as perm => exact bounded_addPeers hb as perm
  | removePeer a =>
    intro hmax; have := hb hmax; have := length_delPeer_le s.peers a
    show ((delPeer s.peers a).length : Int) ≤ cfg.max
    omega
  | setTrusted a =>
    simp only [step]; unfold stepSetTrusted
    split
    · exact hb
    · split
      · exact hb
      · intro hmax; simp only; rw [length_modPeer]; exact hb hmax
  | increaseRetry a => intro hmax; simp only [step]; rw [length_modPeer]; exact hb hmax
  | resetRetry a => intro hmax; simp only [step]; rw [length_modPeer]; exact hb hmax
  | resetAllRetry => intro hmax; simp only [step, List.length_map]; exact hb hmax
  | setHasIncomingPort a b =>
    simp only [step]; unfold stepSetHasIncomingPort
    split
    · exact hb
    · split
      · exact hb
      · intro hmax; simp only; rw [length_modPeer]; exact hb hmax
  | clearOld f =>
    simp only [step]
    split
    · exact hb
    · intro hmax
      have := hb hmax
      have := List.length_filter_le (fun p : Peer => !(!p.trusted && (decide (s.now - p.lastSeen > cfg.expiration) ||
        (f && decide (s.now - p.lastSeen = cfg.expiration))))) s.peers
      show ((clearOld cfg s.now f s.peers).length : Int) ≤ cfg.max
      unfold clearOld
      omega
  | advance d => exact hb

theorem bounded_run {cfg : Cfg} : ∀ (evs : List Ev) {s : State}, Bounded cfg s.peers → Bounded cfg (run cfg s evs).peers
  | [], _, h => h
  | e :: es, _, h => bounded_run es (bounded_step h e)

/-! ### trusted peers stay -/

theorem trusted_step {cfg : Cfg} {s : State} (h : Inv cfg s) (ev : Ev) (hev : ∀ a, ev ≠ .removePeer a) :
    TrustedKept s.peers (step cfg s ev).1.peers := by
  have keep : TrustedKept s.peers s.peers := fun p hp hpt => ⟨p, hp, rfl, hpt⟩
  cases ev with
  | addPeer addr victim =>
    simp only [step]; unfold stepAddPeer
    split
    · exact keep
    · split
      · intro p hp hpt
        exact kept_modPeer (f := fun p => { p with lastSeen := s.now }) (fun _ => rfl) (fun _ h => h) hp hpt
      · split
        · split
          · exact keep
          · rename_i o ho
            split
            · exact keep
            · intro p hp hpt
              have ⟨hom, hot, _⟩ := findOldest_spec ho
              have hne : p.addr ≠ o.addr := by
                intro e
                -- same address ⇒ same record (one record per address), but o is untrusted
                have : p = o := peer_addr_uniq h.nodup hp hom e
                subst this
                rw [hpt] at hot; cases hot
              exact kept_plAdd (mem_delPeer.2 ⟨hp, hne⟩) hpt
        · intro p hp hpt; exact kept_plAdd hp hpt
  | addPeers addrs perm =>
    simp only [step]; unfold stepAddPeers
    split
    · exact keep
    · intro p hp hpt; exact kept_plAddAll s.now _ hp hpt
  | removePeer a => exact absurd rfl (hev a)
  | setTrusted addr =>
    simp only [step]; unfold stepSetTrusted
    split
    · exact keep
    · split
      · exact keep
      · intro p hp hpt
        exact kept_modPeer (f := fun p => { p with trusted := true }) (fun _ => rfl) (fun _ _ => rfl) hp hpt
  | increaseRetry a =>
    intro p hp hpt
    exact kept_modPeer (f := fun p => { p with retry := p.retry + 1, lastSeen := s.now }) (fun _ => rfl) (fun _ h => h) hp hpt
  | resetRetry a =>
    intro p hp hpt
    exact kept_modPeer (f := fun p => { p with retry := 0, lastSeen := s.now }) (fun _ => rfl) (fun _ h => h) hp hpt
  | resetAllRetry =>
    intro p hp hpt
    exact ⟨{ p with retry := 0 }, List.mem_map.2 ⟨p, hp, rfl⟩, rfl, hpt⟩
  | setHasIncomingPort addr b =>
    simp only [step]; unfold stepSetHasIncomingPort
    split
    · exact keep
    · split
      · exact keep
      · intro p hp hpt
        exact kept_modPeer (f := fun p => { p with hasIncomingPort := b, lastSeen := s.now }) (fun _ => rfl) (fun _ h => h) hp hpt
  | clearOld f =>
    simp only [step]
    split
    · exact keep
    · intro p hp hpt
      refine ⟨p, ?_, rfl, hpt⟩
      unfold clearOld
      exact List.mem_filter.2 ⟨hp, by simp [hpt]⟩
  | advance d => exact keep

/-! ### what an eviction / a clear-out removes -/

/-- if `AddPeer` makes a peer disappear, the list was full and that peer was untrusted, at least a day
old, and no untrusted peer was older -/
theorem evicted_spec {cfg : Cfg} {s : State} (h : Inv cfg s) (addr victim : Bytes) {q : Peer} (hq : q ∈ s.peers)
    (hgone : ∀ r ∈ (stepAddPeer cfg s addr victim).1.peers, r.addr ≠ q.addr) :
    isFull cfg s.peers = true ∧ q.trusted = false ∧ s.now - q.lastSeen ≥ 60 * 60 * 24 ∧
    ∀ p ∈ s.peers, p.trusted = false → q.lastSeen ≤ p.lastSeen := by
  unfold stepAddPeer at hgone
  split at hgone
  · exact absurd rfl (hgone q hq)
  · rename_i a hv
    split at hgone
    · exfalso
      have hm : (if q.addr = a then { q with lastSeen := s.now } else q) ∈
          modPeer s.peers a (fun p => { p with lastSeen := s.now }) := mem_modPeer.2 ⟨q, hq, rfl⟩
      apply hgone _ hm
      split <;> rfl
    · split at hgone
      · rename_i hfull
        split at hgone
        · exact absurd rfl (hgone q hq)
        · rename_i o ho
          split at hgone
          · exact absurd rfl (hgone q hq)
          · rename_i hold
            have ⟨hom, hot, hmin⟩ := findOldest_spec ho
            by_cases hqo : q.addr = o.addr
            · have : q = o := peer_addr_uniq h.nodup hq hom hqo
              subst this
              exact ⟨hfull, hot, by omega, hmin⟩
            · exfalso
              obtain ⟨r, hr, hra⟩ := addrKept_plAdd (now := s.now) (a := a) (mem_delPeer.2 ⟨hq, hqo⟩)
              exact hgone r hr hra
      · exfalso
        obtain ⟨r, hr, hra⟩ := addrKept_plAdd (now := s.now) (a := a) hq
        exact hgone r hr hra

/-- the ClearOld tick only drops untrusted peers that are at least `Expiration` old -/
theorem cleared_spec {cfg : Cfg} {s : State} (f : Bool) {q : Peer} (hq : q ∈ s.peers)
    (hgone : q ∉ (step cfg s (.clearOld f)).1.peers) :
    q.trusted = false ∧ s.now - q.lastSeen ≥ cfg.expiration := by
  simp only [step] at hgone
  split at hgone
  · exact absurd hq hgone
  · simp only [clearOld, List.mem_filter, not_and, Bool.not_eq_true, Bool.not_eq_false'] at hgone
    have := hgone hq
    simp only [Bool.and_eq_true, Bool.not_eq_true', Bool.or_eq_true, decide_eq_true_eq] at this
    refine ⟨this.1, ?_⟩
    rcases this.2 with h | h
    · omega
    · omega

end Sky.C26
