/-
  C12 — helper lemmas (sums, sorting, the hour-distribution loops, the spend-choosing loops).
-/
import Sky.C12.Model
namespace Sky.C12
open Sky Sky.C31

/-! ### generic -/

theorem addU64_ok {a b s : Nat} (h : addU64 a b = .ok s) : s = a + b ∧ a + b < 2^64 := by
  unfold addU64 specAddU64 at h
  split at h
  · injection h with h; exact ⟨h.symm, by assumption⟩
  · cases h

theorem addU64_no_panic (a b : Nat) (t : String) : addU64 a b ≠ .panic t := by
  unfold addU64 specAddU64; split <;> simp

theorem sumFrom_ok : ∀ (l : List Nat) (acc s : Nat), sumFrom acc l = .ok s → s = acc + l.sum := by
  intro l
  induction l with
  | nil => intro acc s h; simp [sumFrom] at h; simp [h]
  | cons x r ih =>
    intro acc s h
    unfold sumFrom at h
    cases ha : addU64 acc x with
    | ok v =>
      simp only [ha] at h
      have := ih _ _ h
      have hv := (addU64_ok ha).1
      simp [List.sum_cons]; omega
    | err e => simp [ha] at h
    | panic p => simp [ha] at h

theorem sumFrom_lt : ∀ (l : List Nat) (acc s : Nat), sumFrom acc l = .ok s → s < 2^64 ∨ l = [] := by
  intro l
  induction l with
  | nil => intro _ _ _; right; rfl
  | cons x r ih =>
    intro acc s h
    left
    unfold sumFrom at h
    cases ha : addU64 acc x with
    | ok v =>
      simp only [ha] at h
      rcases ih _ _ h with h1 | h1
      · exact h1
      · subst h1; simp [sumFrom] at h; subst h; have := addU64_ok ha; omega
    | err e => simp [ha] at h
    | panic p => simp [ha] at h

theorem sumFrom_no_panic : ∀ (l : List Nat) (acc : Nat) (t : String), sumFrom acc l ≠ .panic t := by
  intro l
  induction l with
  | nil => intro acc t; simp [sumFrom]
  | cons x r ih =>
    intro acc t h
    unfold sumFrom at h
    cases ha : addU64 acc x with
    | ok v => simp only [ha] at h; exact ih _ _ h
    | err e => simp [ha] at h
    | panic p => exact addU64_no_panic _ _ _ ha

/-! ### DistributeCoinHoursProportional: the two top-up loops -/

theorem topUpZeros_spec : ∀ (l : List Nat) (rem : Nat),
    (topUpZeros l rem).1.length = l.length ∧ (topUpZeros l rem).2 ≤ rem ∧
    (topUpZeros l rem).1.sum + (topUpZeros l rem).2 = l.sum + rem := by
  intro l
  induction l with
  | nil => intro rem; simp [topUpZeros]
  | cons h r ih =>
    intro rem
    unfold topUpZeros
    by_cases c : rem > 0 ∧ h = 0
    · rw [if_pos c]
      have := ih (rem - 1)
      obtain ⟨c1, c2⟩ := c
      subst c2
      simp only [List.length_cons, List.sum_cons]
      omega
    · rw [if_neg c]
      have := ih rem
      simp only [List.length_cons, List.sum_cons]
      omega

theorem topUpRest_spec : ∀ (l : List Nat) (rem : Nat), rem ≤ l.length →
    ∃ l', topUpRest l rem = .ok l' ∧ l'.length = l.length ∧ l'.sum = l.sum + rem := by
  intro l
  induction l with
  | nil => intro rem h; simp at h; subst h; exact ⟨[], by simp [topUpRest], rfl, rfl⟩
  | cons x r ih =>
    intro rem h
    cases rem with
    | zero => exact ⟨x :: r, by simp [topUpRest], rfl, by simp⟩
    | succ n =>
      obtain ⟨r', h1, h2, h3⟩ := ih n (by simp at h; omega)
      refine ⟨(x + 1) :: r', by simp [topUpRest, h1], by simp [h2], ?_⟩
      simp only [List.sum_cons]; omega

/-! ### sorting preserves sums and membership -/

theorem insertBy_sum (lt : UxB → UxB → Bool) (f : UxB → Nat) (x : UxB) :
    ∀ l : List UxB, ((insertBy lt x l).map f).sum = f x + (l.map f).sum := by
  intro l
  induction l with
  | nil => simp [insertBy]
  | cons y r ih =>
    unfold insertBy
    split
    · simp
    · simp [ih]; omega

theorem sortBy_sum (lt : UxB → UxB → Bool) (f : UxB → Nat) :
    ∀ l : List UxB, ((sortBy lt l).map f).sum = (l.map f).sum := by
  intro l
  induction l with
  | nil => simp [sortBy]
  | cons x r ih => simp [sortBy, insertBy_sum, ih]

theorem insertBy_mem (lt : UxB → UxB → Bool) (x y : UxB) :
    ∀ l : List UxB, y ∈ insertBy lt x l ↔ y = x ∨ y ∈ l := by
  intro l
  induction l with
  | nil => simp [insertBy]
  | cons z r ih =>
    unfold insertBy
    split
    · simp
    · simp [ih]; constructor
      · rintro (h | h | h) <;> simp [h]
      · rintro (h | h | h) <;> simp [h]

theorem sortBy_mem (lt : UxB → UxB → Bool) (y : UxB) :
    ∀ l : List UxB, y ∈ sortBy lt l ↔ y ∈ l := by
  intro l
  induction l with
  | nil => simp [sortBy]
  | cons x r ih => simp [sortBy, insertBy_mem, ih]

theorem filter_split_sum (p : UxB → Bool) (f : UxB → Nat) :
    ∀ l : List UxB, ((l.filter p).map f).sum + ((l.filter (fun u => !p u)).map f).sum = (l.map f).sum := by
  intro l
  induction l with
  | nil => simp
  | cons x r ih =>
    cases hp : p x <;> simp [hp] <;> omega

end Sky.C12

namespace Sky.C12
open Sky Sky.C31

/-! ### ChooseSpends -/

def sumC (l : List UxB) : Nat := (l.map (·.coins)).sum
def sumH (l : List UxB) : Nat := (l.map (·.hours)).sum

theorem sumC_append (a b : List UxB) : sumC (a ++ b) = sumC a + sumC b := by simp [sumC]
theorem sumH_append (a b : List UxB) : sumH (a ++ b) = sumH a + sumH b := by simp [sumH]

theorem insertBy_perm (lt : UxB → UxB → Bool) (x : UxB) : ∀ l : List UxB, (insertBy lt x l).Perm (x :: l) := by
  intro l
  induction l with
  | nil => simp [insertBy]
  | cons y r ih =>
    unfold insertBy
    split
    · exact List.Perm.refl _
    · exact (List.Perm.cons y ih).trans (List.Perm.swap x y r)

theorem sortBy_perm (lt : UxB → UxB → Bool) : ∀ l : List UxB, (sortBy lt l).Perm l := by
  intro l
  induction l with
  | nil => simp [sortBy]
  | cons x r ih => exact (insertBy_perm lt x _).trans (List.Perm.cons x ih)

/-- the zero-hours loop -/
theorem takeZero_spec (coins : Nat) : ∀ (zs acc : List UxB) (hc hh : Nat),
    hc = sumC acc → hh = sumH acc → (∀ u ∈ zs, u.hours = 0) → sumC acc + sumC zs < 2^64 → sumH acc < 2^64 →
    ∃ k, (takeZero coins zs acc hc hh).1 = acc ++ zs.take k ∧
         (takeZero coins zs acc hc hh).2.1 = sumC (acc ++ zs.take k) ∧
         (takeZero coins zs acc hc hh).2.2 = sumH acc ∧
         (sumC (acc ++ zs.take k) ≥ coins ∨ zs.take k = zs) := by
  intro zs
  induction zs with
  | nil => intro acc hc hh e1 e2 _ _ _; exact ⟨0, by simp [takeZero], by simp [takeZero, e1], by simp [takeZero, e2], Or.inr rfl⟩
  | cons u r ih =>
    intro acc hc hh e1 e2 hz hb hb2
    have hu : u.hours = 0 := hz u (by simp)
    have hcs : sumC (u :: r) = u.coins + sumC r := by simp [sumC]
    have w1 : wrap64 (hc + u.coins) = sumC (acc ++ [u]) := by
      rw [sumC_append]; simp only [sumC, List.map_cons, List.map_nil, List.sum_cons, List.sum_nil] at *
      unfold wrap64; rw [Nat.mod_eq_of_lt (by omega)]; omega
    have w2 : wrap64 (hh + u.hours) = sumH (acc ++ [u]) := by
      rw [sumH_append]; simp only [sumH, List.map_cons, List.map_nil, List.sum_cons, List.sum_nil] at *
      unfold wrap64; rw [Nat.mod_eq_of_lt (by omega)]; omega
    have hacc : sumH (acc ++ [u]) = sumH acc := by rw [sumH_append]; simp [sumH, hu]
    unfold takeZero
    simp only [w1, w2]
    split
    · rename_i hge
      refine ⟨1, by simp, by simp, by simp [hacc], Or.inl (by simpa using hge)⟩
    · obtain ⟨k, k1, k2, k3, k4⟩ := ih (acc ++ [u]) (sumC (acc ++ [u])) (sumH (acc ++ [u])) rfl rfl
        (fun v hv => hz v (by simp [hv])) (by rw [sumC_append]; simp only [sumC, List.map_cons, List.map_nil, List.sum_cons, List.sum_nil] at *; omega)
        (by omega)
      refine ⟨k + 1, ?_, ?_, ?_, ?_⟩
      · simpa [List.take_succ_cons, List.append_assoc] using k1
      · simpa [List.take_succ_cons, List.append_assoc] using k2
      · rw [k3, hacc]
      · rcases k4 with k4 | k4
        · left; simpa [List.take_succ_cons, List.append_assoc] using k4
        · right; simp [List.take_succ_cons, k4]

/-- the loop over the remaining outputs with hours -/
theorem takeNonzero_spec (bf coins hours : Nat) : ∀ (ns acc : List UxB) (hc hh : Nat),
    hc = sumC acc → hh = sumH acc → sumC acc + sumC ns < 2^64 → sumH acc + sumH ns < 2^64 →
    enough bf coins hours hc hh = false →
    (∀ sp, takeNonzero bf coins hours ns acc hc hh = .ok sp →
        ∃ k, sp = acc ++ ns.take k ∧ sumC sp ≥ coins ∧ remaining bf (sumH sp) ≥ hours) ∧
    (∀ e, takeNonzero bf coins hours ns acc hc hh = .err e →
        (e = user "ErrInsufficientBalance" ∧ sumC acc + sumC ns < coins) ∨
        (e = user "ErrInsufficientHours" ∧ sumC acc + sumC ns ≥ coins ∧ remaining bf (sumH acc + sumH ns) < hours)) ∧
    (∀ t, takeNonzero bf coins hours ns acc hc hh ≠ .panic t) := by
  intro ns
  induction ns with
  | nil =>
    intro acc hc hh e1 e2 _ _ hen
    refine ⟨?_, ?_, ?_⟩
    · intro sp h; unfold takeNonzero at h; split at h <;> cases h
    · intro e h
      unfold takeNonzero at h
      split at h
      · injection h with h; left; exact ⟨h.symm, by simp [sumC] at *; omega⟩
      · injection h with h; right
        rename_i hge
        refine ⟨h.symm, by simp [sumC] at *; omega, ?_⟩
        unfold enough at hen
        simp only [Bool.and_eq_false_iff, decide_eq_false_iff_not] at hen
        simp [sumH] at *
        rcases hen with hen | hen
        · omega
        · subst e2; simpa [sumH] using hen
    · intro t h; unfold takeNonzero at h; split at h <;> cases h
  | cons u r ih =>
    intro acc hc hh e1 e2 hb1 hb2 hen
    have hcs : sumC (u :: r) = u.coins + sumC r := by simp [sumC]
    have hhs : sumH (u :: r) = u.hours + sumH r := by simp [sumH]
    have w1 : wrap64 (hc + u.coins) = sumC (acc ++ [u]) := by
      rw [sumC_append]; simp only [sumC, List.map_cons, List.map_nil, List.sum_cons, List.sum_nil] at *
      unfold wrap64; rw [Nat.mod_eq_of_lt (by omega)]; omega
    have w2 : wrap64 (hh + u.hours) = sumH (acc ++ [u]) := by
      rw [sumH_append]; simp only [sumH, List.map_cons, List.map_nil, List.sum_cons, List.sum_nil] at *
      unfold wrap64; rw [Nat.mod_eq_of_lt (by omega)]; omega
    have a1 : sumC (acc ++ [u]) = sumC acc + u.coins := by rw [sumC_append]; simp [sumC]
    have a2 : sumH (acc ++ [u]) = sumH acc + u.hours := by rw [sumH_append]; simp [sumH]
    unfold takeNonzero
    simp only [w1, w2]
    by_cases hen' : enough bf coins hours (sumC (acc ++ [u])) (sumH (acc ++ [u])) = true
    · simp only [hen', if_true]
      refine ⟨?_, ?_, ?_⟩
      · intro sp h; injection h with h; subst h
        unfold enough at hen'
        simp only [Bool.and_eq_true, decide_eq_true_eq] at hen'
        exact ⟨1, by simp, hen'.1, hen'.2⟩
      · intro e h; cases h
      · intro t h; cases h
    · have hf : enough bf coins hours (sumC (acc ++ [u])) (sumH (acc ++ [u])) = false := by
        cases hx : enough bf coins hours (sumC (acc ++ [u])) (sumH (acc ++ [u])) <;> simp_all
      simp only [hf]
      obtain ⟨i1, i2, i3⟩ := ih (acc ++ [u]) _ _ rfl rfl (by omega) (by omega) hf
      refine ⟨?_, ?_, i3⟩
      · intro sp h
        obtain ⟨k, k1, k2⟩ := i1 sp h
        exact ⟨k + 1, by simpa [List.take_succ_cons, List.append_assoc] using k1, k2⟩
      · intro e h
        rcases i2 e h with ⟨x1, x2⟩ | ⟨x1, x2, x3⟩
        · left; exact ⟨x1, by omega⟩
        · right; refine ⟨x1, by omega, ?_⟩
          have : sumH acc + sumH (u :: r) = sumH (acc ++ [u]) + sumH r := by omega
          rw [this]; exact x3

end Sky.C12

namespace Sky.C12
open Sky Sky.C31

theorem distProp_ok (coins : List Nat) (hours : Nat) (l : List Nat)
    (h : distributeProportional coins hours = .ok l) : l.length = coins.length ∧ l.sum = hours := by
  unfold distributeProportional at h
  split at h; · cases h
  cases hp : propPre 0 coins with
  | err e => simp [hp] at h
  | panic p => simp [hp] at h
  | ok total =>
    simp only [hp] at h
    split at h; · cases h
    split at h; · cases h
    split at h; · cases h
    cases hs : sumFrom 0 (coins.map fun c => c * hours / total) with
    | err e => simp [hs] at h
    | panic p => simp [hs] at h
    | ok assigned =>
      simp only [hs] at h
      split at h; · cases h
      rename_i hle
      split at h; · cases h
      rename_i hrem
      have ha := sumFrom_ok _ _ _ hs
      have hz := topUpZeros_spec (coins.map fun c => c * hours / total) (hours - assigned)
      obtain ⟨z1, z2, z3⟩ := hz
      have hlen : (coins.map fun c => c * hours / total).length = coins.length := by simp
      obtain ⟨l', r1, r2, r3⟩ := topUpRest_spec (topUpZeros (coins.map fun c => c * hours / total) (hours - assigned)).1
        (topUpZeros (coins.map fun c => c * hours / total) (hours - assigned)).2 (by omega)
      have : l = l' := by
        have e : topUpRest (topUpZeros (coins.map fun c => c * hours / total) (hours - assigned)).1
            (topUpZeros (coins.map fun c => c * hours / total) (hours - assigned)).2 = .ok l := h
        rw [r1] at e; injection e with e; exact e.symm
      subst this
      exact ⟨by omega, by omega⟩


/-! ### the pieces of `create` -/

def outC (l : List Out) : Nat := (l.map (·.coins)).sum
def outH (l : List Out) : Nat := (l.map (·.hours)).sum

theorem bind_ok {α β} {x : Res α} {f : α → Res β} {b : β} (h : x.bind f = .ok b) :
    ∃ a, x = .ok a ∧ f a = .ok b := by
  cases x with
  | ok a => exact ⟨a, rfl, by simpa [Res.bind] using h⟩
  | err e => simp [Res.bind] at h
  | panic p => simp [Res.bind] at h

theorem reqTotals_ok : ∀ (l : List Out) (c0 h0 c h : Nat), reqTotals c0 h0 l = .ok (c, h) →
    c = c0 + outC l ∧ h = h0 + outH l := by
  intro l
  induction l with
  | nil => intro c0 h0 c h hh; simp [reqTotals] at hh; simp [outC, outH, hh]
  | cons o r ih =>
    intro c0 h0 c h hh
    unfold reqTotals at hh
    cases ha : addU64 c0 o.coins with
    | err e => simp [ha] at hh
    | panic p => simp [ha] at hh
    | ok c' =>
      simp only [ha] at hh
      cases hb : addU64 h0 o.hours with
      | err e => simp [hb] at hh
      | panic p => simp [hb] at hh
      | ok h' =>
        simp only [hb] at hh
        obtain ⟨i1, i2⟩ := ih _ _ _ _ hh
        have := (addU64_ok ha).1; have := (addU64_ok hb).1
        simp only [outC, outH, List.map_cons, List.sum_cons] at *
        omega

theorem inTotals_ok : ∀ (l : List UxB) (c0 h0 : Nat) (ins0 : List Nat) (c h : Nat) (ins : List Nat),
    inTotals c0 h0 ins0 l = .ok (c, h, ins) →
    c = c0 + sumC l ∧ h = h0 + sumH l ∧ ins = ins0 ++ l.map (·.hash) ∧ (c0 < 2^64 → c < 2^64) ∧ (h0 < 2^64 → h < 2^64) := by
  intro l
  induction l with
  | nil =>
    intro c0 h0 ins0 c h ins hh; simp [inTotals] at hh
    obtain ⟨e1, e2, e3⟩ := hh; subst e1 e2 e3
    exact ⟨by simp [sumC], by simp [sumH], by simp, id, id⟩
  | cons s r ih =>
    intro c0 h0 ins0 c h ins hh
    unfold inTotals at hh
    cases ha : addU64 c0 s.coins with
    | err e => simp [ha] at hh
    | panic p => simp [ha] at hh
    | ok c' =>
      simp only [ha] at hh
      cases hb : addU64 h0 s.hours with
      | err e => simp [hb] at hh
      | panic p => simp [hb] at hh
      | ok h' =>
        simp only [hb] at hh
        split at hh; · cases hh
        obtain ⟨i1, i2, i3, i4, i5⟩ := ih _ _ _ _ _ _ hh
        have a1 := addU64_ok ha; have b1 := addU64_ok hb
        simp only [sumC, sumH, List.map_cons, List.sum_cons] at *
        refine ⟨by omega, by omega, by simp [i3], fun _ => i4 (by omega), fun _ => i5 (by omega)⟩

theorem pushOuts_ok : ∀ (l acc r : List Out), pushOuts acc l = .ok r → r = acc ++ l := by
  intro l
  induction l with
  | nil => intro acc r h; simp [pushOuts] at h; simp [h]
  | cons o t ih =>
    intro acc r h
    unfold pushOuts at h
    split at h; · cases h
    have := ih _ _ h
    simp [this]

/-- `find?` by uxid returns the element itself when uxids are distinct -/
theorem find_hash {uxb : List UxB} (hn : (uxb.map (·.hash)).Nodup) {u : UxB} (hu : u ∈ uxb) :
    uxb.find? (·.hash = u.hash) = some u := by
  induction uxb with
  | nil => cases hu
  | cons x r ih =>
    simp only [List.map_cons, List.nodup_cons] at hn
    rcases List.mem_cons.mp hu with e | e
    · subst e; simp
    · have hne : x.hash ≠ u.hash := by
        intro heq
        exact hn.1 (heq ▸ List.mem_map.mpr ⟨u, e, rfl⟩)
      simp [hne, ih hn.2 e]

theorem mapM_find {uxb : List UxB} (hn : (uxb.map (·.hash)).Nodup) :
    ∀ (sp : List UxB), (∀ u ∈ sp, u ∈ uxb) →
      (sp.map (·.hash)).mapM (fun h => uxb.find? (·.hash = h)) = some sp := by
  intro sp
  induction sp with
  | nil => intro _; rfl
  | cons u r ih =>
    intro h
    have h1 := find_hash hn (h u (by simp))
    have h2 := ih (fun v hv => h v (by simp [hv]))
    simp [List.mapM_cons, h1, h2]

end Sky.C12

namespace Sky.C12
open Sky Sky.C31

theorem outC_append (a b : List Out) : outC (a ++ b) = outC a + outC b := by simp [outC]

theorem buildOuts_ok {p : Params} {rem : Nat} {outs : List Out} (h : buildOuts p rem = .ok outs) :
    outs.map (fun o => (o.addr, o.coins)) = p.to.map (fun o => (o.addr, o.coins)) ∧
    (p.typ = "manual" → outs = p.to) ∧
    (p.typ ≠ "manual" → ∃ n e, p.share = some (n, e) ∧ outH outs = (Int.tdiv (n * (rem : Int)) ((10 : Int) ^ e)).toNat) := by
  unfold buildOuts at h
  by_cases hm : p.typ = "manual"
  · rw [if_pos hm] at h
    have := pushOuts_ok _ _ _ h
    simp at this; subst this
    exact ⟨rfl, fun _ => rfl, fun hne => absurd hm hne⟩
  · rw [if_neg hm] at h
    cases hs : p.share with
    | none => simp [hs] at h
    | some sh =>
      obtain ⟨n, e⟩ := sh
      simp only [hs] at h
      by_cases c1 : rem ≥ 2^63
      · rw [if_pos c1] at h; cases h
      rw [if_neg c1] at h
      by_cases c2 : Int.tdiv (n * (rem : Int)) ((10 : Int) ^ e) < 0
      · simp only [c2, if_true] at h; cases h
      simp only [c2, if_false] at h
      cases hd : distributeProportional (p.to.map (·.coins)) (Int.tdiv (n * (rem : Int)) ((10 : Int) ^ e)).toNat with
      | err er => simp [hd] at h
      | panic x => simp [hd] at h
      | ok ah =>
        simp only [hd] at h
        have := pushOuts_ok _ _ _ h
        simp at this; subst this
        obtain ⟨l1, l2⟩ := distProp_ok _ _ _ hd
        simp at l1
        refine ⟨?_, fun hh => absurd hh hm, fun _ => ⟨n, e, rfl, ?_⟩⟩
        · apply List.ext_getElem
          · simp [l1]
          · intro i h1 h2; simp
        · rw [← l2]
          simp only [outH, List.map_map]
          congr 1
          apply List.ext_getElem
          · simp [l1]
          · intro i h1 h2; simp

/-- what one (non-recursive) activation of `create` guarantees about its result -/
structure Built (bf : Nat) (p : Params) (uxs : List Ux) (head : Nat) (t : Txn) (inputs : List UxB) : Prop where
  valid : validate p = .ok ()
  offered : ∃ uxb, mkUxBs head uxs = .ok uxb ∧ (uxb.map (·.hash)).Nodup ∧ (∀ i ∈ inputs, i ∈ uxb)
  nonempty : inputs ≠ []
  ins_eq : t.ins = inputs.map (·.hash)
  verified : verifyCreated bf p t inputs = .ok ()
  reqCoins : ∃ hq, reqTotals 0 0 p.to = .ok (outC p.to, hq)
  conserve : outC t.outs = sumC inputs
  outs_ex : ∃ outs rem, buildOuts p rem = .ok outs ∧
      (t.outs = outs ∨ ∃ c, t.outs = outs ++ [c] ∧ c ∉ outs ∧ 0 < c.coins ∧
          c.addr = (match p.change with | some a => a | none => minAddr inputs))

theorem recoverHours_ok {bf : Nat} {uxb spends : List UxB} {ins : List Nat} {tih fee cc0 ch0 cc ch : Nat}
    {sp' : List UxB} {ins' : List Nat}
    (h : recoverHours bf uxb spends ins tih fee cc0 ch0 = .ok (cc, ch, sp', ins')) :
    (cc = cc0 ∧ ch = ch0 ∧ sp' = spends ∧ ins' = ins) ∨
    (cc0 = 0 ∧ ∃ extra, extra ∈ uxb ∧ cc = extra.coins ∧ sp' = spends ++ [extra] ∧ ins' = ins ++ [extra.hash]) := by
  unfold recoverHours at h
  split at h
  · rename_i hc
    split at h
    · injection h with h; simp at h; left; exact ⟨h.1.symm, h.2.1.symm, h.2.2.1.symm, h.2.2.2.symm⟩
    · rename_i extra rest hs
      have hmem : extra ∈ uxb := by
        have : extra ∈ sortBy ltHoursLow (uxb.filter fun u => ¬ (spends.map (·.hash)).contains u.hash) := by
          rw [hs]; simp
        exact (List.mem_filter.mp ((sortBy_mem _ _ _).mp this)).1
      cases ha : addU64 tih extra.hours with
      | err e => simp [ha] at h
      | panic x => simp [ha] at h
      | ok nt =>
        simp only [ha] at h
        split at h; · cases h
        split at h
        · split at h; · cases h
          cases hb : addU64 ch0 (extra.hours - (ceilDiv nt bf - fee)) with
          | err e => simp [hb] at h
          | panic x => simp [hb] at h
          | ok chh =>
            simp only [hb] at h
            split at h; · cases h
            injection h with h; simp at h
            right
            exact ⟨hc.1, extra, hmem, h.1.symm, h.2.2.1.symm, h.2.2.2.symm⟩
        · injection h with h; simp at h; left; exact ⟨h.1.symm, h.2.1.symm, h.2.2.1.symm, h.2.2.2.symm⟩
  · injection h with h; simp at h; left; exact ⟨h.1.symm, h.2.1.symm, h.2.2.1.symm, h.2.2.2.symm⟩

theorem addChange_ok {p : Params} {spends : List UxB} {outs outs2 : List Out} {cc ch : Nat}
    (h : addChange p spends outs cc ch = .ok outs2) :
    (cc = 0 ∧ outs2 = outs) ∨
    (0 < cc ∧ ∃ c : Out, outs2 = outs ++ [c] ∧ c ∉ outs ∧ c.coins = cc ∧
        c.addr = (match p.change with | some a => a | none => minAddr spends)) := by
  unfold addChange at h
  by_cases hpos : cc > 0
  · rw [if_pos hpos] at h
    right
    cases hp : p.change with
    | none =>
      simp only [hp] at h ⊢
      split at h; · cases h
      rename_i hnc
      split at h; · cases h
      injection h with h
      exact ⟨hpos, _, h.symm, by simpa using hnc, rfl, rfl⟩
    | some a =>
      simp only [hp] at h ⊢
      split at h; · cases h
      rename_i hnc
      split at h; · cases h
      injection h with h
      exact ⟨hpos, _, h.symm, by simpa using hnc, rfl, rfl⟩
  · rw [if_neg hpos] at h
    injection h with h; left; exact ⟨by omega, h.symm⟩

theorem createStep_ok {bf cc : Nat} {recur : Params → Res (Txn × List UxB)} {p : Params} {uxs : List Ux}
    {head : Nat} {t : Txn} {inputs : List UxB}
    (h : createStep bf cc recur p uxs head = .ok (t, inputs)) :
    recur { p with share := some (1, 0) } = .ok (t, inputs) ∨ Built bf p uxs head t inputs := by
  unfold createStep at h
  obtain ⟨_, hv, h⟩ := bind_ok h
  obtain ⟨uxb, hu, h⟩ := bind_ok h
  split at h; · cases h
  rename_i hnd
  have hnd : (uxb.map (·.hash)).Nodup := by simpa using hnd
  obtain ⟨⟨toc, rqh⟩, hrq, h⟩ := bind_ok h
  obtain ⟨spends, hch, h⟩ := bind_ok h
  obtain ⟨⟨tic, tih, ins⟩, hin, h⟩ := bind_ok h
  simp only at h
  split at h; · cases h
  obtain ⟨outs, hbo, h⟩ := bind_ok h
  cases hso : sumFrom 0 (outs.map (·.hours)) with
  | err e => simp [hso] at h
  | panic x => simp [hso] at h
  | ok toh =>
    simp only [hso] at h
    split at h; · cases h
    rename_i hcle
    split at h; · cases h
    obtain ⟨⟨chc, chh, sp', ins'⟩, hrh, h⟩ := bind_ok h
    simp only at h
    split at h
    · -- re-entry with share factor 1.0
      split at h; · cases h
      split at h; · cases h
      split at h; · cases h
      exact Or.inl h
    · obtain ⟨outs2, hac, h⟩ := bind_ok h
      right
      unfold finish at h
      split at h; · cases h
      rename_i inputs' hmap
      cases hvc : verifyCreated bf p ⟨ins', outs2⟩ inputs' with
      | err e => simp [hvc] at h
      | panic x => simp [hvc] at h
      | ok _ =>
        simp only [hvc] at h
        injection h with h
        injection h with h1 h2
        subst h1 h2
        -- the bookkeeping
        obtain ⟨r1, r2⟩ := reqTotals_ok _ _ _ _ _ hrq
        obtain ⟨i1, i2, i3, i4, _⟩ := inTotals_ok _ _ _ _ _ _ _ hin
        simp only [Nat.zero_add, List.nil_append] at r1 r2 i1 i2 i3
        -- the spends are offered outputs (no-wrap is not needed for membership: unfold the cases)
        have hsp_mem : ∀ u ∈ spends, u ∈ uxb := by
          -- membership does not depend on the sums: re-derive it from the structure of chooseSpends
          intro u hu
          unfold chooseSpends at hch
          split at hch; · cases hch
          split at hch; · cases hch
          split at hch; · cases hch
          split at hch; · cases hch
          rename_i first rest hs
          have memNZ : ∀ v, v = first ∨ v ∈ rest → v ∈ uxb := by
            intro v hv
            have : v ∈ sortBy ltCoinsHigh (uxb.filter fun u => u.hours ≠ 0) := by
              rw [hs]; rcases hv with hv | hv <;> simp [hv]
            exact (List.mem_filter.mp ((sortBy_mem _ _ _).mp this)).1
          have memZ : ∀ v, v ∈ sortBy ltCoinsHigh (uxb.filter fun u => u.hours = 0) → v ∈ uxb :=
            fun v hv => (List.mem_filter.mp ((sortBy_mem _ _ _).mp hv)).1
          unfold chooseFrom at hch
          simp only at hch
          split at hch
          · injection hch with hch; subst hch; simp at hu; exact memNZ u (Or.inl hu)
          · -- spends = prefix structure; use the generic membership lemmas of the loops
            have tz : ∀ (zs acc : List UxB) (a b : Nat) v, v ∈ (takeZero toc zs acc a b).1 → v ∈ acc ∨ v ∈ zs := by
              intro zs
              induction zs with
              | nil => intro acc a b v hv; simp [takeZero] at hv; exact Or.inl hv
              | cons z r ih =>
                intro acc a b v hv
                unfold takeZero at hv
                simp only at hv
                split at hv
                · simp at hv; rcases hv with hv | hv
                  · exact Or.inl hv
                  · exact Or.inr (by simp [hv])
                · rcases ih _ _ _ _ hv with hv | hv
                  · simp at hv; rcases hv with hv | hv
                    · exact Or.inl hv
                    · exact Or.inr (by simp [hv])
                  · exact Or.inr (by simp [hv])
            have tn : ∀ (ns acc : List UxB) (a b : Nat) sp, takeNonzero bf toc rqh ns acc a b = .ok sp →
                ∀ v ∈ sp, v ∈ acc ∨ v ∈ ns := by
              intro ns
              induction ns with
              | nil => intro acc a b sp hsp; unfold takeNonzero at hsp; split at hsp <;> cases hsp
              | cons z r ih =>
                intro acc a b sp hsp v hv
                unfold takeNonzero at hsp
                simp only at hsp
                split at hsp
                · injection hsp with hsp; subst hsp; simp at hv; rcases hv with hv | hv
                  · exact Or.inl hv
                  · exact Or.inr (by simp [hv])
                · rcases ih _ _ _ _ hsp v hv with hv | hv
                  · simp at hv; rcases hv with hv | hv
                    · exact Or.inl hv
                    · exact Or.inr (by simp [hv])
                  · exact Or.inr (by simp [hv])
            split at hch
            · injection hch with hch; subst hch
              rcases tz _ _ _ _ _ hu with hv | hv
              · simp at hv; exact memNZ u (Or.inl hv)
              · exact memZ u hv
            · rcases tn _ _ _ _ _ hch u hu with hv | hv
              · rcases tz _ _ _ _ _ hv with hv | hv
                · simp at hv; exact memNZ u (Or.inl hv)
                · exact memZ u hv
              · exact memNZ u (Or.inr ((sortBy_mem _ _ _).mp hv))
        have hsp_ne : spends ≠ [] := by
          intro he; subst he
          simp [sumH] at i2; subst i2
          rename_i hfee _ _ _
          simp [ceilDiv] at hfee
          omega
        -- after the optional extra input
        have hfinal : sp' ≠ [] ∧ ins' = sp'.map (·.hash) ∧ (∀ u ∈ sp', u ∈ uxb) ∧
            toc + chc = sumC sp' := by
          rcases recoverHours_ok hrh with ⟨e1, _, e3, e4⟩ | ⟨e0, extra, hm, e1, e3, e4⟩
          · subst e1 e3 e4
            exact ⟨hsp_ne, i3, hsp_mem, by omega⟩
          · subst e3 e4
            refine ⟨by simp, by simp [i3], ?_, ?_⟩
            · intro u hu; rcases List.mem_append.mp hu with hu | hu
              · exact hsp_mem u hu
              · simp at hu; subst hu; exact hm
            · rw [sumC_append]; simp [sumC] at *; omega
        obtain ⟨f1, f2, f3, f4⟩ := hfinal
        -- the inputs recovered through the map are the spends themselves
        have hinp : inputs' = sp' := by
          have := mapM_find hnd sp' f3
          rw [← f2] at this
          rw [this] at hmap; injection hmap with hmap; exact hmap.symm
        subst hinp
        -- verifyCreated re-sums the input coins? no: bound the coins through the outputs
        have hconserve : outC outs2 = sumC inputs' ∧ (outs2 = outs ∨ ∃ c, outs2 = outs ++ [c] ∧ c ∉ outs ∧ 0 < c.coins ∧
            c.addr = (match p.change with | some a => a | none => minAddr inputs')) := by
          have hoc : outC outs = toc := by
            have := congrArg (fun l => (l.map Prod.snd).sum) (buildOuts_ok hbo).1
            simp only [List.map_map, Function.comp_def] at this
            rw [r1]; exact this
          rcases addChange_ok hac with ⟨c0, e⟩ | ⟨cpos, c, e, hnot, hcc, haddr⟩
          · subst e; exact ⟨by omega, Or.inl rfl⟩
          · subst e
            refine ⟨by rw [outC_append]; simp [outC] at *; omega, Or.inr ⟨c, rfl, hnot, by omega, haddr⟩⟩
        exact ⟨hv, ⟨uxb, hu, hnd, f3⟩, f1, f2, hvc, ⟨rqh, by rw [hrq, r1]⟩, hconserve.1, outs, _, hbo, hconserve.2⟩

end Sky.C12
