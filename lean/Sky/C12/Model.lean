/-
  C12 — spend construction.  Executable model of src/transaction:
    Params.Validate, NewUxBalances, ChooseSpends (+ comparators), DistributeCoinHoursProportional,
    DistributeSpendHours, create / Create, VerifyCreatedInvariants.
  Core Lean only.  Follows the code's ORDER of checks and its error kinds; `uint64` additions that
  the code does unchecked (`haveCoins += …`) wrap, checked ones return the error the code returns.

  Identifiers are numbers: a uxid / address is the big-endian value of its bytes, so numeric order
  = `bytes.Compare` order and the null value is 0.  The burn factor `bf` is a parameter
  (params.UserVerifyTxn.BurnFactor, read back from the implementation by the harness).
-/
import Sky.Prim.Res
import Sky.C31.Spec
namespace Sky.C12
open Sky Sky.C31

/-- an offered unspent output as `NewUxBalance` sees it -/
structure Ux where
  hash : Nat
  bkSeq : Nat
  time : Nat
  addr : Nat
  coins : Nat
  initHours : Nat
  srcNull : Bool
deriving DecidableEq, Repr

/-- `UxBalance` -/
structure UxB where
  hash : Nat
  bkSeq : Nat
  addr : Nat
  coins : Nat
  initHours : Nat
  hours : Nat
  srcNull : Bool
deriving DecidableEq, Repr

structure Out where
  addr : Nat
  coins : Nat
  hours : Nat
deriving DecidableEq, Repr

structure Txn where
  ins : List Nat
  outs : List Out
deriving DecidableEq, Repr

/-- `Params`; the share factor is the decimal `num · 10^(-exp)` -/
structure Params where
  typ : String
  mode : String
  share : Option (Int × Nat)
  to : List Out
  change : Option Nat
deriving Repr

/-! ### errors -/

/-- user-level (`transaction.Error`, or the fee sentinel ChooseSpends returns) -/
def user (n : String) : Err := .wrapped "Error" (.named n)
def userOther (s : String) : Err := .wrapped "Error" (.other s)
def internal (s : String) : Err := .other s
def noFee : Err := .named "ErrTxnNoFee"

def Err.isUser : Err → Bool
  | .wrapped "Error" _ => true
  | .named "ErrTxnNoFee" => true
  | _ => false

def addU64 (a b : Nat) : Res Nat := specAddU64 a b

/-! ### Params.Validate -/

def hasDup : List Out → Bool
  | [] => false
  | o :: r => r.contains o || hasDup r

/-- the receiver loop: per receiver, coins first, then address -/
def receiverErr (o : Out) : Option Err :=
  if o.coins = 0 then some (user "ErrZeroCoinsReceiver")
  else if o.addr = 0 then some (user "ErrNullAddressReceiver") else none

def checkType (p : Params) : Res Unit :=
  if p.typ = "auto" then
    if p.to.any (fun o => o.hours ≠ 0) then .err (user "ErrReceiverZeroHoursAuto")
    else if p.mode = "share" then .ok ()
    else if p.mode = "" then .err (user "ErrMissingHoursSelectionModeAuto")
    else .err (user "ErrInvalidHoursSelelectionMode")
  else if p.typ = "manual" then
    if p.mode ≠ "" then .err (user "ErrInvalidHoursSelectionModeManual") else .ok ()
  else .err (user "ErrInvalidHoursSelectionType")

def checkShare (p : Params) : Res Unit :=
  match p.share with
  | none => if p.mode = "share" then .err (user "ErrMissingShareFactor") else .ok ()
  | some (n, e) =>
    if p.mode ≠ "share" then .err (user "ErrInvalidShareFactor")
    else if n < 0 ∨ n > (10 : Int) ^ e then .err (user "ErrShareFactorOutOfRange")
    else .ok ()

def validate (p : Params) : Res Unit :=
  if p.change = some 0 then .err (user "ErrNullChangeAddress")
  else if p.to.isEmpty then .err (user "ErrMissingReceivers")
  else
    match p.to.findSome? receiverErr with
    | some e => .err e
    | none =>
      if hasDup p.to then .err (user "ErrDuplicateReceiver")
      else (checkType p).bind fun _ => checkShare p

/-! ### NewUxBalances -/

def mkUxB (headTime : Nat) (u : Ux) : Res UxB :=
  match specCoinHours u.coins u.initHours u.time headTime with
  | .ok h => .ok ⟨u.hash, u.bkSeq, u.addr, u.coins, u.initHours, h, u.srcNull⟩
  | .err e => .err e
  | .panic p => .panic p

def mkUxBs (headTime : Nat) : List Ux → Res (List UxB)
  | [] => .ok []
  | u :: r =>
    match mkUxB headTime u with
    | .ok b => (match mkUxBs headTime r with | .ok bs => .ok (b :: bs) | .err e => .err e | .panic p => .panic p)
    | .err e => .err e
    | .panic p => .panic p

/-! ### sorting (sort.Slice with a strict total order = the unique sorted permutation) -/

/-- `makeCmpUxOutByCoins(…, a > b)`: coins high→low, hours low→high, oldest first, uxid -/
def ltCoinsHigh (a b : UxB) : Bool :=
  if a.coins = b.coins then
    if a.hours = b.hours then
      if a.bkSeq = b.bkSeq then a.hash < b.hash else a.bkSeq < b.bkSeq
    else a.hours < b.hours
  else a.coins > b.coins

/-- `makeCmpUxOutByHours(…, a < b)`: hours low→high, coins low→high, oldest first, uxid -/
def ltHoursLow (a b : UxB) : Bool :=
  if a.hours = b.hours then
    if a.coins = b.coins then
      if a.bkSeq = b.bkSeq then a.hash < b.hash else a.bkSeq < b.bkSeq
    else a.coins < b.coins
  else a.hours < b.hours

def insertBy (lt : UxB → UxB → Bool) (x : UxB) : List UxB → List UxB
  | [] => [x]
  | y :: r => if lt x y then x :: y :: r else y :: insertBy lt x r

def sortBy (lt : UxB → UxB → Bool) : List UxB → List UxB
  | [] => []
  | x :: r => insertBy lt x (sortBy lt r)

/-! ### ChooseSpends (strategy = coins high→low, i.e. ChooseSpendsMinimizeUxOuts) -/

def remaining (bf h : Nat) : Nat := h - ceilDiv h bf

def enough (bf coins hours haveCoins haveHours : Nat) : Bool :=
  haveCoins ≥ coins && remaining bf haveHours ≥ hours

/-- the zero-hours loop: append until the coins are covered (`break`) -/
def takeZero (coins : Nat) : List UxB → List UxB → Nat → Nat → List UxB × Nat × Nat
  | [], acc, hc, hh => (acc, hc, hh)
  | u :: r, acc, hc, hh =>
    let hc' := wrap64 (hc + u.coins)
    let hh' := wrap64 (hh + u.hours)
    if hc' ≥ coins then (acc ++ [u], hc', hh') else takeZero coins r (acc ++ [u]) hc' hh'

/-- the final loop over the remaining outputs with hours -/
def takeNonzero (bf coins hours : Nat) : List UxB → List UxB → Nat → Nat → Res (List UxB)
  | [], _, hc, _ =>
    if hc < coins then .err (user "ErrInsufficientBalance") else .err (user "ErrInsufficientHours")
  | u :: r, acc, hc, hh =>
    let hc' := wrap64 (hc + u.coins)
    let hh' := wrap64 (hh + u.hours)
    if enough bf coins hours hc' hh' then .ok (acc ++ [u]) else takeNonzero bf coins hours r (acc ++ [u]) hc' hh'

/-- ChooseSpends after the split: `first` = the first output with hours (coins high→low order),
`rest` = the other outputs with hours, `zero` = the sorted outputs without hours -/
def chooseFrom (bf coins hours : Nat) (first : UxB) (rest zero : List UxB) : Res (List UxB) :=
  let hc := wrap64 first.coins
  let hh := wrap64 first.hours
  if enough bf coins hours hc hh then .ok [first]
  else
    let r := takeZero coins zero [first] hc hh
    if enough bf coins hours r.2.1 r.2.2 then .ok r.1
    else takeNonzero bf coins hours (sortBy ltCoinsHigh rest) r.1 r.2.1 r.2.2

def chooseSpends (bf : Nat) (uxa : List UxB) (coins hours : Nat) : Res (List UxB) :=
  if coins = 0 then .err (user "ErrZeroSpend")
  else if uxa.isEmpty then .err (user "ErrNoUnspents")
  else if uxa.any (fun u => u.coins = 0) then .panic "UxOut coins are 0, can't spend"
  else
    match sortBy ltCoinsHigh (uxa.filter (fun u => u.hours ≠ 0)) with
    | [] => .err noFee
    | first :: rest => chooseFrom bf coins hours first rest (sortBy ltCoinsHigh (uxa.filter (fun u => u.hours = 0)))

/-! ### hours.go -/

/-- first top-up loop: one hour to every address that got 0, while hours remain -/
def topUpZeros : List Nat → Nat → List Nat × Nat
  | [], rem => ([], rem)
  | h :: r, rem =>
    if rem > 0 ∧ h = 0 then
      let (r', rem') := topUpZeros r (rem - 1)
      (1 :: r', rem')
    else
      let (r', rem') := topUpZeros r rem
      (h :: r', rem')

/-- second loop: `for remainingHours > 0 { addrHours[i]++; i++ }` — indexes past the end panic -/
def topUpRest : List Nat → Nat → Res (List Nat)
  | l, 0 => .ok l
  | [], _ + 1 => .panic "index out of range"
  | h :: r, rem + 1 =>
    match topUpRest r rem with
    | .ok r' => .ok ((h + 1) :: r')
    | .err e => .err e
    | .panic p => .panic p

def sumChecked : List Nat → Res Nat
  | [] => .ok 0
  | x :: r => match sumChecked r with
    | .ok s => addU64 s x
    | e => e

/-- running checked sum in list order (the order matters for which overflow is reported, not for the value) -/
def sumFrom (acc : Nat) : List Nat → Res Nat
  | [] => .ok acc
  | x :: r => match addU64 acc x with
    | .ok s => sumFrom s r
    | .err e => .err e
    | .panic p => .panic p

/-- the first loop of DistributeCoinHoursProportional: per element zero check, running total, int64 range -/
def propPre (tot : Nat) : List Nat → Res Nat
  | [] => .ok tot
  | c :: r =>
    if c = 0 then .err (internal "coins array has a zero value") else
    match addU64 tot c with
    | .ok t => if c ≥ 2^63 then .err (.named "ErrUint64OverflowsInt64") else propPre t r
    | .err e => .err e
    | .panic p => .panic p

def distributeProportional (coins : List Nat) (hours : Nat) : Res (List Nat) :=
  if coins.isEmpty then .err (internal "coins array must not be empty")
  else
    match propPre 0 coins with
    | .err e => .err e
    | .panic p => .panic p
    | .ok total =>
      if total ≥ 2^63 then .err (.named "ErrUint64OverflowsInt64")
      else if hours ≥ 2^63 then .err (.named "ErrUint64OverflowsInt64")
      else
        let frac := coins.map (fun c => c * hours / total)
        if frac.any (· ≥ 2^64) then .err (internal "fractional hours not representable")
        else match sumFrom 0 frac with
          | .err e => .err e
          | .panic p => .panic p
          | .ok assigned =>
            if hours < assigned then .err (internal "assigned hours exceeding input hours")
            else
              let rem := hours - assigned
              if rem > coins.length then .err (internal "remaining hours exceed len(coins)")
              else
                let (l1, rem1) := topUpZeros frac rem
                topUpRest l1 rem1

/-- `DistributeSpendHours` (not used by Create; kept with its own theorem) -/
def distributeSpendHours (bf inputHours nAddrs : Nat) (haveChange : Bool) : Nat × List Nat × Nat :=
  let remainingHours := inputHours - ceilDiv inputHours bf
  let changeHours := if haveChange then remainingHours / 2 + (if remainingHours % 2 = 1 then 1 else 0) else 0
  let remAddr := remainingHours - changeHours
  let share := remAddr / nAddrs
  let extra := remAddr - share * nAddrs
  -- `for extraHours > 0 { addrHours[i]++; i++ }`: the first `extra` addresses get one more
  let addrHours := List.replicate extra (share + 1) ++ List.replicate (nAddrs - extra) share
  (changeHours, addrHours, addrHours.sum + changeHours)

/-! ### VerifyCreatedInvariants -/

def inv (s : String) : Err := internal ("invariant: " ++ s)

def verifyCreated (bf : Nat) (p : Params) (t : Txn) (inputs : List UxB) : Res Unit :=
  if t.outs.any (fun o => o.addr = 0) then .err (inv "Output address is null")
  else if t.outs.any (fun o => o.coins = 0) then .err (inv "Output coins is 0")
  else if t.outs.length ≠ p.to.length ∧ t.outs.length ≠ p.to.length + 1 then .err (inv "unexpected number of outputs")
  else if (List.zip (t.outs.take p.to.length) p.to).any
      (fun (o, q) => o.addr ≠ q.addr ∨ o.coins ≠ q.coins ∨ (q.hours ≠ 0 ∧ o.hours ≠ q.hours)) then
    .err (inv "output does not match request")
  else if t.ins.length ≠ inputs.length then .err (inv "number of inputs")
  else if t.ins ≠ inputs.map (·.hash) then .err (inv "input hash mismatch")
  else if inputs.any (fun i => i.hours < i.initHours) then .err (inv "hours less than initial")
  else if inputs.any (fun i => (i.bkSeq = 0 ∧ ¬ i.srcNull) ∨ (i.bkSeq ≠ 0 ∧ i.srcNull)) then .err (inv "source transaction")
  else if inputs.any (fun i => i.hash = 0) then .err (inv "null hash")
  else if ¬ (inputs.map (·.hash)).Nodup then .err (inv "Duplicate input in array")
  else match sumFrom 0 (inputs.map (·.hours)) with
    | .err e => .err e
    | .panic x => .panic x
    | .ok inH => match sumFrom 0 (t.outs.map (·.hours)) with
      | .err e => .err e
      | .panic x => .panic x
      | .ok outH =>
        if inH < outH then .err (inv "input hours less than output hours")
        else if inH - outH < ceilDiv inH bf then .err (inv "will not satisfy required fee")
        else .ok ()

/-! ### create -/

/-- lexically first address among the spends (automatic change address) -/
def minAddr : List UxB → Nat
  | [] => 0
  | [u] => u.addr
  | u :: r => Nat.min u.addr (minAddr r)

def pushInputs : List Nat → List UxB → Res (List Nat)
  | acc, [] => .ok acc
  | acc, u :: r => if acc.length ≥ 65535 then .err (internal "Max transaction inputs reached") else pushInputs (acc ++ [u.hash]) r

def pushOuts : List Out → List Out → Res (List Out)
  | acc, [] => .ok acc
  | acc, o :: r => if acc.length ≥ 65535 then .err (internal "Max transaction outputs reached") else pushOuts (acc ++ [o]) r

def shareIsOne : Int × Nat → Bool
  | (n, e) => n = (10 : Int) ^ e

/-- totals requested: coins and hours are accumulated in the same loop (user-level error on overflow) -/
def reqTotals (c h : Nat) : List Out → Res (Nat × Nat)
  | [] => .ok (c, h)
  | o :: r =>
    match addU64 c o.coins with
    | .err _ => .err (userOther "total output coins error")
    | .panic x => .panic x
    | .ok c' => match addU64 h o.hours with
      | .err _ => .err (userOther "total output hours error")
      | .panic x => .panic x
      | .ok h' => reqTotals c' h' r

/-- totals of the chosen spends (checked), interleaved with PushInput -/
def inTotals (c h : Nat) (ins : List Nat) : List UxB → Res (Nat × Nat × List Nat)
  | [] => .ok (c, h, ins)
  | s :: r =>
    match addU64 c s.coins with
    | .err e => .err e
    | .panic x => .panic x
    | .ok c' => match addU64 h s.hours with
      | .err e => .err e
      | .panic x => .panic x
      | .ok h' =>
        if ins.length ≥ 65535 then .err (internal "Max transaction inputs reached")
        else inTotals c' h' (ins ++ [s.hash]) r

/-- the destination outputs: manual = as requested; auto/share = hours distributed proportionally -/
def buildOuts (p : Params) (remainingHours : Nat) : Res (List Out) :=
  if p.typ = "manual" then pushOuts [] p.to
  else
    -- auto / share (validate guarantees mode = share and a share factor)
    match p.share with
    | none => .panic "Invalid HoursSelection.Mode"
    | some (n, e) =>
      if remainingHours ≥ 2^63 then .err (.named "ErrUint64OverflowsInt64") else
      let allocated : Int := Int.tdiv (n * (remainingHours : Int)) ((10 : Int) ^ e)
      if allocated < 0 then .err (.named "ErrInt64UnderflowsUint64") else
      match distributeProportional (p.to.map (·.coins)) allocated.toNat with
      | .err er => .err er
      | .panic x => .panic x
      | .ok addrHours =>
        pushOuts [] ((List.zip p.to addrHours).map (fun (o, h) => { o with hours := h }))

/-- "If there are no change coins but there are change hours, try to add another input":
returns (changeCoins, changeHours, spends, ins) -/
def recoverHours (bf : Nat) (uxb spends : List UxB) (ins : List Nat)
    (totalInputHours feeHours changeCoins0 changeHours0 : Nat) : Res (Nat × Nat × List UxB × List Nat) :=
  if changeCoins0 = 0 ∧ changeHours0 > 0 then
    match sortBy ltHoursLow (uxb.filter (fun u => ¬ (spends.map (·.hash)).contains u.hash)) with
    | [] => .ok (changeCoins0, changeHours0, spends, ins)
    | extra :: _ =>
      match addU64 totalInputHours extra.hours with
      | .err e => .err e
      | .panic x => .panic x
      | .ok newTotal =>
        let newFee := ceilDiv newTotal bf
        if newFee < feeHours then .err (internal "updated fee unexpectedly less") else
        let additionalFee := newFee - feeHours
        if additionalFee < changeHours0 then
          if extra.hours < additionalFee then .err (internal "additional fee higher than extra input's hours") else
          match addU64 changeHours0 (extra.hours - additionalFee) with
          | .err e => .err e
          | .panic x => .panic x
          | .ok ch =>
            if ins.length ≥ 65535 then .err (internal "Max transaction inputs reached")
            else .ok (extra.coins, ch, spends ++ [extra], ins ++ [extra.hash])
        else .ok (changeCoins0, changeHours0, spends, ins)
  else .ok (changeCoins0, changeHours0, spends, ins)

/-- the change output (with the F11 repair: it must not duplicate a destination output) -/
def addChange (p : Params) (spends : List UxB) (outs : List Out) (changeCoins changeHours : Nat) : Res (List Out) :=
  if changeCoins > 0 then
    let changeAddr := match p.change with
      | some a => a
      | none => minAddr spends
    if outs.contains ⟨changeAddr, changeCoins, changeHours⟩ then .err (user "ErrChangeDuplicatesReceiver")
    else if outs.length ≥ 65535 then .err (internal "Max transaction outputs reached")
    else .ok (outs ++ [⟨changeAddr, changeCoins, changeHours⟩])
  else .ok outs

/-- recover the inputs through the uxid map and run the self-check -/
def finish (bf : Nat) (p : Params) (uxb : List UxB) (ins : List Nat) (outs2 : List Out) : Res (Txn × List UxB) :=
  match ins.mapM (fun h => uxb.find? (·.hash = h)) with
  | none => .err (internal "input is not in the UxBalanceSet")
  | some inputs =>
    match verifyCreated bf p ⟨ins, outs2⟩ inputs with
    | .err _ => .err (internal "Created transaction that violates invariants, this is a bug")
    | .panic x => .panic x
    | .ok () => .ok (⟨ins, outs2⟩, inputs)

/-- one activation of `create`; `recur` is the single permitted re-entry with share factor 1.0 -/
def createStep (bf : Nat) (callCount : Nat) (recur : Params → Res (Txn × List UxB))
    (p : Params) (uxs : List Ux) (headTime : Nat) : Res (Txn × List UxB) :=
  (validate p).bind fun _ =>
  (mkUxBs headTime uxs).bind fun uxb =>
  if ¬ (uxb.map (·.hash)).Nodup then .err (internal "Duplicate UxBalance in array") else
  (reqTotals 0 0 p.to).bind fun (totalOutCoins, requestedHours) =>
  (chooseSpends bf uxb totalOutCoins requestedHours).bind fun spends =>
  (inTotals 0 0 [] spends).bind fun (totalInputCoins, totalInputHours, ins) =>
  let feeHours := ceilDiv totalInputHours bf
  if feeHours = 0 then .err (internal "Chosen spends have no coin hours, unexpectedly") else
  let remainingHours := totalInputHours - feeHours
  (buildOuts p remainingHours).bind fun outs =>
  match sumFrom 0 (outs.map (·.hours)) with
  | .err _ => .err (internal "Transaction output hours overflow")
  | .panic x => .panic x
  | .ok totalOutHours =>
  if totalOutCoins > totalInputCoins then .err (user "ErrInsufficientBalance") else
  if totalOutHours > remainingHours then .err (.named "ErrTxnInsufficientCoinHours") else
  (recoverHours bf uxb spends ins totalInputHours feeHours (totalInputCoins - totalOutCoins)
      (remainingHours - totalOutHours)).bind fun (changeCoins, changeHours, spends, ins) =>
  if changeCoins = 0 ∧ changeHours > 0 ∧ p.typ = "auto" ∧ p.mode = "share" then
    match p.share with
    | none => .panic "nil share factor"
    | some sh =>
      if shareIsOne sh then .err (internal "share factor is 1.0 but changeHours > 0 unexpectedly")
      else if callCount > 0 then .err (internal "already fell back to share ratio 1.0")
      else recur { p with share := some (1, 0) }
  else
  (addChange p spends outs changeCoins changeHours).bind fun outs2 =>
  finish bf p uxb ins outs2

def create (bf : Nat) (p : Params) (uxs : List Ux) (headTime : Nat) : Res (Txn × List UxB) :=
  createStep bf 0 (fun p' => createStep bf 1 (fun _ => .err (internal "unreachable")) p' uxs headTime) p uxs headTime

end Sky.C12
