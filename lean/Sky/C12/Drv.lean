/-
  C12 driver: answers `create` / `choose` / `prop` / `dsh` lines from the model, and evaluates the
  PROPERTY's own predicate on the implementation's output of `create`:

    fail     the implementation returned a transaction that is not well formed / does not pay exactly /
             loses coins / under-burns / spends something not offered or twice — or panicked — or
             failed with a non-user-level error on a realistic offer
    unknown  model and implementation differ but the property is not shown violated
-/
import Sky.Prim.DrvLib
import Sky.C12.Model
namespace Sky.C12
open Sky Sky.Drv Sky.C31

def ofBE (bs : List Nat) : Nat := bs.foldl (fun a b => a * 256 + b % 256) 0
def natOfHex (s : String) : Option Nat := (hex? s).map ofBE

def toBytes (n : Nat) (x : Nat) : List Nat := (List.range n).map fun i => x / 256 ^ (n - 1 - i) % 256
def hexN (n : Nat) (x : Nat) : String := hexOf (toBytes n x)

def field (pre : String) (ws : List String) : String :=
  match ws.find? (·.startsWith pre) with
  | some w => (w.drop pre.length).toString
  | none => "-"

def items (s : String) : List String := if s == "-" || s == "" then [] else s.splitOn ","

def parseOut (s : String) : Option Out :=
  match s.splitOn ":" with
  | [a, c, h] => do pure ⟨← natOfHex a, ← c.toNat?, ← h.toNat?⟩
  | _ => none

def parseUx (s : String) : Option Ux :=
  match s.splitOn ":" with
  | [hash, bk, tm, a, c, h, src] => do
      pure ⟨← natOfHex hash, ← bk.toNat?, ← tm.toNat?, ← natOfHex a, ← c.toNat?, ← h.toNat?, (← natOfHex src) == 0⟩
  | _ => none

def parseUxB (s : String) : Option UxB :=
  match s.splitOn ":" with
  | [hash, bk, a, c, h] => do
      pure ⟨← natOfHex hash, ← bk.toNat?, ← natOfHex a, ← c.toNat?, 0, ← h.toNat?, false⟩
  | _ => none

def parseShare (s : String) : Option (Option (Int × Nat)) :=
  if s == "-" then some none else
  match s.splitOn "/" with
  | [n, e] => do pure (some (← n.toInt?, ← e.toNat?))
  | _ => none

def dash (s : String) : String := if s == "-" then "" else s

def showOuts (os : List Out) : String :=
  if os.isEmpty then "-" else ",".intercalate (os.map fun o => s!"{hexN 21 o.addr}:{o.coins}:{o.hours}")

def showTxn (t : Txn) : String :=
  s!"ins={",".intercalate (t.ins.map (hexN 32))} outs={showOuts t.outs} verify=ok"

def showCreate : Res (Txn × List UxB) → String
  | .ok (t, _) => "ok " ++ showTxn t
  | .err e => "err " ++ e.toString
  | .panic _ => "panic"

/-- a realistic offer: what a node can hand to Create (amounts of real unspent outputs) -/
def realistic (uxs : List Ux) (to : List Out) : Bool :=
  (uxs.map (·.coins)).foldl (· + ·) 0 < 2^63 && (uxs.map (·.initHours)).foldl (· + ·) 0 < 2^62 &&
  uxs.all (fun u => u.coins > 0 && u.hash ≠ 0 && ((u.bkSeq == 0) == u.srcNull)) &&
  uxs.length < 60000 && to.length < 60000 && (uxs.map (·.hash)).eraseDups.length == uxs.length

/-- the property evaluated on an implementation answer `ok ins=… outs=… verify=…` -/
def implOK (bf : Nat) (p : Params) (uxb : List UxB) (impl : String) : Bool :=
  let ws := impl.splitOn " "
  let ins := (items (field "ins=" ws)).filterMap natOfHex
  let outs := (items (field "outs=" ws)).filterMap parseOut
  let inputs := ins.filterMap fun h => uxb.find? (·.hash = h)
  let inC := (inputs.map (·.coins)).foldl (· + ·) 0
  let inH := (inputs.map (·.hours)).foldl (· + ·) 0
  let outC := (outs.map (·.coins)).foldl (· + ·) 0
  let outH := (outs.map (·.hours)).foldl (· + ·) 0
  field "verify=" ws == "ok"
  && inputs.length == ins.length && ins.eraseDups.length == ins.length && !ins.isEmpty    -- offered, once each
  && !hasDup outs && outs.all (fun o => o.coins > 0)
  && (outs.take p.to.length).length == p.to.length
  && (List.zip (outs.take p.to.length) p.to).all (fun (o, q) => o.addr == q.addr && o.coins == q.coins &&
        (p.typ != "manual" || o.hours == q.hours))
  && (outs.length == p.to.length || outs.length == p.to.length + 1)
  && inC == outC                                                                    -- remaining coins go to change
  && (outs.length != p.to.length + 1 || (match p.change with
        | some a => (outs.drop p.to.length).all (·.addr == a)
        | none => (outs.drop p.to.length).all (fun o => inputs.any (·.addr == o.addr))))
  && inH ≥ outH && inH - outH ≥ ceilDiv inH bf                                       -- burns at least the required fee

/-- `choose_complete`, evaluated on an implementation answer: a failure for lack of funds although
the offered coins cover the request and the offered hours cover it after the fee (charged once on
the total) -/
def lackErr (impl : String) : Bool :=
  impl == "err Error(ErrInsufficientHours)" || impl == "err Error(ErrInsufficientBalance)"

def fundsSuffice (bf : Nat) (uxb : List UxB) (coins hours : Nat) : Bool :=
  let c := (uxb.map (·.coins)).foldl (· + ·) 0
  let h := (uxb.map (·.hours)).foldl (· + ·) 0
  c < 2^64 && h < 2^64 && bf ≥ 1 && coins > 0 && uxb.all (·.coins > 0) && uxb.any (·.hours ≠ 0) &&
  c ≥ coins && remaining bf h ≥ hours

def userErr (impl : String) : Bool :=
  impl.startsWith "err Error(" || impl == "err ErrTxnNoFee"

def stepCreate (ws : List String) (impl : String) : String × Verdict :=
  let r := do
    let bf ← (field "bf=" ws).toNat?
    let head ← (field "head=" ws).toNat?
    let share ← parseShare (field "share=" ws)
    let change ← if field "change=" ws == "-" then some none else (natOfHex (field "change=" ws)).map some
    let to ← (items (field "to=" ws)).mapM parseOut
    let uxs ← (items (field "ux=" ws)).mapM parseUx
    pure (bf, head, share, change, to, uxs)
  match r with
  | none => ("bad-op", .unknown)
  | some (bf, head, share, change, to, uxs) =>
    let p : Params := ⟨dash (field "typ=" ws), dash (field "mode=" ws), share, to, change⟩
    let m := showCreate (create bf p uxs head)
    if impl.startsWith "panic" then ("no panic: " ++ m, .fail)
    else if impl.startsWith "ok" then
      match mkUxBs head uxs with
      | .ok uxb => if implOK bf p uxb impl then (m, .unknown) else ("well-formed result demanded; model: " ++ m, .fail)
      | _ => (m, .unknown)
    else if !userErr impl && realistic uxs to then ("user-level error or a transaction demanded; model: " ++ m, .fail)
    else if lackErr impl && (match mkUxBs head uxs with
        | .ok uxb => fundsSuffice bf uxb ((to.map (·.coins)).foldl (· + ·) 0) ((to.map (·.hours)).foldl (· + ·) 0)
        | _ => false) then
      ("failed for lack of funds although the offered coins and hours (after the fee on the total) suffice; model: " ++ m, .fail)
    else (m, .unknown)

def showNats (l : List Nat) : String := if l.isEmpty then "-" else ",".intercalate (l.map toString)

/-- `DistributeSpendHours` divides by nAddrs -/
def dshLine (bf inH n : Nat) (ch : Bool) : String :=
  if n = 0 then "panic" else
  let (c, a, t) := distributeSpendHours bf inH n ch
  s!"ok change={c} addrs={showNats a} total={t}"

def step (op impl : String) : String × Verdict :=
  let ws := op.splitOn " "
  match ws.head? with
  | some "create" => stepCreate ws impl
  | some "choose" =>
      (match (field "bf=" ws).toNat?, (field "coins=" ws).toNat?, (field "hours=" ws).toNat?,
             (items (field "ux=" ws)).mapM parseUxB with
       | some bf, some c, some h, some uxb =>
           let m := match chooseSpends bf uxb c h with
            | .ok sp => "ok " ++ ",".intercalate (sp.map (hexN 32 ·.hash))
            | .err e => "err " ++ e.toString
            | .panic _ => "panic"
           if lackErr impl && fundsSuffice bf uxb c h then
             ("choose_complete: lack-of-funds error although coins and hours suffice; model: " ++ m, .fail)
           else (m, .unknown)
       | _, _, _, _ => ("bad-op", .unknown))
  | some "prop" =>
      (match (field "hours=" ws).toNat?, (items (field "coins=" ws)).mapM (·.toNat?) with
       | some h, some cs =>
           (match distributeProportional cs h with
            | .ok l => "ok " ++ showNats l
            | .err e => "err " ++ e.toString
            | .panic _ => "panic", .unknown)
       | _, _ => ("bad-op", .unknown))
  | some "dsh" =>
      (match (field "bf=" ws).toNat?, (field "in=" ws).toNat?, (field "n=" ws).toNat? with
       | some bf, some i, some n => (dshLine bf i n (field "change=" ws == "1"), .unknown)
       | _, _, _ => ("bad-op", .unknown))
  | _ => ("bad-op", .unknown)

end Sky.C12

def main : IO Unit := Sky.Drv.loopPure Sky.C12.step
