/- C31 translator-validation driver: evaluates the REGENERATED definitions (Sky.Gen.*, emitted by
   tools/extract/gosubset from the current Go source) on the same op lines as the real Go functions.
   A difference here means the translation is not faithful to the code (or the code changed in a way
   the translator mis-reads): the theorems would then be about the wrong functions. -/
import Sky.Prim.DrvLib
import Sky.Gen.Mathutil
import Sky.Gen.Fee
import Sky.Gen.CoinHours
namespace Sky.C31.Gen
open Sky Sky.Drv

def showN : Res Nat → String := showRes toString
def showI : Res Int → String := showRes toString
def showU : Res Unit → String := showRes (fun _ => "")

def gen (op : String) : String :=
  match op.splitOn " " with
  | ["AddUint64", a, b] => (do let a ← nat? a; let b ← nat? b; pure (showN (Sky.Gen.Mathutil.AddUint64 a b))).getD "bad-op"
  | ["MultUint64", a, b] => (do let a ← nat? a; let b ← nat? b; pure (showN (Sky.Gen.Mathutil.MultUint64 a b))).getD "bad-op"
  | ["AddUint32", a, b] => (do let a ← nat? a; let b ← nat? b; pure (showN (Sky.Gen.Mathutil.AddUint32 a b))).getD "bad-op"
  | ["Uint64ToInt64", a] => (do let a ← nat? a; pure (showI (Sky.Gen.Mathutil.Uint64ToInt64 a))).getD "bad-op"
  | ["Int64ToUint64", a] => (do let a ← int? a; pure (showN (Sky.Gen.Mathutil.Int64ToUint64 a))).getD "bad-op"
  | ["IntToUint32", a] => (do let a ← int? a; pure (showN (Sky.Gen.Mathutil.IntToUint32 a))).getD "bad-op"
  | ["RequiredFee", h, bf] => (do let h ← nat? h; let bf ← nat? bf; pure (showN (Sky.Gen.Fee.RequiredFee h bf))).getD "bad-op"
  | ["RemainingHours", h, bf] => (do let h ← nat? h; let bf ← nat? bf; pure (showN (Sky.Gen.Fee.RemainingHours h bf))).getD "bad-op"
  | ["VerifyFee", h, f, bf] =>
      (do let h ← nat? h; let f ← nat? f; let bf ← nat? bf
          pure (showU (Sky.Gen.Fee.VerifyTransactionFeeForHours h f bf))).getD "bad-op"
  | ["CoinHours", c, h, tm, t] =>
      (do let c ← nat? c; let h ← nat? h; let tm ← nat? tm; let t ← nat? t
          pure (showN (Sky.Gen.CoinHours.UxOut_CoinHours c h tm t))).getD "bad-op"
  | _ => "bad-op"

end Sky.C31.Gen

def main : IO Unit := Sky.Drv.loopPure fun op _ => (Sky.C31.Gen.gen op, .unknown)
