/-
  C31 — specification (right-hand sides of the theorems), executable, core Lean only.
  These are the mathematical statements the property names; the driver prints them so the
  correspondence check can compare them with the real Go functions on the same inputs.
-/
import Sky.Prim.Res
namespace Sky.C31
open Sky

def ovf : Err := .other ""

def specAddU64 (a b : Nat) : Res Nat :=
  if a + b < 2^64 then .ok (a + b) else .err (.named "ErrUint64AddOverflow")
def specMulU64 (a b : Nat) : Res Nat :=
  if a * b < 2^64 then .ok (a * b) else .err (.named "ErrUint64MultOverflow")
def specAddU32 (a b : Nat) : Res Nat :=
  if a + b < 2^32 then .ok (a + b) else .err (.named "ErrUint32AddOverflow")
def specU64ToI64 (a : Nat) : Res Int :=
  if a < 2^63 then .ok (a : Int) else .err (.named "ErrUint64OverflowsInt64")
def specI64ToU64 (a : Int) : Res Nat :=
  if a < 0 then .err (.named "ErrInt64UnderflowsUint64") else .ok a.toNat
def specIntToU32 (a : Int) : Res Nat :=
  if a < 0 then .err (.named "ErrIntUnderflowsUint32")
  else if a > 2^32 - 1 then .err (.named "ErrIntOverflowsUint32") else .ok a.toNat

/-- ⌈h / bf⌉ -/
def ceilDiv (h bf : Nat) : Nat := (h + bf - 1) / bf

def specRequiredFee (h bf : Nat) : Res Nat :=
  if bf = 0 then .panic "div0" else .ok (ceilDiv h bf)
def specRemaining (h bf : Nat) : Res Nat :=
  if bf = 0 then .panic "div0" else .ok (h - ceilDiv h bf)

def specVerifyFee (hours fee bf : Nat) : Res Unit :=
  if fee = 0 then .err (.named "ErrTxnNoFee")
  else if hours + fee ≥ 2^64 then .err ovf
  else if bf = 0 then .panic "div0"
  else if fee < ceilDiv (hours + fee) bf then .err (.named "ErrTxnInsufficientFee")
  else .ok ()

/-- accrued hours: initial hours + ⌊coins · Δ / 3.6e9⌋, error exactly when an intermediate
(`Δ·⌊coins/1e6⌋`, `Δ·(coins mod 1e6)`, their combination) or the final sum leaves 64 bits. -/
def specCoinHours (coins hours time t : Nat) : Res Nat :=
  if t < time then .ok hours else
  let Δ := t - time
  let W := coins / 1000000
  let d := coins % 1000000
  if Δ * W ≥ 2^64 then .err ovf
  else if Δ * d ≥ 2^64 then .err ovf
  else if Δ * W + Δ * d / 1000000 ≥ 2^64 then .err ovf
  else if hours + coins * Δ / 3600000000 ≥ 2^64 then
    .err (.named "ErrAddEarnedCoinHoursAdditionOverflow")
  else .ok (hours + coins * Δ / 3600000000)

end Sky.C31
