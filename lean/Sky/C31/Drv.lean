/- C31 driver: prints the SPECIFICATION (right-hand sides of the C31 theorems) for each op line. -/
import Sky.Prim.DrvLib
import Sky.C31.Spec
namespace Sky.C31
open Sky Sky.Drv

def showN : Res Nat → String := showRes toString
def showI : Res Int → String := showRes toString
def showU : Res Unit → String := showRes (fun _ => "")

def spec (op : String) : String :=
  match op.splitOn " " with
  | ["AddUint64", a, b] => (do let a ← nat? a; let b ← nat? b; pure (showN (specAddU64 a b))).getD "bad-op"
  | ["MultUint64", a, b] => (do let a ← nat? a; let b ← nat? b; pure (showN (specMulU64 a b))).getD "bad-op"
  | ["AddUint32", a, b] => (do let a ← nat? a; let b ← nat? b; pure (showN (specAddU32 a b))).getD "bad-op"
  | ["Uint64ToInt64", a] => (do let a ← nat? a; pure (showI (specU64ToI64 a))).getD "bad-op"
  | ["Int64ToUint64", a] => (do let a ← int? a; pure (showN (specI64ToU64 a))).getD "bad-op"
  | ["IntToUint32", a] => (do let a ← int? a; pure (showN (specIntToU32 a))).getD "bad-op"
  | ["RequiredFee", h, bf] => (do let h ← nat? h; let bf ← nat? bf; pure (showN (specRequiredFee h bf))).getD "bad-op"
  | ["RemainingHours", h, bf] => (do let h ← nat? h; let bf ← nat? bf; pure (showN (specRemaining h bf))).getD "bad-op"
  | ["VerifyFee", h, f, bf] =>
      (do let h ← nat? h; let f ← nat? f; let bf ← nat? bf; pure (showU (specVerifyFee h f bf))).getD "bad-op"
  | ["CoinHours", c, h, tm, t] =>
      (do let c ← nat? c; let h ← nat? h; let tm ← nat? tm; let t ← nat? t
          pure (showN (specCoinHours c h tm t))).getD "bad-op"
  | _ => "bad-op"

/-- the spec IS the property: any difference is a property failure, except a division-by-zero
panic for burn factor 0, which the property excludes (burn factors ≥ 1). -/
def step (op impl : String) : String × Verdict :=
  let m := spec op
  (m, if m == "panic" then .unknown else .fail)

end Sky.C31

def main : IO Unit := Sky.Drv.loopPure Sky.C31.step
