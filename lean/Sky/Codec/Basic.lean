/-
  Sky.Codec.Basic — the skycoin binary encoding (src/cipher/encoder/encoder.go) as total functions over
  a schema universe.  Core Lean only, executable (used by several drivers).  STABLE API, see
  notes/status/Codec.md.

  * `Bytes = List Nat` (each element a byte; same convention as `Sky.Hash` and `Sky.Drv.hex?`).
  * `Ty`   the schema universe: what `reflect` shows the reference encoder for a Go type.
           A Go struct is a right-nested `pair` of its encoded fields (`enc:"-"` and unexported fields
           dropped; nested structs just nest), an empty struct is `unit`; the `maxlen` tag of a field
           lives in the `bytes/str/slice` constructor (0 = none; elements of slices/arrays get 0, as in
           `d.value(elem, 0)`); `omitempty t` is a LAST field tagged `omitempty`.
  * `Val t` plain values: unsigned = `Nat`, signed = `Int`, byte strings = `Bytes`, slices = `List`.
           Ranges / lengths are NOT in the type; they are the predicate `WF` (Lemmas.lean).
  * `enc`, `size`      `Encoder.value` / `datasizeWrite` (what `encoder.Serialize` / `encoder.Size` do).
  * `dec`              `Decoder.value` (what `encoder.DeserializeRaw` does): value + remainder, or the
                       error kind together with `len(d.Buffer)` at the moment the error was raised.
  * `decG`             = `dec` (name kept for the decoder that the skyencoder-GENERATED code implements;
                       the two differed on a truncated omitempty field until the repair of encoder.go).
  * `decExact`, `decGExact`   + `ErrRemainingBytes`.
  * `encG`             generated `encodeX`: refuses (`ErrMaxLenExceeded`) when a maxlen-tagged field is
                       too long; otherwise the bytes of `enc`.
-/
namespace Sky.Codec

abbrev Bytes := List Nat

/-! ### little endian -/

/-- the `k` low-order bytes of `x`, little endian (`lePutUintN`; high bits are dropped as by Go's
`uintN(x)` conversions). -/
def leBytes : Nat → Nat → Bytes
  | 0, _ => []
  | k+1, x => (x % 256) :: leBytes k (x / 256)

/-- little-endian value (`leUintN`). -/
def leVal : Bytes → Nat
  | [] => 0
  | b :: bs => b + 256 * leVal bs

/-- `n ≤ bs.length`, walking at most `n` cells (so that guards cost O(n), not O(|buffer|)). -/
def lenGe : Bytes → Nat → Bool
  | _, 0 => true
  | [], _+1 => false
  | _ :: bs, n+1 => lenGe bs n

/-- two's complement: the unsigned `bits`-bit pattern of a signed value (Go `uintN(x)`). -/
def ofSigned (bits : Nat) (v : Int) : Nat := (v % (2 ^ bits : Nat)).toNat
/-- two's complement: the signed reading of an unsigned `bits`-bit pattern (Go `intN(u)`). -/
def toSigned (bits : Nat) (n : Nat) : Int :=
  if n < 2 ^ (bits - 1) then (n : Int) else (n : Int) - (2 ^ bits : Nat)

/-! ### schema universe -/

inductive Ty where
  | u8 | u16 | u32 | u64
  | i8 | i16 | i32 | i64
  | bool
  | bytesN (n : Nat)                -- [n]byte            (reflect.Array of Uint8: one copy)
  | array (n : Nat) (t : Ty)        -- [n]T, T not uint8  (element loop, no length prefix)
  | bytes (maxlen : Nat)            -- []byte
  | str (maxlen : Nat)              -- string
  | slice (maxlen : Nat) (t : Ty)   -- []T, T not uint8
  | unit                            -- struct{} / end of fields
  | pair (a b : Ty)                 -- field(s) `a` followed by field(s) `b`
  | omitempty (t : Ty)                   -- last field, tagged `omitempty`
deriving DecidableEq, Repr, Inhabited

abbrev Val : Ty → Type
  | .u8 | .u16 | .u32 | .u64 => Nat
  | .i8 | .i16 | .i32 | .i64 => Int
  | .bool => Bool
  | .bytesN _ => Bytes
  | .array _ t => List (Val t)
  | .bytes _ => Bytes
  | .str _ => Bytes
  | .slice _ t => List (Val t)
  | .unit => Unit
  | .pair a b => Val a × Val b
  | .omitempty t => Val t

/-- the Go zero value -/
def zero : (t : Ty) → Val t
  | .u8 | .u16 | .u32 | .u64 => (0 : Nat)
  | .i8 | .i16 | .i32 | .i64 => (0 : Int)
  | .bool => false
  | .bytesN n => List.replicate n 0
  | .array n t => List.replicate n (zero t)
  | .bytes _ => []
  | .str _ => []
  | .slice _ _ => []
  | .unit => ()
  | .pair a b => (zero a, zero b)
  | .omitempty t => zero t

/-- `encoder.isEmpty`: only slices, (maps) and strings can be empty. -/
def isEmpty : (t : Ty) → Val t → Bool
  | .bytes _, v => v.isEmpty
  | .str _, v => v.isEmpty
  | .slice _ _, v => v.isEmpty
  | _, _ => false

/-! ### encoding -/

/-- `Encoder.value` — the bytes `encoder.Serialize` produces. (No maxlen enforcement: "maxlen does not
affect serialization".) -/
def enc : (t : Ty) → Val t → Bytes
  | .u8, v => leBytes 1 v
  | .u16, v => leBytes 2 v
  | .u32, v => leBytes 4 v
  | .u64, v => leBytes 8 v
  | .i8, v => leBytes 1 (ofSigned 8 v)
  | .i16, v => leBytes 2 (ofSigned 16 v)
  | .i32, v => leBytes 4 (ofSigned 32 v)
  | .i64, v => leBytes 8 (ofSigned 64 v)
  | .bool, v => [if v then 1 else 0]
  | .bytesN _, v => v
  | .array _ t, v => (v.map (enc t)).flatten
  | .bytes _, v => leBytes 4 v.length ++ v
  | .str _, v => leBytes 4 v.length ++ v
  | .slice _ t, v => leBytes 4 v.length ++ (v.map (enc t)).flatten
  | .unit, _ => []
  | .pair a b, (x, y) => enc a x ++ enc b y
  | .omitempty t, v => if isEmpty t v then [] else enc t v

/-- `datasizeWrite` — what `encoder.Size` and the generated `encodeSizeX` compute. -/
def size : (t : Ty) → Val t → Nat
  | .u8, _ | .i8, _ | .bool, _ => 1
  | .u16, _ | .i16, _ => 2
  | .u32, _ | .i32, _ => 4
  | .u64, _ | .i64, _ => 8
  | .bytesN n, _ => n
  | .array _ t, v => (v.map (size t)).sum
  | .bytes _, v => 4 + v.length
  | .str _, v => 4 + v.length
  | .slice _ t, v => 4 + (v.map (size t)).sum
  | .unit, _ => 0
  | .pair a b, (x, y) => size a x + size b y
  | .omitempty t, v => if isEmpty t v then 0 else size t v

/-! ### decoding -/

inductive DecErr where
  | underflow      -- encoder.ErrBufferUnderflow
  | maxlen         -- encoder.ErrMaxLenExceeded
  | invalidBool    -- encoder.ErrInvalidBool
  | remaining      -- encoder.ErrRemainingBytes (exact decoding only)
deriving DecidableEq, Repr, Inhabited

def DecErr.toString : DecErr → String
  | .underflow => "ErrBufferUnderflow"
  | .maxlen => "ErrMaxLenExceeded"
  | .invalidBool => "ErrInvalidBool"
  | .remaining => "ErrRemainingBytes"

/-- decoder outcome: value and unread remainder, or error kind and `len(d.Buffer)` when it was raised. -/
inductive DRes (α : Type) where
  | ok (v : α) (rest : Bytes)
  | err (e : DecErr) (bufLen : Nat)
deriving Repr

namespace DRes
def map {α β} (f : α → β) : DRes α → DRes β
  | .ok v r => .ok (f v) r
  | .err e n => .err e n
def toExcept {α} : DRes α → Except DecErr (α × Bytes)
  | .ok v r => .ok (v, r)
  | .err e _ => .error e
def isOk {α} : DRes α → Bool | .ok .. => true | .err .. => false
end DRes

/-- take exactly `k` bytes or `ErrBufferUnderflow` (nothing consumed). -/
def readN (k : Nat) (bs : Bytes) : DRes Bytes :=
  if lenGe bs k then .ok (bs.take k) (bs.drop k) else .err .underflow bs.length

/-- `d.UintN()` -/
def readLE (k : Nat) (bs : Bytes) : DRes Nat := (readN k bs).map leVal

/-- `for i := 0; i < n; i++ { d.value(elem_i) }` — first error wins. -/
def decLoop {α} (d : Bytes → DRes α) : Nat → Bytes → List α → DRes (List α)
  | 0, bs, acc => .ok acc.reverse bs
  | n+1, bs, acc =>
    match d bs with
    | .ok x r => decLoop d n r (x :: acc)
    | .err e k => .err e k

/-- the common head of slice / string decoding: `ul := d.Uint32(); if int(ul) > len(d.Buffer) → underflow`. -/
def readLen (bs : Bytes) : DRes Nat :=
  match readLE 4 bs with
  | .err e k => .err e k
  | .ok len r => if lenGe r len then .ok len r else .err .underflow r.length

/-- `d.Bool()`: the byte is consumed before it is inspected. -/
def readBool : Bytes → DRes Bool
  | [] => .err .underflow 0
  | b :: r => if b = 0 then .ok false r else if b = 1 then .ok true r else .err .invalidBool r.length

/-- `Decoder.value` — what `encoder.DeserializeRaw` does, and (theorem `gen_X_refines` + `runDec_refCodec`)
what every generated `decodeX` does. -/
def dec : (t : Ty) → Bytes → DRes (Val t)
  | .u8, bs => readLE 1 bs
  | .u16, bs => readLE 2 bs
  | .u32, bs => readLE 4 bs
  | .u64, bs => readLE 8 bs
  | .i8, bs => (readLE 1 bs).map (toSigned 8)
  | .i16, bs => (readLE 2 bs).map (toSigned 16)
  | .i32, bs => (readLE 4 bs).map (toSigned 32)
  | .i64, bs => (readLE 8 bs).map (toSigned 64)
  | .bool, bs => readBool bs
  | .bytesN n, bs => readN n bs
  | .array n t, bs => decLoop (dec t) n bs []
  | .bytes m, bs =>
    match readLen bs with
    | .err e k => .err e k
    | .ok len r =>
      if len = 0 then .ok [] r
      else if m > 0 ∧ len > m then .err .maxlen r.length
      else .ok (r.take len) (r.drop len)
  | .str m, bs =>
    match readLen bs with
    | .err e k => .err e k
    | .ok len r =>
      if m > 0 ∧ len > m then .err .maxlen r.length
      else .ok (r.take len) (r.drop len)
  | .slice m t, bs =>
    match readLen bs with
    | .err e k => .err e k
    | .ok len r =>
      if len = 0 then .ok [] r
      else if m > 0 ∧ len > m then .err .maxlen r.length
      else decLoop (dec t) len r []
  | .unit, bs => .ok () bs
  | .pair a b, bs =>
    match dec a bs with
    | .err e k => .err e k
    | .ok x r =>
      match dec b r with
      | .err e k => .err e k
      | .ok y r' => .ok (x, y) r'
  | .omitempty t, bs =>
    -- encoder.go: `if omitempty && len(d.Buffer) == 0 { continue }` before `d.value(fv, maxlen)`;
    -- generated: `if len(d.Buffer) == 0 { return consumed, nil }` before reading the field.
    -- (Until the repair 693ca3325 the reference tested the buffer AFTER a failed read and so accepted a
    -- truncated field such as a bare non-zero length prefix; see known_findings.json "fixed".)
    if bs.isEmpty then .ok (zero t) [] else dec t bs

/-- the decoder implemented by generated `decodeX` — the same function (kept as a name of the API). -/
abbrev decG := dec

def exact {α} : DRes α → Except DecErr α
  | .err e _ => .error e
  | .ok v [] => .ok v
  | .ok _ (_ :: _) => .error .remaining

/-- `encoder.DeserializeRawExact` -/
def decExact (t : Ty) (bs : Bytes) : Except DecErr (Val t) := exact (dec t bs)
/-- generated `decodeXExact` -/
def decGExact (t : Ty) (bs : Bytes) : Except DecErr (Val t) := exact (decG t bs)

/-! ### the generated encoder's refusals -/

inductive EncErr where
  | maxlen       -- encoder.ErrMaxLenExceeded
  | lenOverflow  -- errors.New("… length exceeds math.MaxUint32")
deriving DecidableEq, Repr, Inhabited

def EncErr.toString : EncErr → String
  | .maxlen => "ErrMaxLenExceeded" | .lenOverflow => "other"

/-- the two checks generated code performs before writing a length prefix -/
def lenCheck (m len : Nat) : Option EncErr :=
  if m > 0 ∧ len > m then some .maxlen else if len > 4294967295 then some .lenOverflow else none

def firstErr {α} (f : α → Option EncErr) : List α → Option EncErr
  | [] => none
  | x :: xs => match f x with | some e => some e | none => firstErr f xs

/-- first refusal met by generated `encodeXToBuffer`, in writing order -/
def encCheck : (t : Ty) → Val t → Option EncErr
  | .array _ t, v => firstErr (encCheck t) v
  | .bytes m, v => lenCheck m v.length
  | .str m, v => lenCheck m v.length
  | .slice m t, v => match lenCheck m v.length with | some e => some e | none => firstErr (encCheck t) v
  | .pair a b, (x, y) => match encCheck a x with | some e => some e | none => encCheck b y
  | .omitempty t, v => if isEmpty t v then none else encCheck t v
  | _, _ => none

/-- generated `encodeX` -/
def encG (t : Ty) (v : Val t) : Except EncErr Bytes :=
  match encCheck t v with | some e => .error e | none => .ok (enc t v)

end Sky.Codec
