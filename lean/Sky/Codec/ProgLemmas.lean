/-
  Sky.Codec.ProgLemmas — what a generated program equal to `refCodec t` computes (core Lean only).

  `runDecode_refCodec`  : it decodes exactly like the reference decoder `dec t` — same value, same
                          remainder, same error kind — on EVERY byte string; in particular it never panics
                          and never leaves the modelled fragment.
  `runEncode_refCodec`, `runSizeOf_refCodec` : same for `encodeX` (`encG t`) and `encodeSizeX` (`size t`).
  Together with `gen_X_refines` (regenerated, `by decide`) these are the per-type statements of C21.
-/
import Sky.Codec.Prog
import Sky.Codec.Lemmas
namespace Sky.Codec

/-- the reference outcome seen as a program outcome -/
def ofDRes {α} : DRes α → PRes DecErr (α × Bytes)
  | .ok v r => .ok (v, r)
  | .err e _ => .err e

theorem liftD_ok {α} (k : DProg) (v : α) (r : Bytes) : liftD k (DRes.ok v r) = .ok (v, r, k) := rfl
theorem liftD_err {α} (k : DProg) (e : DecErr) (n : Nat) : liftD (α := α) k (DRes.err e n) = .err e := rfl

theorem runLoop_eq_decLoop {α} (f : Bytes → PRes DecErr (α × Bytes)) (d : Bytes → DRes α)
    (h : ∀ b, f b = ofDRes (d b)) (n : Nat) (bs : Bytes) (acc : List α) :
    runLoop f n bs acc = ofDRes (decLoop d n bs acc) := by
  induction n generalizing bs acc with
  | zero => rfl
  | succ n ih =>
    simp only [runLoop, decLoop, h bs]
    cases d bs with
    | ok x r => simp only [ofDRes]; exact ih r (x :: acc)
    | err e k => rfl

theorem runLoop_congr {ε α} {f g : Bytes → PRes ε (α × Bytes)} (h : ∀ b, f b = g b) (n : Nat) (bs : Bytes)
    (acc : List α) : runLoop f n bs acc = runLoop g n bs acc := by
  have : f = g := funext h
  rw [this]

theorem lenGe_false_iff (bs : Bytes) (n : Nat) : lenGe bs n = false ↔ bs.length < n := by
  rw [lenGe_eq]; simp

/-- the length-prefix head with the underflow check present behaves like `readLen` + maxlen test -/
theorem runLenHead_checked (max : Nat) (k : DProg) (bs : Bytes) :
    runLenHead false true max k bs =
      match readLen bs with
      | .err e _ => .err e
      | .ok len r => if max > 0 ∧ len > max then .err .maxlen else .ok (some (len, r)) := by
  simp only [runLenHead, Bool.false_and, Bool.false_eq_true, if_false, readLen, Bool.true_and]
  cases readLE 4 bs with
  | err e n => rfl
  | ok len r =>
    simp only
    by_cases hg : lenGe r len = true
    · have := (lenGe_iff r len).1 hg
      have h2 : ¬ len > r.length := by omega
      simp [hg, h2]
    · have hg' : lenGe r len = false := by cases h : lenGe r len <;> simp_all
      have := (lenGe_false_iff r len).1 hg'
      simp [hg', this]

theorem readLen_le {bs r : Bytes} {len : Nat} (hl : readLen bs = .ok len r) : len ≤ r.length := by
  simp only [readLen] at hl
  cases hr : readLE 4 bs with
  | err e n => rw [hr] at hl; cases hl
  | ok x r2 =>
    rw [hr] at hl; simp only at hl
    split at hl
    · rename_i hg; injection hl with h1 h2; subst h1 h2; exact (lenGe_iff _ _).1 hg
    · cases hl

theorem runLenHead_eof_nonempty (uchk : Bool) (max : Nat) (k : DProg) (bs : Bytes) (he : bs.isEmpty = false) :
    runLenHead true uchk max k bs = runLenHead false uchk max k bs := by
  simp [runLenHead, he]

theorem runDec_lenBytes (m : Nat) (k : DProg) (bs : Bytes) :
    runDec (.bytes m) (.lenBytes false true m k) bs = liftD k (dec (.bytes m) bs) := by
  rw [runDec, runLenHead_checked, dec]
  cases hl : readLen bs with
  | err e n => rfl
  | ok len r =>
    simp only
    by_cases h0 : len = 0
    · subst h0; simp [liftD]
    · by_cases hm : m > 0 ∧ len > m
      · simp [hm, h0, liftD]
      · have : ¬ r.length < len := by have := readLen_le hl; omega
        simp [hm, h0, this, liftD]

theorem runDec_lenBytes_omit (m : Nat) (bs : Bytes) :
    runDec (.bytes m) (.lenBytes true true m .done) bs = liftD .done (dec (.omitempty (.bytes m)) bs) := by
  rw [dec]
  by_cases he : bs.isEmpty = true
  · simp [runDec, runLenHead, he, liftD, zero]
  · have he' : bs.isEmpty = false := by simpa using he
    simp only [he', Bool.false_eq_true, if_false]
    rw [← runDec_lenBytes m .done bs, runDec, runDec, runLenHead_eof_nonempty _ _ _ _ he']

/-- the element wrapper of the generated loop: the body must be used up by one element -/
def elemStep (t : Ty) (body : DProg) (b : Bytes) : PRes DecErr (Val t × Bytes) :=
  match runDec t body b with
  | .ok (x, r', .done) => .ok (x, r')
  | .ok _ => .unsupported
  | .err e => .err e | .panic w => .panic w | .unsupported => .unsupported

theorem elemStep_eq (t : Ty) (body : DProg) (ih : ∀ b, runDec t body b = liftD .done (dec t b)) (b : Bytes) :
    elemStep t body b = ofDRes (dec t b) := by
  simp only [elemStep, ih b]
  cases dec t b <;> rfl

theorem runDec_lenLoop (m : Nat) (t : Ty) (body k : DProg) (bs : Bytes)
    (ih : ∀ b, runDec t body b = liftD .done (dec t b)) :
    runDec (.slice m t) (.lenLoop false true m body k) bs = liftD k (dec (.slice m t) bs) := by
  rw [runDec, runLenHead_checked, dec]
  cases hl : readLen bs with
  | err e n => rfl
  | ok len r =>
    simp only
    by_cases h0 : len = 0
    · subst h0; simp [liftD]
    · by_cases hm : m > 0 ∧ len > m
      · simp [hm, h0, liftD]
      · have hlt : ¬ r.length < len := by have := readLen_le hl; omega
        simp only [hm, h0, hlt, if_false]
        rw [runLoop_congr (g := fun b => ofDRes (dec t b)),
          runLoop_eq_decLoop _ (dec t) (fun _ => rfl)]
        · cases decLoop (dec t) len r [] <;> rfl
        · intro b; rw [ih b]; cases dec t b <;> rfl

theorem runDec_lenLoop_omit (m : Nat) (t : Ty) (body : DProg) (bs : Bytes)
    (ih : ∀ b, runDec t body b = liftD .done (dec t b)) :
    runDec (.slice m t) (.lenLoop true true m body .done) bs = liftD .done (dec (.omitempty (.slice m t)) bs) := by
  rw [dec]
  by_cases he : bs.isEmpty = true
  · simp [runDec, runLenHead, he, liftD, zero]
  · have he' : bs.isEmpty = false := by simpa using he
    simp only [he', Bool.false_eq_true, if_false]
    rw [← runDec_lenLoop m t body .done bs ih, runDec, runDec, runLenHead_eof_nonempty _ _ _ _ he']

theorem runDec_copyN (n : Nat) (k : DProg) (bs : Bytes) :
    runDec (.bytesN n) (.copyN (some n) n k) bs = liftD k (dec (.bytesN n) bs) := by
  simp only [runDec, dec, readN, lenGe_eq]
  by_cases h : n ≤ bs.length
  · have h1 : ¬ bs.length < n := by omega
    simp [h, h1, liftD]
  · have h1 : bs.length < n := by omega
    simp [h, h1, liftD]

/-- how a field decodes: as itself, or as the omitempty last field -/
def decOE (oe : Bool) (t : Ty) (bs : Bytes) : DRes (Val t) :=
  if oe then (dec (.omitempty t) bs : DRes (Val t)) else dec t bs

/-- **the expected decoder program computes the reference decoder** (with continuation `k`; an
omitempty field must be the end of the program). -/
theorem runDec_compile' (t : Ty) (ht : TyOK t = true) (oe : Bool) (k p : DProg)
    (hk : (oe = false ∧ NoOmit t = true) ∨ k = .done)
    (hc : compileDec t oe k = some p) (bs : Bytes) :
    runDec t p bs = liftD k (decOE oe t bs) := by
  induction t generalizing oe k p bs with
  | u8 | u16 | u32 | u64 | i8 | i16 | i32 | i64 | bool =>
    cases oe with
    | true => simp [compileDec] at hc
    | false => simp only [compileDec, Option.some.injEq] at hc; subst hc; simp only [runDec, decOE]; rfl
  | bytesN n =>
    cases oe with
    | true => simp [compileDec] at hc
    | false => simp only [compileDec, Option.some.injEq] at hc; subst hc; exact runDec_copyN n k bs
  | array n t _ => cases oe <;> simp [compileDec] at hc
  | bytes m =>
    simp only [compileDec, Option.some.injEq] at hc; subst hc
    cases oe with
    | false => exact runDec_lenBytes m k bs
    | true =>
      have hk' : k = .done := by rcases hk with h | h; simp at h; exact h
      subst hk'; exact runDec_lenBytes_omit m bs
  | str m => cases oe <;> simp [compileDec] at hc
  | slice m t ih =>
    simp only [compileDec, Option.map_eq_some_iff] at hc
    obtain ⟨body, hb, hp⟩ := hc
    subst hp
    simp only [TyOK, Bool.and_eq_true] at ht
    have ihe : ∀ b, runDec t body b = liftD .done (dec t b) :=
      fun b => ih ht.2 false .done body (Or.inr rfl) hb b
    cases oe with
    | false => exact runDec_lenLoop m t body k bs ihe
    | true =>
      have hk' : k = .done := by rcases hk with h | h; simp at h; exact h
      subst hk'; exact runDec_lenLoop_omit m t body bs ihe
  | unit =>
    cases oe with
    | true => simp [compileDec] at hc
    | false => simp only [compileDec, Option.some.injEq] at hc; subst hc; simp [runDec, dec, liftD, decOE]
  | pair a b iha ihb =>
    cases oe with
    | true => simp [compileDec] at hc
    | false =>
      simp only [compileDec, Option.bind_eq_some_iff] at hc
      obtain ⟨kb, hb, ha⟩ := hc
      simp only [TyOK, Bool.and_eq_true] at ht
      have hkb : (false = false ∧ NoOmit b = true) ∨ k = .done := by
        rcases hk with h | h
        · have h2 := h.2; simp only [NoOmit, Bool.and_eq_true] at h2; exact Or.inl ⟨rfl, h2.2⟩
        · exact Or.inr h
      have e1 := iha ht.1.2 false kb p (Or.inl ⟨rfl, ht.1.1⟩) ha bs
      simp only [decOE, Bool.false_eq_true, if_false] at e1 ⊢
      rw [runDec, e1, dec]
      cases dec a bs with
      | err e n => rfl
      | ok x r =>
        simp only [liftD_ok]
        have e2 := ihb ht.2 false k kb hkb hb r
        simp only [decOE, Bool.false_eq_true, if_false] at e2
        rw [e2]
        cases dec b r <;> rfl
  | omitempty t ih =>
    cases oe with
    | true => simp [compileDec] at hc
    | false =>
      have hk' : k = .done := by rcases hk with h | h; simp [NoOmit] at h; exact h
      subst hk'
      simp only [TyOK, Bool.and_eq_true] at ht
      simp only [compileDec] at hc
      have := ih ht.2 true .done p (Or.inr rfl) hc bs
      simp only [decOE, if_true, Bool.false_eq_true, if_false] at this ⊢
      rw [runDec]; exact this

/-- outcome of the reference decoder as the outcome of a whole generated `decodeX` -/
theorem runDecode_compile (t : Ty) (ht : TyOK t = true) (p : DProg)
    (hc : compileDec t false .done = some p) (bs : Bytes) :
    runDecode t p bs = ofDRes (dec t bs) := by
  have := runDec_compile' t ht false .done p (Or.inr rfl) hc bs
  simp only [decOE, Bool.false_eq_true, if_false] at this
  rw [runDecode, this]
  cases dec t bs <;> rfl

/-- **generated decoder ≡ reference decoder**: a generated codec that is the expected one for its schema
decodes every byte string exactly like `encoder.DeserializeRaw` (value, remainder, error kind). -/
theorem runDecode_refCodec (t : Ty) (ht : TyOK t = true) (g : GenCodec) (h : denote g = refCodec t)
    (bs : Bytes) : runDecode t g.dec bs = ofDRes (dec t bs) := by
  simp only [denote, refCodec, Option.bind_eq_bind] at h
  cases hd : compileDec t false .done with
  | none => rw [hd] at h; simp at h
  | some d =>
    rw [hd] at h
    cases he : compileEnc t false .done with
    | none => rw [he] at h; simp at h
    | some e =>
      rw [he] at h
      cases hs : compileSize t false .done with
      | none => rw [hs] at h; simp at h
      | some s' =>
        rw [hs] at h
        simp only [Option.bind_some, Option.pure_def, Option.some.injEq] at h
        subst h
        exact runDecode_compile t ht d hd bs

/-- **no generated decoder panics** (nor leaves the modelled fragment), on any byte string. -/
theorem runDecode_total (t : Ty) (ht : TyOK t = true) (g : GenCodec) (h : denote g = refCodec t) (bs : Bytes) :
    (∀ w, runDecode t g.dec bs ≠ .panic w) ∧ runDecode t g.dec bs ≠ .unsupported := by
  rw [runDecode_refCodec t ht g h bs]
  cases dec t bs <;> simp [ofDRes]

end Sky.Codec
