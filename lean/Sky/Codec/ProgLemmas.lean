/-
  Sky.Codec.ProgLemmas — what a generated program equal to `refCodec t` computes (core Lean only).

  `runDecode_refCodec`  : it decodes exactly like the reference decoder `dec t` — same value, same
                          remainder, same error kind — on EVERY byte string; in particular it never panics
                          and never leaves the modelled fragment.
  `runEncode_refCodec`, `runSizeOf_refCodec` : same for `encodeX` (`encG t`) and `encodeSizeX` (`size t`).
  Together with `gen_X_refines` (regenerated, `by decide`) these are the per-type statements of C21.
-/
import Sky.Codec.Prog
import Sky.Codec.Lemmas
namespace Sky.Codec

/-- the reference outcome seen as a program outcome -/
def ofDRes {α} : DRes α → PRes DecErr (α × Bytes)
  | .ok v r => .ok (v, r)
  | .err e _ => .err e

theorem liftD_ok {α} (k : DProg) (v : α) (r : Bytes) : liftD k (DRes.ok v r) = .ok (v, r, k) := rfl
theorem liftD_err {α} (k : DProg) (e : DecErr) (n : Nat) : liftD (α := α) k (DRes.err e n) = .err e := rfl

theorem runLoop_eq_decLoop {α} (f : Bytes → PRes DecErr (α × Bytes)) (d : Bytes → DRes α)
    (h : ∀ b, f b = ofDRes (d b)) (n : Nat) (bs : Bytes) (acc : List α) :
    runLoop f n bs acc = ofDRes (decLoop d n bs acc) := by
  induction n generalizing bs acc with
  | zero => rfl
  | succ n ih =>
    simp only [runLoop, decLoop, h bs]
    cases d bs with
    | ok x r => simp only [ofDRes]; exact ih r (x :: acc)
    | err e k => rfl

theorem runLoop_congr {ε α} {f g : Bytes → PRes ε (α × Bytes)} (h : ∀ b, f b = g b) (n : Nat) (bs : Bytes)
    (acc : List α) : runLoop f n bs acc = runLoop g n bs acc := by
  have : f = g := funext h
  rw [this]

theorem lenGe_false_iff (bs : Bytes) (n : Nat) : lenGe bs n = false ↔ bs.length < n := by
  rw [lenGe_eq]; simp

/-- the length-prefix head with the underflow check present behaves like `readLen` + maxlen test -/
theorem runLenHead_checked (max : Nat) (k : DProg) (bs : Bytes) :
    runLenHead false true max k bs =
      match readLen bs with
      | .err e _ => .err e
      | .ok len r => if max > 0 ∧ len > max then .err .maxlen else .ok (some (len, r)) := by
  simp only [runLenHead, Bool.false_and, Bool.false_eq_true, if_false, readLen, Bool.true_and]
  cases readLE 4 bs with
  | err e n => rfl
  | ok len r =>
    simp only
    by_cases hg : lenGe r len = true
    · have := (lenGe_iff r len).1 hg
      have h2 : ¬ len > r.length := by omega
      simp [hg, h2]
    · have hg' : lenGe r len = false := by cases h : lenGe r len <;> simp_all
      have := (lenGe_false_iff r len).1 hg'
      simp [hg', this]

theorem readLen_le {bs r : Bytes} {len : Nat} (hl : readLen bs = .ok len r) : len ≤ r.length := by
  simp only [readLen] at hl
  cases hr : readLE 4 bs with
  | err e n => rw [hr] at hl; cases hl
  | ok x r2 =>
    rw [hr] at hl; simp only at hl
    split at hl
    · rename_i hg; injection hl with h1 h2; subst h1 h2; exact (lenGe_iff _ _).1 hg
    · cases hl

theorem runLenHead_eof_nonempty (uchk : Bool) (max : Nat) (k : DProg) (bs : Bytes) (he : bs.isEmpty = false) :
    runLenHead true uchk max k bs = runLenHead false uchk max k bs := by
  simp [runLenHead, he]

theorem runDec_lenBytes (m : Nat) (k : DProg) (bs : Bytes) :
    runDec (.bytes m) (.lenBytes false true m k) bs = liftD k (dec (.bytes m) bs) := by
  rw [runDec, runLenHead_checked, dec]
  cases hl : readLen bs with
  | err e n => rfl
  | ok len r =>
    simp only
    by_cases h0 : len = 0
    · subst h0; simp [liftD]
    · by_cases hm : m > 0 ∧ len > m
      · simp [hm, h0, liftD]
      · have : ¬ r.length < len := by have := readLen_le hl; omega
        simp [hm, h0, this, liftD]

theorem runDec_lenBytes_omit (m : Nat) (bs : Bytes) :
    runDec (.bytes m) (.lenBytes true true m .done) bs = liftD .done (dec (.omitempty (.bytes m)) bs) := by
  rw [dec]
  by_cases he : bs.isEmpty = true
  · simp [runDec, runLenHead, he, liftD, zero]
  · have he' : bs.isEmpty = false := by simpa using he
    simp only [he', Bool.false_eq_true, if_false]
    rw [← runDec_lenBytes m .done bs, runDec, runDec, runLenHead_eof_nonempty _ _ _ _ he']

/-- the element wrapper of the generated loop: the body must be used up by one element -/
def elemStep (t : Ty) (body : DProg) (b : Bytes) : PRes DecErr (Val t × Bytes) :=
  match runDec t body b with
  | .ok (x, r', .done) => .ok (x, r')
  | .ok _ => .unsupported
  | .err e => .err e | .panic w => .panic w | .unsupported => .unsupported

theorem elemStep_eq (t : Ty) (body : DProg) (ih : ∀ b, runDec t body b = liftD .done (dec t b)) (b : Bytes) :
    elemStep t body b = ofDRes (dec t b) := by
  simp only [elemStep, ih b]
  cases dec t b <;> rfl

theorem runDec_lenLoop (m : Nat) (t : Ty) (body k : DProg) (bs : Bytes)
    (ih : ∀ b, runDec t body b = liftD .done (dec t b)) :
    runDec (.slice m t) (.lenLoop false true m body k) bs = liftD k (dec (.slice m t) bs) := by
  rw [runDec, runLenHead_checked, dec]
  cases hl : readLen bs with
  | err e n => rfl
  | ok len r =>
    simp only
    by_cases h0 : len = 0
    · subst h0; simp [liftD]
    · by_cases hm : m > 0 ∧ len > m
      · simp [hm, h0, liftD]
      · have hlt : ¬ r.length < len := by have := readLen_le hl; omega
        simp only [hm, h0, hlt, if_false]
        rw [runLoop_congr (g := fun b => ofDRes (dec t b)),
          runLoop_eq_decLoop _ (dec t) (fun _ => rfl)]
        · cases decLoop (dec t) len r [] <;> rfl
        · intro b; rw [ih b]; cases dec t b <;> rfl

theorem runDec_lenLoop_omit (m : Nat) (t : Ty) (body : DProg) (bs : Bytes)
    (ih : ∀ b, runDec t body b = liftD .done (dec t b)) :
    runDec (.slice m t) (.lenLoop true true m body .done) bs = liftD .done (dec (.omitempty (.slice m t)) bs) := by
  rw [dec]
  by_cases he : bs.isEmpty = true
  · simp [runDec, runLenHead, he, liftD, zero]
  · have he' : bs.isEmpty = false := by simpa using he
    simp only [he', Bool.false_eq_true, if_false]
    rw [← runDec_lenLoop m t body .done bs ih, runDec, runDec, runLenHead_eof_nonempty _ _ _ _ he']

theorem runDec_copyN (n : Nat) (k : DProg) (bs : Bytes) :
    runDec (.bytesN n) (.copyN (some n) n k) bs = liftD k (dec (.bytesN n) bs) := by
  simp only [runDec, dec, readN, lenGe_eq]
  by_cases h : n ≤ bs.length
  · have h1 : ¬ bs.length < n := by omega
    simp [h, h1, liftD]
  · have h1 : bs.length < n := by omega
    simp [h, h1, liftD]

/-- how a field decodes: as itself, or as the omitempty last field -/
def decOE (oe : Bool) (t : Ty) (bs : Bytes) : DRes (Val t) :=
  if oe then (dec (.omitempty t) bs : DRes (Val t)) else dec t bs

/-- **the expected decoder program computes the reference decoder** (with continuation `k`; an
omitempty field must be the end of the program). -/
theorem runDec_compile' (t : Ty) (ht : TyOK t = true) (oe : Bool) (k p : DProg)
    (hk : (oe = false ∧ NoOmit t = true) ∨ k = .done)
    (hc : compileDec t oe k = some p) (bs : Bytes) :
    runDec t p bs = liftD k (decOE oe t bs) := by
  induction t generalizing oe k p bs with
  | u8 | u16 | u32 | u64 | i8 | i16 | i32 | i64 | bool =>
    cases oe with
    | true => simp [compileDec] at hc
    | false => simp only [compileDec, Option.some.injEq] at hc; subst hc; simp only [runDec, decOE]; rfl
  | bytesN n =>
    cases oe with
    | true => simp [compileDec] at hc
    | false => simp only [compileDec, Option.some.injEq] at hc; subst hc; exact runDec_copyN n k bs
  | array n t _ => cases oe <;> simp [compileDec] at hc
  | bytes m =>
    simp only [compileDec, Option.some.injEq] at hc; subst hc
    cases oe with
    | false => exact runDec_lenBytes m k bs
    | true =>
      have hk' : k = .done := by rcases hk with h | h; simp at h; exact h
      subst hk'; exact runDec_lenBytes_omit m bs
  | str m => cases oe <;> simp [compileDec] at hc
  | slice m t ih =>
    simp only [compileDec, Option.map_eq_some_iff] at hc
    obtain ⟨body, hb, hp⟩ := hc
    subst hp
    simp only [TyOK, Bool.and_eq_true] at ht
    have ihe : ∀ b, runDec t body b = liftD .done (dec t b) :=
      fun b => ih ht.2 false .done body (Or.inr rfl) hb b
    cases oe with
    | false => exact runDec_lenLoop m t body k bs ihe
    | true =>
      have hk' : k = .done := by rcases hk with h | h; simp at h; exact h
      subst hk'; exact runDec_lenLoop_omit m t body bs ihe
  | unit =>
    cases oe with
    | true => simp [compileDec] at hc
    | false => simp only [compileDec, Option.some.injEq] at hc; subst hc; simp [runDec, dec, liftD, decOE]
  | pair a b iha ihb =>
    cases oe with
    | true => simp [compileDec] at hc
    | false =>
      simp only [compileDec, Option.bind_eq_some_iff] at hc
      obtain ⟨kb, hb, ha⟩ := hc
      simp only [TyOK, Bool.and_eq_true] at ht
      have hkb : (false = false ∧ NoOmit b = true) ∨ k = .done := by
        rcases hk with h | h
        · have h2 := h.2; simp only [NoOmit, Bool.and_eq_true] at h2; exact Or.inl ⟨rfl, h2.2⟩
        · exact Or.inr h
      have e1 := iha ht.1.2 false kb p (Or.inl ⟨rfl, ht.1.1⟩) ha bs
      simp only [decOE, Bool.false_eq_true, if_false] at e1 ⊢
      rw [runDec, e1, dec]
      cases dec a bs with
      | err e n => rfl
      | ok x r =>
        simp only [liftD_ok]
        have e2 := ihb ht.2 false k kb hkb hb r
        simp only [decOE, Bool.false_eq_true, if_false] at e2
        rw [e2]
        cases dec b r <;> rfl
  | omitempty t ih =>
    cases oe with
    | true => simp [compileDec] at hc
    | false =>
      have hk' : k = .done := by rcases hk with h | h; simp [NoOmit] at h; exact h
      subst hk'
      simp only [TyOK, Bool.and_eq_true] at ht
      simp only [compileDec] at hc
      have := ih ht.2 true .done p (Or.inr rfl) hc bs
      simp only [decOE, if_true, Bool.false_eq_true, if_false] at this ⊢
      rw [runDec]; exact this

/-- outcome of the reference decoder as the outcome of a whole generated `decodeX` -/
theorem runDecode_compile (t : Ty) (ht : TyOK t = true) (p : DProg)
    (hc : compileDec t false .done = some p) (bs : Bytes) :
    runDecode t p bs = ofDRes (dec t bs) := by
  have := runDec_compile' t ht false .done p (Or.inr rfl) hc bs
  simp only [decOE, Bool.false_eq_true, if_false] at this
  rw [runDecode, this]
  cases dec t bs <;> rfl

/-- **generated decoder ≡ reference decoder**: a generated codec that is the expected one for its schema
decodes every byte string exactly like `encoder.DeserializeRaw` (value, remainder, error kind). -/
theorem runDecode_refCodec (t : Ty) (ht : TyOK t = true) (g : GenCodec) (h : denote g = refCodec t)
    (bs : Bytes) : runDecode t g.dec bs = ofDRes (dec t bs) := by
  simp only [denote, refCodec, Option.bind_eq_bind] at h
  cases hd : compileDec t false .done with
  | none => rw [hd] at h; simp at h
  | some d =>
    rw [hd] at h
    cases he : compileEnc t false .done with
    | none => rw [he] at h; simp at h
    | some e =>
      rw [he] at h
      cases hs : compileSize t false .done with
      | none => rw [hs] at h; simp at h
      | some s' =>
        rw [hs] at h
        simp only [Option.bind_some, Option.pure_def, Option.some.injEq] at h
        subst h
        exact runDecode_compile t ht d hd bs

/-- **no generated decoder panics** (nor leaves the modelled fragment), on any byte string. -/
theorem runDecode_total (t : Ty) (ht : TyOK t = true) (g : GenCodec) (h : denote g = refCodec t) (bs : Bytes) :
    (∀ w, runDecode t g.dec bs ≠ .panic w) ∧ runDecode t g.dec bs ≠ .unsupported := by
  rw [runDecode_refCodec t ht g h bs]
  cases dec t bs <;> simp [ofDRes]

/-! ### `encodeSizeX` -/

def sizeOE (oe : Bool) (t : Ty) (v : Val t) : Nat := if oe then size (.omitempty t) v else size t v

theorem staticSize_compile (t : Ty) (hs : isStatic t = true) (k p : SProg)
    (hc : compileSize t false k = some p) (v : Val t) :
    staticSize p = (staticSize k).map (size t v + ·) := by
  induction t generalizing k p with
  | u8 | u16 | u32 | u64 | i8 | i16 | i32 | i64 | bool | bytesN _ =>
    simp only [compileSize, Option.some.injEq] at hc; subst hc; simp [staticSize, size]
  | array n t _ => simp [compileSize] at hc
  | bytes m => simp [isStatic] at hs
  | str m => simp [isStatic] at hs
  | slice m t _ => simp [isStatic] at hs
  | unit =>
    simp only [compileSize, Option.some.injEq] at hc; subst hc
    cases staticSize k <;> simp [size]
  | pair a b iha ihb =>
    obtain ⟨x, y⟩ := v
    simp only [isStatic, Bool.and_eq_true] at hs
    simp only [compileSize, Option.bind_eq_some_iff] at hc
    obtain ⟨kb, hb, ha⟩ := hc
    rw [iha hs.1 kb p ha x, ihb hs.2 k kb hb y]
    cases staticSize k <;> simp [size, Nat.add_assoc]
  | omitempty t _ => simp [isStatic] at hs

theorem sum_const {α} (f : α → Nat) (c : Nat) (vs : List α) (h : ∀ x ∈ vs, f x = c) :
    (vs.map f).sum = vs.length * c := by
  induction vs with
  | nil => simp
  | cons v vs ih =>
    simp only [List.map_cons, List.sum_cons, List.length_cons]
    rw [h v (by simp), ih (fun x hx => h x (by simp [hx])), Nat.succ_mul]; omega

theorem sumSizes_eq {α} (f : α → Option Nat) (g : α → Nat) (vs : List α) (h : ∀ x, f x = some (g x)) :
    sumSizes f vs = some (vs.map g).sum := by
  induction vs with
  | nil => rfl
  | cons v vs ih => simp [sumSizes, h v, ih]

/-- **the expected size program computes `datasizeWrite`** -/
theorem runSize_compile (t : Ty) (oe : Bool) (k p : SProg) (hc : compileSize t oe k = some p) (v : Val t) :
    runSize t p v = some (sizeOE oe t v, k) := by
  induction t generalizing oe k p with
  | u8 | u16 | u32 | u64 | i8 | i16 | i32 | i64 | bool | bytesN _ =>
    cases oe with
    | true => simp [compileSize] at hc
    | false => simp only [compileSize, Option.some.injEq] at hc; subst hc; simp [runSize, sizeOE, size]
  | array n t _ => cases oe <;> simp [compileSize] at hc
  | bytes m =>
    simp only [compileSize, Option.some.injEq] at hc; subst hc
    cases oe <;> simp [runSize, sizeOE, size, isEmpty]
  | str m => cases oe <;> simp [compileSize] at hc
  | slice m t ih =>
    simp only [compileSize, Option.map_eq_some_iff] at hc
    obtain ⟨el, hel, hp⟩ := hc
    have hsz : sizeOE oe (.slice m t) v = if oe && v.isEmpty then 0 else 4 + (v.map (size t)).sum := by
      cases oe <;> simp [sizeOE, size, isEmpty]
    by_cases hst : isStatic t = true
    · simp only [hst, if_true] at hp; subst hp
      rw [runSize, hsz]
      split
      · rfl
      · have hz := staticSize_compile t hst .done el hel
        have hconst : ∀ x, size t x = size t (zero t) := by
          intro x
          have h1 := hz x; have h2 := hz (zero t)
          rw [h1] at h2; simpa [staticSize] using h2
        rw [hz (zero t)]
        simp only [staticSize, Option.map_some, Nat.add_zero]
        rw [sum_const (size t) (size t (zero t)) v (fun x _ => hconst x)]
    · simp only [hst, Bool.false_eq_true, if_false] at hp; subst hp
      rw [runSize, hsz]
      split
      · rfl
      · rw [sumSizes_eq _ (size t) v (fun x => by rw [ih false .done el hel x]; simp [sizeOE])]
        rfl
  | unit =>
    cases oe with
    | true => simp [compileSize] at hc
    | false => simp only [compileSize, Option.some.injEq] at hc; subst hc; simp [runSize, sizeOE, size]
  | pair a b iha ihb =>
    obtain ⟨x, y⟩ := v
    cases oe with
    | true => simp [compileSize] at hc
    | false =>
      simp only [compileSize, Option.bind_eq_some_iff] at hc
      obtain ⟨kb, hb, ha⟩ := hc
      rw [runSize, iha false kb p ha x]
      simp only
      rw [ihb false k kb hb y]
      simp [sizeOE, size]
  | omitempty t ih =>
    cases oe with
    | true => simp [compileSize] at hc
    | false =>
      simp only [compileSize] at hc
      rw [runSize, ih true k p hc v]
      simp [sizeOE]

theorem runSizeOf_compile (t : Ty) (p : SProg) (hc : compileSize t false .done = some p) (v : Val t) :
    runSizeOf t p v = some (size t v) := by
  simp [runSizeOf, runSize_compile t false .done p hc v, sizeOE]

/-! ### `encodeX` -/

def encOE (oe : Bool) (t : Ty) (v : Val t) : Bytes := if oe then enc (.omitempty t) v else enc t v
def encCheckOE (oe : Bool) (t : Ty) (v : Val t) : Option EncErr :=
  if oe then encCheck (.omitempty t) v else encCheck t v

/-- what the generated encoder does with a buffer that is large enough: the refusal, or the bytes -/
def encOutcome (w : Bytes) (chk : Option EncErr) (cap : Nat) (k : EProg) : PRes EncErr (Bytes × Nat × EProg) :=
  match chk with
  | some e => .err e
  | none => .ok (w, cap - w.length, k)

theorem writeE_ok (w : Bytes) (cap : Nat) (k : EProg) (h : w.length ≤ cap) :
    writeE w cap k = .ok (w, cap - w.length, k) := by
  have : ¬ cap < w.length := by omega
  simp [writeE, this]

theorem encLoop_eq {α} (f : α → Nat → PRes EncErr (Bytes × Nat)) (e : α → Bytes) (c : α → Option EncErr)
    (h : ∀ x cap, (e x).length ≤ cap →
      f x cap = match c x with | some er => .err er | none => .ok (e x, cap - (e x).length))
    (vs : List α) (cap : Nat) (acc : List Bytes) (hcap : ((vs.map e).flatten).length ≤ cap) :
    encLoop f vs cap acc =
      match firstErr c vs with
      | some er => .err er
      | none => .ok ((acc.reverse ++ vs.map e).flatten, cap - ((vs.map e).flatten).length) := by
  induction vs generalizing cap acc with
  | nil => simp [encLoop, firstErr]
  | cons v vs ih =>
    simp only [List.map_cons, List.flatten_cons, List.length_append] at hcap
    rw [encLoop, h v cap (by omega), firstErr]
    cases c v with
    | some er => rfl
    | none =>
      simp only
      rw [ih (cap - (e v).length) (e v :: acc) (by omega)]
      cases firstErr c vs with
      | some er => rfl
      | none =>
        simp only [List.reverse_cons, List.append_assoc, List.singleton_append, List.map_cons,
          List.flatten_cons, List.length_append]
        congr 2
        omega

theorem encLenHead_eq (oe : Bool) (m len : Nat) :
    encLenHead oe m true len =
      if oe && len == 0 then .ok false
      else match lenCheck m len with | some e => .error e | none => .ok true := by
  unfold encLenHead lenCheck
  by_cases h0 : (oe && len == 0) = true
  · simp [h0]
  · simp only [h0, Bool.false_eq_true, if_false, Bool.true_and, decide_eq_true_eq]
    split
    · rfl
    · split <;> rfl

/-- **the expected encoder program computes `encG`** (given a buffer that holds the whole encoding) -/
theorem runEnc_compile (t : Ty) (oe : Bool) (k p : EProg) (hc : compileEnc t oe k = some p) (v : Val t)
    (cap : Nat) (hcap : (encOE oe t v).length ≤ cap) :
    runEnc t p v cap = encOutcome (encOE oe t v) (encCheckOE oe t v) cap k := by
  induction t generalizing oe k p cap with
  | u8 | u16 | u32 | u64 | i8 | i16 | i32 | i64 | bool =>
    cases oe with
    | true => simp [compileEnc] at hc
    | false =>
      simp only [compileEnc, Option.some.injEq] at hc; subst hc
      simp only [encOE, Bool.false_eq_true, if_false] at hcap
      simp only [runEnc, encOE, encCheckOE, Bool.false_eq_true, if_false, encCheck, encOutcome]
      exact writeE_ok _ cap k hcap
  | bytesN n =>
    cases oe with
    | true => simp [compileEnc] at hc
    | false =>
      simp only [compileEnc, Option.some.injEq] at hc; subst hc
      simp only [encOE, Bool.false_eq_true, if_false, enc] at hcap
      simp only [runEnc, encOE, encCheckOE, Bool.false_eq_true, if_false, encCheck, encOutcome, enc]
      exact writeE_ok _ cap k hcap
  | array n t _ => cases oe <;> simp [compileEnc] at hc
  | bytes m =>
    simp only [compileEnc, Option.some.injEq] at hc; subst hc
    rw [runEnc, encLenHead_eq]
    cases oe with
    | false =>
      simp only [encOE, Bool.false_eq_true, if_false, enc] at hcap
      simp only [Bool.false_and, Bool.false_eq_true, if_false, encOE, encCheckOE, encCheck, encOutcome, enc]
      cases lenCheck m v.length with
      | some e => rfl
      | none => exact writeE_ok _ cap k hcap
    | true =>
      simp only [encOE, if_true, enc, isEmpty] at hcap
      simp only [Bool.true_and, encOE, encCheckOE, if_true, encCheck, enc, isEmpty, encOutcome]
      by_cases he : v.isEmpty = true
      · have : v.length = 0 := by cases v <;> simp_all
        simp [he, this]
      · have hl : ¬ v.length = 0 := by cases v <;> simp_all
        have he' : v.isEmpty = false := by simpa using he
        simp only [he', Bool.false_eq_true, if_false] at hcap ⊢
        simp only [beq_iff_eq, hl, if_false]
        cases lenCheck m v.length with
        | some e => rfl
        | none => exact writeE_ok _ cap k hcap
  | str m => cases oe <;> simp [compileEnc] at hc
  | slice m t ih =>
    simp only [compileEnc, Option.map_eq_some_iff] at hc
    obtain ⟨body, hb, hp⟩ := hc
    subst hp
    rw [runEnc, encLenHead_eq]
    have ihe : ∀ x c, (enc t x).length ≤ c →
        runEnc t body x c = encOutcome (enc t x) (encCheck t x) c .done := by
      intro x c hx
      have := ih false .done body hb x c (by simpa [encOE] using hx)
      simpa only [encOE, encCheckOE, Bool.false_eq_true, if_false] using this
    cases oe with
    | false =>
      simp only [encOE, Bool.false_eq_true, if_false, enc, List.length_append, leBytes_length] at hcap
      simp only [Bool.false_and, Bool.false_eq_true, if_false, encOE, encCheckOE, encCheck, encOutcome, enc]
      cases lenCheck m v.length with
      | some e => rfl
      | none =>
        simp only
        rw [writeE_ok _ cap k (by simp; omega)]
        simp only [leBytes_length]
        rw [encLoop_eq _ (enc t) (encCheck t) _ v (cap - 4) [] (by omega)]
        · cases firstErr (encCheck t) v with
          | some er => rfl
          | none => simp only [List.reverse_nil, List.nil_append, List.length_append, leBytes_length, Nat.sub_sub]
        · intro x c hx
          simp only [ihe x c hx, encOutcome]
          cases encCheck t x <;> rfl
    | true =>
      simp only [encOE, if_true, enc, isEmpty] at hcap
      simp only [Bool.true_and, encOE, encCheckOE, if_true, encCheck, enc, isEmpty, encOutcome]
      by_cases he : v.isEmpty = true
      · have : v.length = 0 := by cases v <;> simp_all
        simp [he, this]
      · have hl : ¬ v.length = 0 := by cases v <;> simp_all
        have he' : v.isEmpty = false := by simpa using he
        simp only [he', Bool.false_eq_true, if_false, List.length_append, leBytes_length] at hcap ⊢
        simp only [beq_iff_eq, hl, if_false]
        cases lenCheck m v.length with
        | some e => rfl
        | none =>
          simp only
          rw [writeE_ok _ cap k (by simp; omega)]
          simp only [leBytes_length]
          rw [encLoop_eq _ (enc t) (encCheck t) _ v (cap - 4) [] (by omega)]
          · cases firstErr (encCheck t) v with
            | some er => rfl
            | none => simp only [List.reverse_nil, List.nil_append, Nat.sub_sub]
          · intro x c hx
            simp only [ihe x c hx, encOutcome]
            cases encCheck t x <;> rfl
  | unit =>
    cases oe with
    | true => simp [compileEnc] at hc
    | false =>
      simp only [compileEnc, Option.some.injEq] at hc; subst hc
      simp [runEnc, encOE, encCheckOE, encCheck, encOutcome, enc]
  | pair a b iha ihb =>
    obtain ⟨x, y⟩ := v
    cases oe with
    | true => simp [compileEnc] at hc
    | false =>
      simp only [compileEnc, Option.bind_eq_some_iff] at hc
      obtain ⟨kb, hb, ha⟩ := hc
      simp only [encOE, Bool.false_eq_true, if_false, enc, List.length_append] at hcap
      have e1 := iha false kb p ha x cap (by simp only [encOE, Bool.false_eq_true, if_false]; omega)
      simp only [encOE, encCheckOE, Bool.false_eq_true, if_false, encOutcome] at e1
      rw [runEnc, e1]
      simp only [encOE, encCheckOE, Bool.false_eq_true, if_false, encCheck, encOutcome, enc]
      cases encCheck a x with
      | some e => rfl
      | none =>
        simp only
        have e2 := ihb false k kb hb y (cap - (enc a x).length) (by simp only [encOE, Bool.false_eq_true, if_false]; omega)
        simp only [encOE, encCheckOE, Bool.false_eq_true, if_false, encOutcome] at e2
        rw [e2]
        cases encCheck b y with
        | some e => rfl
        | none => simp only [List.length_append, Nat.sub_sub]
  | omitempty t ih =>
    cases oe with
    | true => simp [compileEnc] at hc
    | false =>
      simp only [compileEnc] at hc
      have := ih true k p hc v cap (by simpa [encOE] using hcap)
      rw [runEnc, this]
      simp [encOE, encCheckOE]

def ofExcept {ε α} : Except ε α → PRes ε α
  | .ok a => .ok a
  | .error e => .err e

/-- **generated encoder ≡ reference encoder + maxlen enforcement**: a generated codec that is the expected
one for its schema returns, for every value Go can hold (`ShapeOK`), `ErrMaxLenExceeded` exactly when `encG` does and
otherwise exactly the bytes of `encoder.Serialize`; it never panics (the buffer allocated from
`encodeSizeX` is exactly as long as what is written). -/
theorem runEncode_refCodec (t : Ty) (g : GenCodec) (h : denote g = refCodec t) (v : Val t) (hw : ShapeOK t v) :
    runEncode t g v = ofExcept (encG t v) := by
  simp only [denote, refCodec, Option.bind_eq_bind] at h
  cases hd : compileDec t false .done with
  | none => rw [hd] at h; simp at h
  | some d =>
    rw [hd] at h
    cases he : compileEnc t false .done with
    | none => rw [he] at h; simp at h
    | some e =>
      rw [he] at h
      cases hs : compileSize t false .done with
      | none => rw [hs] at h; simp at h
      | some s' =>
        rw [hs] at h
        simp only [Option.bind_some, Option.pure_def, Option.some.injEq] at h
        subst h
        have hsz := size_eq_length_of_shape t v hw
        rw [runEncode, runSizeOf_compile t s' hs v]
        simp only
        have := runEnc_compile t false .done e he v (size t v) (by simp [encOE, hsz])
        simp only [encOE, encCheckOE, Bool.false_eq_true, if_false, encOutcome] at this
        rw [this, encG]
        cases encCheck t v with
        | some er => rfl
        | none => simp [ofExcept, hsz]

/-- the generated size function is the reference size -/
theorem runSizeOf_refCodec (t : Ty) (g : GenCodec) (h : denote g = refCodec t) (v : Val t) :
    runSizeOf t g.size v = some (size t v) := by
  simp only [denote, refCodec, Option.bind_eq_bind] at h
  cases hd : compileDec t false .done with
  | none => rw [hd] at h; simp at h
  | some d =>
    rw [hd] at h
    cases he : compileEnc t false .done with
    | none => rw [he] at h; simp at h
    | some e =>
      rw [he] at h
      cases hs : compileSize t false .done with
      | none => rw [hs] at h; simp at h
      | some s' =>
        rw [hs] at h
        simp only [Option.bind_some, Option.pure_def, Option.some.injEq] at h
        subst h
        exact runSizeOf_compile t s' hs v

end Sky.Codec
