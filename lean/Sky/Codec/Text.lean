/-
  Sky.Codec.Text — the text form of values and byte strings used on the harness/driver op lines
  (core Lean only; shared by the drivers of C21, C22, C25, C09).

  value spec (type directed, space separated tokens): integers decimal; bool 0/1; `[n]byte` as 2n hex digits
  ("-" if n = 0); `[]byte` / string: "nil" | "-" | hex; `[]T`: "nil" | "[N" followed by N elements | "[N*"
  followed by ONE element (N copies of it); struct: its fields in order; unit: nothing (printed "()" when
  the whole value is empty).
  byte strings: hex, "-" for empty, or run-length coded: segments separated by '.', each plain hex or
  "N*hex".  Long outputs are printed as a digest "#<len>:<fnv1a-64>".
-/
import Sky.Prim.DrvLib
import Sky.Codec.Basic
namespace Sky.Codec
open Sky.Drv

/-- hex or run-length coded hex -/
def parseBytes (s : String) : Option Bytes :=
  if !(s.contains '.' || s.contains '*') then hex? s else
  let rec go : List String → List Bytes → Option Bytes
    | [], acc => some acc.reverse.flatten
    | seg :: rest, acc =>
      match seg.splitOn "*" with
      | [h] => do let b ← hex? h; go rest (b :: acc)
      | [n, h] => do
          let n ← n.toNat?
          let b ← hex? h
          go rest ((List.replicate n b).flatten :: acc)
      | _ => none
  go (s.splitOn ".") []

def fnv1a (bs : Bytes) : Nat :=
  bs.foldl (fun h b => ((h ^^^ b) * 1099511628211) % 18446744073709551616) 14695981039346656037

/-- how byte strings are printed in outputs: hex up to 1024 bytes, digest beyond -/
def outHex (bs : Bytes) : String :=
  if lenGe bs 1025 then "#" ++ toString bs.length ++ ":" ++ toString (fnv1a bs) else hexOf bs

def parseLoop {α} (p : List String → Option (α × List String)) :
    Nat → List String → List α → Option (List α × List String)
  | 0, ts, acc => some (acc.reverse, ts)
  | n+1, ts, acc => match p ts with
    | none => none
    | some (x, ts') => parseLoop p n ts' (x :: acc)

def parseNat (ts : List String) : Option (Nat × List String) :=
  match ts with | t :: r => t.toNat?.map (·, r) | [] => none
def parseInt (ts : List String) : Option (Int × List String) :=
  match ts with | t :: r => t.toInt?.map (·, r) | [] => none
def parseBytesTok (ts : List String) : Option (Bytes × List String) :=
  match ts with
  | t :: r => if t == "nil" then some ([], r) else (hex? t).map (·, r)
  | [] => none

def parseVal : (t : Ty) → List String → Option (Val t × List String)
  | .u8, ts | .u16, ts | .u32, ts | .u64, ts => parseNat ts
  | .i8, ts | .i16, ts | .i32, ts | .i64, ts => parseInt ts
  | .bool, ts => match ts with | t :: r => some (t == "1", r) | [] => none
  | .bytesN _, ts => parseBytesTok ts
  | .array n t, ts => parseLoop (parseVal t) n ts []
  | .bytes _, ts => parseBytesTok ts
  | .str _, ts => parseBytesTok ts
  | .slice _ t, ts =>
    match ts with
    | [] => none
    | tok :: r =>
      if tok == "nil" then some ([], r)
      else if tok.startsWith "[" then
        let body := (tok.drop 1).toString
        if body.endsWith "*" then
          match (body.dropEnd 1).toString.toNat? with
          | none => none
          | some n =>
            if n = 0 then some ([], r) else
            match parseVal t r with
            | none => none
            | some (x, r') => some (List.replicate n x, r')
        else
          match body.toNat? with
          | none => none
          | some n => parseLoop (parseVal t) n r []
      else none
  | .unit, ts => some ((), ts)
  | .pair a b, ts =>
    match parseVal a ts with
    | none => none
    | some (x, r) => match parseVal b r with
      | none => none
      | some (y, r') => some ((x, y), r')
  | .omitempty t, ts => parseVal t ts

def listEq {α} (f : α → α → Bool) : List α → List α → Bool
  | [], [] => true
  | x :: xs, y :: ys => f x y && listEq f xs ys
  | _, _ => false

/-- structural equality of values -/
def veq : (t : Ty) → Val t → Val t → Bool
  | .u8, a, b | .u16, a, b | .u32, a, b | .u64, a, b => a == b
  | .i8, a, b | .i16, a, b | .i32, a, b | .i64, a, b => a == b
  | .bool, a, b => a == b
  | .bytesN _, a, b | .bytes _, a, b | .str _, a, b => a == b
  | .array _ t, a, b => listEq (veq t) a b
  | .slice _ t, a, b => listEq (veq t) a b
  | .unit, _, _ => true
  | .pair s t, (a, b), (c, d) => veq s a c && veq t b d
  | .omitempty t, a, b => veq t a b

def bytesTok (b : Bytes) : String := if b.isEmpty then "nil" else hexOf b

/-- canonical text of a value (an empty slice is printed like nil: decoders never produce the former) -/
def dumpVal : (t : Ty) → Val t → List String
  | .u8, v | .u16, v | .u32, v | .u64, v => [toString v]
  | .i8, v | .i16, v | .i32, v | .i64, v => [toString v]
  | .bool, v => [if v then "1" else "0"]
  | .bytesN _, v => [hexOf v]
  | .array _ t, v => v.flatMap (dumpVal t)
  | .bytes _, v => [bytesTok v]
  | .str _, v => [bytesTok v]
  | .slice _ t, v =>
    match v with
    | [] => ["nil"]
    | x :: xs =>
      if decide (64 ≤ xs.length) && xs.all (veq t x) then
        ("[" ++ toString v.length ++ "*") :: dumpVal t x
      else ("[" ++ toString v.length) :: v.flatMap (dumpVal t)
  | .unit, _ => []
  | .pair a b, (x, y) => dumpVal a x ++ dumpVal b y
  | .omitempty t, v => dumpVal t v

def dumpStr (t : Ty) (v : Val t) : String :=
  match dumpVal t v with
  | [] => "()"
  | l => " ".intercalate l

end Sky.Codec
